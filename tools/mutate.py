#!/venv/bin/python
"""Self-validation helper: apply one textual break to a scratch worktree of /repo and run a check against it.

usage: tools/mutate.py CNN [--tier quick] file 'old text' 'new text' [file old new ...]
Creates /tmp/vf-wt (git worktree of /repo HEAD) if missing, applies the replacement(s), runs
VERIF_REPO=/tmp/vf-wt ./check CNN, prints the verdict, restores the worktree. `--keep` leaves the worktree.
Remove with: git -C /repo worktree remove --force /tmp/vf-wt
"""
import os, subprocess, sys
ROOT = os.path.dirname(os.path.dirname(os.path.abspath(__file__)))
args = sys.argv[1:]
prop = args.pop(0)
tier = 'quick'
wt = os.environ.get('VF_WT', '/tmp/vf-wt')
if args and args[0] == '--tier':
  args.pop(0); tier = args.pop(0)
if not os.path.isdir(wt):
  subprocess.run(['git', '-C', '/repo', 'worktree', 'add', '--detach', wt], check=True, stdout=subprocess.DEVNULL, stderr=subprocess.DEVNULL)
subprocess.run(['git', '-C', wt, 'checkout', '-q', '--detach', subprocess.run(['git', '-C', '/repo', 'rev-parse', 'HEAD'], capture_output=True, text=True).stdout.strip()], check=True)
subprocess.run(['git', '-C', wt, 'checkout', '-q', '--', '.'], check=True)
try:
  while args:
    f, old, new = args[:3]; args = args[3:]
    p = os.path.join(wt, f)
    s = open(p).read()
    if old not in s:
      print('MUTATION-NOT-APPLICABLE: %r not in %s' % (old, f)); sys.exit(2)
    open(p, 'w').write(s.replace(old, new, 1))
  env = dict(os.environ, VERIF_REPO=wt)
  r = subprocess.run([os.path.join(ROOT, 'check'), prop, '--tier', tier], env=env, capture_output=True, text=True)
  out = [l for l in r.stdout.splitlines() if not l.startswith('WARNING')]
  print('exit', r.returncode, '|', ' || '.join(out[:4])[:600])
  sys.exit(0 if r.returncode == 1 else 1)
finally:
  subprocess.run(['git', '-C', wt, 'checkout', '-q', '--', '.'])
