#!/venv/bin/python
"""Regenerates MANIFEST.json from the property modules present in vf/props (single source of truth)."""
import importlib, json, os, sys
ROOT = os.path.dirname(os.path.dirname(os.path.abspath(__file__)))
sys.path.insert(0, ROOT)
props = [json.loads(l)['id'] for l in open(os.path.join(ROOT, 'properties.jsonl'))]
checks, na = [], []
for pid in props:
  path = os.path.join(ROOT, 'vf', 'props', pid.lower() + '.py')
  ready = open(os.path.join(ROOT, 'vf', 'props', 'READY')).read().split()
  if not os.path.exists(path) or pid not in ready:
    na.append(dict(property_id=pid, reason='check not built yet (runtime monitoring applies; see DESIGN.md section 3)'))
    continue
  src = open(path).read()
  ns = {}
  # metadata constants are plain literals at module top; evaluate without importing jax/flax
  import ast
  tree = ast.parse(src)
  for node in tree.body:
    if isinstance(node, ast.Assign) and len(node.targets) == 1 and isinstance(node.targets[0], ast.Name):
      n = node.targets[0].id
      if n in ('LEVEL', 'LEVEL_TEXT', 'LEVEL_NOTE', 'TECHNIQUE', 'DESIGN_REF', 'PLAN'):
        if n == 'PLAN':
          ns[n] = {'thorough': 1} if "'thorough'" in ast.get_source_segment(src, node.value) else {}
        else:
          ns[n] = ast.literal_eval(node.value)
  c = dict(property_id=pid,
           quick_cmd='./check %s --tier quick' % pid,
           evidence_file='evidence/%s.json' % pid,
           replay_cmd_template='./check %s --replay {path}' % pid,
           engine='vf',
           level_claimed=dict(category=ns['LEVEL'], text=ns['LEVEL_TEXT'], design_ref=ns.get('DESIGN_REF', 'DESIGN.md §3 ' + pid)),
           level_note=ns['LEVEL_NOTE'], technique=ns['TECHNIQUE'])
  if 'thorough' in ns.get('PLAN', {}):
    c['thorough_cmd'] = './check %s --tier thorough' % pid
  checks.append(c)
m = dict(
    version=1,
    setup_cmd='./setup.sh',
    hooks=dict(guard='FLAX_VERIF',
               enable='no in-source hooks: checks import /repo from the working tree (PYTHONPATH=/repo) and wrap the real '
                      'functions from the harness at run time; FLAX_VERIF=1 is exported by ./check for completeness',
               baseline_off_cmd='/venv/bin/python tools/baseline.py',
               source_commits=[], add_only=True),
    engines=[dict(name='vf', path='vf/', serves_properties=[c['property_id'] for c in checks],
                  kind_free_text='runtime monitoring: reference-model / snapshot / history monitors over generated and '
                                 'bounded-exhaustive workloads on the real code, crash-point and schedule injection')],
    checks=checks,
    notes='All checks are runtime monitors over executions of /repo (imported from the working tree). See DESIGN.md. '
          'Exit 0 held / 1 violation / 3 inconclusive (monitor not reached, watchdog).',
    not_applicable=na)
json.dump(m, open(os.path.join(ROOT, 'MANIFEST.json'), 'w'), indent=1)
print('checks:', [c['property_id'] for c in checks], 'not_applicable:', [n['property_id'] for n in na])
