#!/bin/bash
# quick re-check of one seeded change after strengthening a check: tools/seedcheck.sh <seed-id> [check-id] [tier]
id=$1; chk=${2:-${id%%-*}}; tier=${3:-quick}
here=$(cd "$(dirname "$0")/.." && pwd)
src=/tmp/seed-out/$id; [ -f $src/patch.diff ] || src=$here/seeded/$id
wt=/tmp/sc-$id
git -C /repo worktree remove --force $wt 2>/dev/null; rm -rf $wt
git -C /repo worktree add -q --detach $wt || exit 2
git -C $wt apply $src/patch.diff || { echo "PATCH DOES NOT APPLY"; git -C /repo worktree remove --force $wt; exit 2; }
VERIF_REPO=$wt $here/check $chk --tier $tier 2>&1 | grep -v "^WARNING\|^KNOWN" | cut -c1-220 | head -8
git -C /repo worktree remove --force $wt
