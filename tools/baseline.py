#!/venv/bin/python
"""Runs the repository's pinned baseline command with the hook guard OFF and compares with BASELINE.json.
Exit 0 iff every stable_pass test still passes."""
import json, os, subprocess, sys, tempfile
import xml.etree.ElementTree as ET

base = json.load(open('/root/.vp/BASELINE.json'))
fd, xml = tempfile.mkstemp(suffix='.junit.xml'); os.close(fd)
env = dict(os.environ); env.pop('FLAX_VERIF', None); env.pop('PYTHONPATH', None)
cmd = base['cmd'].replace('<file>', xml)
p = subprocess.run(cmd, shell=True, env=env, stdout=subprocess.PIPE, stderr=subprocess.STDOUT)
passed = set()
for tc in ET.parse(xml).getroot().iter('testcase'):
  if not any(c.tag in ('failure', 'error', 'skipped') for c in tc):
    passed.add('%s::%s' % (tc.get('classname'), tc.get('name')))
os.remove(xml)
missing = [t for t in base['stable_pass'] if t not in passed]
print('baseline: %d/%d stable tests pass; %d passed in total' % (len(base['stable_pass']) - len(missing), len(base['stable_pass']), len(passed)))
for t in missing[:20]:
  print('  MISSING', t)
sys.exit(1 if missing else 0)
