#!/usr/bin/env python3
"""Regenerates DESIGN.md section 11 (seeded changes and which checks catch them) from seeded/*/meta.json."""
import glob, json, os, re
ROOT = os.path.dirname(os.path.dirname(os.path.abspath(__file__)))
rows = []
for f in sorted(glob.glob(os.path.join(ROOT, 'seeded', '*', 'meta.json'))):
  m = json.load(open(f))
  det = []
  for k, v in m.get('detected_by', {}).items():
    if v['exit'] == 1:
      det.append('%s (%s)' % (k.replace(':', ' '), ', '.join(v['mechanisms'][:2])))
  first = m.get('first_evaluation', {})
  missed_first = any(v == 0 for v in first.values())
  if m.get('outside_property'):
    caught, hist = 'n/a (does not break the property as stated)', 'kept for reference'
  else:
    caught = '; '.join(det) or '**not caught**'
    hist = 'missed at first; check strengthened' if m.get('strengthened_after_miss') or (missed_first and det) else 'caught as built'
  rows.append('| %s | %s | %s | %s | %s |' % (m['id'], m['property'], m.get('needs', '').replace('|', '/'), caught, hist))
n_missed = sum(1 for r in rows if 'missed at first' in r)
n_na = sum(1 for r in rows if 'kept for reference' in r)
table = ('## 11. Seeded changes (independent sub-agents) and which checks catch them\n\n'
         'Each change was written by a fresh sub-agent that saw only the property text and its own scratch worktree (nothing from /verif). '
         'Every row was confirmed by `tools/seedeval.py`: the patch applies to /repo HEAD, the 427 baseline tests still pass, the '
         'demonstration exits 1 with the change and 0 without, and the listed check exits 1 on the patched worktree (quick tier unless '
         'stated). `seeded/<id>/` holds patch.diff, demo.py, notes.txt and meta.json (what was run). '
         'Of %d changes, %d were missed by the check as it stood and led to a generator / oracle extension, %d broke something the property '
         'does not state; all others were caught as built. Side notes of the seed authors about the UNMODIFIED tree were triaged one '
         'by one (sections 8 and 9).\n\n' % (len(rows), n_missed, n_na) +
         'Missed at first, per round of 20 (a-g): ' + ', '.join('%s %d' % (t, sum(1 for r in rows if r.startswith('| C') and r.split('|')[1].strip().endswith('-' + t) and 'missed at first' in r)) for t in 'abcdefg') + '; round h (the eight properties with the lowest first-evaluation catch rate only): %d of 8' % sum(1 for r in rows if r.startswith('| C') and r.split('|')[1].strip().endswith('-h') and 'missed at first' in r) +
         '. The rate did not fall from round to round because every round was told what the earlier ones had used and asked for a site '
         'and a trigger combination nobody had used yet: each round measures what the generators still do not reach, not what they '
         'reach. What the rounds bought is the list of input classes added to the generators (the "Further streams" / "Round" '
         'paragraphs of the level texts in MANIFEST.json) and, through the authors\' side notes, most of the findings of section 9.\n\n' +
         '| id | property | what the change needs in order to manifest | caught by (mechanisms) | history |\n|---|---|---|---|---|\n' + '\n'.join(rows) + '\n')
p = os.path.join(ROOT, 'DESIGN.md')
s = open(p).read()
i = s.find('## 11. Seeded changes')
s = (s[:i] if i >= 0 else s.rstrip('\n') + '\n\n') + table
open(p, 'w').write(s)
print(len(rows), 'rows')
