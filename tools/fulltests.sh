#!/bin/bash
# Development aid (not a registered check): run google/flax's WHOLE tests/ directory - not only the 427 pinned tests - with the
# jax compatibility shim loaded, once on the pinned snapshot and once on the current HEAD of /repo, and list every test that
# passed on the snapshot and does not pass now. Guards the "fix:" commits against regressions the pinned suite cannot see.
# usage: tools/fulltests.sh [base-commit]   (scratch worktrees under /tmp are removed afterwards)
set -u
here=$(cd "$(dirname "$0")/.." && pwd)
base=${1:-f36fb73}
work=$(mktemp -d /tmp/fulltests.XXXX)
cat > $work/shimplug.py <<PY
import sys
sys.path.insert(0, '$here')
from vf import compat
compat.install()
PY
run() {  # tree out
  (cd $1 && PYTHONPATH=$work:$1 JAX_PLATFORMS=cpu /venv/bin/python -m pytest -q -p shimplug -p no:cacheprovider --timeout=600 \
     --continue-on-collection-errors -n 7 --junitxml=$2 tests > ${2%.xml}.log 2>&1)
}
git -C /repo worktree add -q $work/base $base
git -C /repo worktree add -q $work/head HEAD
run $work/base $work/base.xml &
run $work/head $work/head.xml &
wait
python3 - $work <<'PY'
import sys, xml.etree.ElementTree as ET
w = sys.argv[1]
def load(p):
  r = {}
  for tc in ET.parse(p).getroot().iter('testcase'):
    st = 'pass'
    for ch in tc:
      if ch.tag in ('failure', 'error'): st = 'fail'
      elif ch.tag == 'skipped': st = 'skip'
    r[tc.get('classname') + '::' + tc.get('name')] = st
  return r
b, h = load(w + '/base.xml'), load(w + '/head.xml')
reg = sorted(k for k in b if b[k] == 'pass' and h.get(k) != 'pass')
print('tests run: base %d, head %d; passing: base %d, head %d' % (len(b), len(h), sum(v == 'pass' for v in b.values()), sum(v == 'pass' for v in h.values())))
print('now passing:', sorted(k for k in b if b[k] == 'fail' and h.get(k) == 'pass'))
# order-dependent tests (module-level state, the xdist distribution differs between the two runs) are re-run alone on the head tree
import os, subprocess
real = []
for k in reg:
  mod, rest = k.split('::', 1)
  parts = mod.split('.')
  target = '/'.join(parts[:-1]) + '.py::' + parts[-1] + '::' + rest
  env = dict(os.environ, PYTHONPATH=w + ':' + w + '/head', JAX_PLATFORMS='cpu')
  r = subprocess.run(['/venv/bin/python', '-m', 'pytest', '-q', '-p', 'shimplug', '-p', 'no:cacheprovider', target], cwd=w + '/head', env=env, capture_output=True, text=True)
  if r.returncode != 0:
    real.append(k)
print('passed before but not now in the parallel run:', reg)
print('REGRESSIONS (still failing when run alone on the head tree):', real)
sys.exit(1 if real else 0)
PY
rc=$?
git -C /repo worktree remove --force $work/base; git -C /repo worktree remove --force $work/head
rm -rf $work
exit $rc
