#!/bin/bash
# tools/sweep.sh <tier> <seed...> : run every READY check for the given tier and seeds; prints one line per run.
cd "$(dirname "$0")/.."
tier=$1; shift
for seed in "$@"; do
  for p in $(cat vf/props/READY); do
    out=$(VERIF_EVIDENCE_DIR=/tmp/vf-sweep-evidence ./check $p --tier $tier --seed $seed 2>&1 | grep -v "^WARNING" | grep -v "^KNOWN-FINDING" | head -4 | tr '\n' '|' | cut -c1-400)
    echo "seed=$seed $out"
  done
done
