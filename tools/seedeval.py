#!/venv/bin/python
"""Evaluate one seeded change: tools/seedeval.py <id> [--src /tmp/seed-out/<id>] [--checks C03,C16] [--no-baseline] [--thorough]
Applies patch.diff to a clean scratch worktree of /repo HEAD (outside /repo and /verif), confirms (a) the 427 baseline tests
still pass, (b) the demonstration fails with the change and passes without, then runs the property's check(s) against the
worktree. Writes /verif/seeded/<id>/{patch.diff,demo.py,notes.txt,meta.json}. Removes the worktree afterwards."""
import argparse, json, os, shutil, subprocess, sys, time
ROOT = os.path.dirname(os.path.dirname(os.path.abspath(__file__)))
ap = argparse.ArgumentParser()
ap.add_argument('id'); ap.add_argument('--src'); ap.add_argument('--checks'); ap.add_argument('--no-baseline', action='store_true')
ap.add_argument('--thorough', action='store_true'); ap.add_argument('--keep', action='store_true')
a = ap.parse_args()
src = a.src or '/tmp/seed-out/%s' % a.id
prop = a.id.split('-')[0]
checks = a.checks.split(',') if a.checks else [prop]
wt = '/tmp/vf-seedwt-%s' % a.id
def sh(cmd, **kw):
  return subprocess.run(cmd, shell=isinstance(cmd, str), capture_output=True, text=True, **kw)
sh(['git', '-C', '/repo', 'worktree', 'remove', '--force', wt]); shutil.rmtree(wt, ignore_errors=True)
r = sh(['git', '-C', '/repo', 'worktree', 'add', '--detach', wt]); assert r.returncode == 0, r.stderr
prev = {}
try:
  prev = json.load(open(os.path.join(ROOT, 'seeded', a.id, 'meta.json')))
except Exception:
  pass
meta = dict(id=a.id, property=prop, repo_head=sh(['git', '-C', '/repo', 'rev-parse', '--short', 'HEAD']).stdout.strip(), ran=[])
try:
  r = sh(['git', '-C', wt, 'apply', os.path.join(src, 'patch.diff')])
  meta['patch_applies'] = r.returncode == 0
  if r.returncode != 0:
    print('PATCH DOES NOT APPLY', r.stderr[:500]); sys.exit(2)
  meta['files'] = sh(['git', '-C', wt, 'diff', '--stat']).stdout.strip().splitlines()
  env = dict(os.environ, JAX_PLATFORMS='cpu'); env.pop('PYTHONPATH', None)
  d1 = sh(['/venv/bin/python', os.path.join(src, 'demo.py'), wt], env=env, timeout=900)
  d0 = sh(['/venv/bin/python', os.path.join(src, 'demo.py'), '/repo'], env=env, timeout=900)
  meta['demo_with_change_exit'] = d1.returncode; meta['demo_without_change_exit'] = d0.returncode
  meta['demo_output_with_change'] = (d1.stdout + d1.stderr)[-600:]
  print('demo: with change exit %s, without exit %s' % (d1.returncode, d0.returncode))
  if not a.no_baseline:
    t0 = time.time()
    b = sh(['/tmp/seedkit/baseline.py', wt], timeout=1800)
    meta['baseline'] = b.stdout.strip().splitlines()[-3:]; meta['baseline_ok'] = b.returncode == 0
    print('baseline:', b.stdout.strip().splitlines()[0] if b.stdout.strip() else b.stderr[-300:], '(%.0fs)' % (time.time() - t0))
  meta['detected_by'] = {}
  for c in checks:
    for tier in (['quick', 'thorough'] if a.thorough else ['quick']):
      t0 = time.time()
      r = sh([os.path.join(ROOT, 'check'), c, '--tier', tier], env=dict(os.environ, VERIF_REPO=wt), timeout=3600)
      lines = [l for l in r.stdout.splitlines() if not l.startswith('WARNING') and not l.startswith('KNOWN-FINDING')]
      mechs = sorted({l.split('mechanism=')[1] for l in lines if 'mechanism=' in l})
      meta['ran'].append('VERIF_REPO=%s ./check %s --tier %s -> exit %d (%.0fs)' % (wt, c, tier, r.returncode, time.time() - t0))
      meta['detected_by']['%s:%s' % (c, tier)] = dict(exit=r.returncode, mechanisms=mechs, summary=lines[0][:200] if lines else '')
      print('%s %s: exit %d %s' % (c, tier, r.returncode, mechs[:6]))
      if r.returncode == 1:
        break
  dst = os.path.join(ROOT, 'seeded', a.id); os.makedirs(dst, exist_ok=True)
  for f in ('patch.diff', 'demo.py', 'notes.txt'):
    if os.path.exists(os.path.join(src, f)):
      shutil.copy(os.path.join(src, f), os.path.join(dst, f))
  # keep what earlier evaluations established (baseline run, first verdict, hand-written trigger description)
  for k in ('baseline', 'baseline_ok', 'needs', 'first_evaluation'):
    if k in prev and k not in meta:
      meta[k] = prev[k]
  meta.setdefault('first_evaluation', {k: v['exit'] for k, v in meta['detected_by'].items()})
  meta['history'] = prev.get('history', []) + [dict(head=meta['repo_head'], detected_by={k: v['exit'] for k, v in meta['detected_by'].items()})]
  json.dump(meta, open(os.path.join(dst, 'meta.json'), 'w'), indent=1)
finally:
  if not a.keep:
    sh(['git', '-C', '/repo', 'worktree', 'remove', '--force', wt]); shutil.rmtree(wt, ignore_errors=True)
