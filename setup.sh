#!/bin/bash
# setup_cmd: offline install of the contract libraries beside the framework (idempotent).
HERE="$(cd "$(dirname "${BASH_SOURCE[0]}")" && pwd)"
if [ ! -d "$HERE/.deps/icontract" ]; then
  PIP_NO_INDEX=1 /venv/bin/pip install --quiet --no-index --find-links /opt/veriftools/wheels \
    --target "$HERE/.deps" icontract deal || { echo "setup: contract libraries unavailable" >&2; exit 1; }
fi
echo "setup ok"
