"""Generator, canonical form (isomorphism oracle) and reference traversal for NNX object graphs (DESIGN §2.2).

A *spec* is plain data: {'nodes': [node...], 'vars': [var...]}, root = node 0.
  node = {'kind': 'module', 'cls': 'A'|'B'|'C', 'attrs': [(key, ref), ...]}
       | {'kind': 'list'|'tuple'|'dict'|'namedtuple'|'odict', 'attrs': [(key, ref), ...]}   (pytree containers: value semantics;
                                       namedtuple / OrderedDict keep their fields in generation order, which is not sorted)
  ref  = ('node', i) | ('var', j) | ('arr', seed, shape) | ('static', value) | ('none',)
  var  = {'type': name, 'seed': int, 'shape': tuple, 'meta': {..}}
build(spec) constructs the real objects; building twice gives two independent isomorphic graphs."""
import numpy as np

VAR_TYPES = ['Param', 'BatchStat', 'Cache', 'Intermediate', 'MyParam', 'Other']
ATTR_NAMES = ['a', 'b', 'w', 'l2', 'l10', 'z_last', '_hidden', 'B', 'k1', 'k2', 'x']


def classes():
  """Real NNX classes used by generated graphs (created once per process)."""
  global _CLS
  try:
    return _CLS
  except NameError:
    pass
  from flax import nnx

  class A(nnx.Module):
    pass

  class B(nnx.Module):
    pass

  class C(A):
    pass

  class MyParam(nnx.Param):
    pass

  class Other(nnx.Variable):
    pass

  _CLS = dict(A=A, B=B, C=C, Param=nnx.Param, BatchStat=nnx.BatchStat, Cache=nnx.Cache, Intermediate=nnx.Intermediate,
              MyParam=MyParam, Other=Other)
  return _CLS


def value_of(seed, shape):
  return (np.arange(int(np.prod(shape)) if shape else 1, dtype=np.float32).reshape(shape) + float(seed) * 10.0)


# ---------------------------------------------------------------------------------------------
# generation


NT_NAMES = ['w', 'b', 'z_last', 'a', 'k2', 'k1', 'x', 'B']   # valid namedtuple field names, deliberately not in sorted order


def gen_spec(rng, max_nodes=8, max_vars=6, p_alias=0.3, allow_cycles=True, allow_pytrees=True, allow_arrays=True, allow_static=True,
             generic_pytrees=False, numpy_values=False):
  n_nodes = rng.randint(1, max_nodes)
  n_vars = rng.randint(0 if n_nodes > 1 else 1, max_vars)
  nodes = [{'kind': 'module', 'cls': rng.choice('ABC'), 'attrs': []}]
  for i in range(1, n_nodes):
    kind = 'module'
    if allow_pytrees and rng.random() < 0.3:
      kind = rng.choice(['list', 'tuple', 'dict', 'namedtuple', 'odict'] if generic_pytrees else ['list', 'tuple', 'dict'])
    nodes.append({'kind': kind, 'cls': rng.choice('ABC') if kind == 'module' else None, 'attrs': []})
  vars_ = []
  for j in range(n_vars):
    meta = {}
    if rng.random() < 0.4:
      meta['tag'] = rng.choice(['t1', 't2'])
    if rng.random() < 0.2:
      meta['sharding'] = rng.choice([('x',), (None,), ('x', 'y')])
    vars_.append({'type': rng.choice(VAR_TYPES), 'seed': j + 1, 'shape': rng.choice([(), (2,), (2, 3)]), 'meta': meta})
    if numpy_values and rng.random() < 0.25:
      vars_[-1]['np'] = True   # the Variable holds a (mutable) numpy array instead of a jax array
    if numpy_values and rng.random() < 0.2:
      vars_[-1]['meta']['notes'] = ['n%d' % j, {'k': j}]   # a MUTABLE metadata value (list holding a dict)

  def add_attr(parent, ref):
    p = nodes[parent]
    if p['kind'] in ('list', 'tuple'):
      p['attrs'].append((len(p['attrs']), ref))
    else:
      used = {k for k, _ in p['attrs']}
      free = [k for k in (NT_NAMES if p['kind'] == 'namedtuple' else ATTR_NAMES) if k not in used]
      if not free:
        return False
      p['attrs'].append((rng.choice(free), ref))
    return True

  # spanning tree: every node i>0 gets a parent with smaller index (pytree containers never contain themselves)
  for i in range(1, n_nodes):
    for _ in range(5):
      if add_attr(rng.randrange(0, i), ('node', i)):
        break
  # every variable gets at least one holder
  holders = list(range(n_nodes))
  for j in range(n_vars):
    for _ in range(5):
      if add_attr(rng.choice(holders), ('var', j)):
        break
  # aliasing edges
  n_extra = sum(1 for _ in range(n_nodes + n_vars) if rng.random() < p_alias)
  for _ in range(n_extra):
    parent = rng.randrange(n_nodes)
    r = rng.random()
    if r < 0.45 and n_vars:
      add_attr(parent, ('var', rng.randrange(n_vars)))
    else:
      target = rng.randrange(n_nodes)
      tk = nodes[target]['kind']
      if tk != 'module':
        # pytree containers have value semantics; only tree-like (forward) sharing, never cycles through themselves
        if target <= parent or not _reaches(nodes, target, parent):
          if target > parent:
            add_attr(parent, ('node', target))
        continue
      if not allow_cycles and target <= parent:
        continue
      if nodes[parent]['kind'] != 'module' and target <= parent and _pytree_chain_to(nodes, target, parent):
        continue
      add_attr(parent, ('node', target))
  # leaves: arrays, statics, None
  for i in range(n_nodes):
    if nodes[i]['kind'] == 'module' or rng.random() < 0.5:
      if allow_arrays and rng.random() < 0.35:
        add_attr(i, ('arr', 100 + i, rng.choice([(), (2,)])) + (('np',) if numpy_values and rng.random() < 0.3 else ()))
      if allow_static and rng.random() < 0.35:
        add_attr(i, ('static', rng.choice([3, 'relu', (1, 2), 0.5, True])))
      if rng.random() < 0.15:
        add_attr(i, ('none',))
  spec = {'nodes': nodes, 'vars': vars_}
  _fix_dict_keys(spec)
  return spec


def _reaches(nodes, src, dst, seen=None):
  if seen is None:
    seen = set()
  if src == dst:
    return True
  if src in seen:
    return False
  seen.add(src)
  return any(r[0] == 'node' and _reaches(nodes, r[1], dst, seen) for _, r in nodes[src]['attrs'])


def _pytree_chain_to(nodes, target, parent):
  return False


def _fix_dict_keys(spec):
  for n in spec['nodes']:
    if n['kind'] in ('list', 'tuple'):
      n['attrs'] = [(i, r) for i, (_, r) in enumerate(n['attrs'])]


def has_pytree_cycle(spec):
  """A cycle that passes only through pytree containers cannot be built (and would not terminate)."""
  nodes = spec['nodes']

  def walk(i, stack):
    if nodes[i]['kind'] == 'module':
      return False
    if i in stack:
      return True
    return any(r[0] == 'node' and walk(r[1], stack | {i}) for _, r in nodes[i]['attrs'])

  return any(walk(i, frozenset()) for i in range(len(nodes)))


# ---------------------------------------------------------------------------------------------
# construction of real objects


_NT = {}


def namedtuple_class(fields):
  import collections
  if fields not in _NT:
    _NT[fields] = collections.namedtuple('NT_' + '_'.join(fields) if fields else 'NT_empty', fields)
  return _NT[fields]


class Built:
  def __init__(self, root, node_objs, var_objs, spec):
    self.root, self.node_objs, self.var_objs, self.spec = root, node_objs, var_objs, spec


def build(spec):
  import jax.numpy as jnp
  C = classes()
  nodes, vars_ = spec['nodes'], spec['vars']
  import copy
  var_objs = [C[v['type']](value_of(v['seed'], v['shape']) if v.get('np') else jnp.asarray(value_of(v['seed'], v['shape'])), **copy.deepcopy(v['meta']))
              for v in vars_]
  node_objs = [None] * len(nodes)
  for i, n in enumerate(nodes):
    if n['kind'] == 'module':
      node_objs[i] = C[n['cls']]()
  building = set()

  def resolve(ref):
    if ref[0] == 'node':
      return get_node(ref[1])
    if ref[0] == 'var':
      return var_objs[ref[1]]
    if ref[0] == 'arr':
      return value_of(ref[1], ref[2]) if ref[-1] == 'np' else jnp.asarray(value_of(ref[1], ref[2]))
    if ref[0] == 'static':
      return ref[1]
    return None

  def get_node(i):
    n = nodes[i]
    if n['kind'] == 'module':
      return node_objs[i]
    # pytree containers have value semantics: build a fresh one per reference
    if i in building:
      raise ValueError('cycle through pytree containers')
    building.add(i)
    try:
      items = [(k, resolve(r)) for k, r in n['attrs']]
    finally:
      building.discard(i)
    if n['kind'] == 'list':
      return [v for _, v in items]
    if n['kind'] == 'tuple':
      return tuple(v for _, v in items)
    if n['kind'] == 'namedtuple':
      return namedtuple_class(tuple(k for k, _ in items))(*[v for _, v in items])
    if n['kind'] == 'odict':
      import collections
      return collections.OrderedDict(items)
    return {k: v for k, v in items}

  for i, n in enumerate(nodes):
    if n['kind'] == 'module':
      for k, r in n['attrs']:
        setattr(node_objs[i], k, resolve(r))
  return Built(node_objs[0], node_objs, var_objs, spec)


# ---------------------------------------------------------------------------------------------
# canonical form of REAL objects (isomorphism oracle) and reference traversal


def _is_var(x):
  from flax import nnx
  return isinstance(x, nnx.Variable)


def _is_graph_node(x):
  from flax.nnx import graph
  return graph.is_graph_node(x)


def _arr_sig(x):
  a = np.asarray(x)
  return (a.dtype.name, a.shape, a.tobytes())


def _children(x):
  """(key, child) pairs of a real node in sorted-key order; None if x is not a node."""
  if _is_graph_node(x):
    return sorted((k, v) for k, v in vars(x).items() if k != '_object__state')
  if isinstance(x, tuple) and hasattr(x, '_fields'):
    return sorted(zip(x._fields, x))   # NNX addresses namedtuple fields by name, in sorted order like every other node
  if isinstance(x, (list, tuple)):
    return list(enumerate(x))
  if isinstance(x, dict):
    return sorted(x.items())
  return None


def canon(root):
  """Canonical form: DFS in sorted key order; graph nodes and Variables are numbered at first visit, a revisit emits
  ('ref', n). Pytree containers are compared structurally. Two graphs are isomorphic iff canonical forms are equal."""
  import jax
  memo = {}

  def go(x):
    if _is_var(x):
      if id(x) in memo:
        return ('ref', memo[id(x)])
      memo[id(x)] = len(memo)
      meta = tuple(sorted((k, repr(v)) for k, v in x.get_metadata().items()))
      val = x.raw_value
      vsig = _arr_sig(val) if isinstance(val, (jax.Array, np.ndarray, np.generic, float, int)) else ('py', repr(val))
      return ('var', type(x).__name__, meta, vsig)
    if _is_graph_node(x):
      if id(x) in memo:
        return ('ref', memo[id(x)])
      memo[id(x)] = len(memo)
      return ('node', type(x).__name__, tuple((k, go(v)) for k, v in _children(x)))
    if isinstance(x, (list, tuple, dict)):
      return (type(x).__name__, tuple((k, go(v)) for k, v in _children(x)))
    if x is None:
      return ('none',)
    if isinstance(x, (jax.Array, np.ndarray)):
      return ('arr',) + _arr_sig(x)
    return ('static', type(x).__name__, repr(x))

  return go(root)


def identities(root):
  """{path-of-first-visit: id(obj)} for graph nodes and Variables + list of all object ids (to detect replacement)."""
  seen, out = set(), {}

  def go(x, path):
    if _is_var(x) or _is_graph_node(x):
      if id(x) in seen:
        return
      seen.add(id(x))
      out[path] = id(x)
      if _is_var(x):
        return
    ch = _children(x)
    if ch is None:
      return
    for k, v in ch:
      go(v, path + (k,))

  go(root, ())
  return out


def ref_leaves(root):
  """Reference for nnx.state: [(first path in sorted DFS order, leaf object)] for Variables and raw array attributes."""
  import jax
  seen, out = set(), []

  def go(x, path):
    if _is_var(x):
      if id(x) in seen:
        return
      seen.add(id(x))
      out.append((path, x))
      return
    if _is_graph_node(x):
      if id(x) in seen:
        return
      seen.add(id(x))
    ch = _children(x)
    if ch is None:
      if isinstance(x, (jax.Array, np.ndarray)):
        out.append((path, x))
      return
    for k, v in ch:
      go(v, path + (k,))

  go(root, ())
  return out


def ref_leaf_edges(root):
  """Like ref_leaves but with the holder object and key of the first-path edge: [(path, leaf, holder, key)]."""
  import jax
  seen, out = set(), []

  def go(x, path, holder, key):
    if _is_var(x):
      if id(x) in seen:
        return
      seen.add(id(x))
      out.append((path, x, holder, key))
      return
    if _is_graph_node(x):
      if id(x) in seen:
        return
      seen.add(id(x))
    ch = _children(x)
    if ch is None:
      if isinstance(x, (jax.Array, np.ndarray)):
        out.append((path, x, holder, key))
      return
    for k, v in ch:
      go(v, path + (k,), x, k)

  go(root, (), None, None)
  return out


def all_refs(root):
  """Every (holder object, key, Variable) edge in the graph (used by the pop reference)."""
  seen, out = set(), []

  def go(x):
    if _is_var(x):
      return
    if _is_graph_node(x):
      if id(x) in seen:
        return
      seen.add(id(x))
    ch = _children(x)
    if ch is None:
      return
    for k, v in ch:
      if _is_var(v):
        out.append((x, k, v))
      go(v)

  go(root)
  return out


def spec_summary(spec):
  nodes = spec['nodes']
  n_edges = sum(len(n['attrs']) for n in nodes)
  targets = [r[1] for n in nodes for _, r in n['attrs'] if r[0] == 'node']
  vtargets = [r[1] for n in nodes for _, r in n['attrs'] if r[0] == 'var']
  return dict(nodes=len(nodes), vars=len(spec['vars']), edges=n_edges,
              shared_nodes=len([t for t in set(targets) if targets.count(t) > 1]),
              shared_vars=len([t for t in set(vtargets) if vtargets.count(t) > 1]),
              kinds=''.join(n['kind'][0] for n in nodes))


def spec_key(spec):
  return repr((tuple((n['kind'], n['cls'], tuple(n['attrs'])) for n in spec['nodes']),
               tuple((v['type'], v['shape'], tuple(sorted(v['meta'].items()))) for v in spec['vars'])))
