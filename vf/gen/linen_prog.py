"""Generator + independent reference interpreter for Linen "module programs" (DESIGN §2.1).

A program is a tree of node specs (plain hashable tuples, so they can be Module dataclass fields):

  node = ('node', style, ops)            style in {'compact', 'setup'}
  op   = ('param', name, kind, d)        kind 'scale' (x*p) | 'bias' (x+p), p has shape (d,), drawn with the 'params' rng
       | ('dense', name|None, d_in, d_out)            real nn.Dense
       | ('child', name|None, node, d_in, d_out)      generic child module (NodeC / NodeS by the child's style)
       | ('again', k)                                 call the k-th sub-module created by this node again (re-entrancy)
       | ('shared', name|None, node, d)               one inner module created here and handed to two Wrap children as attribute
       | ('counter', col, name)                       self.variable int32 counter; x += 0.01*count; count += 1 if collection is mutable
       | ('stat', col, name, momentum, d)             running mean: x -= 0.1*ra; ra = m*ra + (1-m)*mean_batch(x) if mutable
       | ('sow', col, name)                           self.sow(col, name, sum(x))
       | ('perturb', name)                            x = self.perturb(name, x)
       | ('noise', stream)                            x += 0.1 * normal(make_rng(stream), x.shape)
       | ('dropout', rate)                            real nn.Dropout(rate, deterministic=False)
       | ('act', 'tanh'|'relu')
       | ('bad_write', col)                           put_variable into `col` (deliberate write; must raise when col is immutable)
       | ('clash', kind)                              deliberate name collision (see CLASH_KINDS)
       | ('leak',)                                    stashes self / self.scope in a module-level list (leaked-scope probe)

The reference interpreter (ref_vars / ref_run) is written from the documented semantics only and shares no code with flax."""
import numpy as np

CLASH_KINDS = ['submodule_submodule', 'submodule_variable', 'variable_variable', 'variable_then_submodule', 'param_then_submodule',
               'state_variable_variable', 'submodule_then_state_variable']
LEGAL_SAME_NAME = ['same_name_two_collections']
LEAKS = []  # filled by the 'leak' op: (module, scope)
DRAWS = []  # filled by the noise op when RECORD_DRAWS: (stream, np.ndarray of the noise)
RECORD = {'draws': False}


# ---------------------------------------------------------------------------------------------
# real modules


def classes():
  global _CLS
  try:
    return _CLS
  except NameError:
    pass
  import jax
  import jax.numpy as jnp
  import flax.linen as nn

  def run_ops(mod, ops, x, get_sub):
    subs = []
    for i, op in enumerate(ops):
      k = op[0]
      if k == 'param':
        _, name, kind, d = op
        p = mod.get_p(i, op)
        x = x * p if kind == 'scale' else x + p
      elif k in ('dense', 'child'):
        m = get_sub(i, op)
        subs.append(m)
        x = m(x)
      elif k == 'again':
        x = subs[op[1]](x)
      elif k == 'shared':
        w1, w2 = get_sub(i, op)
        subs.append(w1)
        x = w2(w1(x))
      elif k == 'counter':
        _, col, name = op
        v = mod.get_v(i, op, lambda: jnp.zeros((), jnp.int32))
        x = x + 0.01 * v.value.astype(x.dtype)
        if mod.is_mutable_collection(col):
          v.value = v.value + 1
      elif k == 'stat':
        _, col, name, mom, d = op
        v = mod.get_v(i, op, lambda: jnp.zeros((d,), jnp.float32))
        old = v.value
        x = x - 0.1 * old
        if mod.is_mutable_collection(col):
          m_ = x.reshape((-1, d)).mean(axis=0)
          v.value = mom * old + (1.0 - mom) * m_
      elif k == 'sow':
        mod.sow(op[1], op[2], jnp.sum(x))
      elif k == 'perturb':
        x = mod.perturb(op[1], x)
      elif k == 'noise':
        key = mod.make_rng(op[1])
        n = jax.random.normal(key, x.shape, x.dtype)
        if RECORD['draws']:
          DRAWS.append((op[1], n))
        x = x + 0.1 * n
      elif k == 'dropout':
        m = get_sub(i, op)
        subs.append(m)
        x = m(x)
      elif k == 'act':
        x = jnp.tanh(x) if op[1] == 'tanh' else jax.nn.relu(x)
      elif k == 'nop':
        pass
      elif k == 'bad_write':
        mod.put_variable(op[1], 'bad_%d' % i, jnp.ones(()))
      elif k == 'clash':
        mod.do_clash(op[1], x)
      elif k == 'leak':
        LEAKS.append((mod, mod.scope))
      else:
        raise ValueError(op)
    return x

  class Wrap(nn.Module):
    inner: nn.Module

    @nn.compact
    def __call__(self, x):
      g = self.param('g', nn.initializers.ones, ())
      return self.inner(x) * g

  class NodeC(nn.Module):
    spec: tuple

    def get_p(self, i, op):
      return self.param(op[1], nn.initializers.normal(0.5), (op[3],))

    def get_v(self, i, op, init):
      return self.variable(op[1], op[2], init)

    def do_clash(self, kind, x):
      if kind == 'submodule_submodule':
        nn.Dense(2, name='dup')(x)
        nn.Dense(2, name='dup')(x)
      elif kind == 'submodule_variable':
        nn.Dense(2, name='dup')(x)
        self.param('dup', nn.initializers.ones, ())
      elif kind == 'variable_variable':
        self.param('dup', nn.initializers.ones, ())
        self.param('dup', nn.initializers.ones, ())
      elif kind == 'variable_then_submodule':
        self.variable('cache', 'dup', lambda: jnp.zeros(()))
        nn.Dense(2, name='dup')(x)
      elif kind == 'param_then_submodule':
        self.param('dup', nn.initializers.ones, ())
        nn.Dense(2, name='dup')(x)
      elif kind == 'state_variable_variable':
        self.variable('state', 'dup', lambda: jnp.zeros(()))
        self.variable('state', 'dup', lambda: jnp.ones(()))
      elif kind == 'submodule_then_state_variable':
        nn.Dense(2, name='dup')(x)
        self.variable('batch_stats', 'dup', lambda: jnp.zeros(()))
      elif kind == 'same_name_two_collections':
        # legal: the same variable name in two different collections
        self.variable('state', 'dup', lambda: jnp.zeros(()))
        self.variable('cache', 'dup', lambda: jnp.ones(()))
      else:
        raise ValueError(kind)

    @nn.compact
    def __call__(self, x):
      def get_sub(i, op):
        if op[0] == 'dense':
          return nn.Dense(op[3], name=op[1])
        if op[0] == 'child':
          return make_module(op[2], name=op[1])
        if op[0] == 'dropout':
          return nn.Dropout(op[1], deterministic=False)
        if op[0] == 'shared':
          inner = make_module(op[2], name=op[1])
          return Wrap(inner), Wrap(inner)
        raise ValueError(op)

      return run_ops(self, self.spec[2], x, get_sub)

    def scaled(self, x):
      return 2.0 * self(x)

  class NodeS(nn.Module):
    spec: tuple

    def setup(self):
      ops = self.spec[2]
      listed = []
      for i, op in enumerate(ops):
        k = op[0]
        if k == 'dense':
          m = nn.Dense(op[3])
        elif k == 'child':
          m = make_module(op[2])
        elif k == 'dropout':
          m = nn.Dropout(op[1], deterministic=False)
        elif k == 'shared':
          inner = make_module(op[2])
          setattr(self, 'inner%d' % i, inner)
          setattr(self, 'wa%d' % i, Wrap(inner))
          setattr(self, 'wb%d' % i, Wrap(inner))
          continue
        elif k == 'param':
          setattr(self, 'p%d' % i, self.param(op[1], nn.initializers.normal(0.5), (op[3],)))
          continue
        elif k == 'counter':
          setattr(self, 'v%d' % i, self.variable(op[1], op[2], lambda: jnp.zeros((), jnp.int32)))
          continue
        elif k == 'stat':
          setattr(self, 'v%d' % i, self.variable(op[1], op[2], lambda d=op[4]: jnp.zeros((d,), jnp.float32)))
          continue
        else:
          continue
        # even-indexed sub-modules live in a list attribute ('ms_<k>'), odd ones in their own attribute ('m<i>')
        if i % 2 == 0:
          listed.append((i, m))
        else:
          setattr(self, 'm%d' % i, m)
      self.ms = [m for _, m in listed]
      self._listed_index = {i: k for k, (i, _) in enumerate(listed)}

    def get_p(self, i, op):
      return getattr(self, 'p%d' % i)

    def get_v(self, i, op, init):
      return getattr(self, 'v%d' % i)

    def do_clash(self, kind, x):
      raise NotImplementedError('clash ops are generated for compact nodes only')

    def __call__(self, x):
      def get_sub(i, op):
        if op[0] == 'shared':
          return getattr(self, 'wa%d' % i), getattr(self, 'wb%d' % i)
        if i % 2 == 0:
          return self.ms[self._listed_index[i]]
        return getattr(self, 'm%d' % i)

      return run_ops(self, self.spec[2], x, get_sub)

    def scaled(self, x):
      return 2.0 * self(x)

  def make_module(node, name=None):
    cls = NodeC if node[1] == 'compact' else NodeS
    return cls(node) if name is None else cls(node, name=name)

  _CLS = dict(NodeC=NodeC, NodeS=NodeS, Wrap=Wrap, make_module=make_module)
  return _CLS


def make_module(node, name=None):
  return classes()['make_module'](node, name)


# ---------------------------------------------------------------------------------------------
# generation


def gen_node(rng, d_in, depth, opts, budget):
  """Returns (node, d_out). opts: dict(stateful, rng_ops, observe, cols, max_ops, styles, keep_dim)"""
  style = rng.choice(opts.get('styles', ['compact', 'compact', 'setup']))
  ops = []
  d = d_in
  n_ops = rng.randint(1, opts.get('max_ops', 5))
  used_names = set()
  n_sub = 0
  sub_dims = []  # (d_in, d_out) of the k-th sub-module created by this node

  def fresh(prefix):
    for _ in range(20):
      n = prefix + rng.choice(['', '_a', '_b', '0', '_7', 'x'])
      if n not in used_names:
        used_names.add(n)
        return n
    n = prefix + str(len(used_names))
    used_names.add(n)
    return n

  menu = ['param', 'param', 'dense', 'act']
  if depth > 0 and budget[0] > 0:
    menu += ['child', 'child']
  if opts.get('stateful', True):
    menu += ['counter', 'stat']
  if opts.get('observe', True):
    menu += ['sow', 'perturb']
  if opts.get('rng_ops', True):
    menu += ['noise', 'dropout']
  if opts.get('shared', True) and depth > 0 and budget[0] > 0:
    menu += ['shared']
  for _ in range(n_ops):
    k = rng.choice(menu)
    if k == 'param':
      ops.append(('param', fresh('p'), rng.choice(['scale', 'bias']), d))
    elif k == 'dense':
      d_out = d if opts.get('keep_dim') else rng.randint(1, 4)
      name = None if style == 'setup' or rng.random() < 0.6 else fresh(rng.choice(['Dense_7', 'proj', 'Dense_0x']))
      ops.append(('dense', name, d, d_out))
      sub_dims.append((d, d_out))
      d = d_out
    elif k == 'child':
      budget[0] -= 1
      child, d_out = gen_node(rng, d, depth - 1, opts, budget)
      name = None if style == 'setup' or rng.random() < 0.6 else fresh(rng.choice(['blk', 'NodeC_5', 'c']))
      ops.append(('child', name, child, d, d_out))
      sub_dims.append((d, d_out))
      d = d_out
    elif k == 'shared':
      budget[0] -= 1
      inner, d_out = gen_node(rng, d, 0, dict(opts, keep_dim=True, shared=False, max_ops=3), budget)
      name = None if style == 'setup' or rng.random() < 0.6 else fresh('inner')
      ops.append(('shared', name, inner, d))
      sub_dims.append((d, d))
    elif k == 'counter':
      ops.append(('counter', rng.choice(opts.get('cols', ['state', 'cache'])), fresh('n')))
    elif k == 'stat':
      ops.append(('stat', rng.choice(opts.get('cols', ['state', 'batch_stats'])), fresh('ra'), rng.choice([0.9, 0.5]), d))
    elif k == 'sow':
      ops.append(('sow', rng.choice(['intermediates', 'probes']), fresh('s')))
    elif k == 'perturb':
      ops.append(('perturb', fresh('pt')))
    elif k == 'noise':
      ops.append(('noise', rng.choice(opts.get('streams', ['noise', 'other']))))
    elif k == 'dropout':
      ops.append(('dropout', rng.choice([0.25, 0.5])))
      sub_dims.append(None)
    elif k == 'act':
      ops.append(('act', rng.choice(['tanh', 'relu'] if not opts.get('smooth') else ['tanh'])))
    # re-entrancy: call an earlier dim-compatible sub-module again
    cands = [i for i, sd in enumerate(sub_dims) if sd is not None and sd[0] == d and sd[1] == d]
    if cands and rng.random() < 0.25:
      ops.append(('again', rng.choice(cands)))
  return ('node', style, tuple(ops)), d


def gen_program(rng, **opts):
  d0 = rng.randint(1, 4)
  budget = [opts.pop('max_nodes', 6) - 1]
  depth = opts.pop('depth', 3)
  node, d_out = gen_node(rng, d0, depth, opts, budget)
  return dict(root=node, d_in=d0, d_out=d_out)


def count_nodes(node):
  return 1 + sum(count_nodes(op[2]) for op in node[2] if op[0] in ('child', 'shared'))


def ops_used(node, acc=None):
  acc = set() if acc is None else acc
  for op in node[2]:
    acc.add(op[0])
    if op[0] in ('child', 'shared'):
      ops_used(op[2], acc)
  return acc


def streams_used(node, acc=None):
  acc = set() if acc is None else acc
  for op in node[2]:
    if op[0] == 'noise':
      acc.add(op[1])
    if op[0] == 'dropout':
      acc.add('dropout')
    if op[0] in ('child', 'shared'):
      streams_used(op[2], acc)
  return acc


def collections_used(node, acc=None):
  acc = set() if acc is None else acc
  for op in node[2]:
    if op[0] == 'param':
      acc.add('params')
    if op[0] in ('dense',):
      acc.add('params')
    if op[0] == 'shared':
      acc.add('params')
    if op[0] in ('counter', 'stat', 'sow'):
      acc.add(op[1])
    if op[0] == 'perturb':
      acc.add('perturbations')
    if op[0] in ('child', 'shared'):
      collections_used(op[2], acc)
  return acc


# ---------------------------------------------------------------------------------------------
# reference interpreter: variable tree (names, shapes, dtypes)


def ref_vars(node, path=(), out=None, called=None):
  """{collection: {path tuple: (shape, dtype name)}} that init must produce, from the documented naming rules:
  explicit name, else <Class>_<i> with a per-parent per-class counter in creation order (explicit names do not advance it);
  setup children by attribute name (list attribute -> name_<k>)."""
  if out is None:
    out = {}
  style, ops = node[1], node[2]
  counters = {}

  def auto(cls):
    i = counters.get(cls, 0)
    counters[cls] = i + 1
    return '%s_%d' % (cls, i)

  def put(col, p, shape, dt):
    out.setdefault(col, {})[p] = (tuple(shape), dt)

  listed = [i for i, op in enumerate(ops) if op[0] in ('dense', 'child', 'dropout') and i % 2 == 0]

  def sub_name(i, op, cls):
    if style == 'compact':
      return op[1] if op[1] is not None else auto(cls)
    if op[0] == 'shared':
      return None
    return 'ms_%d' % listed.index(i) if i % 2 == 0 else 'm%d' % i

  for i, op in enumerate(ops):
    k = op[0]
    if k == 'param':
      put('params', path + (op[1],), (op[3],), 'float32')
    elif k == 'dense':
      n = sub_name(i, op, 'Dense')
      put('params', path + (n, 'kernel'), (op[2], op[3]), 'float32')
      put('params', path + (n, 'bias'), (op[3],), 'float32')
    elif k == 'child':
      cls = 'NodeC' if op[2][1] == 'compact' else 'NodeS'
      n = sub_name(i, op, cls)
      ref_vars(op[2], path + (n,), out)
    elif k == 'dropout':
      sub_name(i, op, 'Dropout')
    elif k == 'shared':
      cls = 'NodeC' if op[2][1] == 'compact' else 'NodeS'
      if style == 'compact':
        n = op[1] if op[1] is not None else auto(cls)
        ref_vars(op[2], path + (n,), out)
        put('params', path + (auto('Wrap'), 'g'), (), 'float32')
        put('params', path + (auto('Wrap'), 'g'), (), 'float32')
      else:
        ref_vars(op[2], path + ('inner%d' % i,), out)
        put('params', path + ('wa%d' % i, 'g'), (), 'float32')
        put('params', path + ('wb%d' % i, 'g'), (), 'float32')
    elif k == 'counter':
      put(op[1], path + (op[2],), (), 'int32')
    elif k == 'stat':
      put(op[1], path + (op[2],), (op[4],), 'float32')
    elif k == 'sow':
      put(op[1], path + (op[2],), ('sow',), 'float32')
    elif k == 'perturb':
      put('perturbations', path + (op[1],), ('like_x',), 'float32')
  return out


def flat_vars(variables):
  """Real variable dict -> {collection: {path tuple: leaf}} (tuples produced by sow stay leaves)."""
  out = {}

  def go(col, d, path):
    from collections.abc import Mapping
    if isinstance(d, Mapping):
      for k, v in d.items():
        go(col, v, path + (k,))
    else:
      out.setdefault(col, {})[path] = d

  for col, tree in variables.items():
    go(col, tree, ())
    out.setdefault(col, {})
  return out


def check_tree(spec, variables, x_shape, exclude_cols=('intermediates',)):
  """Compare the real variable tree with ref_vars. Returns None or a description of the first difference.
  Module.init's default `mutable` is DenyList('intermediates'): that collection is not part of init's result."""
  want = {c: v for c, v in ref_vars(spec['root']).items() if c not in exclude_cols}
  got = flat_vars(variables)
  if set(got) != set(want):
    return dict(kind='collections', want=sorted(want), got=sorted(got))
  for col in want:
    if set(got[col]) != set(want[col]):
      return dict(kind='paths', collection=col, missing=sorted(map(str, set(want[col]) - set(got[col]))),
                  extra=sorted(map(str, set(got[col]) - set(want[col]))))
    for p, (shape, dt) in want[col].items():
      leaf = got[col][p]
      if shape == ('sow',):
        if not (isinstance(leaf, tuple) and all(np.shape(e) == () for e in leaf)):
          return dict(kind='sow leaf', path=p, got=repr(leaf)[:80])
        continue
      if shape == ('like_x',):
        if np.shape(leaf)[:len(x_shape) - 1] != tuple(x_shape[:-1]):
          return dict(kind='perturb leaf', path=p, got=np.shape(leaf))
        continue
      if tuple(np.shape(leaf)) != shape or np.asarray(leaf).dtype.name != dt:
        return dict(kind='leaf', collection=col, path=p, want=(shape, dt), got=(np.shape(leaf), np.asarray(leaf).dtype.name))
  return None


def make_input(rng, spec, batch_shape=None):
  nr = np.random.default_rng(rng.getrandbits(32))
  if batch_shape is None:
    batch_shape = rng.choice([(), (2,), (2, 3)])
  return nr.uniform(-2, 2, size=tuple(batch_shape) + (spec['d_in'],)).astype(np.float32)


def rng_dict(spec, seed, legacy=False, extra=()):
  import jax
  names = ['params'] + sorted(streams_used(spec['root'])) + list(extra)
  mk = jax.random.PRNGKey if legacy else jax.random.key
  return {n: mk(seed * 100 + i) for i, n in enumerate(names)}
