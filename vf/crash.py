"""Crash-point injection for C11 (DESIGN §3 C11).

A *crash* is os._exit(137) executed immediately before the k-th mutating file-system operation of one
save_checkpoint call (or after a prefix of the bytes of a file write has been flushed: torn write).  Operations are
observed at the two boundaries the code itself uses: the `flax.io` shim (legacy back-end; TF gfile is C++ and invisible to
audit hooks) and CPython audit events for os.mkdir/rename/remove/rmdir/open-for-write/shutil.rmtree under the checkpoint
directory (Orbax back-end).  Children are forked from a parent that has never touched the JAX backend."""
import json
import os
import select
import signal
import sys
import time
import traceback


def fork_run(fn, timeout=120.0):
  """Run fn() in a forked child. Returns (exit_status, result_or_None, error_text_or_None).
  exit_status: 0 normal, 137 injected crash, -1 watchdog, other = abnormal."""
  r, w = os.pipe()
  sys.stdout.flush()
  sys.stderr.flush()
  pid = os.fork()
  if pid == 0:
    code = 0
    try:
      os.close(r)
      try:
        payload = json.dumps(['ok', fn()])
      except SystemExit:
        raise
      except BaseException:  # noqa: BLE001
        payload = json.dumps(['exc', traceback.format_exc()[-4000:]])
        code = 3
      data = payload.encode()
      while data:
        n = os.write(w, data)
        data = data[n:]
    finally:
      os._exit(code)
  os.close(w)
  chunks = []
  deadline = time.monotonic() + timeout
  timed_out = False
  while True:
    left = deadline - time.monotonic()
    if left <= 0:
      timed_out = True
      break
    rl, _, _ = select.select([r], [], [], min(left, 1.0))
    if rl:
      b = os.read(r, 65536)
      if not b:
        break
      chunks.append(b)
  os.close(r)
  if timed_out:
    try:
      os.kill(pid, signal.SIGKILL)
    except ProcessLookupError:
      pass
    os.waitpid(pid, 0)
    return -1, None, 'watchdog'
  _, status = os.waitpid(pid, 0)
  code = os.waitstatus_to_exitcode(status)
  raw = b''.join(chunks)
  if not raw:
    return code, None, None
  kind, val = json.loads(raw.decode())
  if kind == 'ok':
    return code, val, None
  return code, None, val


class Injector:
  """Counts mutating operations under `root`; exits the process before operation `crash_at` (1-based).
  torn = (op_index, nbytes): at that GFile.write, flush only the first nbytes then exit."""

  def __init__(self, root, crash_at=None, torn=None, delay_in_thread=None):
    self.root = os.path.realpath(root)
    self.crash_at = crash_at
    self.torn = torn
    self.n = 0
    self.log = []
    self.active = False
    self.delay_in_thread = delay_in_thread  # callable(kind) used by the AsyncManager schedule perturbation

  def _under(self, path):
    try:
      p = os.path.realpath(os.fspath(path))
    except TypeError:
      return False
    return p == self.root or p.startswith(self.root + os.sep)

  def op(self, kind, path, size=None):
    """Called immediately before a mutating operation."""
    if not self.active or not self._under(path):
      return
    self.n += 1
    rel = os.path.relpath(os.path.realpath(os.fspath(path)), self.root)
    self.log.append([kind, rel] + ([size] if size is not None else []))
    if self.delay_in_thread is not None:
      self.delay_in_thread(kind)
    if self.crash_at is not None and self.n == self.crash_at and not (self.torn and self.torn[0] == self.n):
      os._exit(137)

  # ---- boundary 1: flax.io shim ----------------------------------------------------------
  def install_io_proxy(self):
    from flax import io as fio
    inj = self
    orig = {k: getattr(fio, k) for k in ('GFile', 'rename', 'remove', 'rmtree', 'makedirs', 'copy')}

    class FileProxy:
      def __init__(self, f, name, mode):
        self._f, self._name, self._mode = f, name, mode

      def write(self, data):
        if 'w' in self._mode or 'a' in self._mode:
          inj.op('write', self._name, len(data))
          if inj.torn and inj.torn[0] == inj.n and inj.active:
            self._f.write(data[:inj.torn[1]])
            self._f.flush()
            os._exit(137)
        return self._f.write(data)

      def close(self):
        if 'w' in self._mode or 'a' in self._mode:
          inj.op('close', self._name)
        return self._f.close()

      def __enter__(self):
        return self

      def __exit__(self, *exc):
        self.close()
        return False

      def __getattr__(self, k):
        return getattr(self._f, k)

    def GFile(name, mode):
      if 'w' in mode or 'a' in mode:
        inj.op('open_w', name)
      return FileProxy(orig['GFile'](name, mode), name, mode)

    def rename(src, dst, overwrite=False):
      inj.op('rename', dst)
      return orig['rename'](src, dst, overwrite=overwrite)

    def remove(path):
      inj.op('remove', path)
      return orig['remove'](path)

    def rmtree(path):
      inj.op('rmtree', path)
      return orig['rmtree'](path)

    def makedirs(path):
      inj.op('makedirs', path)
      return orig['makedirs'](path)

    def copy(src, dst, overwrite=False):
      inj.op('copy', dst)
      return orig['copy'](src, dst, overwrite=overwrite)

    for k, v in dict(GFile=GFile, rename=rename, remove=remove, rmtree=rmtree, makedirs=makedirs, copy=copy).items():
      setattr(fio, k, v)
    self.io_proxy_installed = True

  # ---- boundary 2: CPython audit events (Orbax writes do not go through flax.io) ------------
  def install_audit_hook(self, skip_when_io_proxy_counts=True):
    inj = self
    in_hook = [False]

    def hook(event, args):
      if not inj.active or in_hook[0]:
        return
      try:
        in_hook[0] = True
        if event == 'os.mkdir':
          inj.op('os.mkdir', args[0])
        elif event == 'os.rename':
          inj.op('os.rename', args[1])
        elif event == 'os.remove':
          inj.op('os.remove', args[0])
        elif event == 'os.rmdir':
          inj.op('os.rmdir', args[0])
        elif event == 'shutil.rmtree':
          inj.op('shutil.rmtree', args[0])
        elif event == 'open':
          path, mode = args[0], args[1]
          if isinstance(mode, str) and any(c in mode for c in 'wax+') and isinstance(path, (str, bytes, os.PathLike)):
            inj.op('open_w', path)
      finally:
        in_hook[0] = False

    sys.addaudithook(hook)
