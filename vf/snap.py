"""Deep snapshots used by every "does not modify its input" monitor (DESIGN §1).

snap(x) captures container types, identities of containers, key order, and dtype/shape/bytes of every array leaf (key data
for typed PRNG keys).  diff(a, b) returns the first differing path or None."""
import dataclasses
from collections.abc import Mapping

import numpy as np


def _arr_bytes(x):
  import jax
  if isinstance(x, jax.Array):
    if jax.dtypes.issubdtype(x.dtype, jax.dtypes.prng_key):
      kd = np.asarray(jax.random.key_data(x))
      return ('key', str(x.dtype), tuple(x.shape), kd.tobytes())
    x = np.asarray(x)
  return ('arr', x.dtype.str if x.dtype.isbuiltin else x.dtype.name, tuple(x.shape), np.ascontiguousarray(x).tobytes())


def snap(x, identity=True, _memo=None, _depth=0):
  import jax
  if _memo is None:
    _memo = {}
  ident = id(x) if identity else None
  if x is None or isinstance(x, (bool, int, float, complex, str, bytes)):
    return ('py', type(x).__name__, repr(x))
  if isinstance(x, (np.ndarray, np.generic, jax.Array)):
    return _arr_bytes(x) + (ident,)
  if id(x) in _memo:
    return ('ref', _memo[id(x)])
  if _depth > 60:
    return ('deep', type(x).__name__)
  _memo[id(x)] = len(_memo)
  if type(x).__name__ == 'FrozenDict' and isinstance(getattr(x, '_dict', None), dict):
    # a FrozenDict re-wraps nested dicts on every access: walk the backing dict, whose nested dicts have stable identity
    return ('map', 'FrozenDict', ident, tuple((repr(k), snap(v, identity, _memo, _depth + 1)) for k, v in x._dict.items()))
  if isinstance(x, Mapping):
    return ('map', type(x).__name__, ident, tuple((repr(k), snap(v, identity, _memo, _depth + 1)) for k, v in x.items()))
  if isinstance(x, (list, tuple, set, frozenset)):
    items = x if isinstance(x, (list, tuple)) else sorted(x, key=repr)
    fields = getattr(x, '_fields', None)
    return ('seq', type(x).__name__, fields, ident, tuple(snap(v, identity, _memo, _depth + 1) for v in items))
  if dataclasses.is_dataclass(x) and not isinstance(x, type):
    return ('dc', type(x).__name__, ident,
            tuple((f.name, snap(getattr(x, f.name, '<unset>'), identity, _memo, _depth + 1)) for f in dataclasses.fields(x)))
  d = getattr(x, '__dict__', None)
  if isinstance(d, dict) and not callable(x) and not isinstance(x, type):
    return ('obj', type(x).__name__, ident, tuple((k, snap(v, identity, _memo, _depth + 1)) for k, v in sorted(d.items())))
  return ('opaque', type(x).__name__, ident if identity else None)


def diff(a, b, path=()):
  """First path at which two snapshots differ, or None."""
  if a == b:
    return None
  if type(a) is not type(b) or not isinstance(a, tuple) or len(a) != len(b) or not a or a[0] != b[0]:
    return path, _short(a), _short(b)
  kind = a[0]
  if kind == 'map' and len(a) == 4:
    if a[1:3] != b[1:3] or [k for k, _ in a[3]] != [k for k, _ in b[3]]:
      return path, _short(a), _short(b)
    for (k, va), (_, vb) in zip(a[3], b[3]):
      d = diff(va, vb, path + (k,))
      if d:
        return d
  if kind == 'seq' and len(a) == 5:
    if a[1:4] != b[1:4] or len(a[4]) != len(b[4]):
      return path, _short(a), _short(b)
    for i, (va, vb) in enumerate(zip(a[4], b[4])):
      d = diff(va, vb, path + (i,))
      if d:
        return d
  if kind in ('dc', 'obj') and len(a) == 4:
    if a[1:3] != b[1:3] or [k for k, _ in a[3]] != [k for k, _ in b[3]]:
      return path, _short(a), _short(b)
    for (k, va), (_, vb) in zip(a[3], b[3]):
      d = diff(va, vb, path + (k,))
      if d:
        return d
  return path, _short(a), _short(b)


def _short(s):
  r = repr(s)
  return r if len(r) < 300 else r[:300] + '...'


def leaf_equal(a, b):
  """Bit-exact leaf comparison used by the serialization checks: dtype name, shape and native-order C bytes for arrays;
  type and value (bytes for floats) for Python scalars."""
  import jax
  arrish = (np.ndarray, jax.Array)
  if isinstance(a, arrish) or isinstance(b, arrish):
    if not (isinstance(a, arrish) and isinstance(b, arrish)):
      return False
    a, b = np.asarray(a), np.asarray(b)
    if a.dtype.name != b.dtype.name or a.shape != b.shape:
      return False
    return native_bytes(a) == native_bytes(b)
  if isinstance(a, np.generic) or isinstance(b, np.generic):
    if not (isinstance(a, np.generic) and isinstance(b, np.generic)):
      return False
    return a.dtype.name == b.dtype.name and native_bytes(np.asarray(a)) == native_bytes(np.asarray(b))
  if type(a) is not type(b):
    return False
  if isinstance(a, float):
    import struct
    return struct.pack('d', a) == struct.pack('d', b)
  if isinstance(a, complex):
    import struct
    return struct.pack('dd', a.real, a.imag) == struct.pack('dd', b.real, b.imag)
  return a == b


def native_bytes(a):
  a = np.asarray(a)
  if not a.dtype.isnative:
    a = a.astype(a.dtype.newbyteorder('='))
  return np.ascontiguousarray(a).tobytes()
