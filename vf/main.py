"""python -m vf.main <PROP> --tier quick|thorough [--seed N] [--replay file]"""
import argparse
import json
import os
import sys


def main():
  ap = argparse.ArgumentParser()
  ap.add_argument('prop')
  ap.add_argument('--tier', default=os.environ.get('VERIF_TIER', 'quick'), choices=['quick', 'thorough'])
  ap.add_argument('--seed', type=int, default=int(os.environ.get('VERIF_SEED', '0')))
  ap.add_argument('--replay')
  ap.add_argument('--worker', action='store_true')
  ap.add_argument('--shard', default='0/1')
  ap.add_argument('--out')
  a = ap.parse_args()
  prop = a.prop.upper()
  replay = None
  seed, tier = a.seed, a.tier
  if a.replay:
    with open(a.replay) as f:
      rec = json.load(f)
    replay = dict(stream=rec['stream'], index=rec['index'])
    seed, tier = rec.get('seed', seed), rec.get('tier', tier)
  if a.worker:
    # compat must precede any flax import; assert we test the working tree
    deps = os.path.join(os.path.dirname(os.path.dirname(os.path.abspath(__file__))), '.deps')
    if os.path.isdir(deps) and deps not in sys.path:
      sys.path.append(deps)  # appended: must never shadow the packages jax/flax were installed with
    from vf import compat
    compat.install()
    import flax
    repo = os.environ.get('VERIF_REPO', '/repo')
    assert os.path.realpath(flax.__file__).startswith(os.path.realpath(repo) + os.sep), flax.__file__
    from vf import core
    s, n = a.shard.split('/')
    sys.exit(core.worker_main(prop, tier, seed, int(s), int(n), a.out, replay))
  from vf import core
  sys.exit(core.master_main(prop, tier, seed, a.replay))


if __name__ == '__main__':
  main()
