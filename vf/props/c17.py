"""C17 — optimizer wrappers apply exactly the optax update; metrics ignore batching.

Monitor shape: (1) differential reference loop — the real flax.training.train_state.TrainState.apply_gradients,
nnx.Optimizer.update and nnx.TrainState.apply_gradients are driven for k <= 4 steps next to a hand-written
`tx.update` + `optax.apply_updates` loop over plain nested dicts (optax is the trusted base), compared bit-exactly
after every step together with a snapshot contract (old functional state untouched, Variables outside `wrt`
untouched, opt_state covering exactly `wrt`); (2) partition-invariance oracle — every composition of a value
stream of n <= 6 items into consecutive update() batches is fed to the real nnx metrics and compute() is compared
with the float64 NumPy statistic of the concatenated stream."""
import numpy as np

LEVEL = 'exploration'
LEVEL_TEXT = ('Seeded differential runs of the three real optimizer wrappers against a hand-written optax loop '
              '(13 optax transformations incl. schedules, chains, masked, multi_transform, MultiSteps, extra-args; nested dict / '
              'FrozenDict trees and five real nnx module graphs x eleven `wrt` filters; k = 1..4 steps; bit-exact '
              'comparison of params, every opt_state leaf and step after every step) with snapshot contracts on the old '
              'functional state and on everything outside `wrt`; plus an exhaustive enumeration of all compositions of '
              'n <= 6 stream items into update() batches for Average / Accuracy / Welford / MultiMetric against float64 '
              'NumPy statistics, and 1e5-example streams split into few large update() calls (count products beyond 2**31). The optimizer space is sampled, the batching space is complete for n <= 6.'
              ' Further streams: half-precision parameters with wider updates, 1e5-example batches, half-precision and'
              ' large-int value streams.'
              ' Round e/f: params pytree structure after apply_gradients, metric_empty (zero-size updates), NumPy int64 metric values, dtype of the metric state after reset.'
              ' Round g: a non-finite epoch before reset.')
LEVEL_NOTE = ('Trusts optax (update/apply_updates/init), the un-filtered nnx graph traversal (nnx.state(model), '
              'nnx.iter_graph: C03/C14/C16 territory) used to enumerate Variables, the 15-line wrt predicate evaluator and '
              'the NumPy statistics in vf/props/c17.py, and the JAX compat aliases.')
TECHNIQUE = ('runtime monitoring: differential reference loop against optax + snapshot contracts on the real wrappers; '
             'exhaustive partition-invariance oracle on the real nnx metrics')
RULE = ('ts stream: case i -> nested dict structure from a seeded pool of 10 (48 thorough) trees (1..7 float32 leaves, depth <= 3, '
        'leaf shapes from a pool of 7) with fresh values, optionally (partly) FrozenDict, '
        'optionally the {params, _overwrite_with_gradient} layout) x 11 optax transformations (+ MultiSteps in thorough) x k = 1..4 x '
        '{plain TrainState, subclass with an extra replaced field} x initial step {int 0, int32 array}. nnxopt stream: '
        'module graph (Linear | MLP+BatchNorm+Dropout | shared sub-module and shared Param | nested lists/dict | custom '
        'Variable types) x wrt filter (Param, custom Variable, Param subclass, tuple, Any/All/Not/PathContains combos, '
        'callable) x transformation x k; gradients are seeded random States (every 8th case: first step uses real nnx.grad with DiffState). '
        'nnxts stream: same graphs, params = the sub-State selected by the filter. metric stream: 12 metric configurations '
        'x 3 (16 thorough) seeded streams x ALL compositions of n = 0..6 items into consecutive batches. distinct = distinct descriptors; '
        'non-trivial = (optimizer) at least one selected leaf and k >= 1 with a stateful or multi-leaf tree, (metric) >= 2 '
        'batches. Excluded from the domain: wrt selections containing non-float Variables (optax cannot update PRNG keys / '
        'int counters), gradients whose structure differs from the selected params, binary-accuracy labels outside {0,1}, '
        'argmax ties and NaN values in metric streams, jit/transforms around the wrappers (same-program class, other checks).')
ASSUMPTIONS = ['optax 0.2.8 update/init/apply_updates are the specification of one optimizer step',
               'leaf order of a nested dict with the same keys equals that of nnx.State / FrozenDict (sorted keys), so '
               'tree-wide reductions (global norm) are evaluated in the same order and bit-exact comparison is sound',
               'metric streams are float32-representable values with |x| <= 4, compared in the float64-formula class (TOL_FORMULA)',
               'vf.compat JAX aliases are faithful']
PLAN = {'quick': dict(workers=4, timeout_s=600), 'thorough': dict(workers=12, timeout_s=2400)}
MIN_EVENTS = {'quick': {'oracle:ts.params_vs_optax': 1200, 'oracle:ts.opt_state_vs_optax': 1500, 'oracle:ts.step': 2000,
                        'oracle:ts.old_instance_mutated': 1200, 'oracle:ts.owg_overwrite': 100,
                        'oracle:nnxopt.params_vs_optax': 1200, 'oracle:nnxopt.opt_state_vs_optax': 1500,
                        'oracle:nnxopt.step': 2000, 'oracle:nnxopt.outside_wrt_changed': 3000,
                        'oracle:nnxopt.opt_state_covers_wrt': 3000, 'nnxopt.partial_wrt': 300,
                        'oracle:nnxts.params_vs_optax': 800, 'oracle:nnxts.old_instance_mutated': 350,
                        'oracle:metric.average': 1500, 'oracle:metric.accuracy': 1500, 'oracle:metric.welford': 1100,
                        'oracle:metric.multimetric': 500, 'oracle:metric.reset': 4500, 'oracle:metric.after_reset': 2200},
              'thorough': {'oracle:ts.params_vs_optax': 8000, 'oracle:ts.old_instance_mutated': 8000,
                           'oracle:ts.owg_overwrite': 1000, 'oracle:nnxopt.params_vs_optax': 8000,
                           'oracle:nnxopt.opt_state_vs_optax': 12000, 'oracle:nnxopt.outside_wrt_changed': 20000,
                           'oracle:nnxts.params_vs_optax': 8000, 'oracle:metric.average': 8000,
                           'oracle:metric.accuracy': 8000, 'oracle:metric.welford': 6000,
                           'oracle:metric.multimetric': 3000, 'oracle:metric.reset': 24000}}

SHAPES = [(), (3,), (2, 3), (3, 1), (1,), (2, 2), (2, 1, 2)]
OWG = '_overwrite_with_gradient'


# ---------------------------------------------------------------------------------------------
# generic helpers (no flax inside)


def _key_of(entry):
  for a in ('key', 'idx', 'name'):
    if hasattr(entry, a):
      return getattr(entry, a)
  return repr(entry)


def _bytes(x):
  """(dtype, shape, bytes) of one leaf; python scalars are kept as (type, value)."""
  import jax
  if isinstance(x, (bool, int, float)):
    return ('py:' + type(x).__name__, (), repr(x))
  if hasattr(x, 'dtype') and jax.dtypes.issubdtype(x.dtype, jax.dtypes.prng_key):
    x = jax.random.key_data(x)
    tag = 'key:'
  else:
    tag = ''
  a = np.asarray(x)
  return (tag + str(a.dtype), tuple(a.shape), a.tobytes())


def snap(tree):
  """[(normalized key path, (dtype, shape, bytes))] of a plain pytree, in jax leaf order."""
  import jax
  flat, _ = jax.tree_util.tree_flatten_with_path(tree)
  return [(tuple(_key_of(e) for e in p), _bytes(v)) for p, v in flat]


def snap_diff(got, want):
  """None when equal, otherwise a small json-able description of the first difference."""
  gp, wp = [p for p, _ in got], [p for p, _ in want]
  if gp != wp:
    return dict(kind='paths', got=[repr(p) for p in gp][:30], want=[repr(p) for p in wp][:30])
  for (p, g), (_, w) in zip(got, want):
    if g != w:
      d = dict(kind='leaf', path=repr(p), got_dtype=g[0], want_dtype=w[0], got_shape=g[1], want_shape=w[1])
      if g[0] == w[0] and g[1] == w[1] and not g[0].startswith('py:'):
        ga = np.frombuffer(g[2], dtype=g[0].replace('key:', '')).astype(np.float64)
        wa = np.frombuffer(w[2], dtype=w[0].replace('key:', '')).astype(np.float64)
        d.update(got=ga[:6].tolist(), want=wa[:6].tolist(), max_abs_diff=float(np.max(np.abs(ga - wa))) if ga.size else 0.0)
      else:
        d.update(got=repr(g[2])[:80], want=repr(w[2])[:80])
      return d
  return None


def set_in(d, path, v):
  for k in path[:-1]:
    d = d.setdefault(k, {})
  d[path[-1]] = v


def compositions(n):
  if n == 0:
    yield ()
    return
  for first in range(1, n + 1):
    for rest in compositions(n - first):
      yield (first,) + rest


def rand_array(nprng, shape, scale=1.0):
  import jax.numpy as jnp
  return jnp.asarray((nprng.standard_normal(shape) * scale).astype(np.float32))


# ---------------------------------------------------------------------------------------------
# optax transformations (built twice from the same descriptor: once for the wrapper, once for the reference)

TX_KINDS = ['sgd', 'momentum', 'nesterov', 'adam', 'adamw_sched', 'clip_adam', 'clip_adam_inactive', 'masked',
            'multi_transform', 'rmsprop', 'adamw_piecewise', 'multisteps']
TX_KINDS_NNX = TX_KINDS + ['extra_args']
STATELESS = ('sgd', 'extra_args')


def tx_kinds(ctx, kinds):
  """MultiSteps re-traces and compiles a lax.cond on every update call (~0.5 s): thorough tier only."""
  return [k for k in kinds if k != 'multisteps'] if ctx.tier == 'quick' else kinds


def _mask_fn(p):
  import jax
  return jax.tree.map(lambda x: x.ndim >= 2, p)


def _label_fn(p):
  import jax
  return jax.tree.map(lambda x: 'mat' if x.ndim >= 2 else 'vec', p)


def make_tx(kind, lr, explicit_mask=None, explicit_labels=None):
  import optax
  import jax
  if kind == 'sgd':
    return optax.sgd(lr)
  if kind == 'momentum':
    return optax.sgd(lr, momentum=0.9)
  if kind == 'nesterov':
    return optax.sgd(lr, momentum=0.8, nesterov=True)
  if kind == 'adam':
    return optax.adam(lr)
  if kind == 'adamw_sched':
    return optax.adamw(optax.exponential_decay(lr, transition_steps=1, decay_rate=0.5), weight_decay=0.05)
  if kind == 'adamw_piecewise':
    return optax.adamw(lambda count: lr / (1.0 + count), b1=0.7, weight_decay=0.1)
  if kind == 'clip_adam':
    return optax.chain(optax.clip_by_global_norm(0.25), optax.adam(lr))
  if kind == 'clip_adam_inactive':
    return optax.chain(optax.clip_by_global_norm(1e4), optax.adam(lr, b1=0.5))
  if kind == 'masked':
    return optax.masked(optax.sgd(lr, momentum=0.9), explicit_mask if explicit_mask is not None else _mask_fn)
  if kind == 'multi_transform':
    return optax.multi_transform({'mat': optax.adam(lr), 'vec': optax.sgd(lr * 3, momentum=0.5)},
                                 explicit_labels if explicit_labels is not None else _label_fn)
  if kind == 'rmsprop':
    return optax.rmsprop(lr, momentum=0.9, centered=True)
  if kind == 'multisteps':
    return optax.MultiSteps(optax.adam(lr), every_k_schedule=2).gradient_transformation()
  if kind == 'extra_args':
    def init(params):
      del params
      return optax.EmptyState()

    def update(updates, state, params=None, *, scale, **extra):
      del params, extra
      return jax.tree.map(lambda g: -lr * scale * g, updates), state

    return optax.chain(optax.GradientTransformationExtraArgs(init, update), optax.with_extra_args_support(optax.trace(0.5)))
  raise ValueError(kind)


def ref_step(optax, tx, grads, opt_state, params, extra):
  """THE reference: the hand-written optax step of the property statement."""
  updates, opt_state = tx.update(grads, opt_state, params, **extra)
  params = optax.apply_updates(params, updates)
  return params, opt_state


# ---------------------------------------------------------------------------------------------
# (a1) flax.training.train_state.TrainState

KEYS = ['w', 'b', 'kernel', 'bias', 'layer_0', 'layer_1', 'a', 'z', 'Dense_0', 'scale']


def gen_dict_tree(rng, nprng, max_leaves, depth=0):
  """Plain nested dict of float32 arrays; returns (tree, n_leaves)."""
  n_kids = rng.randint(1, 3)
  out, n = {}, 0
  for k in rng.sample(KEYS, n_kids):
    if n >= max_leaves:
      break
    if depth < 2 and rng.random() < 0.4:
      sub, m = gen_dict_tree(rng, nprng, max_leaves - n, depth + 1)
      out[k], n = sub, n + m
    else:
      out[k] = rand_array(nprng, rng.choice(SHAPES))
      n += 1
  return out, n


def tree_pool(ctx):
  if 'pool' not in _CLS:
    n = 10 if ctx.tier == 'quick' else 48
    out = []
    for j in range(n):
      r = ctx.rng('tree-pool', j)
      t, _ = gen_dict_tree(r, np.random.default_rng(j), 1 + j % 7)
      out.append(t)
    _CLS['pool'] = out
  return _CLS['pool']


def like(tree, nprng, scale=1.0):
  import jax
  return jax.tree.map(lambda x: rand_array(nprng, x.shape, scale), tree)


def freeze_some(tree, rng, p):
  from flax.core import FrozenDict
  if not isinstance(tree, dict):
    return tree
  d = {k: freeze_some(v, rng, p * 0.5) for k, v in tree.items()}
  return FrozenDict(d) if rng.random() < p else d


def freeze_like(tree, template):
  """Give `tree` (plain dicts) the container types of `template` (same keys): grads mirror params."""
  from collections.abc import Mapping
  from flax.core import FrozenDict
  if not isinstance(template, Mapping):
    return tree
  d = {k: freeze_like(tree[k], template[k]) for k in tree}
  return FrozenDict(d) if isinstance(template, FrozenDict) else d


def unfreeze_all(tree):
  from collections.abc import Mapping
  if isinstance(tree, Mapping):
    return {k: unfreeze_all(v) for k, v in tree.items()}
  return tree


_CLS = {}


def ts_classes():
  if 'ts' not in _CLS:
    from typing import Any
    from flax import struct
    from flax.training import train_state

    class TrainStateX(train_state.TrainState):
      batch_stats: Any = None
      note: str = struct.field(pytree_node=False, default='n0')

    _CLS['ts'] = (train_state.TrainState, TrainStateX)
  return _CLS['ts']


def field_snapshot(obj, names):
  """Identity + bytes snapshot of a functional train state (old-instance contract)."""
  import jax
  fields = {n: getattr(obj, n) for n in names}
  leaves = jax.tree.leaves(obj)
  return dict(fields=fields, leaves=leaves, bytes=snap(_plain(obj_tree(obj, names))))


def obj_tree(obj, names):
  return {n: getattr(obj, n) for n in names if n not in ('tx', 'apply_fn', 'graphdef')}


def field_snapshot_intact(obj, names, s):
  import jax
  if any(getattr(obj, n) is not s['fields'][n] for n in names):
    return 'field object replaced on the old instance: %s' % [n for n in names if getattr(obj, n) is not s['fields'][n]]
  leaves = jax.tree.leaves(obj)
  if len(leaves) != len(s['leaves']) or any(a is not b for a, b in zip(leaves, s['leaves'])):
    return 'leaf objects of the old instance changed'
  d = snap_diff(snap(_plain(obj_tree(obj, names))), s['bytes'])
  return None if d is None else 'old instance content changed: %r' % d


def _plain(tree):
  """Erase flax containers: FrozenDict -> dict, nnx.State -> dict, VariableState/Variable -> value. Own recursion."""
  from collections.abc import Mapping
  from flax import nnx
  import jax
  if isinstance(tree, nnx.State):
    return _plain(tree.raw_mapping)
  if isinstance(tree, (nnx.VariableState, nnx.Variable)):
    return _plain(tree.value)
  if isinstance(tree, Mapping):
    return {k: _plain(v) for k, v in tree.items()}
  if isinstance(tree, tuple) and hasattr(tree, '_fields'):
    return type(tree)(*[_plain(v) for v in tree])
  if isinstance(tree, (tuple, list)):
    return type(tree)(_plain(v) for v in tree)
  if jax.tree_util.all_leaves([tree]) or tree is None:
    return tree
  # other registered pytree nodes (optax states that are dataclasses): map children
  return jax.tree.map(lambda v: _plain(v) if isinstance(v, (nnx.State, nnx.VariableState, nnx.Variable)) else v, tree,
                      is_leaf=lambda v: isinstance(v, (nnx.State, nnx.VariableState, nnx.Variable)))


def run_ts_case(ctx, i):
  import jax
  import jax.numpy as jnp
  import optax
  rng = ctx.rng('ts', i)
  nprng = np.random.default_rng(rng.getrandbits(32))
  kinds = tx_kinds(ctx, TX_KINDS)
  kind = kinds[(i + i // len(kinds)) % len(kinds)]   # decorrelated from the shard index i % nshards
  k = 1 + (3 * i + i // 4) % 4
  owg = (i % 7) == 3
  subclass = (i % 3) == 1
  arr_step = (i % 5) == 2
  frozen_p = [0.0, 1.0, 0.5][(i // 2) % 3]
  lr = rng.choice([0.1, 0.05, 0.3])
  # tree *structures* come from a seeded pool (optax jit-compiles some helpers per structure; the pool bounds compile
  # time), the values are fresh per case; MultiSteps (lax.cond, compiled per structure) only sees pool entries 0..1
  pool = tree_pool(ctx)
  if kind == 'multisteps':
    frozen_p = 0.0
    tree = pool[i % 2]
  else:
    tree = pool[rng.randrange(len(pool))]
  tree = like(tree, nprng)
  n_leaves = len(jax.tree.leaves(tree))
  explicit = rng.random() < 0.5 and kind != 'multisteps'
  mask = jax.tree.map(lambda x: rng.random() < 0.6, tree) if explicit else None
  labels = jax.tree.map(lambda x: rng.choice(['mat', 'vec']), tree) if explicit else None
  owg_tree = {'amax_hist': rand_array(nprng, (3,)), 'sc': {'x': rand_array(nprng, ())}} if owg else None
  desc = dict(tx=kind, k=k, owg=owg, subclass=subclass, arr_step=arr_step, frozen=frozen_p, lr=lr, explicit=explicit,
              tree=[(repr(p), b[1]) for p, b in snap(tree)])
  nontrivial = n_leaves >= 2 or kind not in STATELESS
  with ctx.case('ts', i, desc, nontrivial=nontrivial):
    TS, TSX = ts_classes()
    cls = TSX if subclass else TS
    real_tree = freeze_some(tree, rng, frozen_p)
    # explicit mask / label trees must have the container types of the tree they describe (optax precondition)
    tx_real = make_tx(kind, lr, None if mask is None else freeze_like(mask, real_tree),
                      None if labels is None else freeze_like(labels, real_tree))
    tx_ref = make_tx(kind, lr, mask, labels)
    params_in = {'params': real_tree, OWG: owg_tree} if owg else real_tree
    if owg and frozen_p == 1.0:
      from flax.core import FrozenDict
      params_in = FrozenDict(params_in)
    apply_fn = lambda *a, **kw: None  # noqa: E731
    kw = dict(batch_stats={'m': jnp.zeros(2)}) if subclass else {}
    state = cls.create(apply_fn=apply_fn, params=params_in, tx=tx_real, **kw)
    ctx.op('training.TrainState.create')
    ctx.check(type(state.step) is int and state.step == 0, 'ts.step:create', lambda: dict(step=repr(state.step)))
    if arr_step:
      state = state.replace(step=jnp.asarray(7, jnp.int32))
    names = [f for f in state.__dataclass_fields__]

    ref_params = unfreeze_all(tree)
    ref_state = tx_ref.init(ref_params)
    ctx.check(snap_diff(snap(_plain(state.opt_state)), snap(ref_state)) is None, 'ts.opt_state_vs_optax:init',
              lambda: snap_diff(snap(_plain(state.opt_state)), snap(ref_state)))
    ref_owg = owg_tree

    for t in range(k):
      g_ref = like(ref_params, nprng, rng.choice([1.0, 0.2, 3.0]))
      g_real = freeze_like(g_ref, real_tree)
      if owg:
        g_owg = like(owg_tree, nprng)
        grads_in = {'params': g_real, OWG: g_owg}
        if frozen_p == 1.0 and t % 2:
          from flax.core import FrozenDict
          grads_in = FrozenDict(grads_in)
      else:
        grads_in = g_real
      old = state
      old_snap = field_snapshot(old, names)
      old_step = old.step
      extra_kw = {}
      if subclass and t % 2 == 0:
        extra_kw = dict(batch_stats={'m': jnp.full(2, float(t + 1))}, note='n%d' % (t + 1))
      state = old.apply_gradients(grads=grads_in, **extra_kw)
      ctx.op('training.TrainState.apply_gradients')
      ref_params, ref_state = ref_step(optax, tx_ref, g_ref, ref_state, ref_params, {})
      if owg:
        ref_owg = g_owg

      # new instance, static fields carried over
      ctx.check(state is not old and type(state) is type(old) and state.tx is old.tx and state.apply_fn is old.apply_fn,
                'ts.new_instance', lambda: dict(same=state is old, type=type(state).__name__))
      # old instance intact
      why = field_snapshot_intact(old, names, old_snap)
      ctx.check(why is None, 'ts.old_instance_mutated', lambda: dict(step=t, why=why))
      # step + 1, type preserved
      ok_step = (type(state.step) is type(old_step)) and int(state.step) == int(old_step) + 1
      if arr_step:
        ok_step = ok_step and state.step.dtype == old_step.dtype and state.step.shape == ()
      ctx.check(ok_step, 'ts.step', lambda: dict(t=t, old=repr(old_step), new=repr(state.step)))
      # params
      got_params = _plain(state.params)
      want_params = {'params': ref_params, OWG: ref_owg} if owg else ref_params
      d = snap_diff(snap(got_params), snap(want_params))
      ctx.check(d is None, 'ts.params_vs_optax', lambda: dict(t=t, tx=kind, diff=d))
      # ... and in the same containers: optax.apply_updates by hand returns the pytree structure it was given
      ctx.check(jax.tree.structure(state.params) == jax.tree.structure(old.params), 'ts.params_structure_changed',
                lambda: dict(t=t, owg=owg, before=type(old.params).__name__, after=type(state.params).__name__))
      if owg:
        d2 = snap_diff(snap(_plain(state.params)[OWG]) if OWG in _plain(state.params) else [], snap(g_owg))
        ctx.check(d2 is None, 'ts.owg_overwrite', lambda: dict(t=t, diff=d2))
      # opt_state: every leaf, and only over the optimised sub-tree
      d3 = snap_diff(snap(_plain(state.opt_state)), snap(ref_state))
      ctx.check(d3 is None, 'ts.opt_state_vs_optax', lambda: dict(t=t, tx=kind, diff=d3))
      # **kwargs replaced on the new instance only
      if subclass:
        if extra_kw:
          okk = state.batch_stats is extra_kw['batch_stats'] and state.note == extra_kw['note']
        else:
          okk = state.batch_stats is old.batch_stats and state.note == old.note
        ctx.check(okk, 'ts.kwargs_replace', lambda: dict(t=t, note=state.note))
    # total step count
    ctx.check(int(state.step) == (7 if arr_step else 0) + k, 'ts.step:total', lambda: dict(step=repr(state.step), k=k))


# ---------------------------------------------------------------------------------------------
# nnx graphs and wrt filters

GRAPHS = ['linear', 'mlp_bn', 'shared', 'lists', 'custom']


def nnx_types():
  if 'nnx' not in _CLS:
    from flax import nnx

    class MyVar(nnx.Variable):
      pass

    class MyParam(nnx.Param):
      pass

    class Node(nnx.Module):
      pass

    _CLS['nnx'] = dict(Param=nnx.Param, MyVar=MyVar, MyParam=MyParam, BatchStat=nnx.BatchStat, Node=Node)
  return _CLS['nnx']


def build_graph(kind, seed):
  """A fresh copy of the graph `kind` (built once per process, then nnx.clone: same structure, new Variables)."""
  from flax import nnx
  if ('graph', kind) not in _CLS:
    _CLS[('graph', kind)] = _build_graph(kind, 0)
  return nnx.clone(_CLS[('graph', kind)])


def _build_graph(kind, seed):
  from flax import nnx
  import jax.numpy as jnp
  T = nnx_types()
  Node, MyVar, MyParam = T['Node'], T['MyVar'], T['MyParam']
  rngs = nnx.Rngs(seed)
  if kind == 'linear':
    return nnx.Linear(2, 3, rngs=rngs)
  m = Node()
  if kind == 'mlp_bn':
    m.lin1 = nnx.Linear(2, 3, rngs=rngs)
    m.bn = nnx.BatchNorm(3, rngs=rngs)
    m.drop = nnx.Dropout(0.1, rngs=rngs)
    m.lin2 = nnx.Linear(3, 1, rngs=rngs)
  elif kind == 'shared':
    m.enc = nnx.Linear(2, 2, rngs=rngs)
    m.dec = m.enc                      # shared sub-module
    m.head = nnx.Linear(2, 1, rngs=rngs)
    m.a = Node()
    m.b = Node()
    m.a.w = nnx.Param(jnp.ones((3,)))
    m.b.w = m.a.w                      # shared Variable
    m.b.v = MyVar(jnp.ones((2, 2)))
  elif kind == 'lists':
    m.blocks = [nnx.Linear(2, 2, rngs=rngs), [nnx.Linear(2, 2, rngs=rngs), nnx.BatchNorm(2, rngs=rngs)],
                nnx.Linear(2, 1, rngs=rngs)]
    m.scale = MyParam(jnp.ones(()))
    m.extras = {'x': MyVar(jnp.ones((3,))), 'y': nnx.Param(jnp.ones((2, 3)))}
  elif kind == 'custom':
    m.lin = nnx.Linear(2, 3, rngs=rngs)
    m.sub = Node()
    m.sub.cv = MyVar(jnp.ones((2, 3)))
    m.sub.p = MyParam(jnp.ones((3,)))
    m.sub.lin = nnx.Linear(3, 1, use_bias=False, rngs=rngs)
    m.bn = nnx.BatchNorm(3, rngs=rngs)
    m.counter = nnx.Variable(jnp.asarray(3, jnp.int32))
    m.l10 = MyVar(jnp.ones((1,)))
    m.l2 = MyVar(jnp.ones((1,)))
  else:
    raise ValueError(kind)
  return m


WRT = [
    ('type', 'Param'),
    ('type', 'MyVar'),
    ('seq', (('type', 'Param'), ('type', 'MyVar'))),
    ('type', 'MyParam'),
    ('all', (('type', 'Param'), ('pc', '@0'))),
    ('any', (('pc', '@1'), ('type', 'MyVar'))),
    ('all', (('type', 'Param'), ('not', ('pc', '@2')))),
    ('all', (('type', 'Param'), ('not', ('type', 'MyParam')))),
    ('last', 'kernel'),
    ('lst', (('type', 'MyParam'), ('all', (('type', 'BatchStat'), ('pc', '@2'))), ('last', 'bias'))),
    ('any', (('type', 'BatchStat'), ('type', 'MyParam'))),
]
# per-graph path keys substituted for @0/@1/@2
PC_KEYS = {'linear': ['kernel', 'bias', 'kernel'], 'mlp_bn': ['lin1', 'lin2', 'bn'], 'shared': ['enc', 'a', 'head'],
           'lists': ['blocks', 'extras', 1], 'custom': ['sub', 'lin', 'bn']}


def subst(d, keys):
  if d[0] == 'pc' and isinstance(d[1], str) and d[1].startswith('@'):
    return ('pc', keys[int(d[1][1:])])
  if d[0] in ('seq', 'all', 'any', 'lst'):
    return (d[0], tuple(subst(x, keys) for x in d[1]))
  if d[0] == 'not':
    return ('not', subst(d[1], keys))
  return d


def wrt_build(d):
  from flax import nnx
  T = nnx_types()
  k = d[0]
  if k == 'type':
    return T[d[1]]
  if k == 'pc':
    return nnx.PathContains(d[1])
  if k == 'not':
    return nnx.Not(wrt_build(d[1]))
  if k == 'any':
    return nnx.Any(*[wrt_build(x) for x in d[1]])
  if k == 'all':
    return nnx.All(*[wrt_build(x) for x in d[1]])
  if k == 'seq':
    return tuple(wrt_build(x) for x in d[1])
  if k == 'lst':
    return [wrt_build(x) for x in d[1]]
  if k == 'last':
    return lambda path, x, _n=d[1]: len(path) > 0 and path[-1] == _n
  raise ValueError(d)


def _lst_to_seq(d):
  if d[0] in ('seq', 'all', 'any', 'lst'):
    return ('seq' if d[0] == 'lst' else d[0], tuple(_lst_to_seq(x) for x in d[1]))
  if d[0] == 'not':
    return ('not', _lst_to_seq(d[1]))
  return d


def wrt_ref(d, path, vtype):
  """Independent evaluator of a wrt descriptor on (path, Variable type)."""
  T = nnx_types()
  k = d[0]
  if k == 'type':
    return issubclass(vtype, T[d[1]])
  if k == 'pc':
    return d[1] in path
  if k == 'not':
    return not wrt_ref(d[1], path, vtype)
  if k in ('any', 'seq', 'lst'):
    return any(wrt_ref(x, path, vtype) for x in d[1])
  if k == 'all':
    return all(wrt_ref(x, path, vtype) for x in d[1])
  if k == 'last':
    return len(path) > 0 and path[-1] == d[1]
  raise ValueError(d)


def model_variables(model):
  """[(path, Variable object)] of the whole graph via the un-filtered traversal (trusted, C03/C16)."""
  from flax import nnx
  from flax.nnx import statelib
  flat = statelib.to_flat_state(nnx.state(model))
  paths = [tuple(p) for p, _ in flat]
  objs = {}
  for path, v in nnx.iter_graph(model):
    if isinstance(v, nnx.Variable) and id(v) not in objs:
      objs[id(v)] = v
  # map canonical state paths to objects by walking attributes
  out = []
  for p in paths:
    o = model
    for key in p:
      o = o[key] if isinstance(o, (list, tuple, dict)) else getattr(o, key)
    out.append((p, o))
  assert all(id(o) in objs for _, o in out) and len({id(o) for _, o in out}) == len(out), 'variable enumeration inconsistent'
  return out


def static_selection(gkind, wdesc):
  """Selected paths computed on the cached base graph (clones have the same paths and types)."""
  key = ('sel', gkind, repr(wdesc))
  if key not in _CLS:
    build_graph(gkind, 0)
    _CLS[key] = [p for p, v in model_variables(_CLS[('graph', gkind)]) if wrt_ref(wdesc, p, type(v))]
  return _CLS[key]


def is_float_var(v):
  import jax.numpy as jnp
  x = v.value
  return hasattr(x, 'dtype') and jnp.issubdtype(x.dtype, jnp.floating)


def model_snapshot(variables):
  return {p: _bytes(v.value) for p, v in variables}


def prepare_model(rng, nprng, gkind, wdesc):
  """Build graph, randomise all float Variables, return (model, variables, selected paths, ref param dict)."""
  model = build_graph(gkind, rng.randint(0, 50))
  variables = model_variables(model)
  for p, v in variables:
    if is_float_var(v):
      v.value = rand_array(nprng, v.value.shape)
  selected = [p for p, v in variables if wrt_ref(wdesc, p, type(v))]
  byp = dict(variables)
  if any(not is_float_var(byp[p]) for p in selected):
    from vf import core
    raise core.CaseSkip('wrt selects non-float Variables')
  ref_params = {}
  for p in selected:
    set_in(ref_params, p, byp[p].value)
  return model, variables, selected, ref_params


def grads_state(variables, selected, gdict):
  """An nnx.State shaped like nnx.grad's output for the selected Variables, holding the values of gdict."""
  from flax import nnx
  byp = dict(variables)
  nested = {}
  for p in selected:
    g = gdict
    for key in p:
      g = g[key]
    set_in(nested, p, byp[p].to_state().replace(g))
  return nnx.State(nested)


def real_grads(model, wrt, coefs):
  """Gradients from the real nnx.grad with DiffState(0, wrt) of a separable loss over all float Variables."""
  from flax import nnx
  import jax
  import jax.numpy as jnp

  def loss(m):
    tot = 0.0
    for j, x in enumerate(jax.tree.leaves(nnx.state(m))):
      if hasattr(x, 'dtype') and jnp.issubdtype(x.dtype, jnp.floating):
        tot = tot + jnp.sum(0.5 * x * x + coefs[j % len(coefs)] * x)
    return tot

  return nnx.grad(loss, argnums=nnx.DiffState(0, wrt))(model)


def run_nnxopt_case(ctx, i):
  import jax
  import jax.numpy as jnp
  import optax
  from flax import nnx
  from flax.nnx.training import optimizer as optlib
  rng = ctx.rng('nnxopt', i)
  nprng = np.random.default_rng(rng.getrandbits(32))
  gkind = GRAPHS[i % len(GRAPHS)]
  wdesc = subst(WRT[(i // len(GRAPHS)) % len(WRT)], PC_KEYS[gkind])
  kinds = tx_kinds(ctx, TX_KINDS_NNX)
  kind = kinds[(i + i // (len(GRAPHS) * len(WRT)) + rng.randint(0, 2)) % len(kinds)]
  k = 1 + (3 * i + i // 4) % 4
  use_grad = (i % 8) == 1
  default_wrt = wdesc == ('type', 'Param') and (i % 2 == 0)
  lr = rng.choice([0.1, 0.05, 0.3])
  desc = dict(graph=gkind, wrt=wdesc, tx=kind, k=k, nnx_grad=use_grad, lr=lr, default_wrt=default_wrt)
  with ctx.case('nnxopt', i, desc, nontrivial=bool(static_selection(gkind, wdesc))):
    model, variables, selected, ref_params = prepare_model(rng, nprng, gkind, wdesc)
    if not selected:
      ctx.event('nnxopt.empty_wrt')
    byp = dict(variables)
    unselected = [p for p, _ in variables if p not in set(selected)]
    wrt = wrt_build(wdesc)
    tx_real, tx_ref = make_tx(kind, lr), make_tx(kind, lr)
    gd_before = nnx.graphdef(model)
    before0 = model_snapshot(variables)
    opt = nnx.Optimizer(model, tx_real) if default_wrt else nnx.Optimizer(model, tx_real, wrt=wrt)
    ctx.op('nnx.Optimizer.__init__')
    ref_state = tx_ref.init(ref_params)

    def opt_state_plain():
      return jax.tree.map(lambda v: _plain(v.value), opt.opt_state, is_leaf=lambda v: isinstance(v, nnx.Variable))

    def check_opt_state(tag, t):
      got, want = snap(opt_state_plain()), snap(ref_state)
      same_paths = [p for p, _ in got] == [p for p, _ in want]
      ctx.check(same_paths, 'nnxopt.opt_state_covers_wrt' + tag,
                lambda: dict(t=t, got=[repr(p) for p, _ in got][:24], want=[repr(p) for p, _ in want][:24]))
      if same_paths:
        d = snap_diff(got, want)
        ctx.check(d is None, 'nnxopt.opt_state_vs_optax' + tag, lambda: dict(t=t, tx=kind, diff=d))
      # wrapper Variables: every State inside opt_state spans exactly the selected paths, each entry an OptVariable that
      # records the type of the Variable it mirrors; everything else is an OptArray
      from flax.nnx import statelib
      nodes = jax.tree.leaves(opt.opt_state, is_leaf=lambda v: isinstance(v, (nnx.State, nnx.Variable)))
      ok, why = True, None
      for node in nodes:
        if isinstance(node, nnx.State):
          ents = [(tuple(p), v) for p, v in statelib.to_flat_state(node)]
          if sorted(map(repr, [p for p, _ in ents])) != sorted(map(repr, selected)):
            ok, why = False, dict(state_paths=[repr(p) for p, _ in ents][:20], selected=[repr(p) for p in selected][:20])
          for p, v in ents:
            if not (isinstance(v, optlib.OptVariable) and p in byp and v.source_type is type(byp[p])):
              ok, why = False, dict(path=repr(p), entry=type(v).__name__, source_type=repr(getattr(v, 'source_type', None)))
        elif not isinstance(node, optlib.OptArray):
          ok, why = False, dict(node=type(node).__name__)
      ctx.check(ok, 'nnxopt.opt_state_covers_wrt:wrapper_variables', lambda: dict(t=t, tag=tag, why=why))

    ctx.check(opt.step.value.dtype == jnp.uint32 and int(opt.step.value) == 0 and opt.model is model,
              'nnxopt.step:init', lambda: dict(step=repr(opt.step.value)))
    check_opt_state(':init', -1)
    ctx.check(model_snapshot(variables) == before0, 'nnxopt.outside_wrt_changed:init', None)

    coefs = [float(c) for c in nprng.uniform(-2, 2, 5).round(3)]
    for t in range(k):
      if use_grad and t == 0 and selected:
        g_state = real_grads(model, wrt_build(_lst_to_seq(wdesc)), coefs)  # DiffState must be hashable: no list filters
        ctx.op('nnx.grad(DiffState)')
        g_ref = _plain(g_state)
        # the gradient tree is the selected tree (precondition of update(); the loss is separable so every leaf is hit)
        if [p for p, _ in snap(g_ref)] != [p for p, _ in snap(ref_params)]:
          raise AssertionError('nnx.grad(DiffState(0, wrt)) structure differs from the reference selection: %r vs %r'
                               % ([p for p, _ in snap(g_ref)], [p for p, _ in snap(ref_params)]))
      else:
        g_ref = like(ref_params, nprng, rng.choice([1.0, 0.2, 3.0]))
        g_state = grads_state(variables, selected, g_ref)
      extra = dict(scale=rng.choice([0.5, 2.0])) if kind == 'extra_args' else {}
      before = model_snapshot(variables)
      step_before = int(opt.step.value)
      step_obj = opt.step
      opt.update(g_state, **extra)
      ctx.op('nnx.Optimizer.update')
      ref_params, ref_state = ref_step(optax, tx_ref, g_ref, ref_state, ref_params, extra)

      ctx.check(opt.step is step_obj and opt.step.value.dtype == jnp.uint32 and int(opt.step.value) == step_before + 1,
                'nnxopt.step', lambda: dict(t=t, before=step_before, after=repr(opt.step.value)))
      after = model_snapshot(variables)
      # selected == reference
      want = dict(snap(ref_params))
      bad = [(repr(p), snap_diff([(p, after[p])], [(p, want[p])])) for p in selected if after[p] != want[p]]
      ctx.check(not bad and len(want) == len(selected), 'nnxopt.params_vs_optax', lambda: dict(t=t, tx=kind, diff=bad[:3]))
      # everything else bit-identical
      changed = [repr(p) for p in unselected if after[p] != before[p]]
      ctx.check(not changed, 'nnxopt.outside_wrt_changed', lambda: dict(t=t, changed=changed[:8], wrt=wdesc))
      # Variable objects of the model are still the ones the user holds; graph structure unchanged
      still = model_variables(model)
      ctx.check([p for p, _ in still] == [p for p, _ in variables] and all(a[1] is b[1] for a, b in zip(still, variables) if a[0] in set(unselected)),
                'nnxopt.outside_wrt_changed:variable_replaced', lambda: dict(t=t))
      check_opt_state('', t)
    ctx.check(nnx.graphdef(model) == gd_before, 'nnxopt.outside_wrt_changed:graphdef', None)
    ctx.check(int(opt.step.value) == k, 'nnxopt.step:total', lambda: dict(step=repr(opt.step.value), k=k))
    if selected and unselected:
      ctx.event('nnxopt.partial_wrt')


def run_nnxts_case(ctx, i):
  import jax
  import jax.numpy as jnp
  import optax
  from flax import nnx
  from flax import struct
  rng = ctx.rng('nnxts', i)
  nprng = np.random.default_rng(rng.getrandbits(32))
  gkind = GRAPHS[(i + 1) % len(GRAPHS)]
  wdesc = subst([WRT[0], WRT[2], WRT[6], WRT[7], WRT[8]][(i // len(GRAPHS)) % 5], PC_KEYS[gkind])
  kinds = tx_kinds(ctx, TX_KINDS)
  kind = kinds[(i * 5 + i // 25 + rng.randint(0, 1)) % len(kinds)]
  k = 1 + (3 * i + i // 4) % 4
  step0 = [0, 0, 5][i % 3]
  subclass = (i % 2) == 1
  lr = rng.choice([0.1, 0.05, 0.3])
  desc = dict(graph=gkind, params_filter=wdesc, tx=kind, k=k, step0=step0, subclass=subclass, lr=lr)
  with ctx.case('nnxts', i, desc, nontrivial=bool(static_selection(gkind, wdesc))):
    if 'nnxts' not in _CLS:
      class TrainStateX(nnx.TrainState):
        other: nnx.State
        tag: str = struct.field(pytree_node=False, default='t0')
      _CLS['nnxts'] = TrainStateX
    model, variables, selected, ref_params = prepare_model(rng, nprng, gkind, wdesc)
    wrt = wrt_build(wdesc)
    graphdef, params, rest = nnx.split(model, wrt, ...)
    tx_real, tx_ref = make_tx(kind, lr), make_tx(kind, lr)
    before0 = model_snapshot(variables)
    if subclass:
      state = _CLS['nnxts'].create(graphdef, params=params, tx=tx_real, step=step0, other=rest)
    else:
      state = nnx.TrainState.create(graphdef, params=params, tx=tx_real, step=step0)
    ctx.op('nnx.TrainState.create')
    names = list(state.__dataclass_fields__)
    ref_state = tx_ref.init(ref_params)
    d0 = snap_diff(snap(_plain(state.opt_state)), snap(ref_state))
    ctx.check(d0 is None, 'nnxts.opt_state_vs_optax:init', lambda: d0)
    ctx.check(int(state.step) == step0, 'nnxts.step:create', lambda: dict(step=repr(state.step)))
    for t in range(k):
      g_ref = like(ref_params, nprng, rng.choice([1.0, 0.2, 3.0]))
      g_state = grads_state(variables, selected, g_ref)
      old = state
      old_snap = field_snapshot(old, names)
      kw = dict(tag='t%d' % (t + 1)) if subclass and t % 2 == 0 else {}
      state = old.apply_gradients(g_state, **kw)
      ctx.op('nnx.TrainState.apply_gradients')
      ref_params, ref_state = ref_step(optax, tx_ref, g_ref, ref_state, ref_params, {})
      ctx.check(state is not old and type(state) is type(old) and state.tx is old.tx and state.graphdef is old.graphdef,
                'nnxts.new_instance', lambda: dict(same=state is old))
      why = field_snapshot_intact(old, names, old_snap)
      ctx.check(why is None, 'nnxts.old_instance_mutated', lambda: dict(t=t, why=why))
      ctx.check(hasattr(state.step, 'dtype') and state.step.dtype == old.step.dtype and state.step.shape == ()
                and int(state.step) == int(old.step) + 1, 'nnxts.step', lambda: dict(old=repr(old.step), new=repr(state.step)))
      ctx.check(isinstance(state.params, nnx.State), 'nnxts.params_vs_optax:type', lambda: type(state.params).__name__)
      d = snap_diff(snap(_plain(state.params)), snap(ref_params))
      ctx.check(d is None, 'nnxts.params_vs_optax', lambda: dict(t=t, tx=kind, diff=d))
      # Variable types/metadata of the params State survive the step
      ctx.check(jax.tree.structure(state.params) == jax.tree.structure(old.params), 'nnxts.params_vs_optax:structure', None)
      d3 = snap_diff(snap(_plain(state.opt_state)), snap(ref_state))
      ctx.check(d3 is None, 'nnxts.opt_state_vs_optax', lambda: dict(t=t, tx=kind, diff=d3))
      if subclass:
        ctx.check(state.other is old.other and state.tag == (kw.get('tag', old.tag)), 'nnxts.kwargs_replace', lambda: dict(tag=state.tag))
    # the live model the state was split from is not touched by the functional API
    ctx.check(model_snapshot(variables) == before0, 'nnxts.model_changed', None)
    ctx.check(int(state.step) == step0 + k, 'nnxts.step:total', lambda: dict(step=repr(state.step)))


# ---------------------------------------------------------------------------------------------
# (c) metrics

METRIC_KINDS = ['avg1', 'avg2', 'avg3_py', 'avg_int', 'wf1', 'wf2', 'wf_py', 'acc_mc', 'acc_mc3', 'acc_bin', 'acc_bin2', 'multi',
                'avg_f16', 'wf_f16', 'avg_bigint', 'avg_np64', 'wf_np64']
N_MAX = 6


def gen_stream(kind, nprng, n, variant):
  """n items; an item is a dict of per-example numpy arrays (leading axis added when batched)."""
  items = []
  thr = [0.5, 0.0, -0.25][variant % 3]
  for j in range(n):
    it = {}
    if kind in ('avg1', 'wf1', 'avg3_py', 'wf_py'):
      it['values'] = np.float32(np.round(nprng.uniform(-4, 4), 3)) if variant % 2 else np.float32(nprng.integers(-32, 32) / 8.0)
    elif kind == 'avg_int':
      it['values'] = np.int32(nprng.integers(-5, 9))
    elif kind in ('avg_f16', 'wf_f16'):
      # half-precision values whose batch sums leave the float16 range (all exactly representable: multiples of 32 below 32768)
      it['values'] = (nprng.integers(500, 1000, (3,)) * 32).astype(np.float16)
    elif kind in ('avg_np64', 'wf_np64'):
      # host-side NumPy values in 64-bit integers outside the int32 range (nanosecond timings, byte counts)
      dt = [np.int64, np.uint64][variant % 2]
      it['values'] = nprng.integers(2 ** 31 + 5, 2 ** 32 - 5, (2,)).astype(dt)
    elif kind == 'avg_bigint':
      it['values'] = nprng.integers(2 ** 29, 2 ** 30, (2,)).astype(np.int32)
    elif kind in ('avg2', 'wf2'):
      shape = [(3,), (2, 2), (1, 4)][variant % 3]
      it['values'] = nprng.uniform(-4, 4, shape).astype(np.float32)
    elif kind in ('acc_mc', 'acc_mc3', 'multi'):
      # acc_mc3: per-example logits (t, C); the square variant makes an argmax over the wrong axis shape-compatible
      shape = (3,) if kind != 'acc_mc3' else [(2, 4), (3, 3)][variant % 2]
      lg = nprng.permutation(shape[-1] * 5)[: shape[-1]].astype(np.float32)  # distinct entries: no argmax ties
      if kind == 'acc_mc3':
        lg = np.stack([lg] + [nprng.permutation(20)[:shape[-1]].astype(np.float32) for _ in range(shape[0] - 1)])
      it['logits'] = lg + np.float32(nprng.integers(-3, 3))
      it['labels'] = nprng.integers(0, shape[-1], shape[:-1]).astype(np.int32)
      # bias towards ~50% correct so that accuracy is neither 0 nor 1
      if nprng.random() < 0.5:
        it['labels'] = np.argmax(it['logits'], -1).astype(np.int32)
      if kind == 'multi':
        it['values'] = np.float32(np.round(nprng.uniform(-4, 4), 3))
    elif kind in ('acc_bin', 'acc_bin2'):
      shape = () if kind == 'acc_bin' else (2,)
      lg = nprng.uniform(-1, 1.5, shape).astype(np.float32)
      at = nprng.random(shape) < 0.3
      it['logits'] = np.where(at, np.float32(thr), lg).astype(np.float32)  # exactly-at-threshold logits are positive
      it['labels'] = nprng.integers(0, 2, shape).astype(np.int32)
    items.append(it)
  return items, thr


def make_metric(kind, thr, variant):
  from flax import nnx
  if kind in ('avg1', 'avg2', 'avg_int', 'avg_f16', 'avg_bigint', 'avg_np64'):
    return nnx.metrics.Average()
  if kind in ('wf_f16', 'wf_np64'):
    return nnx.metrics.Welford()
  if kind == 'avg3_py':
    return nnx.metrics.Average('loss')
  if kind in ('wf1', 'wf2'):
    return nnx.metrics.Welford()
  if kind == 'wf_py':
    return nnx.metrics.Welford('loss')
  if kind in ('acc_mc', 'acc_mc3'):
    return nnx.metrics.Accuracy()
  if kind in ('acc_bin', 'acc_bin2'):
    return nnx.metrics.Accuracy(threshold=thr)
  if kind == 'multi':
    return nnx.MultiMetric(accuracy=nnx.metrics.Accuracy(), loss=nnx.metrics.Average(), stats=nnx.metrics.Welford('values'),
                           acc2=nnx.metrics.Accuracy())
  raise ValueError(kind)


def feed(kind, metric, batch, variant, bi):
  """One real update() call with a batch (list of items)."""
  import jax.numpy as jnp
  stack = lambda name: np.stack([it[name] for it in batch])  # noqa: E731
  if kind in ('avg3_py', 'wf_py'):
    if len(batch) == 1:
      v = batch[0]['values']
      mode = (bi + variant) % 4
      # python float, python int (when integral), 0-d array, 1-element array
      if mode == 0:
        val = float(v)
      elif mode == 1 and float(v) == int(v):
        val = int(v)
      elif mode == 2:
        val = jnp.asarray(v)
      else:
        val = jnp.asarray([v])
    else:
      val = jnp.asarray(stack('values'))
    metric.update(loss=val, ignored=123)
    return
  if kind in ('avg_np64', 'wf_np64'):
    metric.update(values=stack('values'))      # the NumPy array itself, as a host-side logging loop passes it
    return
  if kind in ('avg1', 'avg2', 'avg_int', 'wf1', 'wf2', 'avg_f16', 'wf_f16', 'avg_bigint'):
    metric.update(values=jnp.asarray(stack('values')))
    return
  labels = stack('labels')
  labels = labels.astype(np.int64) if (bi + variant) % 3 == 1 else jnp.asarray(labels)  # numpy int64 labels are documented as accepted
  logits = jnp.asarray(stack('logits'))
  if kind == 'multi':
    metric.update(logits=logits, labels=labels, values=jnp.asarray(stack('values')))
  else:
    metric.update(logits=logits, labels=labels)


def ref_stat(kind, items, thr):
  """float64 NumPy statistic of the concatenated stream -> dict name -> float (nan when undefined)."""
  def avg(name):
    if not items:
      return float('nan')
    return float(np.mean(np.concatenate([np.asarray(it[name], np.float64).ravel() for it in items])))

  def welford(name):
    if not items:
      return dict(mean=0.0, std=float('nan'), sem=float('nan'))  # documented: mean=0, nan, nan on an empty stream
    x = np.concatenate([np.asarray(it[name], np.float64).ravel() for it in items])
    sd = float(np.sqrt(np.mean((x - x.mean()) ** 2)))   # population variance (docstring example: [1,2,3,4] -> 1.118034)
    return dict(mean=float(x.mean()), std=sd, sem=sd / float(np.sqrt(x.size)))

  def acc_mc():
    if not items:
      return float('nan')
    hits = np.concatenate([(np.argmax(np.asarray(it['logits'], np.float64), axis=-1) == it['labels']).ravel() for it in items])
    return float(np.mean(hits))

  def acc_bin():
    if not items:
      return float('nan')
    hits = np.concatenate([((np.asarray(it['logits']) >= np.float32(thr)) == (it['labels'] > 0)).ravel() for it in items])
    return float(np.mean(hits))

  if kind in ('avg1', 'avg2', 'avg3_py', 'avg_int', 'avg_f16', 'avg_bigint', 'avg_np64'):
    return dict(avg=avg('values'))
  if kind in ('wf1', 'wf2', 'wf_py', 'wf_f16', 'wf_np64'):
    return welford('values')
  if kind in ('acc_mc', 'acc_mc3'):
    return dict(acc=acc_mc())
  if kind in ('acc_bin', 'acc_bin2'):
    return dict(acc=acc_bin())
  if kind == 'multi':
    w = welford('values')
    return dict(accuracy=acc_mc(), loss=avg('values'), acc2=acc_mc(), **{'stats.' + k: v for k, v in w.items()})
  raise ValueError(kind)


def extract(kind, res):
  def wf(s):
    return dict(mean=s.mean, std=s.standard_deviation, sem=s.standard_error_of_mean)
  if kind in ('avg1', 'avg2', 'avg3_py', 'avg_int', 'avg_f16', 'avg_bigint', 'avg_np64'):
    return dict(avg=res)
  if kind in ('wf1', 'wf2', 'wf_py', 'wf_f16', 'wf_np64'):
    return wf(res)
  if kind in ('acc_mc', 'acc_mc3', 'acc_bin', 'acc_bin2'):
    return dict(acc=res)
  if kind == 'multi':
    out = dict(accuracy=res['accuracy'], loss=res['loss'], acc2=res['acc2'])
    out.update({'stats.' + k: v for k, v in wf(res['stats']).items()})
    out['__keys__'] = list(res.keys())
    return out
  raise ValueError(kind)


def close(got, want, tol):
  """got: dict of arrays, want: dict of floats."""
  bad = {}
  for k, w in want.items():
    g = got.get(k)
    if g is None:
      bad[k] = ('missing', w)
      continue
    g = np.asarray(g)
    if g.shape != () or not np.allclose(np.float64(g), w, equal_nan=True, **tol):
      bad[k] = (np.asarray(g, np.float64).tolist(), w)
  return bad


def same_result(a, b):
  """Results equal including NaNs and dtypes (reset restores the *initial result*)."""
  ka = [k for k in a if k != '__keys__']
  if ka != [k for k in b if k != '__keys__'] or a.get('__keys__') != b.get('__keys__'):
    return False
  for k in ka:
    x, y = np.asarray(a[k]), np.asarray(b[k])
    if x.dtype != y.dtype or x.shape != y.shape or not np.array_equal(x, y, equal_nan=True):
      return False
  return True


MECH = {'avg1': 'metric.average', 'avg2': 'metric.average:multidim', 'avg3_py': 'metric.average:python_scalars',
        'avg_int': 'metric.average:int_values', 'wf1': 'metric.welford', 'wf2': 'metric.welford:multidim',
        'wf_py': 'metric.welford:python_scalars', 'acc_mc': 'metric.accuracy:multiclass',
        'acc_mc3': 'metric.accuracy:multiclass_extra_dims', 'acc_bin': 'metric.accuracy:binary',
        'acc_bin2': 'metric.accuracy:binary_extra_dims', 'multi': 'metric.multimetric',
        'avg_f16': 'metric.average:value_dtype_accumulation', 'wf_f16': 'metric.welford:value_dtype_accumulation',
        'avg_bigint': 'metric.average:value_dtype_accumulation', 'avg_np64': 'metric.average:numpy_int64_values',
        'wf_np64': 'metric.welford:numpy_int64_values'}


def run_ts_odd_trees(ctx, i):
  """Parameter trees that are not dicts: a bare array, a list / tuple of NumPy or JAX arrays. flax.training TrainState does what
  tx.update + optax.apply_updates by hand does on them."""
  import jax
  import jax.numpy as jnp
  import optax
  from flax.training import train_state
  kind = ['bare_jax', 'bare_numpy', 'list_numpy', 'tuple_jax', 'list_numpy_nested', 'dict_control'][i % 6]
  tx_name = ['sgd', 'adam'][(i // 6) % 2]
  desc = dict(params=kind, tx=tx_name)
  with ctx.case('ts_odd_trees', i, desc, nontrivial=kind != 'dict_control'):
    nr = np.random.default_rng(i)
    a, b = nr.normal(size=(3,)).astype(np.float32), nr.normal(size=(2, 2)).astype(np.float32)
    params = {'bare_jax': jnp.asarray(a), 'bare_numpy': a, 'list_numpy': [a, b], 'tuple_jax': (jnp.asarray(a), jnp.asarray(b)),
              'list_numpy_nested': [a, [b, a * 2]], 'dict_control': {'a': a, 'b': b}}[kind]
    tx = optax.sgd(0.1) if tx_name == 'sgd' else optax.adam(1e-2)
    try:
      st = train_state.TrainState.create(apply_fn=None, params=params, tx=tx)
      ref_p, ref_s = params, tx.init(params)
      for t in range(2):
        g = jax.tree_util.tree_map(lambda x: jnp.asarray(x) * 0.5 + t, params)
        st = st.apply_gradients(grads=g)
        upd, ref_s = tx.update(g, ref_s, ref_p)
        ref_p = optax.apply_updates(ref_p, upd)
    except Exception as e:  # noqa: BLE001
      ctx.check(False, 'ts.params_vs_optax:non_dict_parameter_tree', dict(case=desc, error=repr(e)[:200]))
      return
    ctx.op('training.TrainState(non-dict parameter tree)')
    gl, wl = jax.tree_util.tree_leaves(st.params), jax.tree_util.tree_leaves(ref_p)
    ok = jax.tree_util.tree_structure(st.params) == jax.tree_util.tree_structure(ref_p) and all(np.allclose(x, y, rtol=1e-6, atol=1e-7) for x, y in zip(gl, wl))
    ctx.check(ok and int(st.step) == 2, 'ts.params_vs_optax:non_dict_parameter_tree', lambda: dict(case=desc))


def run_metric_empty_case(ctx, i):
  """Zero-size update() calls between real ones: the values seen are the same, so the statistic is the same (an evaluation
  loop whose last shard is empty, a filtered batch with no survivors)."""
  from vf import core
  import jax.numpy as jnp
  kind = ['avg1', 'wf1', 'avg2', 'wf2', 'acc_mc', 'acc_bin2', 'multi'][i % 7]
  sid = (i // 7) % 4
  n = 2 + (i // 28) % 3
  rng = ctx.rng('metric-empty', i)
  nprng = np.random.default_rng(rng.getrandbits(32))
  items, thr = gen_stream(kind, nprng, n, sid)
  comp = list(list(compositions(n))[rng.randrange(2 ** (n - 1))])
  where = sorted(set(rng.sample(range(len(comp) + 1), rng.randint(1, len(comp) + 1))))   # positions that get an empty update before them
  desc = dict(kind=kind, stream=sid, n=n, composition=comp, empty_before=where)
  with ctx.case('metric_empty', i, desc, nontrivial=True):
    metric = make_metric(kind, thr, sid)

    def feed_empty():
      kw = {}
      for name in ('values', 'logits', 'labels'):
        if name in items[0]:
          a = np.asarray(items[0][name])
          kw[name] = jnp.zeros((0,) + a.shape, a.dtype)
      if kind != 'multi':
        kw = {k: v for k, v in kw.items() if k in (('values',) if kind in ('avg1', 'avg2', 'wf1', 'wf2') else ('logits', 'labels'))}
      metric.update(**kw)
      ctx.op('metric.update(empty batch)')

    pos = 0
    for bi, b in enumerate(comp):
      if bi in where:
        feed_empty()
      feed(kind, metric, items[pos:pos + b], sid, bi)
      pos += b
    if len(comp) in where:
      feed_empty()
    got = extract(kind, metric.compute())
    bad = close(got, ref_stat(kind, items, thr), core.TOL_FORMULA)
    ctx.check(not bad, MECH[kind].split(':')[0] + ':empty_batch_changes_result', lambda: dict(diff=bad, case=desc))


def run_metric_case(ctx, idx, kind, sid, comp):
  from vf import core
  n = sum(comp)
  # the stream depends on (kind, sid, n) only: every composition of the same n sees the same items
  rng = ctx.rng('metric-stream', kind, sid, n)
  nprng = np.random.default_rng(rng.getrandbits(32))
  variant = sid
  items, thr = gen_stream(kind, nprng, n, variant)
  tail_n = 1 + (sid + len(comp)) % 3
  tail, _ = gen_stream(kind, np.random.default_rng(rng.getrandbits(32)), tail_n, variant)
  desc = dict(kind=kind, stream=sid, n=n, composition=list(comp))
  with ctx.case('metric', idx, desc, nontrivial=len(comp) >= 2):
    metric = make_metric(kind, thr, variant)
    initial = extract(kind, metric.compute())
    ctx.op('metric.compute')
    bad0 = close(initial, ref_stat(kind, [], thr), core.TOL_FORMULA)
    ctx.check(not bad0, MECH[kind].split(':')[0] + ':empty_stream', lambda: dict(diff=bad0))
    pos = 0
    for bi, b in enumerate(comp):
      feed(kind, metric, items[pos:pos + b], variant, bi)
      ctx.op('metric.update')
      pos += b
    got = extract(kind, metric.compute())
    want = ref_stat(kind, items, thr)
    bad = close(got, want, core.TOL_FORMULA)
    ctx.check(not bad, MECH[kind], lambda: dict(diff=bad, items=[{k: np.asarray(v).tolist() for k, v in it.items()} for it in items][:6]))
    if kind == 'multi':
      ctx.check(got.get('__keys__') == ['accuracy', 'loss', 'stats', 'acc2'], 'metric.multimetric:keys', lambda: got.get('__keys__'))
    # reset -> initial result; whatever was accumulated before - a diverged epoch (inf / nan loss values, a float32 sum overflow) too
    count_dtype0 = metric.count.value.dtype if hasattr(metric, 'count') else None
    if kind in ('avg1', 'avg2', 'wf1', 'wf2') and (sid + len(comp)) % 3 == 0:
      import jax.numpy as jnp
      bad = [jnp.asarray([np.inf, 1.0]), jnp.asarray([np.nan]), jnp.asarray([3e38, 3e38], jnp.float32)][(sid + n) % 3]
      metric.update(values=bad)
      ctx.event('metric.nonfinite_epoch_before_reset')
    metric.reset()
    ctx.op('metric.reset')
    if count_dtype0 is not None:
      # the state after reset has the types of a fresh metric (a metric that is reset inside nnx.cond / a scan carry, or under
      # nnx.jit, must not change the avals of its state)
      ctx.check(metric.count.value.dtype == count_dtype0, 'metric.reset:state_dtype_changed',
                lambda: dict(kind=kind, before=str(count_dtype0), after=str(metric.count.value.dtype)))
    after = extract(kind, metric.compute())
    ctx.check(same_result(after, initial), 'metric.reset', lambda: dict(kind=kind, after={k: repr(v) for k, v in after.items()},
                                                                          initial={k: repr(v) for k, v in initial.items()}))
    # values seen since the last reset only
    pos = 0
    for bi, b in enumerate(list(compositions(tail_n))[(sid + n) % (2 ** (tail_n - 1))]):
      feed(kind, metric, tail[pos:pos + b], variant + 1, bi)
      pos += b
    got2 = extract(kind, metric.compute())
    bad2 = close(got2, ref_stat(kind, tail, thr), core.TOL_FORMULA)
    ctx.check(not bad2, 'metric.after_reset', lambda: dict(kind=kind, diff=bad2))
    # a second reset is still the initial result
    metric.reset()
    ctx.check(same_result(extract(kind, metric.compute()), initial), 'metric.reset', lambda: dict(kind=kind, second=True))


# ---------------------------------------------------------------------------------------------


def run_halfprec_case(ctx, i):
  """All three wrappers on half-precision parameters with transformations whose updates / state are wider than the
  parameters (adam mu_dtype=float32, momentum accumulator float32, float32 gradients): params, dtypes and optimizer state must
  equal the hand-written tx.update + optax.apply_updates loop bit for bit."""
  import jax
  import jax.numpy as jnp
  import optax
  from flax import nnx
  from flax.training import train_state
  rng = ctx.rng('halfprec', i)
  nprng = np.random.default_rng(rng.getrandbits(32))
  pdt = [jnp.bfloat16, jnp.float16, jnp.float32][i % 3]
  gdt = rng.choice([pdt, jnp.float32])
  tx_name = ['adam_mu_f32', 'momentum_acc_f32', 'sgd', 'adamw_mu_f32', 'chain_clip_adam_f32'][i % 5]
  wrapper = ['linen.TrainState', 'nnx.Optimizer', 'nnx.TrainState'][(i // 3) % 3]
  steps = rng.randint(1, 3)

  def mk():
    return {'adam_mu_f32': lambda: optax.adam(1e-2, mu_dtype=jnp.float32), 'momentum_acc_f32': lambda: optax.sgd(1e-2, momentum=0.9, accumulator_dtype=jnp.float32),
            'sgd': lambda: optax.sgd(1e-2), 'adamw_mu_f32': lambda: optax.adamw(1e-2, mu_dtype=jnp.float32),
            'chain_clip_adam_f32': lambda: optax.chain(optax.clip_by_global_norm(1.0), optax.adam(1e-2, mu_dtype=jnp.float32))}[tx_name]()

  desc = dict(wrapper=wrapper, param_dtype=str(jnp.dtype(pdt)), grad_dtype=str(jnp.dtype(gdt)), tx=tx_name, steps=steps)
  with ctx.case('halfprec', i, desc, nontrivial=jnp.dtype(pdt) != jnp.float32):
    params = {'dense': {'kernel': jnp.asarray(nprng.standard_normal((2, 3)), pdt), 'bias': jnp.asarray(nprng.standard_normal((3,)), pdt)}}
    grads_seq = [jax.tree.map(lambda p: jnp.asarray(nprng.standard_normal(p.shape), gdt), params) for _ in range(steps)]
    # reference loop
    tx_r = mk()
    p_r, o_r = params, tx_r.init(params)
    for g in grads_seq:
      u, o_r = tx_r.update(g, o_r, p_r)
      p_r = optax.apply_updates(p_r, u)
    if wrapper == 'linen.TrainState':
      st = train_state.TrainState.create(apply_fn=lambda *a: None, params=params, tx=mk())
      for g in grads_seq:
        st = st.apply_gradients(grads=g)
      got_p, got_o = st.params, st.opt_state
    elif wrapper == 'nnx.TrainState':
      class M(nnx.Module):
        def __init__(self):
          self.dense = nnx.Dict(kernel=nnx.Param(params['dense']['kernel']), bias=nnx.Param(params['dense']['bias']))
      gd, pstate = nnx.split(M(), nnx.Param)
      st = nnx.TrainState.create(gd, params=pstate, tx=mk())
      for g in grads_seq:
        gs = jax.tree.map(lambda x: x, pstate)
        gs = nnx.State({'dense': {'kernel': nnx.VariableState(type=nnx.Param, value=g['dense']['kernel']), 'bias': nnx.VariableState(type=nnx.Param, value=g['dense']['bias'])}})
        st = st.apply_gradients(grads=gs)
      got_p = {'dense': {k: st.params['dense'][k].value for k in ('kernel', 'bias')}}
      got_o = None
    else:
      class M(nnx.Module):
        def __init__(self):
          self.dense = nnx.Dict(kernel=nnx.Param(params['dense']['kernel']), bias=nnx.Param(params['dense']['bias']))
      model = M()
      opt = nnx.Optimizer(model, mk())
      for g in grads_seq:
        gs = nnx.State({'dense': {'kernel': nnx.VariableState(type=nnx.Param, value=g['dense']['kernel']), 'bias': nnx.VariableState(type=nnx.Param, value=g['dense']['bias'])}})
        opt.update(gs)
      got_p = {'dense': {k: model.dense[k].value for k in ('kernel', 'bias')}}
      got_o = None
    ctx.op(wrapper + '(half precision)')
    d = snap_diff(snap(got_p), snap(p_r))
    ctx.check(d is None, 'halfprec.params:' + wrapper, lambda: dict(case=desc, diff=d))
    if got_o is not None:
      d2 = snap_diff(snap(got_o), snap(o_r))
      ctx.check(d2 is None, 'halfprec.opt_state:' + wrapper, lambda: dict(case=desc, diff=d2))


def _round_hook(var, value):
  import jax.numpy as jnp
  return jnp.round(value * 4.0) / 4.0


def _nonneg_hook(var, value):
  import jax.numpy as jnp
  return jnp.maximum(value, 0.0)


def run_hooked_opt_case(ctx, i):
  """Model Variables that carry value hooks (on_set_value / on_get_value as metadata or on a subclass): nnx.Optimizer.update still
  changes parameters and optimizer state exactly as optax's update + apply_updates on the stored values - the optimizer's own
  moment Variables copy the weight's metadata, a weight hook must not be applied to them."""
  import jax
  import jax.numpy as jnp
  import optax
  from flax import nnx
  hook = ['round_meta', 'nonneg_meta', 'subclass_set', 'get_meta'][i % 4]
  txk = ['momentum', 'adam', 'adamw', 'sgd'][(i // 4) % 4]
  steps = 2 + (i // 16) % 3
  desc = dict(hook=hook, tx=txk, steps=steps)
  with ctx.case('hooked_opt', i, desc, nontrivial=True):
    class Proj(nnx.Param):
      def on_set_value(self, value):
        return jnp.maximum(value, -0.25)

    raw0 = jnp.asarray(np.random.default_rng(i).uniform(-1, 1, (4,)).astype(np.float32))

    class M(nnx.Module):
      def __init__(self):
        if hook == 'subclass_set':
          self.w = Proj(raw0)
        else:
          md = {'round_meta': dict(on_set_value=_round_hook), 'nonneg_meta': dict(on_set_value=_nonneg_hook),
                'get_meta': dict(on_get_value=lambda var, value: value * 2.0)}[hook]
          self.w = nnx.Param(raw0, **md)
        self.b = nnx.Param(jnp.asarray([0.5]))

    m = M()
    tx = {'momentum': optax.sgd(0.1, momentum=0.9), 'adam': optax.adam(0.05), 'adamw': optax.adamw(0.05, weight_decay=0.1), 'sgd': optax.sgd(0.1)}[txk]
    opt = nnx.Optimizer(m, tx)
    p = {'b': m.b.raw_value, 'w': m.w.raw_value}
    st = tx.init(p)
    for k in range(steps):
      g = {'b': jnp.asarray([0.3 * (k + 1)]), 'w': jnp.asarray(np.random.default_rng(100 * i + k).uniform(-1, 1, (4,)).astype(np.float32))}
      grads = nnx.state(m, nnx.Param)
      grads = jax.tree.map(lambda x: x, grads)
      grads['w'].value, grads['b'].value = g['w'], g['b']
      opt.update(grads)
      ctx.op('nnx.Optimizer.update(hooked Variables)')
      u, st = tx.update(g, st, p)
      p = optax.apply_updates(p, u)
      ok_p = np.array_equal(np.asarray(m.w.raw_value), np.asarray(p['w'])) and np.array_equal(np.asarray(m.b.raw_value), np.asarray(p['b']))
      ctx.check(ok_p, 'hooked.params:nnx.Optimizer', lambda: dict(case=desc, step=k, got=np.asarray(m.w.raw_value).tolist(), want=np.asarray(p['w']).tolist()))
      got_leaves = [np.asarray(x) for x in jax.tree_util.tree_leaves(nnx.state(opt.opt_state))]
      want_leaves = [np.asarray(x) for x in jax.tree_util.tree_leaves(st)]
      ok_s = len(got_leaves) == len(want_leaves) and all(a.shape == b.shape and np.array_equal(a, b) for a, b in zip(got_leaves, want_leaves))
      ctx.check(ok_s, 'hooked.opt_state:nnx.Optimizer', lambda: dict(case=desc, step=k))
      ctx.check(int(opt.step.value) == k + 1, 'hooked.step:nnx.Optimizer', lambda: dict(case=desc, step=k))


BIG_TOL = dict(rtol=2e-3, atol=2e-4)


def big_splits(n, j):
  """Partitions of n stream items into update() calls whose sizes make count products cross 2**31 / 2**32."""
  third = n // 3
  return [[n], [n // 2, n - n // 2], [50000, n - 50000], [third, third, n - 2 * third], [1, n - 1], [n - 1, 1],
          [n - 70000, 70000], [n // 4] * 3 + [n - 3 * (n // 4)], [65536, n - 65536], [4096] * (n // 4096) + ([n % 4096] if n % 4096 else [])][j]


def run_bigbatch_case(ctx, i):
  """Independence of batching at realistic evaluation sizes (1e5 examples per update call): the small-stream enumeration
  cannot reach integer-width effects in count arithmetic (seeded change C17-b). Non-stationary stream: a drifting mean makes
  the between-batch term of the parallel variance formula matter."""
  import jax.numpy as jnp
  from flax import nnx
  kind = ['wf', 'avg', 'acc', 'multi'][i % 4]
  sid = (i // 4) % 3
  j = (i // 12) % 10
  after_reset = (i // 120) % 2 == 1
  n = [120000, 131072, 100003][sid]
  split = big_splits(n, j)
  assert sum(split) == n and all(b > 0 for b in split)
  desc = dict(stream='big', kind=kind, n=n, split=split if len(split) <= 6 else '%dx%d' % (len(split), split[0]), after_reset=after_reset)
  with ctx.case('bigbatch', i, desc, nontrivial=len(split) >= 2):
    nprng = np.random.default_rng(ctx.rng('bigbatch', kind, sid).getrandbits(32))
    t = np.arange(n) / n
    values = (3.0 * t - 1.0 + 0.8 * np.sin(7 * t) + nprng.normal(0, 0.3, n)).astype(np.float32)
    logits = nprng.normal(0, 1, (n, 3)).astype(np.float32)
    labels = np.where(t < 0.5, np.argmax(logits, -1), nprng.integers(0, 3, n)).astype(np.int32)
    if kind == 'wf':
      metric = nnx.metrics.Welford()
    elif kind == 'avg':
      metric = nnx.metrics.Average()
    elif kind == 'acc':
      metric = nnx.metrics.Accuracy()
    else:
      metric = nnx.MultiMetric(accuracy=nnx.metrics.Accuracy(), loss=nnx.metrics.Average(), stats=nnx.metrics.Welford('values'))
    if after_reset:
      # reset() re-creates the counters (observed: with another integer dtype) - the property must hold afterwards as well
      metric.update(values=jnp.asarray(values[:7]), logits=jnp.asarray(logits[:7]), labels=jnp.asarray(labels[:7]))
      metric.reset()
    pos = 0
    for b in split:
      sl = slice(pos, pos + b)
      metric.update(values=jnp.asarray(values[sl]), logits=jnp.asarray(logits[sl]), labels=jnp.asarray(labels[sl]))
      ctx.op('metric.update')
      pos += b
    res = metric.compute()
    v64 = values.astype(np.float64)
    sd = float(np.sqrt(np.mean((v64 - v64.mean()) ** 2)))
    wf_want = dict(mean=float(v64.mean()), std=sd, sem=sd / float(np.sqrt(n)))
    acc_want = float(np.mean(np.argmax(logits, -1) == labels))
    wf_got = lambda s: dict(mean=s.mean, std=s.standard_deviation, sem=s.standard_error_of_mean)  # noqa: E731
    if kind == 'wf':
      got, want = wf_got(res), wf_want
    elif kind == 'avg':
      got, want = dict(avg=res), dict(avg=float(v64.mean()))
    elif kind == 'acc':
      got, want = dict(acc=res), dict(acc=acc_want)
    else:
      got = dict(accuracy=res['accuracy'], loss=res['loss'], **{'stats.' + k: v for k, v in wf_got(res['stats']).items()})
      want = dict(accuracy=acc_want, loss=float(v64.mean()), **{'stats.' + k: v for k, v in wf_want.items()})
    bad = close(got, want, BIG_TOL)
    mech = {'wf': 'metric.welford', 'avg': 'metric.average', 'acc': 'metric.accuracy', 'multi': 'metric.multimetric'}[kind]
    ctx.check(not bad, mech + ':large_batches', lambda: dict(case=desc, diff=bad))


def run(ctx):
  quick = ctx.tier == 'quick'
  for i in ctx.indices(45 if quick else 450, 'halfprec'):
    run_halfprec_case(ctx, i)
  for i in ctx.indices(32 if quick else 96, 'hooked_opt'):
    run_hooked_opt_case(ctx, i)
  for i in ctx.indices(120 if quick else 240, 'bigbatch'):
    run_bigbatch_case(ctx, i)
  n_ts = 660 if quick else 4000
  n_opt = 660 if quick else 4400
  n_nnxts = 200 if quick else 1500
  n_streams = 3 if quick else 16

  import time
  t0 = time.time()
  for i in ctx.indices(n_ts, 'ts'):
    run_ts_case(ctx, i)
  ctx.extra['cpu_s.ts'] = round(time.time() - t0, 1)
  t0 = time.time()
  for i in ctx.indices(n_opt, 'nnxopt'):
    run_nnxopt_case(ctx, i)
  ctx.extra['cpu_s.nnxopt'] = round(time.time() - t0, 1)
  t0 = time.time()
  for i in ctx.indices(n_nnxts, 'nnxts'):
    run_nnxts_case(ctx, i)
  ctx.extra['cpu_s.nnxts'] = round(time.time() - t0, 1)
  t0 = time.time()

  comps = [c for n in range(0, N_MAX + 1) for c in compositions(n)]
  assert len(comps) == 64
  cases = [(kind, sid, comp) for kind in METRIC_KINDS for sid in range(n_streams) for comp in comps]
  for idx, (kind, sid, comp) in ctx.items(cases, 'metric'):
    run_metric_case(ctx, idx, kind, sid, comp)
  ctx.exhaustive['metric.compositions_n<=%d' % N_MAX] = True
  for i in ctx.indices(12, 'ts_odd_trees'):
    run_ts_odd_trees(ctx, i)
  for i in ctx.indices(84 if quick else 336, 'metric_empty'):
    run_metric_empty_case(ctx, i)
  ctx.extra['cpu_s.metric'] = round(time.time() - t0, 1)
