"""C11 — checkpoint directory survives crashes; retention and step ordering are exact.

Monitor shapes: (a) retention reference model stepped alongside the real save_checkpoint calls (directory listing, latest,
restore of every retained step, overwrite/outdated errors), (b) crash-point enumeration: the last save of a history is
re-executed once per mutating file-system operation in a forked child that os._exit(137)s before that operation (plus torn
writes of the file flax writes itself); after each crash two recovery scripts run in fresh forks (retry the same step;
skip to a later step) and the resulting directory / latest / restored tree are checked against the model, (c) AsyncManager
saves with the worker thread delayed at each flax.io call vs the same saves done synchronously."""
import os
import shutil
import tempfile

LEVEL = 'fault_enumeration'
LEVEL_TEXT = ('Every Python-visible mutating file-system operation of the explored save calls is a crash point (exhaustive per '
              'history; torn writes at 4 prefix lengths of the msgpack file), for both storage back-ends (Orbax default and legacy '
              'msgpack) and both flax.io modes; each crash state is checked by three recovery runs (observe, retry-then-later, skip-to-'
              'later) against a 30-line retention model. Histories cover int/float/negative/exponent steps, keep 1-3, '
              'keep_every_n_steps, overwrite, prefixes.'
              ' Further streams: a worker that starts late while the caller overwrites the saved arrays in place, step 0'
              ' with keep_every_n_steps, two prefixes in one directory (nested prefixes: known finding K6).'
              ' Round e/f: sign_prefix (prefixes ending in -, + or . and non-normalised directory spellings).'
              ' Round g: a Fortran-ordered leaf in every saved tree.')
LEVEL_NOTE = ('Crashes are modelled at operation boundaries of the Python-visible file API plus torn writes of the legacy file; power-loss '
              'reordering below POSIX, tensorstore C++ writes inside Orbax and non-atomic GCS directory moves are out of reach. Prefixes '
              "ending in a sign/digit/dot and numerically equal steps with different spellings are ambiguous by construction and excluded.")
TECHNIQUE = 'runtime monitoring with fault injection: crash-point enumeration at the flax.io / audit-hook boundary + retention reference model + recovery history checker'
RULE = ('history = (backend, io mode, prefix, list of save ops (step, keep, keep_every_n_steps, overwrite)); the last save of each history is '
        'crashed at every operation index (and torn-write prefix); distinct = distinct (history, crash point, recovery path); non-trivial = '
        'history has >= 2 saves or the crash leaves a temp artefact.')
ASSUMPTIONS = ['os._exit before an operation models a process crash at that point (no fsync / power-loss model)',
               'forked children of a backend-free parent behave like fresh processes', 'vf.compat JAX aliases are faithful']
PLAN = {'quick': dict(workers=8, timeout_s=1200), 'thorough': dict(workers=14, timeout_s=3400)}
MIN_EVENTS = {'quick': {'crash_points': 60, 'oracle:crash.latest': 60, 'oracle:recovery.skip': 50, 'oracle:recovery.retry': 50,
                        'oracle:model.listing': 40, 'oracle:async.same_directory': 4},
              'thorough': {'crash_points': 1500, 'oracle:recovery.skip': 1200}}

TMP_MARKERS = ('.orbax-checkpoint-tmp',)


# ---------------------------------------------------------------------------------------------
# retention reference model (independent of checkpoints.py)


def fmt(prefix, step):
  return '%s%s' % (prefix, step)


def model_save(present, step, keep, keep_every, overwrite, backend):
  """present: set of steps (numbers). Returns (outcome, new_present). outcome in {'ok', 'rejected'}."""
  present = set(present)
  if not overwrite:
    if step in present:
      return 'rejected', present
    if backend == 'legacy' and present and step < max(present):
      return 'rejected', present
  present.add(step)
  if overwrite:
    present = {s for s in present if s <= step}
  order = sorted(present)
  if len(order) > keep:
    old, last_kept = order[:-keep], float('-inf')
    for s in old:
      if keep_every and (s - last_kept) >= keep_every:  # documented policy (tests/checkpoints_test.py test_keep): no special case for step 0
        last_kept = s
        continue
      present.discard(s)
  return 'ok', present


# ---------------------------------------------------------------------------------------------
# things that run inside forked children


def tree_for(step):
  import numpy as np
  v = float(step)
  # 'kernel' is a transposed weight (Fortran-ordered, as w.T of a converted checkpoint is): element (r, c) = 10 r + c + tag
  return {'w': np.full((3,), v, np.float32), 'nested': {'step': np.asarray(v, np.float64), 'ids': np.arange(4, dtype=np.int32) + _tag(v)},
          'kernel': _kernel(v)}


def _kernel(v):
  import numpy as np
  k = (np.arange(3, dtype=np.float32)[:, None] + 10.0 * np.arange(2, dtype=np.float32)[None, :] + _tag(v)).T    # shape (2, 3), F-contiguous
  assert k.flags.f_contiguous and not k.flags.c_contiguous
  return k


def _tag(v):
  return int(abs(v) * 8) % 1000 if abs(v) < 1e9 else 777


def tree_step(tree):
  """Identify which step a restored tree belongs to and that it is complete and uncorrupted; returns step or raises."""
  import numpy as np
  v = float(np.asarray(tree['nested']['step']))
  ok = (np.array_equal(np.asarray(tree['w']), np.full((3,), v, np.float32)) and
        np.array_equal(np.asarray(tree['nested']['ids']), np.arange(4, dtype=np.int32) + _tag(v)) and set(tree) == {'w', 'nested', 'kernel'} and
        np.asarray(tree['kernel']).shape == (2, 3) and np.array_equal(np.asarray(tree['kernel']), np.asarray(_kernel(v))))
  if not ok:
    raise ValueError('corrupt tree: %r' % (tree,))
  return v


def configure(backend, io_mode):
  import warnings
  import flax
  from flax import io as fio
  warnings.simplefilter('ignore')
  flax.config.update('flax_use_orbax_checkpointing', backend == 'orbax')
  fio.set_mode(fio.BackendMode.TF if io_mode == 'TF' else fio.BackendMode.DEFAULT)


def listing(d, prefix):
  """(checkpoint names, temp artefact names) as raw directory entries."""
  names = sorted(os.listdir(d)) if os.path.isdir(d) else []
  ck = [n for n in names if n.startswith(prefix) and n != prefix + 'tmp' and not any(m in n for m in TMP_MARKERS)]
  tmp = [n for n in names if n.startswith(prefix) and n not in ck]
  return ck, tmp


def do_save(d, hist, op):
  from flax.training import checkpoints
  from flax import errors
  step, keep, keep_every, overwrite = op
  try:
    checkpoints.save_checkpoint(d, tree_for(step), step, prefix=hist['prefix'], keep=keep, overwrite=overwrite,
                                keep_every_n_steps=keep_every)
    return 'ok'
  except errors.InvalidCheckpointError:
    return 'rejected:InvalidCheckpointError'
  except ValueError as e:
    if 'already exists' in str(e):
      return 'rejected:ValueError'
    return 'error:%r' % (e,)
  except Exception as e:  # noqa: BLE001
    return 'error:%r' % (e,)


def observe(d, hist):
  """latest / restore as a fresh process would see them."""
  from flax.training import checkpoints
  ck, tmp = listing(d, hist['prefix'])
  out = dict(listing=ck, tmp=tmp)
  try:
    lp = checkpoints.latest_checkpoint(d, prefix=hist['prefix'])
    out['latest'] = None if lp is None else os.path.basename(lp)
  except Exception as e:  # noqa: BLE001
    out['latest_error'] = repr(e)
  try:
    r = checkpoints.restore_checkpoint(d, None, prefix=hist['prefix'])
    out['restored_step'] = None if r is None else tree_step(r)
  except Exception as e:  # noqa: BLE001
    out['restore_error'] = repr(e)[:400]
  return out


def restore_each(d, hist, steps):
  from flax.training import checkpoints
  bad = []
  for s in steps:
    try:
      r = checkpoints.restore_checkpoint(d, None, step=s, prefix=hist['prefix'])
      if tree_step(r) != float(s):
        bad.append([s, 'restored step %r' % tree_step(r)])
    except Exception as e:  # noqa: BLE001
      bad.append([s, repr(e)[:200]])
  return bad


def child_prefix(d, hist, upto):
  """Run saves [0, upto) of the history, returning outcomes and listings after each."""
  configure(hist['backend'], hist['io'])
  trace = []
  for op in hist['ops'][:upto]:
    oc = do_save(d, hist, op)
    ck, tmp = listing(d, hist['prefix'])
    from flax.training import checkpoints
    lp = checkpoints.latest_checkpoint(d, prefix=hist['prefix'])
    trace.append(dict(op=list(op), outcome=oc, listing=ck, tmp=tmp, latest=None if lp is None else os.path.basename(lp)))
  return trace


def child_crash_save(d, hist, j, crash_at, torn):
  """Run save j with the injector armed. Returns op log when it survives (crash_at None or beyond the last op)."""
  from vf import crash
  configure(hist['backend'], hist['io'])
  inj = crash.Injector(d, crash_at=crash_at, torn=torn)
  inj.install_io_proxy()
  if hist['backend'] == 'orbax':
    inj.install_audit_hook()
  inj.active = True
  oc = do_save(d, hist, hist['ops'][j])
  inj.active = False
  return dict(outcome=oc, n=inj.n, log=inj.log)


def child_recover(d, hist, script):
  """script: list of ('observe',) | ('save', op) | ('restore_each',)"""
  configure(hist['backend'], hist['io'])
  out = []
  for st in script:
    if st[0] == 'observe':
      out.append(observe(d, hist))
    elif st[0] == 'save':
      oc = do_save(d, hist, st[1])
      o = observe(d, hist)
      o['outcome'] = oc
      out.append(o)
    elif st[0] == 'restore_each':
      ck, _ = listing(d, hist['prefix'])
      steps = [_parse_step(n[len(hist['prefix']):]) for n in ck]
      out.append(dict(bad=restore_each(d, hist, steps)))
  return out


def _parse_step(s):
  try:
    return int(s)
  except ValueError:
    return float(s)


# ---------------------------------------------------------------------------------------------
# parent-side orchestration


def gen_histories(ctx):
  rng = ctx.rng('histories')
  step_sets = [
      [1, 2, 3, 4], [9, 10, 11, 100], [1.5, 2.5, 10.25, 11.0], [-3, -2, -1, 5], [1, 2.5, 3, 10], [1e-05, 0.5, 1000.0, 1e22],
      [5, 6, 7, 8, 9], [-10.5, -2, 3, 40], [0, 1, 2, 3, 4], [0, 10, 20, 30], [-2, 0, 2, 4], [0.0, 0.5, 1.5, 2.5],
  ]
  prefixes = ['checkpoint_', 'ck2pt_', 'model_v2-final_', 'run1_step_']
  hs = []
  n = 16 if ctx.tier == 'quick' else 96
  combos = [(b, m) for b in ('legacy', 'orbax') for m in ('TF', 'DEFAULT')]
  for i in range(n):
    backend, io = combos[i % 4]
    steps = list(rng.choice(step_sets))
    keep = rng.choice([1, 2, 2, 3])
    keep_every = rng.choice([None, None, 2, 3])
    if i in (4, 5, 6, 7):
      # step 0 together with keep_every_n_steps (one history per back-end / io mode): the oldest checkpoint is the first one retained
      steps, keep, keep_every = list(step_sets[8 + (i % 4)]), 1, rng.choice([1, 2])
    ops = []
    k = rng.randint(2, min(5, len(steps)))
    for s in steps[:k]:
      ops.append((s, keep, keep_every, False))
    # last op variants: plain next step, overwrite of an existing/older step, same step again, older step
    variant = rng.choice(['next', 'next', 'next', 'overwrite_older', 'same_no_overwrite', 'older_no_overwrite', 'overwrite_same', 'next'])
    if variant == 'overwrite_older' and len(ops) >= 2:
      ops.append((ops[-2][0], keep, keep_every, True))
    elif variant == 'same_no_overwrite':
      ops.append((ops[-1][0], keep, keep_every, False))
    elif variant == 'older_no_overwrite' and len(ops) >= 2:
      s_new = (ops[0][0] + ops[1][0]) / 2
      ops.append((s_new, keep, keep_every, False))
    elif variant == 'overwrite_same':
      ops.append((ops[-1][0], keep, keep_every, True))
    hs.append(dict(backend=backend, io=io, prefix=rng.choice(prefixes), ops=ops, variant=variant))
  return hs


def steps_of(names, prefix):
  return {_parse_step(n[len(prefix):]) for n in names}


def check_uninterrupted(ctx, hist, trace):
  """Model vs real after every completed save (no crash)."""
  present = set()
  for t in trace:
    step, keep, keep_every, overwrite = t['op']
    oc, new = model_save(present, step, keep, keep_every, overwrite, hist['backend'])
    real_oc = 'ok' if t['outcome'] == 'ok' else ('rejected' if t['outcome'].startswith('rejected') else t['outcome'])
    det = lambda: dict(history=hist, at=t, model_outcome=oc, model_present=sorted(new))
    ctx.check(real_oc == oc, 'model.outcome', det)
    want = sorted(fmt(hist['prefix'], s) for s in new)
    ctx.check(sorted(t['listing']) == want and not t['tmp'], 'model.listing', det)
    want_latest = fmt(hist['prefix'], max(new)) if new else None
    ctx.check(t['latest'] == want_latest, 'model.latest', det)
    present = new
  return present


def run_history(ctx, hi, hist):
  from vf import crash
  base = tempfile.mkdtemp(prefix='vf-c11-')
  try:
    j = len(hist['ops']) - 1
    # 1. uninterrupted run of the whole history (model conformance), in a child
    d_full = os.path.join(base, 'full')
    os.makedirs(d_full)
    st, trace, err = crash.fork_run(lambda: child_prefix(d_full, hist, j + 1))
    if st != 0 or trace is None:
      ctx.note_inconclusive('uninterrupted child failed: %s %s' % (st, err))
      return
    ctx.op('save_checkpoint:' + hist['backend'], len(trace))
    check_uninterrupted(ctx, hist, trace)
    st, rec, err = crash.fork_run(lambda: child_recover(d_full, hist, [('restore_each',)]))
    if rec is not None:
      ctx.check(not rec[0]['bad'], 'model.restore_retained_step', lambda: dict(history=hist, bad=rec[0]['bad']))
    js = [j] if ctx.tier == 'quick' else list(range(len(hist['ops'])))
    for jj in js:
      crash_one_save(ctx, hi, hist, jj, base)
    ctx.exhaustive['crash points of the explored saves'] = True
  finally:
    shutil.rmtree(base, ignore_errors=True)


def crash_one_save(ctx, hi, hist, j, base):
  from vf import crash
  if True:
    # 2. state before save j
    d_pre = os.path.join(base, 'pre')
    shutil.rmtree(d_pre, ignore_errors=True)
    os.makedirs(d_pre)
    st, pre_trace, err = crash.fork_run(lambda: child_prefix(d_pre, hist, j))
    if st != 0:
      ctx.note_inconclusive('prefix child failed: %s' % err)
      return
    present_before = steps_of(pre_trace[-1]['listing'], hist['prefix']) if pre_trace else set()
    # 3. count operations of the last save
    d_cnt = os.path.join(base, 'cnt')
    shutil.rmtree(d_cnt, ignore_errors=True)
    shutil.copytree(d_pre, d_cnt)
    st, cnt, err = crash.fork_run(lambda: child_crash_save(d_cnt, hist, j, None, None))
    if st != 0 or cnt is None:
      ctx.note_inconclusive('count child failed: %s %s' % (st, err))
      return
    n_ops = cnt['n']
    ctx.extra['ops_per_save_max'] = max(ctx.extra.get('ops_per_save_max', 0), n_ops)
    points = [(k, None) for k in range(1, n_ops + 1)]
    for k, ent in enumerate(cnt['log'], start=1):
      if ent[0] == 'write' and len(ent) > 2 and ent[2] > 2:
        size = ent[2]
        points += [(k, (k, nb)) for nb in sorted({1, size // 2, size - 1})]
    if ctx.tier == 'quick' and hist['backend'] == 'orbax' and len(points) > 8 and hi % 2:
      points = points[::2] + [points[-1]]
    step, keep, keep_every, overwrite = hist['ops'][j]
    top = max(list(present_before) + [step])
    later = top + 1 if top + 1 != top else top * 2  # float steps like 1e22 absorb +1
    for k, torn in points:
      desc = dict(history=hi, backend=hist['backend'], io=hist['io'], variant=hist['variant'], crash_before_op=k,
                  op=cnt['log'][k - 1][:2], torn=None if torn is None else torn[1], last_save=list(hist['ops'][j]))
      with ctx.case('crash', hi * 1000 + k * 10 + (0 if torn is None else 1 + points.index((k, torn)) % 9), dict(desc, save_index=j),
                    nontrivial=True):
        ctx.event('crash_points')
        d_k = os.path.join(base, 'k')
        shutil.rmtree(d_k, ignore_errors=True)
        shutil.copytree(d_pre, d_k)
        st, res, err = crash.fork_run(lambda: child_crash_save(d_k, hist, j, k, torn))
        if st != 137:
          ctx.note_inconclusive('crash child did not crash: status %s %s' % (st, err))
          continue
        ck, tmp = listing(d_k, hist['prefix'])
        got_steps = steps_of(ck, hist['prefix'])
        committed = step in got_steps and (step not in present_before or overwrite)
        # --- observe
        d_o = os.path.join(base, 'o')
        shutil.rmtree(d_o, ignore_errors=True)
        shutil.copytree(d_k, d_o)
        st, obs, err = crash.fork_run(lambda: child_recover(d_o, hist, [('observe',), ('restore_each',)]))
        det = lambda: dict(case=desc, after_crash=dict(listing=ck, tmp=tmp), observed=obs, error=err, present_before=sorted(present_before))
        if obs is None:
          ctx.check(False, 'crash.observe_failed', det)
          continue
        o = obs[0]
        prev_latest = fmt(hist['prefix'], max(present_before)) if present_before else None
        allowed = {prev_latest, fmt(hist['prefix'], step)} if (committed or step in got_steps) else {prev_latest}
        # Orbax force=True removes the existing step directory in place before it writes the replacement: a crash anywhere
        # before the commit rename of such a save is inside that window (known finding, keyed by exactly this configuration)
        rename_at = next((i for i, e in enumerate(cnt['log'], start=1) if e[0] == 'os.rename' and e[1] == fmt(hist['prefix'], step)), None)
        mech_sfx = ':orbax_force_overwrite_window' if (hist['backend'] == 'orbax' and overwrite and step in present_before
                                                       and rename_at is not None and k <= rename_at) else ''
        if not mech_sfx:
          # flax removes checkpoint directories with a recursive delete: a crash at the final rmdir (or a nested remove) of a
          # committed checkpoint directory leaves an emptied directory under a checkpoint name (known finding, this window only)
          cur_op = cnt['log'][k - 1]
          top = cur_op[1].split(os.sep)[0]
          if cur_op[0] in ('os.rmdir', 'os.remove') and top.startswith(hist['prefix']) and not any(m in top for m in TMP_MARKERS) \
              and top != hist['prefix'] + 'tmp':
            mech_sfx = ':nonatomic_dir_removal'
        ctx.check('latest_error' not in o and o.get('latest') in allowed, 'crash.latest' + mech_sfx, det)
        if 'restore_error' in o:
          ctx.check(False, 'crash.restore_raises' + mech_sfx, det)
        else:
          want_steps = {None if a is None else float(_parse_step(a[len(hist['prefix']):])) for a in allowed}
          ctx.check(o.get('restored_step') in want_steps, 'crash.restore_not_prev_or_new' + mech_sfx, det)
        # every checkpoint that is listed as a checkpoint other than the interrupted step must still restore exactly
        bad = [b for b in obs[1]['bad'] if b[0] != step and b[0] in present_before and not (overwrite and b[0] > step)
               and b[0] in model_save(present_before, step, keep, keep_every, overwrite, hist['backend'])[1]]
        ctx.check(not bad, 'crash.retained_checkpoint_damaged' + mech_sfx, lambda: dict(case=desc, bad=bad))
        # --- recovery (a): retry the interrupted step, then a later step
        for path_name in ('retry', 'skip'):
          d_r = os.path.join(base, 'r')
          shutil.rmtree(d_r, ignore_errors=True)
          shutil.copytree(d_k, d_r)
          later_op = (later, keep, keep_every, False)
          script = ([('save', hist['ops'][j])] if path_name == 'retry' else []) + [('save', later_op), ('restore_each',)]
          st, rec, err = crash.fork_run(lambda: child_recover(d_r, hist, script))
          rdet = lambda: dict(case=desc, path=path_name, after_crash=dict(listing=ck, tmp=tmp), recovery=rec, error=err,
                              present_before=sorted(present_before))
          if rec is None:
            ctx.check(False, 'recovery.%s:child_failed' % path_name, rdet)
            continue
          cur = set(got_steps)
          idx = 0
          if path_name == 'retry':
            r0 = rec[0]
            m_oc, m_new = model_save(cur, step, keep, keep_every, overwrite, hist['backend'])
            if m_oc == 'rejected':
              # already committed (or was never admissible): must raise and change nothing
              ctx.check(r0['outcome'].startswith('rejected') and steps_of(r0['listing'], hist['prefix']) == cur,
                        'recovery.retry:committed_step_not_rejected', rdet)
            else:
              ctx.check(r0['outcome'] == 'ok', 'recovery.retry:failed' + mech_sfx, rdet)
              if r0['outcome'] == 'ok':
                ctx.check(steps_of(r0['listing'], hist['prefix']) == m_new, 'recovery.retry:retention', rdet)
                cur = m_new
              else:
                cur = steps_of(r0['listing'], hist['prefix'])
            idx = 1
          r1 = rec[idx]
          m_oc, m_new = model_save(cur, later, keep, keep_every, False, hist['backend'])
          ctx.check(r1['outcome'] == 'ok', 'recovery.%s:later_save_failed%s' % (path_name, mech_sfx), rdet)
          if r1['outcome'] == 'ok':
            tmp_kind = ':leftover_tmp_counted' if (tmp and steps_of(r1['listing'], hist['prefix']) < m_new) else ''
            ctx.check(steps_of(r1['listing'], hist['prefix']) == m_new, 'recovery.%s:retention%s' % (path_name, tmp_kind), rdet)
            ctx.check(r1.get('latest') == fmt(hist['prefix'], later) and r1.get('restored_step') == float(later),
                      'recovery.%s:latest_after_later_save' % path_name, rdet)
            ctx.check(not rec[idx + 1]['bad'], 'recovery.%s:retained_step_unrestorable%s' % (path_name, mech_sfx), rdet)


# ---------------------------------------------------------------------------------------------
# AsyncManager: delayed worker vs synchronous


def child_async(d, hist, delayed):
  import threading
  import time
  from flax.training import checkpoints
  from vf import crash
  configure('legacy', hist['io'])
  main = threading.get_ident()

  def delay(kind):
    if threading.get_ident() != main and kind in delayed:
      time.sleep(0.05)

  inj = crash.Injector(d, delay_in_thread=delay if delayed else None)
  inj.install_io_proxy()
  inj.active = True
  class SlowStart(checkpoints.AsyncManager):
    # the worker starts late: whatever the task still reads from the caller's objects is read after the caller has moved on
    def save_async(self, task):
      def late():
        time.sleep(0.05)
        return task()
      return super().save_async(late)

  am = (SlowStart() if 'start' in delayed else checkpoints.AsyncManager()) if delayed is not None else None
  outcomes = []
  for step, keep, keep_every, overwrite in hist['ops']:
    tree = tree_for(step)
    try:
      checkpoints.save_checkpoint(d, tree, step, prefix=hist['prefix'], keep=keep, overwrite=overwrite,
                                  keep_every_n_steps=keep_every, async_manager=am)
      outcomes.append('ok')
    except Exception as e:  # noqa: BLE001
      outcomes.append(type(e).__name__)
    # the training loop goes on: the arrays just saved are updated IN PLACE as soon as save_checkpoint has returned
    # (the checkpoint of step N must hold the values of step N, as a synchronous save does)
    tree['w'] += 1.0
    tree['nested']['ids'] -= 1
  if am is not None:
    am.wait_previous_save()
  inj.active = False
  ck, tmp = listing(d, hist['prefix'])
  return dict(outcomes=outcomes, listing=ck, tmp=tmp, bad=restore_each(d, hist, [_parse_step(n[len(hist['prefix']):]) for n in ck]),
              worker_ops=inj.n)


def run_async(ctx, hi, hist):
  from vf import crash
  base = tempfile.mkdtemp(prefix='vf-c11a-')
  try:
    d0 = os.path.join(base, 'sync')
    os.makedirs(d0)
    st, sync, err = crash.fork_run(lambda: child_async(d0, hist, None))
    if sync is None:
      ctx.note_inconclusive('sync child failed %s' % err)
      return
    for di, delayed in enumerate([(), ('write',), ('rename',), ('open_w', 'close'), ('remove', 'rename', 'write'), ('start',), ('start', 'write')]):
      with ctx.case('async', hi * 10 + di, dict(history=hist['ops'], io=hist['io'], delayed_ops=delayed), nontrivial=True):
        d1 = os.path.join(base, 'a%d' % di)
        os.makedirs(d1)
        st, asy, err = crash.fork_run(lambda: child_async(d1, hist, delayed))
        ctx.op('AsyncManager')
        det = lambda: dict(history=hist, delayed=delayed, sync=sync, asynchronous=asy, error=err)
        if asy is None:
          ctx.check(False, 'async.child_failed', det)
          continue
        ctx.check(asy['listing'] == sync['listing'] and asy['tmp'] == sync['tmp'] and not asy['bad'], 'async.same_directory', det)
        ctx.check(asy['outcomes'] == sync['outcomes'], 'async.same_outcomes', det)
  finally:
    shutil.rmtree(base, ignore_errors=True)


def child_two_prefixes(d, backend, io, pa, pb, order):
  """Saves under two prefixes that live in one directory; returns the per-prefix listing / latest after every save."""
  from flax.training import checkpoints
  configure(backend, io)
  trace = []
  for which, step, keep in order:
    prefix = pa if which == 'a' else pb
    oc = do_save(d, dict(prefix=prefix), (step, keep, None, False))
    row = dict(op=[which, step, keep], outcome=oc)
    for nm, pf in (('a', pa), ('b', pb)):
      names = sorted(os.listdir(d))
      other = pb if nm == 'a' else pa
      # files of prefix pf: the step part must be a number (this is how the two families are told apart by a reader)
      mine = [n for n in names if n.startswith(pf) and _is_number(n[len(pf):])]
      lp = checkpoints.latest_checkpoint(d, prefix=pf)
      row[nm] = dict(listing=mine, latest=None if lp is None else os.path.basename(lp))
    trace.append(row)
  return trace


def _is_number(s):
  try:
    float(s)
    return True
  except ValueError:
    return False


def run_two_prefixes(ctx, i):
  """Two families of checkpoints in one directory (the usual 'ckpt_' + 'ckpt_best_' layout): a save under one prefix follows its own
  retention policy and never lists, orders against or deletes the other family. Nested prefixes have their own mechanism suffix."""
  from vf import crash
  backend = ['legacy', 'orbax'][i % 2]
  io = ['TF', 'DEFAULT'][(i // 2) % 2]
  pa, pb, nested = [('ckpt_', 'ckpt_best_', True), ('a_', 'b_', False), ('run_', 'run_ema_', True), ('model_', 'optim_', False)][(i // 4) % 4]
  order = [[('b', 7, 1), ('a', 1, 1), ('a', 2, 1), ('a', 3, 1)], [('a', 1, 2), ('b', 7, 1), ('a', 2, 2), ('b', 9, 1), ('a', 3, 2)],
           [('a', 5, 1), ('a', 6, 1), ('b', 2, 1), ('a', 7, 1)]][(i // 16) % 3]
  desc = dict(backend=backend, io=io, prefixes=(pa, pb), nested=nested, order=order)
  sfx = ':nested_prefixes' if nested else ''
  with ctx.case('two_prefixes', i, desc, nontrivial=True):
    base = tempfile.mkdtemp(prefix='vf-c11p-')
    try:
      st, trace, err = crash.fork_run(lambda: child_two_prefixes(base, backend, io, pa, pb, order))
      if trace is None:
        ctx.check(False, 'prefixes.child_failed' + sfx, dict(case=desc, error=err))
        return
      present = {'a': set(), 'b': set()}
      for row in trace:
        which, step, keep = row['op']
        oc, new = model_save(present[which], step, keep, None, False, backend)
        ctx.op('save_checkpoint(two prefixes)')
        det = lambda: dict(case=desc, row=row, model={k: sorted(v) for k, v in present.items()})  # noqa: E731
        ctx.check((row['outcome'] == 'ok') == (oc == 'ok'), 'prefixes.outcome' + sfx, det)
        if row['outcome'] == 'ok':
          present[which] = new
        for nm, pf in (('a', pa), ('b', pb)):
          got = {float(n[len(pf):]) for n in row[nm]['listing']}
          ctx.check(got == {float(x) for x in present[nm]}, 'prefixes.retention' + sfx, det)
          want_latest = None if not present[nm] else fmt(pf, max(present[nm]))
          ctx.check(row[nm]['latest'] == want_latest, 'prefixes.latest' + sfx, det)
    finally:
      shutil.rmtree(base, ignore_errors=True)


def run_sign_prefix(ctx, i):
  """A prefix whose last character could be read as part of a number ('model.ckpt-', the TensorFlow spelling; 'ckpt.'; 'run+'):
  the step is what follows the prefix, so steps order numerically, 'latest' is the largest and retention keeps the newest."""
  from vf import crash
  backend = ['legacy', 'orbax'][i % 2]
  io = ['TF', 'DEFAULT'][(i // 2) % 2]
  pa = ['model.ckpt-', 'ckpt.', 'run+', 'v1.5-', 'plain_'][(i // 4) % 5]
  order = [[('a', 5, 1), ('a', 10, 1), ('a', 11, 1)], [('a', 1, 2), ('a', 2, 2), ('a', 10, 2), ('a', 30, 2)],
           [('a', 8, 1), ('a', 9, 1), ('a', 10, 1), ('a', 100, 1)]][(i // 20) % 3]
  # the directory as the caller spells it: legal, not normalised
  spelling = ['{b}/c', '{b}/./c', '{b}//c', '{b}/c/../c', '{b}/c/'][(i // 5) % 5]
  desc = dict(backend=backend, io=io, prefix=pa, order=order, directory_spelling=spelling)
  sfx = '' if pa == 'plain_' else ':prefix_ends_in_sign_char'
  with ctx.case('sign_prefix', i, desc, nontrivial=pa != 'plain_'):
    base = tempfile.mkdtemp(prefix='vf-c11s-')
    os.makedirs(os.path.join(base, 'c'))
    d_spelled = spelling.format(b=base)
    try:
      st, trace, err = crash.fork_run(lambda: child_two_prefixes(d_spelled, backend, io, pa, 'zz_other_', order))
      if trace is None:
        ctx.check(False, 'prefixes.child_failed' + sfx, dict(case=desc, error=err))
        return
      present = set()
      for row in trace:
        which, step, keep = row['op']
        oc, new = model_save(present, step, keep, None, False, backend)
        ctx.op('save_checkpoint(prefix ending in -, + or .)')
        det = lambda: dict(case=desc, row=row, model=sorted(present))  # noqa: E731
        ctx.check((row['outcome'] == 'ok') == (oc == 'ok'), 'prefixes.outcome' + sfx, det)
        if row['outcome'] == 'ok':
          present = new
        got = {float(n[len(pa):]) for n in row['a']['listing']}
        ctx.check(got == {float(x) for x in present}, 'prefixes.retention' + sfx, det)
        ctx.check(row['a']['latest'] == (None if not present else fmt(pa, max(present))), 'prefixes.latest' + sfx, det)
    finally:
      shutil.rmtree(base, ignore_errors=True)


def run(ctx):
  # everything the children need is imported here, once, so that forked children neither pay the import cost nor import
  # concurrently from two threads (the JAX backend stays untouched in this process)
  import numpy  # noqa: F401
  import orbax.checkpoint  # noqa: F401
  from flax.training import checkpoints  # noqa: F401
  hists = gen_histories(ctx)
  if ctx.replay is not None and ctx.replay.get('stream') == 'crash':
    hi = int(ctx.replay['index']) // 1000
    run_history(ctx, hi, hists[hi])  # re-enumerates every crash point of that history
    return
  for hi, hist in ctx.items(hists, 'history'):
    run_history(ctx, hi, hist)
  # async histories: outcomes that depend on the previous save having been committed (same step again, older step,
  # overwrite of an older step) are always included
  ahists = []
  for io in ('TF', 'DEFAULT'):
    ahists += [
        dict(backend='legacy', io=io, prefix='checkpoint_', variant='same_no_overwrite', ops=[(1, 2, None, False), (2, 2, None, False), (2, 2, None, False), (3, 2, None, False)]),
        dict(backend='legacy', io=io, prefix='ck2pt_', variant='older_no_overwrite', ops=[(5, 1, None, False), (6, 1, None, False), (5.5, 1, None, False), (7, 1, None, False)]),
        dict(backend='legacy', io=io, prefix='model_v2-final_', variant='overwrite_older', ops=[(1, 3, None, False), (2, 3, None, False), (3, 3, None, False), (2, 3, None, True), (4, 3, 2, False)]),
    ]
  ahists += [h for h in hists if h['backend'] == 'legacy'][: (2 if ctx.tier == 'quick' else 30)]
  for hi, hist in ctx.items(ahists, 'async'):
    run_async(ctx, hi, hist)
  for i in ctx.indices(16 if ctx.tier == 'quick' else 48, 'two_prefixes'):
    run_two_prefixes(ctx, i)
  for i in ctx.indices(50 if ctx.tier == 'quick' else 150, 'sign_prefix'):
    run_sign_prefix(ctx, i)
