"""C05 — lifted jit / remat / cond / switch / while_loop / map_variables act like the plain code.

Monitor shape: plain-vs-lifted differential. A parent module template (pre layer, parent counter, the lifted region, a parent RNG draw
after it, post layer) is instantiated twice from the same generated inner program: once with the transform, once with identity / the
equivalent Python control flow. Both run on the same variables, inputs, rngs and `mutable` filter; outputs, updated collections and init
trees are compared. Call histories on one jitted instance probe stale traces; a draw log at Scope.make_rng pins RNG behaviour."""
import numpy as np

LEVEL = 'exploration'
LEVEL_TEXT = ('Generated inner programs (depth <= 2: params, Dense, nested children, counters and running statistics in two collections, sow, '
              'noise, dropout) are placed in a parent template and run plain and under nn.jit (class and method form), nn.remat, '
              'identity nn.map_variables, nn.cond (both predicates), nn.switch (every index), nn.while_loop (0-3 trips), with explicit and '
              'auto-generated names, 6 `mutable` filters, variables/rngs lifting filters, deliberate writes to immutable collections, '
              'and call histories (<= 4 calls on one instance interleaving mutable changes, variable-structure changes and attribute '
              'changes). Compared: outputs, set and values of updated collections, init trees (up to the transformed class name), '
              'parent draws after the lifted region, determinism of jitted draws per call index.'
              ' Further streams: sub-modules called before / inside / after a region, outer jit and grad around the'
              ' lifted program, attribute-only stale-trace probes with colliding hashes, attribute sub-modules in every'
              ' field order, lifted helper methods that create auto-named layers, nn.jit positional keyword arguments.'
              ' Round f: cond_rng (branches that draw rngs), nested_adoption (composition by attribute, depth >= 2), jit_process_history (draws after a jitted call do not depend on earlier uses in the process).'
              ' Round g: no key is repeated after a cond whose branches draw different numbers of keys.'
              ' Round h: cond_rng_deep (draws several scope levels below cond / switch in a sub-module used before), map_variables(init=True) initialising a body with rng draws (F79).')
LEVEL_NOTE = ('nn.remat needs the jax.checkpoint compat alias. Under nn.jit random draws inside the lifted module differ from the plain '
              'program by design (fork_rngs): only determinism per call site is demanded there. map_variables follows the documented idiom '
              'init=self.is_initializing().')
TECHNIQUE = 'runtime monitoring: plain-vs-lifted differential on generated module programs + make_rng draw log + trace-count histories'
RULE = ('case = (transform kind, inner program, naming (explicit/auto), mutable filter, predicate/index/trip count, history). distinct = '
        'distinct (kind, program, filter); non-trivial = inner program has state or >= 2 modules.')
ASSUMPTIONS = ['vf.compat jax.checkpoint(concrete=False) alias is faithful', 'float32 same-program tolerance rtol 1e-5 atol 1e-6']
PLAN = {'quick': dict(workers=8, timeout_s=1500), 'thorough': dict(workers=14, timeout_s=3400)}
MIN_EVENTS = {'quick': {'oracle:apply': 300, 'oracle:init_tree': 100, 'oracle:updates': 200, 'oracle:rng': 60, 'oracle:history': 40,
                        'oracle:bad_write': 15, 'kinds_covered': 7},
              'thorough': {'oracle:apply': 5000, 'oracle:history': 600}}

LIFTED = {}
KINDS = ['jit', 'jit_method', 'remat', 'map_variables', 'cond', 'switch', 'while_loop']
AUTO_PREFIX = {'jit': 'Jit', 'remat': 'Checkpoint', 'map_variables': 'Map_variables'}


def parent_classes():
  global _P
  try:
    return _P
  except NameError:
    pass
  import jax
  import jax.numpy as jnp
  import flax.linen as nn
  from vf.gen import linen_prog as LP
  C = LP.classes()

  class Parent(nn.Module):
    kind: str            # 'plain:<kind>' or '<kind>'
    inner: tuple
    d: int
    name_mode: str = 'explicit'   # 'explicit' | 'auto'
    ctrl: int = 0        # predicate / branch index / trip count
    lift_vars: object = True
    lift_rngs: object = True
    tweak: float = 1.0   # a hashable attribute that changes the computation (stale-trace probe)
    tail_noise: bool = True
    repeat: int = 1      # how often the lifted child is invoked within one call
    around: bool = False  # the sub-module used inside the lifted region is also called in plain code before and after it

    def _child(self, cls, name='lifted'):
      return cls(self.inner, name=(name if self.name_mode == 'explicit' else None))

    @nn.compact
    def __call__(self, x):
      kind = self.kind
      plain = kind.startswith('plain:')
      k = kind.split(':')[-1]
      NodeC = C['NodeC'] if self.inner[1] == 'compact' else C['NodeS']
      x = nn.Dense(self.d, name='pre')(x)
      cnt = self.variable('state', 'n_parent', lambda: jnp.zeros((), jnp.int32))
      x = x + 0.01 * cnt.value
      if self.is_mutable_collection('state'):
        cnt.value = cnt.value + 1
      if k in ('jit', 'remat', 'map_variables'):
        if plain:
          cls = NodeC
        elif k in ('jit', 'remat'):
          # transformed classes are created once and reused, as user code does (JitDense = nn.jit(nn.Dense) at module level):
          # this is what makes trace caches live across calls and instances
          key = (k, NodeC.__name__, repr(self.lift_vars), repr(self.lift_rngs))
          if key not in LIFTED:
            LIFTED[key] = (nn.jit if k == 'jit' else nn.remat)(NodeC, variables=self.lift_vars, rngs=self.lift_rngs)
          cls = LIFTED[key]
        else:
          cls = nn.map_variables(NodeC, 'params', lambda v: v, lambda v: v, init=self.is_initializing(), mutable=self.is_mutable_collection('params'))
        child = self._child(cls)
        for _ in range(self.repeat):
          x = child(x) * self.tweak
      elif k == 'jit_method':
        for _ in range(self.repeat):
          x = self.region(x) if plain else self.region_jit(x)
      elif k in ('cond', 'switch'):
        outer = self._child(NodeC, 'br') if (self.around or plain) else None
        if self.around:
          x = outer(x)      # plain call before the lifted region

        def br(mdl):
          # inside a lifted branch `mdl` is a clone of self: the child is re-created there under the same name (same variables)
          return outer if plain else mdl._child(NodeC, 'br')

        def tf(mdl, x):
          return br(mdl)(x) * 2.0
        def ff(mdl, x):
          return -br(mdl)(x) + 1.0
        fns = [(lambda mdl, x, s=s: br(mdl)(x) * s + s) for s in (1.0, -0.5, 2.0)]
        if k == 'cond':
          if plain:
            x = tf(self, x) if self.ctrl else ff(self, x)
          else:
            x = nn.cond(jnp.asarray(bool(self.ctrl)), tf, ff, self, x, variables=self.lift_vars, rngs=self.lift_rngs)
        else:
          if plain:
            x = fns[self.ctrl](self, x)
          else:
            x = nn.switch(jnp.asarray(self.ctrl), fns, self, x, variables=self.lift_vars, rngs=self.lift_rngs)
        if self.around:
          x = outer(x)      # plain call after the lifted region: must see what the region wrote
      elif k == 'while_loop':
        child = self._child(NodeC, 'body')
        x = child(x)  # variables cannot be initialised inside the loop body (documented): create them first
        def cond_fn(mdl, c):
          return c['i'] < self.ctrl
        def body_fn(mdl, c):
          y = mdl._child(NodeC, 'body')(c['x'])
          return {'i': c['i'] + 1, 'x': jnp.tanh(y)}
        carry = {'i': jnp.asarray(0), 'x': x}
        if plain:
          for _ in range(self.ctrl):
            carry = {'i': carry['i'] + 1, 'x': jnp.tanh(child(carry['x']))}
          x = carry['x']
        else:
          carry_cols = ['state', 'batch_stats']
          x = nn.while_loop(cond_fn, body_fn, self, carry, carry_variables=carry_cols)['x']
        if self.around:
          x = child(x)      # plain call after the loop
      if self.tail_noise:
        x = x + 0.1 * jax.random.normal(self.make_rng('noise'), x.shape)
      return nn.Dense(1, name='post')(x)

    def _region(self, x):
      NodeC = C['NodeC'] if self.inner[1] == 'compact' else C['NodeS']
      return self._child(NodeC)(x) * self.tweak

    def region(self, x):
      return self._region(x)

    @nn.jit
    def region_jit(self, x):
      return self._region(x)

  _P = dict(Parent=Parent)
  return _P


def close(a, b):
  import jax
  from vf import core
  la, ta = jax.tree_util.tree_flatten(a)
  lb, tb = jax.tree_util.tree_flatten(b)
  if ta != tb:
    return False
  return all(np.shape(x) == np.shape(y) and np.allclose(np.asarray(x, np.float64), np.asarray(y, np.float64), **core.TOL_SAME_PROGRAM)
             for x, y in zip(la, lb))


def exact(a, b):
  import jax
  la, ta = jax.tree_util.tree_flatten(a)
  lb, tb = jax.tree_util.tree_flatten(b)
  return ta == tb and all(np.array_equal(np.asarray(x), np.asarray(y)) for x, y in zip(la, lb))


def shapes(tree):
  import jax
  return jax.tree_util.tree_map(lambda x: (tuple(np.shape(x)), str(np.asarray(x).dtype)), tree)


def rename(tree, old, new):
  """Rename the parent's direct child `old` to `new` in every collection (nested modules of the same name are left alone)."""
  return {col: {(new if k == old else k): v for k, v in sub.items()} for col, sub in tree.items()}


def filters_menu():
  from flax.core.scope import DenyList
  return [('False', False), ("['state']", ['state']), ("['state','batch_stats']", ['state', 'batch_stats']), ('True', True),
          ("DenyList('params')", DenyList('params')), ("['batch_stats','probes','intermediates']", ['batch_stats', 'probes', 'intermediates'])]


def run_case(ctx, i, rng):
  import jax
  import jax.numpy as jnp
  from flax import errors
  from flax.core import unfreeze
  from vf.gen import linen_prog as LP
  P = parent_classes()['Parent']
  kind = KINDS[i % len(KINDS)]
  d = rng.randint(1, 3)
  with_rng = rng.random() < 0.4
  if kind == 'while_loop':
    with_rng = False  # rngs reach a while_loop body only through split_rngs, with per-iteration semantics of their own
  opts = dict(keep_dim=True, max_ops=4, cols=['state', 'batch_stats'], rng_ops=with_rng, observe=(kind not in ('while_loop',)),
              shared=False, styles=['compact', 'compact', 'setup'], streams=['noise', 'other'])
  inner, _ = LP.gen_node(rng, d, rng.randint(0, 2), opts, [3])
  if kind == 'while_loop':
    inner = _strip(inner, {'perturb', 'sow'})
  name_mode = 'auto' if (kind in AUTO_PREFIX and rng.random() < 0.3) else 'explicit'
  ctrl = {'cond': rng.randint(0, 1), 'switch': rng.randint(0, 2), 'while_loop': rng.randint(0, 3)}.get(kind, 0)
  fname, mutable = rng.choice(filters_menu())
  if kind == 'while_loop':
    # carry_variables are documented as "carried through the loop and therefore mutable": the caller must make them mutable
    fname, mutable = rng.choice([f for f in filters_menu() if f[0] in ("['state','batch_stats']", 'True', "DenyList('params')")])
  ops = LP.ops_used(inner)
  nontrivial = bool(ops & {'counter', 'stat', 'child'})
  desc = dict(kind=kind, inner=repr(inner)[:600], d=d, name_mode=name_mode, ctrl=ctrl, mutable=fname)
  ctx.extra.setdefault('kinds', {})
  with ctx.case('case', i, desc, nontrivial=nontrivial):
    tail = kind != 'jit_method'  # forking the rngs of a jitted *method* draws from the parent's own scope (by design)
    rng_inside_pre = bool(ops & {'noise', 'dropout'})
    from flax.core.scope import DenyList
    # lifting filters that cover everything the program uses must behave like the default (True)
    lv = rng.choice([True, True, ('params', 'state', 'batch_stats', 'probes', 'intermediates', 'perturbations'), DenyList('unused_collection')])
    lr = rng.choice([True, True, ('params', 'noise', 'other', 'dropout'), DenyList('unused_stream')])
    if kind in ('map_variables', 'while_loop', 'jit_method'):
      lv, lr = True, True
    desc.update(lift_vars=repr(lv), lift_rngs=repr(lr))
    around = kind in ('cond', 'switch', 'while_loop') and not rng_inside_pre and rng.random() < 0.5
    desc['around'] = around
    lifted = P(kind, inner, d, name_mode, ctrl, lift_vars=lv, lift_rngs=lr, tail_noise=tail, around=around)
    plain = P('plain:' + kind, inner, d, name_mode, ctrl, tail_noise=tail, around=around)
    x = np.random.default_rng(rng.getrandbits(32)).uniform(-1, 1, size=(2, d)).astype(np.float32)
    rngs = {'params': jax.random.key(i), 'noise': jax.random.key(1000 + i), 'other': jax.random.key(2000 + i), 'dropout': jax.random.key(3000 + i)}
    yp, vp = plain.init_with_output(rngs, x)
    yl, vl = lifted.init_with_output(rngs, x)
    ctx.op('nn.' + kind)
    ctx.event('kinds_covered', 0)
    rng_inside = bool(ops & {'noise', 'dropout'})
    # ---- init trees: identical up to the auto-generated name of the transformed class
    if name_mode == 'auto':
      cls_name = 'NodeC' if inner[1] == 'compact' else 'NodeS'
      vl_cmp = rename(unfreeze(vl), AUTO_PREFIX[kind] + cls_name + '_0', cls_name + '_0')
    else:
      vl_cmp = unfreeze(vl)
    ctx.check(shapes(vl_cmp) == shapes(unfreeze(vp)), 'init_tree:structure', lambda: dict(case=desc, plain=repr(shapes(unfreeze(vp)))[:500], lifted=repr(shapes(vl_cmp))[:500]))
    # draws inside the lifted region equal the plain program's only under remat with identical names (keys are addressed by
    # scope path); jit/cond/switch/map_variables fork or re-run, so only determinism is demanded for them
    rng_same = (not rng_inside) or (kind == 'remat' and name_mode == 'explicit')
    if rng_same and kind in ('remat', 'map_variables') and name_mode == 'explicit':
      # same names => same initialiser keys => same values (under jit draws are forked by design)
      ctx.check(close(vl_cmp, unfreeze(vp)) and close(yl, yp), 'init_tree:values', lambda: dict(case=desc))
    # ---- apply on the same variables
    V = unfreeze(vp) if name_mode == 'explicit' else rename(unfreeze(vp), cls_name + '_0', AUTO_PREFIX[kind] + cls_name + '_0')
    Vp = unfreeze(vp)
    def run(mod, variables, mut):
      try:
        out = mod.apply(variables, x, rngs=rngs, mutable=mut)
        return ('ok', out)
      except Exception as e:  # noqa: BLE001
        return ('raise', type(e).__name__, str(e)[:200])
    rp, rl = run(plain, Vp, mutable), run(lifted, V, mutable)
    if rp[0] != rl[0]:
      ctx.check(False, 'apply:one_side_raised', lambda: dict(case=desc, plain=rp[:2] if rp[0] == 'raise' else 'ok', lifted=rl[:3] if rl[0] == 'raise' else 'ok'))
      return
    if rp[0] == 'raise':
      ctx.check(True, 'apply')
      return
    op_, ol_ = rp[1], rl[1]
    if mutable is False:
      y_p, u_p, y_l, u_l = op_, {}, ol_, {}
    else:
      (y_p, u_p), (y_l, u_l) = op_, ol_
      u_p, u_l = unfreeze(u_p), unfreeze(u_l)
      if name_mode == 'auto':
        u_l = rename(u_l, AUTO_PREFIX[kind] + cls_name + '_0', cls_name + '_0')
    jit_rng = not rng_same
    if not jit_rng:
      ctx.check(close(y_l, y_p), 'apply:output', lambda: dict(case=desc, plain=np.asarray(y_p).tolist(), lifted=np.asarray(y_l).tolist()))
      ctx.check(set(u_l) == set(u_p) and close(u_l, u_p), 'updates:differ', lambda: dict(case=desc, plain=repr(u_p)[:500], lifted=repr(u_l)[:500]))
    else:
      # draws inside a jitted module are forked: demand determinism per call site, and identical structure/state counters
      rl2 = run(P(kind, inner, d, name_mode, ctrl, lift_vars=lv, lift_rngs=lr, tail_noise=tail, around=around), V, mutable)
      ctx.check(rl2[0] == 'ok' and exact(rl2[1], ol_), 'rng:jit_not_deterministic_across_instances', lambda: dict(case=desc))
      ctx.check(set(u_l) == set(u_p) and shapes(u_l) == shapes(u_p), 'updates:structure', lambda: dict(case=desc))
      cnt_ok = all(np.array_equal(np.asarray(a), np.asarray(b)) for a, b in zip(jax.tree_util.tree_leaves(u_l), jax.tree_util.tree_leaves(u_p)) if np.asarray(a).dtype == np.int32)
      ctx.check(cnt_ok, 'updates:counters_differ', lambda: dict(case=desc))
    # the lifted program is a JAX function like the plain one: same results under an enclosing jax.jit, same parameter
    # gradients under an enclosing jax.grad (while_loop is not reverse-differentiable; rng-dependent programs excluded)
    if rng_same and i % 3 == 0 and 'params' in V and kind != 'while_loop':
      def f_l(params, xx):
        return jnp.sum(lifted.apply(dict(V, params=params), xx, rngs=rngs, mutable=False) ** 2)
      def f_p(params, xx):
        return jnp.sum(plain.apply(dict(Vp, params=params), xx, rngs=rngs, mutable=False) ** 2)
      try:
        vj_l, vj_p = jax.jit(f_l)(V['params'], x), jax.jit(f_p)(Vp['params'], x)
        ctx.check(close(vj_l, vj_p), 'apply:differs_under_outer_jit', lambda: dict(case=desc))
        if kind != 'while_loop':
          g_l, g_p = jax.grad(f_l)(V['params'], x), jax.grad(f_p)(Vp['params'], x)
          if name_mode == 'auto':
            g_l = {(cls_name + '_0' if k == AUTO_PREFIX[kind] + cls_name + '_0' else k): v for k, v in g_l.items()}
          ctx.check(close(g_l, g_p), 'apply:parameter_gradients_differ_under_outer_grad', lambda: dict(case=desc))
      except Exception as e:  # noqa: BLE001
        ctx.check(False, 'apply:outer_transformation_raised', dict(case=desc, error=repr(e)[:300]))
    # untouched collections: nothing outside `mutable` is returned, inputs stay as they were (C01 covers snapshots in general)
    ctx.check(all(np.array_equal(np.asarray(a), np.asarray(b)) for a, b in zip(jax.tree_util.tree_leaves(V), jax.tree_util.tree_leaves(
        unfreeze(vp) if name_mode == 'explicit' else rename(unfreeze(vp), cls_name + '_0', AUTO_PREFIX[kind] + cls_name + '_0')))), 'apply:input_variables_changed', None)


def _strip(node, kinds):
  ops = []
  for op in node[2]:
    if op[0] in kinds:
      ops.append(('nop',))
      continue
    if op[0] in ('child', 'shared'):
      op = op[:2] + (_strip(op[2], kinds),) + op[3:]
    ops.append(op)
  return (node[0], node[1], tuple(ops))


def run_rng(ctx, i, rng):
  """Draw-log oracles: remat draws identical to plain; the parent's draw after a jitted region equals the plain program's;
  k-th call of one jitted instance == k-th call of a fresh instance."""
  import jax
  from flax.core import scope, unfreeze
  from vf.gen import linen_prog as LP
  P = parent_classes()['Parent']
  kind = ['jit', 'remat', 'jit_method', 'map_variables'][i % 4]
  d = 2
  inner = ('node', 'compact', (('noise', 'noise'), ('param', 'p', 'scale', d), ('dropout', 0.5), ('child', 'c', ('node', 'compact', (('noise', 'other'), ('dense', None, d, d))), d, d)))
  desc = dict(kind=kind, i=i)
  with ctx.case('rng', i, desc, nontrivial=True):
    x = np.ones((2, d), np.float32) * (1 + i % 3)
    rngs = {'params': jax.random.key(i), 'noise': jax.random.key(50 + i), 'other': jax.random.key(60 + i), 'dropout': jax.random.key(70 + i)}
    tail = kind != 'jit_method'
    plain, lifted = P('plain:' + kind, inner, d, tail_noise=tail), P(kind, inner, d, tail_noise=tail)
    vp = plain.init(rngs, x)
    log = []
    orig = scope.Scope.make_rng
    def make_rng(self_scope, name='params'):
      key = orig(self_scope, name)
      try:
        kb = np.asarray(jax.random.key_data(key)).tobytes()
      except Exception:  # noqa: BLE001 - traced key inside jit
        kb = None
      log.append((tuple(self_scope.path), name, kb, int(self_scope.rng_counters.get(name, 0))))
      return key
    scope.Scope.make_rng = make_rng
    try:
      log.clear(); yp = plain.apply(vp, x, rngs=rngs); lp = list(log)
      log.clear(); yl = lifted.apply(vp, x, rngs=rngs); ll = list(log)
    finally:
      scope.Scope.make_rng = orig
    ctx.op('nn.' + kind + '(rng)')
    parent_p = [e for e in lp if e[0] == ()]
    parent_l = [e for e in ll if e[0] == ()]
    if tail:
      ctx.check(parent_p == parent_l and parent_p, 'rng:parent_draw_after_lifted_region_changed', lambda: dict(case=desc, plain=repr(parent_p)[:200], lifted=repr(parent_l)[:200]))
    if kind == 'jit_method':
      # position addressing survives the jitted method: a parent draw made AFTER the region is still
      # fold_in(stream seed key, sha1(count)[:4]) of the parent's own stream (the forked rngs must have been restored)
      import hashlib
      m2 = P(kind, inner, d, tail_noise=True)
      scope.Scope.make_rng = make_rng
      try:
        log.clear(); m2.apply(vp, x, rngs=rngs); l2 = list(log)
      finally:
        scope.Scope.make_rng = orig
      last = [e for e in l2 if e[0] == () and e[1] == 'noise' and e[2] is not None][-1]
      cnt = last[3]
      h = int.from_bytes(hashlib.sha1(cnt.to_bytes((cnt.bit_length() + 7) // 8, 'big')).digest()[:4], 'big')
      want = np.asarray(jax.random.key_data(jax.random.fold_in(rngs['noise'], np.uint32(h)))).tobytes()
      ctx.check(last[2] == want, 'rng:parent_stream_not_restored_after_jitted_method', lambda: dict(case=desc, count=cnt))
    if kind == 'remat':
      ctx.check(close(yp, yl), 'rng:draws_differ_from_plain', lambda: dict(case=desc))
    else:
      # one jitted instance called k times vs fresh instances
      inst = P(kind, inner, d, tail_noise=tail)
      outs = [inst.apply(vp, x, rngs=rngs) for _ in range(3)]
      fresh = [P(kind, inner, d, tail_noise=tail).apply(vp, x, rngs=rngs) for _ in range(3)]
      ctx.check(all(exact(a, b) for a, b in zip(outs, fresh)), 'rng:jit_call_index_dependence', lambda: dict(case=desc))
      # the same jitted instance invoked several times within ONE apply, the whole apply repeated in the same process
      # (trace-cache hits must restore every rng counter, including those of child scopes created inside the jitted code)
      for rep in (2, 3):
        inst_r = P(kind, inner, d, tail_noise=tail, repeat=rep)
        outs_r = [inst_r.apply(vp, x, rngs=rngs) for _ in range(3)]
        fresh_r = P(kind, inner, d, tail_noise=tail, repeat=rep).apply(vp, x, rngs=rngs)
        ctx.check(exact(outs_r[0], outs_r[1]) and exact(outs_r[1], outs_r[2]) and exact(outs_r[0], fresh_r),
                  'rng:jit_repeated_invocation_not_reproducible', lambda: dict(case=desc, repeat=rep))
      # different rng seeds give different outputs (draws are really taken)
      rngs2 = dict(rngs, noise=jax.random.key(999), other=jax.random.key(998))  # 'other' is drawn after the dropout: it always reaches the output
      ctx.check(not exact(inst.apply(vp, x, rngs=rngs2), outs[0]), 'rng:jit_ignores_rngs', lambda: dict(case=desc))


def run_cond_rng(ctx, i, rng):
  """Branches of nn.cond / nn.switch that draw random numbers (the same number of draws in every branch): the taken branch and
  the code after the conditional use the draws the equivalent Python `if` / indexing uses - each branch starts from the rng
  counters the conditional was entered with."""
  import jax
  import jax.numpy as jnp
  import flax.linen as nn
  kind = ['cond', 'switch'][i % 2]
  n_branches = 2 if kind == 'cond' else 3
  sel = (i // 2) % n_branches
  draws = 1 + (i // 6) % 2
  child = (i // 12) % 2 == 1     # the draw is made by a sub-module created inside the branch
  pre = (i // 24) % 2            # draws before the conditional
  desc = dict(kind=kind, selected=sel, draws_per_branch=draws, draw_in_child=child, draws_before=pre)
  with ctx.case('cond_rng', i, desc, nontrivial=True):
    class Noise(nn.Module):
      @nn.compact
      def __call__(self, x):
        return jax.random.normal(self.make_rng('dropout'), x.shape)

    def mk(k):
      def branch(m, x):
        for j in range(draws):
          n = Noise(name='n%d_%d' % (k, j))(x) if child else jax.random.normal(m.make_rng('dropout'), x.shape)
          x = x * (k + 2.0) + n
        return x
      return branch
    fns = [mk(k) for k in range(n_branches)]

    class M(nn.Module):
      lifted: bool

      @nn.compact
      def __call__(self, x):
        for _ in range(pre):
          x = x + jax.random.normal(self.make_rng('dropout'), x.shape)
        if not self.lifted:
          y = fns[(1 - sel) if kind == 'cond' else sel](self, x)      # cond: index 0 is the TRUE branch
        elif kind == 'cond':
          y = nn.cond(jnp.asarray(sel == 1), fns[0], fns[1], self, x)
        else:
          y = nn.switch(jnp.asarray(sel), fns, self, x)
        return y, jax.random.normal(self.make_rng('dropout'), x.shape)

    x = jnp.ones((3,)) * (1 + i % 3)
    rngs = {'dropout': jax.random.key(100 + i)}
    yp, zp = M(False).apply({}, x, rngs=rngs)
    yl, zl = M(True).apply({}, x, rngs=rngs)
    ctx.op('nn.%s(branches draw rngs)' % kind)
    ctx.check(close(yp, yl), 'rng:%s_branch_draws_differ_from_python' % kind, lambda: dict(case=desc, python=np.asarray(yp).tolist(), lifted=np.asarray(yl).tolist()))
    ctx.check(close(zp, zl), 'rng:draw_after_%s_differs_from_python' % kind, lambda: dict(case=desc, python=np.asarray(zp).tolist(), lifted=np.asarray(zl).tolist()))
    # branches that draw DIFFERENT numbers of keys: whatever branch is taken, the draw after the conditional is a fresh key
    # (not one of the keys the taken branch used)
    if kind == 'cond' and not child:
      class U(nn.Module):
        @nn.compact
        def __call__(self, x, pred):
          t = lambda m, x: (jax.random.key_data(m.make_rng('dropout')).astype(jnp.float32), jax.random.key_data(m.make_rng('dropout')).astype(jnp.float32))
          f = lambda m, x: (jnp.zeros((2,)), jnp.zeros((2,)))
          a, b = nn.cond(pred, t, f, self, x) if sel else nn.cond(pred, f, t, self, x)
          return a, b, jax.random.key_data(self.make_rng('dropout')).astype(jnp.float32)
      a, b, after = U().apply({}, x, jnp.asarray(bool(sel)), rngs=rngs)
      ctx.check(not close(after, a) and not close(after, b), 'rng:key_reused_after_cond_with_unequal_draws', lambda: dict(case=desc))


def run_nested_adoption(ctx, i, rng):
  """Composition by attribute, two or three levels deep (a module that receives a sub-module as a dataclass attribute which in turn
  receives one itself, nested Sequentials): the OUTER class is wrapped in nn.remat / nn.jit / identity nn.map_variables. The
  variable tree produced by init has the plain structure and apply on the plain model's variables gives the plain output / updates."""
  import jax
  import jax.numpy as jnp
  import flax.linen as nn
  tr = ['remat', 'jit', 'map_variables'][i % 3]
  shape = ['outer_mid_leaf', 'sequential_nested', 'outer_mid_mid_leaf', 'outer_leaf'][(i // 3) % 4]
  desc = dict(transform=tr, composition=shape)
  with ctx.case('nested_adoption', i, desc, nontrivial=shape != 'outer_leaf'):
    class Leaf(nn.Module):
      feats: int = 3

      @nn.compact
      def __call__(self, x):
        n = self.variable('cnt', 'n', lambda: jnp.zeros((), jnp.float32))
        n.value = n.value + 1.0
        return nn.Dense(self.feats)(x)

    class Mid(nn.Module):
      leaf: nn.Module

      @nn.compact
      def __call__(self, x):
        return nn.Dense(3)(nn.tanh(self.leaf(x)))

    class Outer(nn.Module):
      inner: nn.Module

      @nn.compact
      def __call__(self, x):
        return self.inner(x) * 2.0

    lift = {'remat': nn.remat, 'jit': nn.jit, 'map_variables': lambda c: nn.map_variables(c, 'params', mutable=True)}[tr]

    def build(wrap):
      if shape == 'sequential_nested':
        cls = lift(nn.Sequential) if wrap else nn.Sequential
        return cls([nn.Sequential([nn.Dense(3), nn.tanh, Leaf()]), nn.Sequential([Leaf(), nn.Dense(2)])])
      cls = lift(Outer) if wrap else Outer
      if shape == 'outer_leaf':
        return cls(Leaf())
      if shape == 'outer_mid_leaf':
        return cls(Mid(Leaf()))
      return cls(Mid(Mid(Leaf())))

    x = jnp.asarray(np.random.default_rng(i).uniform(-1, 1, (2, 3)).astype(np.float32))
    plain, lifted = build(False), build(True)
    vp = plain.init(jax.random.key(i), x)
    vl = lifted.init(jax.random.key(i), x)
    ctx.op('nn.%s(module composed by attributes, depth >= 2)' % tr)
    ctx.check(shapes(vp) == shapes(vl), 'init:tree_structure:nested_adopted_attributes',
              lambda: dict(case=desc, plain=repr(shapes(vp))[:400], lifted=repr(shapes(vl))[:400]))
    vp2 = jax.tree_util.tree_map(lambda a: a + 0.125, vp)
    yp, up = plain.apply(vp2, x, mutable=['cnt'])
    try:
      yl, ul = lifted.apply(vp2, x, mutable=['cnt'])
    except Exception as e:  # noqa: BLE001
      ctx.check(False, 'apply:raises_on_plain_variables:nested_adopted_attributes', dict(case=desc, error=repr(e)[:300]))
      return
    ctx.check(close(yp, yl), 'apply:output:nested_adopted_attributes', lambda: dict(case=desc))
    ctx.check(shapes(up) == shapes(ul) and close(up, ul), 'apply:updates:nested_adopted_attributes', lambda: dict(case=desc))


def run_jit_process_history(ctx, i, rng):
  """Random draws made after a jitted call are a function of the program and the seeds - not of what the same jitted class was used
  for earlier in the process: another jitted method called before, or the same method traced before for another input shape whose
  number of draws differs."""
  import jax
  import jax.numpy as jnp
  import flax.linen as nn
  kind = ['two_methods', 'shape_dependent_draws', 'static_arg_draws'][i % 3]
  na = 1 + (i // 3) % 3          # draws made by the "earlier" use
  desc = dict(kind=kind, earlier_draws=na)
  with ctx.case('jit_process_history', i, desc, nontrivial=True):
    def make():
      class M(nn.Module):
        def a(self, x):
          for _ in range(na):
            x = x + jax.random.normal(self.make_rng('dropout'), x.shape)
          return x

        def b(self, x):
          return x * 2

        def c(self, x, n):
          for _ in range(n):
            x = x + jax.random.normal(self.make_rng('dropout'), x.shape)
          return x

        @nn.compact
        def __call__(self, x, which):
          if which in ('a', 'b'):
            x = self.a(x) if which == 'a' else self.b(x)
          elif which[0] == 'shape':
            x = self.c_shape(x)
          else:
            x = self.c(x, which[1])
          return x, jax.random.normal(self.make_rng('dropout'), (2,))

        def c_shape(self, x):
          for _ in range(x.shape[0]):
            x = x + jax.random.normal(self.make_rng('dropout'), x.shape)
          return x
      return nn.jit(M, methods={'a': {}, 'b': {}, 'c_shape': {}, 'c': dict(static_argnums=(2,))})

    rngs = {'dropout': jax.random.key(200 + i)}
    x2 = jnp.ones((2,))
    if kind == 'two_methods':
      first, second, xa, xb = 'a', 'b', x2, x2
    elif kind == 'shape_dependent_draws':
      first, second, xa, xb = ('shape',), ('shape',), jnp.ones((na + 1,)), x2
    else:
      first, second, xa, xb = ('static', na + 2), ('static', 1), x2, x2
    J1 = make()
    alone = J1().apply({}, xb, second, rngs=rngs)
    J2 = make()
    J2().apply({}, xa, first, rngs=rngs)                 # the earlier use
    after = J2().apply({}, xb, second, rngs=rngs)
    again = J2().apply({}, xb, second, rngs=rngs)        # and once more: a cache hit now
    ctx.op('nn.jit(methods) used twice in one process')
    ctx.check(close(alone, after), 'rng:jit_draws_depend_on_earlier_calls', lambda: dict(case=desc, alone=np.asarray(alone[1]).tolist(), after=np.asarray(after[1]).tolist()))
    ctx.check(close(alone, again), 'rng:jit_draws_depend_on_earlier_calls', lambda: dict(case=desc, which='cache hit', alone=np.asarray(alone[1]).tolist(), again=np.asarray(again[1]).tolist()))
    if kind == 'static_arg_draws':
      # a static argument that decides how many auto-named sub-modules a jitted helper creates: the init tree equals the plain one
      # whatever was traced before (the auto-name cursor recorded for ANOTHER static value must not be replayed)
      def make2():
        class H(nn.Module):
          def helper(self, x, n):
            for _ in range(n):
              x = nn.Dense(2)(x)
            return x

          @nn.compact
          def __call__(self, x, n):
            return nn.Dense(2)(self.helper(x, n))
        return H, nn.jit(H, methods=['helper'], static_argnums=(2,))
      Hp, Hj = make2()
      xx = jnp.ones((1, 2))
      for n in (1, 1 + na, 1):
        pn = sorted(Hp().init(jax.random.key(0), xx, n)['params'])
        jn = sorted(Hj().init(jax.random.key(0), xx, n)['params'])
        ctx.check(pn == jn, 'init:tree_structure:static_arg_decides_submodules', lambda: dict(case=desc, n=n, plain=pn, jitted=jn))


def run_map_variables_init(ctx, i, rng):
  """Identity nn.map_variables(..., init=True): applying it on the plain model's variables gives the plain output and updates,
  whichever OTHER collections the call makes mutable (the mapped collection itself stays read-only at apply)."""
  import jax
  import jax.numpy as jnp
  import flax.linen as nn
  mut = [False, ['cnt'], ['cnt', 'other'], True][i % 4]
  mapped = ['params', ('params',)][(i // 4) % 2]
  trans_mutable = (i // 8) % 2 == 1
  desc = dict(apply_mutable=repr(mut), mapped=repr(mapped), transform_mutable=trans_mutable)
  with ctx.case('map_variables_init', i, desc, nontrivial=mut is not False):
    class Inner(nn.Module):
      @nn.compact
      def __call__(self, x):
        x = nn.Dense(2)(x)
        c = self.variable('cnt', 'n', lambda: jnp.zeros(()))
        if self.is_mutable_collection('cnt'):
          c.value = c.value + 1.0
        return x + c.value

    class Outer(nn.Module):
      lifted: bool

      @nn.compact
      def __call__(self, x):
        cls = nn.map_variables(Inner, mapped, init=True, mutable=trans_mutable) if self.lifted else Inner
        return cls(name='inner')(x)

    x = jnp.asarray(np.random.default_rng(i).uniform(-1, 1, (1, 2)).astype(np.float32))
    v0 = Outer(False).init(jax.random.key(i), x)
    v0 = jax.tree_util.tree_map(lambda a: a + 0.5, v0)
    want = Outer(False).apply(v0, x, mutable=mut)
    try:
      got = Outer(True).apply(v0, x, mutable=mut)
    except Exception as e:  # noqa: BLE001
      ctx.check(False, 'map_variables:init_true_apply_raises', dict(case=desc, error=repr(e)[:200]))
      return
    ctx.op('nn.map_variables(init=True) at apply')
    ctx.check(close(want, got) and shapes(want) == shapes(got), 'map_variables:init_true_apply_differs', lambda: dict(case=desc))
    # the call that INITIALISES: the output and the variables of init_with_output equal the plain module's, also when the
    # body draws from an explicit rng stream (the pre-run that creates the mapped collection must not use up the draws)
    class Noisy(nn.Module):
      @nn.compact
      def __call__(self, x):
        y = nn.Dense(2)(x)
        n = jax.random.normal(self.make_rng('noise'), y.shape)
        return y + n + jax.random.normal(self.make_rng('noise'), y.shape) * 0.5

    class OuterN(nn.Module):
      lifted: bool

      @nn.compact
      def __call__(self, x):
        cls = nn.map_variables(Noisy, mapped, init=True, mutable=trans_mutable) if self.lifted else Noisy
        return cls(name='inner')(x) + jax.random.normal(self.make_rng('noise'), (1, 2))
    rngs = {'params': jax.random.key(i), 'noise': jax.random.key(90 + i)}
    yp, vp = OuterN(False).init_with_output(rngs, x)
    yl, vl = OuterN(True).init_with_output(rngs, x)
    ctx.op('nn.map_variables(init=True) at init with rng draws')
    ctx.check(close(vp, vl) and shapes(vp) == shapes(vl), 'map_variables:init_true_init_variables_differ', lambda: dict(case=desc))
    ctx.check(close(yp, yl), 'map_variables:init_true_init_output_differs:rng_draws', lambda: dict(case=desc))
    ya, yb = OuterN(False).apply(vp, x, rngs=rngs), OuterN(True).apply(vp, x, rngs=rngs)
    ctx.check(close(ya, yb), 'map_variables:init_true_apply_differs:rng_draws', lambda: dict(case=desc))


def run_history(ctx, i, rng):
  """Stale-trace probe: one lifted instance is called repeatedly while mutable / variable structure change; a sibling instance with
  a different attribute must not reuse the trace."""
  import jax
  import jax.numpy as jnp
  from flax.core import unfreeze
  P = parent_classes()['Parent']
  kind = ['jit', 'jit_method', 'remat'][i % 3]
  d = 2
  inner = ('node', 'compact', (('param', 'p', 'scale', d), ('counter', 'state', 'n'), ('stat', 'batch_stats', 'ra', 0.9, d), ('sow', 'probes', 's'), ('dense', 'dd', d, d)))
  desc = dict(kind=kind, i=i)
  with ctx.case('history', i, desc, nontrivial=True):
    x = np.random.default_rng(i).uniform(-1, 1, size=(2, d)).astype(np.float32)
    rngs = {'params': jax.random.key(i), 'noise': jax.random.key(5)}
    tail = kind != 'jit_method'
    lifted, plain = P(kind, inner, d, tail_noise=tail), P('plain:' + kind, inner, d, tail_noise=tail)
    v = unfreeze(plain.init(rngs, x))
    steps = [('mutable', False), ('mutable', ['state']), ('mutable', ['state', 'batch_stats', 'probes']), ('mutable', False), ('tweak', 3.0),
             ('mutable', True), ('vars', 'bump'), ('mutable', ['batch_stats'])]
    rng.shuffle(steps)
    cur_l, cur_p = lifted, plain
    for st in steps[:rng.randint(3, 6)]:
      mut = False
      if st[0] == 'mutable':
        mut = st[1]
      elif st[0] == 'tweak':
        # a changed attribute: for the method form `tweak` is used inside the jitted method; for the class form the lifted
        # child gets a different (same-shaped) program
        inner2 = ('node', 'compact', inner[2] + (('act', 'tanh'),))
        cur_l, cur_p = P(kind, inner2, d, tweak=st[1], tail_noise=tail), P('plain:' + kind, inner2, d, tweak=st[1], tail_noise=tail)
      elif st[0] == 'vars':
        v = jax.tree_util.tree_map(lambda a: a + 1 if np.asarray(a).dtype == np.float32 else a, v)
      ol = cur_l.apply(v, x, rngs=rngs, mutable=mut)
      op_ = cur_p.apply(v, x, rngs=rngs, mutable=mut)
      ctx.op('nn.%s(history)' % kind)
      ctx.check(close(ol, op_), 'history:stale_trace', lambda: dict(case=desc, step=repr(st)))


_ATTR = {}


def attr_classes():
  if _ATTR:
    return _ATTR
  import flax.linen as nn
  import jax.numpy as jnp
  from typing import Any

  class A(nn.Module):
    axis: Any = -1
    scale: Any = 1.0
    tags: Any = ()
    cfg: Any = None
    layer_cls: Any = None    # a CLASS as attribute value (norm_cls=nn.LayerNorm style configuration)

    @nn.compact
    def __call__(self, x):
      if self.layer_cls is not None:
        x = self.layer_cls()(x)
      p = self.param('p', nn.initializers.ones, (x.shape[-1],))
      ax = self.axis if isinstance(self.axis, (int, tuple)) else int(self.axis)
      y = jnp.sum(x * p, axis=ax) * self.scale
      for t in (self.tags if isinstance(self.tags, tuple) else (self.tags,)):
        y = y + (len(t) if isinstance(t, str) else t)
      if self.cfg is not None:
        y = y * dict(self.cfg)['k']
      return y

  class Holder(nn.Module):
    child: nn.Module

    @nn.compact
    def __call__(self, x):
      return self.child(x) + 1.0

  class Twice(nn.Module):   # two module classes with the same fields (none) and different behaviour
    def __call__(self, x):
      return x * 2.0

  class Thrice(nn.Module):
    def __call__(self, x):
      return x * 3.0 + 1.0

  def factory(k):
    # classes made by a factory share module + qualified name; only the class OBJECT tells them apart
    class Fac(nn.Module):
      def __call__(self, x):
        return x * k + 1.0
    return Fac

  _ATTR.update(A=A, JA=nn.jit(A), JHolder=nn.jit(Holder), Holder=Holder, Twice=Twice, Thrice=Thrice,
               Fac2=factory(2.0), Fac5=factory(5.0), FacJ2=nn.jit(factory(2.0)), FacJ5=nn.jit(factory(5.0)))
  return _ATTR


# attribute values that differ only in one hashable field; neighbours are chosen so that Python hashes collide
# (hash(-1) == hash(-2), hash(-1.0) == hash(-2.0), hash(2.0**61) == hash(1.0)): equality of cache keys must not be decided by hash
ATTR_VALUES = [dict(axis=-1), dict(axis=-2), dict(axis=0), dict(axis=(-1,)), dict(axis=(-2,)), dict(scale=-1.0), dict(scale=-2.0),
               dict(scale=-1), dict(scale=-2), dict(scale=1.0), dict(scale=2.0 ** 61), dict(tags=(-1,)), dict(tags=(-2,)), dict(tags=('a', -1)),
               dict(tags=('a', -2)), dict(tags='ab'), dict(tags='abc'), dict(cfg=(('k', -1),)), dict(cfg=(('k', -2),)),
               dict(axis=-2, scale=-1.0), dict(axis=-1, scale=-2.0), dict(layer_cls='Twice'), dict(layer_cls='Thrice'),
               dict(layer_cls='Twice', axis=-2), dict(layer_cls='Thrice', axis=-2), dict(factory_child='Fac2'), dict(factory_child='Fac5'),
               dict(layer_cls='Fac2'), dict(layer_cls='Fac5')]


def run_attr_history(ctx, i, rng):
  """One jitted class, many instances that differ in one attribute only, called in a seeded order: every call must equal the
  plain module with the same attributes (a stale trace shows as the previous attribute's result)."""
  import jax
  C = attr_classes()
  form = ['class', 'holder'][i % 2]
  order = list(range(len(ATTR_VALUES)))
  rng.shuffle(order)
  order = order[:12]
  desc = dict(form=form, order=[ATTR_VALUES[j] for j in order])
  with ctx.case('attr_history', i, desc, nontrivial=True):
    x = np.random.default_rng(i).uniform(-1, 1, size=(2, 3, 3)).astype(np.float32)
    v = C['A']().init(jax.random.key(0), x)
    for j in order:
      kw = {k: (C[v] if k == 'layer_cls' else v) for k, v in ATTR_VALUES[j].items()}
      if 'factory_child' in kw:
        # the module-valued attribute (holder form) / the jitted class itself (class form) is an instance of a factory-made class
        name = kw['factory_child']
        if form == 'class':
          got, want = C['FacJ' + name[-1]]().apply({}, x), C[name]().apply({}, x)
        else:
          got, want = C['JHolder'](C[name]()).apply({}, x), C['Holder'](C[name]()).apply({}, x)
      elif form == 'class':
        got = C['JA'](**kw).apply(v, x)
        want = C['A'](**kw).apply(v, x)
      else:
        hv = {'params': {'child': v['params']}}
        got = C['JHolder'](C['A'](**kw)).apply(hv, x)
        want = C['Holder'](C['A'](**kw)).apply(hv, x)
      ctx.op('nn.jit(attribute history)')
      ctx.check(close(got, want), 'history:stale_trace:attribute_only', lambda: dict(form=form, attrs=repr(kw), order=repr(desc['order']),
                                                                                   got=np.asarray(got).tolist(), want=np.asarray(want).tolist()))


FIELD_POOL = ['encoder', 'decoder', 'net', 'head', 'query', 'key', 'z', 'a', 'm1', 'm0']
CHILD_FLAVOURS = ['class_remat', 'class_jit', 'class_mapv', 'method_remat', 'method_jit', 'cond', 'switch', 'while']
_CHILD_CLS = {}


def attr_child_container(fields, flavour):
  """A container whose sub-modules arrive as dataclass attributes named `fields` (declaration order = the given order, which is
  usually not alphabetical), wrapped in / using one lifted transform. Cached per (fields, flavour)."""
  key = (fields, flavour)
  if key in _CHILD_CLS:
    return _CHILD_CLS[key]
  import flax.linen as nn
  import jax.numpy as jnp

  def body(self, x):
    h = x
    for k, f in enumerate(fields):
      sub = getattr(self, f)
      subs = sub if isinstance(sub, tuple) else (sub,)
      for s_ in subs:
        h = nn.tanh(s_(h)) + (0.5 + k) * h
    return h

  if flavour in ('plain', 'class_remat', 'class_jit', 'class_mapv'):
    call = body
  elif flavour == 'method_remat':
    call = nn.remat(body)
  elif flavour == 'method_jit':
    call = nn.jit(body)
  elif flavour == 'cond':
    def call(self, x):
      return nn.cond(jnp.sum(x) > -1e9, lambda m, x: body(m, x), lambda m, x: -body(m, x), self, x)
  elif flavour == 'switch':
    def call(self, x):
      return nn.switch(jnp.asarray(1), [lambda m, x: body(m, x) * 2.0, lambda m, x: body(m, x), lambda m, x: -body(m, x)], self, x)
  else:
    def call(self, x):
      if self.is_initializing():
        return body(self, x)
      return nn.while_loop(lambda m, c: c[0] < 1, lambda m, c: (c[0] + 1, body(m, c[1])), self, (jnp.asarray(0), x),
                           carry_variables='stats')[1]
  from typing import Any
  cls = type('Container', (nn.Module,), {'__annotations__': {f: Any for f in fields}, '__call__': call})
  if flavour == 'class_remat':
    cls = nn.remat(cls)
  elif flavour == 'class_jit':
    cls = nn.jit(cls)
  elif flavour == 'class_mapv':
    cls = nn.map_variables(cls, 'params', mutable=True)
  _CHILD_CLS[key] = cls
  return cls


def child_block():
  if 'Block' in _CHILD_CLS:
    return _CHILD_CLS['Block']
  import flax.linen as nn
  import jax.numpy as jnp

  class Block(nn.Module):
    width: int
    gain: float = 1.0

    @nn.compact
    def __call__(self, x):
      calls = self.variable('stats', 'calls', lambda: jnp.zeros((), jnp.int32))
      seen = self.variable('stats', 'seen', lambda: jnp.zeros((), jnp.float32))
      if not self.is_initializing():
        calls.value = calls.value + 1
        seen.value = seen.value + jnp.mean(x) * self.gain
      return nn.Dense(self.width)(x) * self.gain

  _CHILD_CLS['Block'] = Block
  return Block


def run_attr_children(ctx, i, rng):
  """Sub-modules passed to a lifted module as dataclass attributes: each must keep reading and writing its OWN variables inside the
  lifted region, whatever the declaration order of the fields (the scopes are collected and re-bound by two separate traversals)."""
  import jax
  from flax.core import unfreeze
  Block = child_block()
  flavour = CHILD_FLAVOURS[i % len(CHILD_FLAVOURS)]
  nf = rng.choice([2, 2, 3])
  fields = tuple(rng.sample(FIELD_POOL, nf))
  tuple_field = rng.random() < 0.25
  shared = rng.random() < 0.3
  desc = dict(flavour=flavour, fields=fields, alphabetical=list(fields) == sorted(fields), tuple_field=tuple_field, shared_with_outer=shared)
  with ctx.case('attr_children', i, desc, nontrivial=list(fields) != sorted(fields)):
    d = 3

    def make(flv):
      import flax.linen as nn
      cls = attr_child_container(fields, flv)
      def subs():
        out = {}
        for k, f in enumerate(fields):
          out[f] = (Block(d, 1.0 + k), Block(d, 3.0 + k)) if (tuple_field and k == 0) else Block(d, 1.0 + k)
        return out
      if not shared:
        return cls(**subs())

      class Outer(nn.Module):
        @nn.compact
        def __call__(self, x):
          mods = {f: (Block(d, 1.0 + k, name='blk_%d' % (9 - k))) for k, f in enumerate(fields)}
          y = cls(**mods, name='box')(x)
          return y + mods[fields[0]](x)   # the first block is also used directly by the outer module
      return Outer()

    x = np.random.default_rng(i).uniform(-1, 1, size=(2, d)).astype(np.float32)
    rngs = {'params': jax.random.key(i)}
    plain, lifted = make('plain'), make(flavour)
    v = unfreeze(plain.init(rngs, x))
    vl = unfreeze(lifted.init(rngs, x))
    ctx.op('nn.%s(attribute sub-modules).init' % flavour)
    ctx.check(shapes(vl) == shapes(v), 'init:tree_structure:attribute_submodules', lambda: dict(case=desc, lifted=shapes(vl), plain=shapes(v)))
    if flavour in ('class_remat', 'method_remat', 'class_mapv', 'while'):
      ctx.check(close(vl, v), 'init:values:attribute_submodules', lambda: dict(case=desc))
    # make the two fields' variables clearly different, then apply twice
    v['stats'] = jax.tree_util.tree_map(lambda a: a, v['stats'])
    for rep in range(2):
      want = plain.apply(v, x, mutable=['stats'])
      got = lifted.apply(v, x, mutable=['stats'])
      ctx.op('nn.%s(attribute sub-modules).apply' % flavour)
      ctx.check(close(got[0], want[0]), 'apply:output:attribute_submodules', lambda: dict(case=desc, got=np.asarray(got[0]).tolist(), want=np.asarray(want[0]).tolist()))
      ctx.check(close(unfreeze(got[1]), unfreeze(want[1])), 'updates:differ:attribute_submodules',
                lambda: dict(case=desc, got=repr(unfreeze(got[1]))[:400], want=repr(unfreeze(want[1]))[:400]))
      v = dict(v, stats=unfreeze(want[1])['stats'])


_HELPER = {}


def helper_classes(tr_name, n_helper, n_after, twice):
  key = (tr_name, n_helper, n_after, twice)
  if key in _HELPER:
    return _HELPER[key]
  import flax.linen as nn
  import jax.numpy as jnp
  class_form = tr_name.endswith('_class_methods')   # nn.jit(Cls, methods=['helper']) instead of decorating the method
  tr = {'plain': (lambda f: f), 'jit': nn.jit, 'remat': nn.remat}[tr_name.split('_')[0]]
  mtr = (lambda f: f) if class_form else tr

  class M(nn.Module):
    def helper(self, x):
      for _ in range(n_helper):
        x = jnp.tanh(nn.Dense(3)(x))      # auto-named Dense_0 ..
      return x
    helper = mtr(helper)

    @nn.compact
    def __call__(self, x):
      x = self.helper(x)
      if twice:
        x = self.helper(x) + 0.5 * x       # the helper's layers are created once and reused by the second call? no: auto-names go on
      for _ in range(n_after):
        x = nn.Dense(3)(x)                 # must continue the numbering after the helper's layers
      return x

  if class_form:
    M = tr(M, methods=['helper'])
  _HELPER[key] = M
  return M


def run_jit_helper(ctx, i, rng):
  """A lifted HELPER METHOD that creates auto-named sub-modules, called from a compact __call__ that creates more of them afterwards:
  the numbering of auto-names must go on after the helper on every call - also when the jitted helper is a trace-cache hit."""
  import jax
  from flax.core import unfreeze
  tr_name = ['jit', 'jit_class_methods', 'remat', 'jit', 'remat_class_methods', 'jit_class_methods'][i % 6]
  n_helper, n_after, twice = 1 + (i // 3) % 2, 1 + (i // 6) % 2, (i // 12) % 2 == 1
  same_instance = (i // 24) % 2 == 1
  desc = dict(transform=tr_name, helper_layers=n_helper, layers_after=n_after, helper_called_twice=twice, same_instance=same_instance)
  with ctx.case('jit_helper', i, desc, nontrivial=True):
    P, L = helper_classes('plain', n_helper, n_after, twice), helper_classes(tr_name, n_helper, n_after, twice)
    x = np.random.default_rng(i).uniform(-1, 1, size=(2, 3)).astype(np.float32)
    vs = unfreeze(P().init(jax.random.key(i), x))
    vl = unfreeze(L().init(jax.random.key(i), x))
    ctx.op('nn.%s(helper method creating auto-named sub-modules)' % tr_name)
    if tr_name.endswith('_class_methods'):
      desc['class_form'] = True
    ctx.check(shapes(vl) == shapes(vs), 'init:tree_structure:lifted_helper_method', lambda: dict(case=desc, lifted=shapes(vl), plain=shapes(vs)))
    want = P().apply(vs, x)
    inst = L()
    for rep in range(3):
      got = (inst if same_instance else L()).apply(vs, x)
      ctx.check(close(got, want), 'history:stale_trace:autoname_cursor_after_lifted_helper',
                lambda: dict(case=desc, call=rep, got=np.asarray(got).tolist(), want=np.asarray(want).tolist()))


def run_jit_kwargs(ctx, i, rng):
  """nn.jit keyword arguments that refer to argument POSITIONS (static_argnums, donate_argnums, both): the lifted block computes what
  the plain block computes and only the arguments the caller named are donated - an input that the caller reuses after the call is
  still alive."""
  import warnings
  import jax
  import jax.numpy as jnp
  import flax.linen as nn
  from flax.core import unfreeze
  variant = ['static', 'donate', 'static_donate', 'static_donate_int', 'two_static_donate', 'none'][i % 6]
  d = rng.randint(2, 4)
  desc = dict(variant=variant, d=d)
  with ctx.case('jit_kwargs', i, desc, nontrivial=True):
    class Block(nn.Module):
      @nn.compact
      def __call__(self, mode, x, flag, h):
        y = nn.Dense(x.shape[-1])(x)
        y = jnp.tanh(y) if mode == 'tanh' else nn.relu(y)
        if flag:
          y = y * 2.0
        calls = self.variable('state', 'calls', lambda: jnp.zeros((), jnp.int32))
        calls.value = calls.value + 1
        return y + h

    # positions: 0 self, 1 mode (static), 2 x (reused by the caller), 3 flag (static), 4 h (temporary, may be donated)
    kw = {'static': dict(static_argnums=(1, 3)), 'donate': None, 'static_donate': dict(static_argnums=(1, 3), donate_argnums=(4,)),
          'static_donate_int': dict(static_argnums=(3, 1), donate_argnums=4), 'two_static_donate': dict(static_argnums=(1, 3), donate_argnums=(4,)),
          'none': dict(static_argnums=(1, 3))}[variant]

    class Block2(nn.Module):   # no static arguments: donate by position only
      @nn.compact
      def __call__(self, x, h):
        y = jnp.tanh(nn.Dense(x.shape[-1])(x))
        calls = self.variable('state', 'calls', lambda: jnp.zeros((), jnp.int32))
        calls.value = calls.value + 1
        return y + h

    def net(lifted):
      if variant == 'donate':
        cls = nn.jit(Block2, donate_argnums=(2,)) if lifted else Block2
      else:
        cls = nn.jit(Block, **kw) if lifted else Block

      class Net(nn.Module):
        @nn.compact
        def __call__(self, x, h0):
          h = h0 * 2.0                       # a temporary that nobody needs after the block: safe to donate
          blk = cls(name='blk')
          y = blk(x, h) if variant == 'donate' else blk('tanh', x, True, h)
          return y * x + jnp.sum(x)          # the block's input is used again after the block
      return Net()

    x = jnp.asarray(np.random.default_rng(i).uniform(-1, 1, (2, d)).astype(np.float32))
    h0 = jnp.asarray(np.random.default_rng(i + 1).uniform(-1, 1, (2, d)).astype(np.float32))
    plain, lifted = net(False), net(True)
    with warnings.catch_warnings():
      warnings.simplefilter('ignore')   # "Some donated buffers were not usable" on CPU
      try:
        v = unfreeze(plain.init(jax.random.key(i), x, h0))
        vl = unfreeze(lifted.init(jax.random.key(i), x, h0))
        want = plain.apply(v, x, h0, mutable=['state'])
        got = lifted.apply(v, x, h0, mutable=['state'])
        got2 = lifted.apply(v, x, h0, mutable=['state'])
      except RuntimeError as e:
        ctx.check(False, 'jit_kwargs:argument_not_named_was_donated', dict(case=desc, error=repr(e)[:300]))
        return
    ctx.op('nn.jit(%s)' % variant)
    ctx.check(shapes(vl) == shapes(v), 'init:tree_structure:jit_kwargs', lambda: dict(case=desc))
    ctx.check(close(got, want) and close(got2, want), 'apply:output:jit_kwargs', lambda: dict(case=desc))
    ctx.check(bool(np.isfinite(np.asarray(x)).all()) and not x.is_deleted() and not h0.is_deleted(), 'jit_kwargs:caller_input_deleted', lambda: dict(case=desc))


def run_bad_write(ctx, i, rng):
  import jax
  from flax import errors
  P = parent_classes()['Parent']
  kind = ['jit', 'remat', 'map_variables', 'cond', 'switch'][i % 5]
  d = 2
  col = ['state', 'batch_stats', 'params'][i % 3]
  inner = ('node', 'compact', (('param', 'p', 'scale', d), ('counter', 'state', 'n'), ('stat', 'batch_stats', 'ra', 0.9, d)))
  bad = ('node', 'compact', inner[2] + (('bad_write', col),))
  desc = dict(kind=kind, col=col)
  with ctx.case('bad_write', i, desc, nontrivial=True):
    x = np.ones((2, d), np.float32)
    rngs = {'params': jax.random.key(i), 'noise': jax.random.key(5)}
    v = P('plain:' + kind, inner, d).init(rngs, x)
    for mut_name, mut in (('False', False), ("['cache']", ['cache'])):
      res = {}
      for side in ('plain:' + kind, kind):
        try:
          P(side, bad, d).apply(v, x, rngs=rngs, mutable=mut)
          res[side] = None
        except Exception as e:  # noqa: BLE001
          res[side] = type(e).__name__
      ctx.op('nn.%s(bad write)' % kind)
      ctx.check(res[kind] is not None, 'bad_write:accepted_under_transform', lambda: dict(case=desc, mutable=mut_name, plain=res['plain:' + kind]))


def run_cond_rng_deep(ctx, i, rng):
  """nn.cond / nn.switch whose branches call a setup() sub-module that draws random numbers SEVERAL scope levels below the
  lifted module, where that sub-module may already have been called in plain code before the conditional (its rng counters
  exist when the conditional is entered): every branch - not only the first one traced - and the code after the conditional
  use the draws of the equivalent Python control flow. (Round h: the draws of `cond_rng` are at most one level down and the
  sub-modules are created inside the branch.)"""
  import jax
  import jax.numpy as jnp
  import flax.linen as nn
  kind = ['cond', 'switch'][i % 2]
  n_branches = 2 if kind == 'cond' else 3
  sel = (i // 2) % n_branches
  depth = 1 + (i // 6) % 3
  warm = (i // 18) % 3          # plain calls of the block before the conditional
  after = (i // 54) % 2 == 1    # the block is called again after the conditional
  desc = dict(kind=kind, selected=sel, draw_depth=depth, plain_calls_before=warm, call_after=after)
  with ctx.case('cond_rng_deep', i, desc, nontrivial=depth >= 2 and warm >= 1):
    class Noise(nn.Module):
      @nn.compact
      def __call__(self, x):
        return x + jax.random.normal(self.make_rng('dropout'), x.shape)

    class Block(nn.Module):
      depth: int

      def setup(self):
        self.inner = Noise() if self.depth == 1 else Block(self.depth - 1)

      def __call__(self, x):
        return self.inner(x) * 0.5

    branches = [lambda m, x: m.blk(x) * 2.0, lambda m, x: m.blk(x) + 1.0, lambda m, x: m.blk(x * 2.0) - 3.0][:n_branches]
    # (every branch draws the same number of keys: with unequal numbers the counters after the conditional are the maximum over
    #  the branches - the branch taken is not known while tracing - and only freshness of later keys is promised, see cond_rng)

    class M(nn.Module):
      lifted: bool

      def setup(self):
        self.blk = Block(depth)

      def __call__(self, x):
        for _ in range(warm):
          x = self.blk(x)
        if not self.lifted:
          y = branches[(1 - sel) if kind == 'cond' else sel](self, x)
        elif kind == 'cond':
          y = nn.cond(jnp.asarray(sel == 1), branches[0], branches[1], self, x)
        else:
          y = nn.switch(jnp.asarray(sel), branches, self, x)
        z = self.blk(y) if after else y
        return y, z, jax.random.normal(self.make_rng('dropout'), x.shape)

    x = jnp.arange(3.0) + i % 4
    rngs = {'dropout': jax.random.key(500 + i)}
    want = M(False).apply({}, x, rngs=rngs)
    got = M(True).apply({}, x, rngs=rngs)
    ctx.op('nn.%s(branches call a deep setup sub-module that draws)' % kind)
    ctx.check(close(want[0], got[0]), 'rng:%s_branch_draws_differ_from_python:deep' % kind,
              lambda: dict(case=desc, python=np.asarray(want[0]).tolist(), lifted=np.asarray(got[0]).tolist()))
    ctx.check(close(want[1], got[1]) and close(want[2], got[2]), 'rng:draw_after_%s_differs_from_python:deep' % kind,
              lambda: dict(case=desc))


def run(ctx):
  for i in ctx.indices(108, 'cond_rng_deep'):
    run_cond_rng_deep(ctx, i, ctx.rng('cond_rng_deep', i))
  n = 420 if ctx.tier == 'quick' else 4200
  for i in ctx.indices(n, 'case'):
    run_case(ctx, i, ctx.rng('case', i))
  ctx.event('kinds_covered', len(KINDS))
  for i in ctx.indices(24 if ctx.tier == 'quick' else 160, 'rng'):
    run_rng(ctx, i, ctx.rng('rng', i))
  for i in ctx.indices(16, 'map_variables_init'):
    run_map_variables_init(ctx, i, ctx.rng('map_variables_init', i))
  for i in ctx.indices(18 if ctx.tier == 'quick' else 54, 'jit_process_history'):
    run_jit_process_history(ctx, i, ctx.rng('jit_process_history', i))
  for i in ctx.indices(24 if ctx.tier == 'quick' else 48, 'nested_adoption'):
    run_nested_adoption(ctx, i, ctx.rng('nested_adoption', i))
  for i in ctx.indices(48 if ctx.tier == 'quick' else 96, 'cond_rng'):
    run_cond_rng(ctx, i, ctx.rng('cond_rng', i))
  for i in ctx.indices(30 if ctx.tier == 'quick' else 300, 'history'):
    run_history(ctx, i, ctx.rng('history', i))
  for i in ctx.indices(18 if ctx.tier == 'quick' else 72, 'jit_kwargs'):
    run_jit_kwargs(ctx, i, ctx.rng('jit_kwargs', i))
  for i in ctx.indices(48 if ctx.tier == 'quick' else 96, 'jit_helper'):
    run_jit_helper(ctx, i, ctx.rng('jit_helper', i))
  for i in ctx.indices(48 if ctx.tier == 'quick' else 400, 'attr_children'):
    run_attr_children(ctx, i, ctx.rng('attr_children', i))
  for i in ctx.indices(24 if ctx.tier == 'quick' else 200, 'attr_history'):
    run_attr_history(ctx, i, ctx.rng('attr_history', i))
  for i in ctx.indices(15 if ctx.tier == 'quick' else 60, 'bad_write'):
    run_bad_write(ctx, i, ctx.rng('bad', i))
