"""C06 — lifted scan and vmap equal the explicit loop and the per-example stack.

Monitor shape: loop/stack reference built from the SAME body module applied standalone on slices (real flax code on slices; C12
pins the layers to formulas): axis collections are sliced with np.take along their axis, broadcast collections are shared, carry
collections are threaded through the iterations; outputs, final carry and every returned collection are compared. RNG clauses are
observed through a body that returns key_data(make_rng(stream))."""
import itertools

import numpy as np

LEVEL = 'exploration'
LEVEL_TEXT = ('Generated loop bodies (params / Dense / nested child / counters / running statistics from vf/gen/linen_prog.py) under nn.scan with '
              'every assignment of the collections {params, state, batch_stats} to axis k (0..rank, In/Out) / broadcast / carry, length 1-4, '
              'reverse, unroll in {1,2,len}, in_axes/out_axes in {0,1} and None-broadcast inputs, split_rngs per stream, at init and apply; nn.vmap with '
              'axis / None collections, in/out axes, axis_size; nn.remat_scan with lengths (n,) and (a,b). Each result is compared with a '
              'Python loop over sliced variables that calls the same body standalone.'
              ' Further streams: remat_scan rng splitting, scan-of-vmap nesting, negative axes, functional form on the'
              ' enclosing module with pre-existing broadcast variables.'
              ' Round e/f: readonly_carry (carried collection immutable at apply), attr_body (scanned / vmapped body with attribute modules in non-alphabetical order).'
              ' Round g: grandchild_arg (functional lifts with a bound grand-child sub-module as extra argument).'
              ' Round h: multi_method (nn.scan / nn.vmap of a class with a methods= dict of differing per-method settings).')
LEVEL_NOTE = ('The reference trusts the body module (its layers are C12/C02 matters) and NumPy slicing/stacking; float32 same-program '
              'tolerance. Keys: split streams must give pairwise distinct keys across iterations, unsplit streams one key.')
TECHNIQUE = 'runtime monitoring: loop/stack reference oracle on generated scan/vmap configurations of the real lifted transforms'
RULE = ('case = (body program, role of each collection, axes, length, reverse, unroll, in/out axes, split_rngs). distinct = distinct descriptor; '
        'non-trivial = length >= 2 and at least one axis collection or carry collection.')
ASSUMPTIONS = ['float32 same-program tolerance rtol 1e-5 atol 1e-6', 'vf.compat aliases are faithful (remat_scan uses jax.checkpoint)']
PLAN = {'quick': dict(workers=8, timeout_s=1500), 'thorough': dict(workers=14, timeout_s=3400)}
MIN_EVENTS = {'quick': {'oracle:scan.apply': 100, 'oracle:scan.init': 60, 'oracle:vmap': 60, 'oracle:rng': 40, 'oracle:remat_scan': 8},
              'thorough': {'oracle:scan.apply': 1500, 'oracle:vmap': 800}}


def body_classes():
  global _B
  try:
    return _B
  except NameError:
    pass
  import jax
  import jax.numpy as jnp
  import flax.linen as nn
  from vf.gen import linen_prog as LP
  C = LP.classes()

  class Body(nn.Module):
    inner: tuple
    d: int

    @nn.compact
    def __call__(self, c, x):
      NodeC = C['NodeC'] if self.inner[1] == 'compact' else C['NodeS']
      h = NodeC(self.inner, name='core')(c + x)
      h = jnp.tanh(h)
      return h, h * 2.0 + x

  class VBody(nn.Module):
    inner: tuple
    d: int

    @nn.compact
    def __call__(self, x):
      NodeC = C['NodeC'] if self.inner[1] == 'compact' else C['NodeS']
      return jnp.tanh(NodeC(self.inner, name='core')(x))

  class KeyBody(nn.Module):
    streams: tuple

    @nn.compact
    def __call__(self, c, x):
      w = self.param('w', nn.initializers.normal(1.0), (2,))
      ks = tuple(jax.random.key_data(self.make_rng(s)) for s in self.streams)
      return c + x * w, ks

  class VKeyBody(nn.Module):
    streams: tuple

    @nn.compact
    def __call__(self, x):
      w = self.param('w', nn.initializers.normal(1.0), (2,))
      ks = tuple(jax.random.key_data(self.make_rng(s)) for s in self.streams)
      return x * w, ks

  class DenseBody(nn.Module):
    d: int

    @nn.compact
    def __call__(self, x):
      return jnp.tanh(nn.Dense(self.d, name='lin')(x))

  class RSKeyBody(nn.Module):
    streams: tuple

    @nn.compact
    def __call__(self, x):
      for s in self.streams:
        self.variable('keys', s, lambda s=s: jax.random.key_data(self.make_rng(s)))
      w = self.param('w', nn.initializers.normal(1.0), (2,))
      return jnp.tanh(x * w)

  _B = dict(RSKeyBody=RSKeyBody, Body=Body, VBody=VBody, KeyBody=KeyBody, VKeyBody=VKeyBody, DenseBody=DenseBody)
  return _B


def close(a, b):
  import jax
  from vf import core
  la, ta = jax.tree_util.tree_flatten(a)
  lb, tb = jax.tree_util.tree_flatten(b)
  if ta != tb:
    return False
  return all(np.shape(x) == np.shape(y) and np.allclose(np.asarray(x, np.float64), np.asarray(y, np.float64), **core.TOL_SAME_PROGRAM)
             for x, y in zip(la, lb))


def tmap(f, *trees):
  import jax
  return jax.tree_util.tree_map(f, *trees)


def stacked_shape(shape, axis, n):
  """Shape after stacking n copies along `axis` (negative axes count from the end of the STACKED array, like np.stack)."""
  shape = tuple(shape)
  pos = axis if axis >= 0 else len(shape) + 1 + axis
  return shape[:pos] + (n,) + shape[pos:]


def take(tree, axis, t):
  return tmap(lambda a: np.take(np.asarray(a), t, axis=axis), tree)


def stack(trees, axis):
  return tmap(lambda *xs: np.stack([np.asarray(x) for x in xs], axis=axis), *trees)


def gen_inner(rng, d, cols):
  from vf.gen import linen_prog as LP
  opts = dict(keep_dim=True, max_ops=4, cols=cols, rng_ops=False, observe=False, shared=False, styles=['compact', 'compact', 'setup'])
  inner, _ = LP.gen_node(rng, d, rng.randint(0, 1), opts, [2])
  # make sure the body has at least one parameter and one state variable
  ops = list(inner[2])
  if not any(o[0] in ('param', 'dense') for o in ops):
    ops.append(('param', 'p_extra', 'scale', d))
  if not any(o[0] in ('counter', 'stat') for o in ops):
    ops.append(('counter', cols[0], 'n_extra'))
  return (inner[0], inner[1], tuple(ops))


def cols_of(inner):
  from vf.gen import linen_prog as LP
  return sorted(LP.collections_used(inner))


def run_scan(ctx, i, rng):
  import jax
  import jax.numpy as jnp
  import flax.linen as nn
  from flax.core import unfreeze
  B = body_classes()
  d = rng.randint(1, 3)
  inner = gen_inner(rng, d, ['state', 'batch_stats'])
  cols = cols_of(inner)
  T = rng.randint(1, 4)
  reverse = rng.random() < 0.4
  unroll = rng.choice([1, 1, 2, T])
  # roles
  roles = {}
  for col in cols:
    if col == 'params':
      roles[col] = rng.choice([('axis', 0), ('axis', 1), ('broadcast',), ('axis', 0)])
    else:
      roles[col] = rng.choice([('axis', 0), ('carry',), ('carry',), ('axis', 1)])
  # rank of leaves may be 0 (counters): axis must be <= rank of every leaf in the collection -> use axis 0 for collections with scalars
  rank_min = {}
  from vf.gen import linen_prog as LP
  rv = LP.ref_vars(inner, path=('core',))
  for col in cols:
    ranks = [len(shape) for shape, _ in rv.get(col, {}).values()] or [0]
    rank_min[col] = min(ranks)
  for col, r in list(roles.items()):
    if r[0] == 'axis' and r[1] > rank_min[col]:
      roles[col] = ('axis', rank_min[col])
  # negative axes (counted on the stacked array): -1 = new last axis of EVERY leaf whatever its rank, -2 needs rank >= 1
  for col, r in list(roles.items()):
    if r[0] == 'axis' and rng.random() < 0.3:
      roles[col] = ('axis', -1 if rank_min[col] == 0 or rng.random() < 0.7 else -2)
  in_ax = rng.choice([0, 0, 1, -1])
  out_ax = rng.choice([0, 0, 1, -1, -2])
  split_params = rng.random() < 0.7
  if roles.get('params', ('x',))[0] == 'broadcast':
    split_params = False  # a broadcast collection cannot depend on per-iteration rngs
  # the non-default scan implementation (no constancy check of broadcast variables) must be the same loop
  # (documented: without the check there is "no support for broadcast non-carry outputs", i.e. broadcast collections cannot be
  # created inside the loop - the variant is generated for configurations without broadcast collections only)
  cci = not (i % 4 == 3 and not any(r[0] == 'broadcast' for r in roles.values()))
  desc = dict(inner=repr(inner)[:500], d=d, T=T, reverse=reverse, unroll=unroll, roles=roles, in_axes=in_ax, out_axes=out_ax, split_params=split_params,
              check_constancy_invariants=cci)
  nontrivial = T >= 2 and any(r[0] in ('axis', 'carry') for r in roles.values())
  with ctx.case('scan', i, desc, nontrivial=nontrivial):
    variable_axes = {col: r[1] for col, r in roles.items() if r[0] == 'axis'}
    bcast = [col for col, r in roles.items() if r[0] == 'broadcast']
    carry = [col for col, r in roles.items() if r[0] == 'carry']
    S = nn.scan(B['Body'], variable_axes=variable_axes, variable_broadcast=bcast or False, variable_carry=carry or False,
                split_rngs={'params': split_params}, in_axes=in_ax, out_axes=out_ax, length=T, reverse=reverse, unroll=unroll,
                check_constancy_invariants=cci)
    m = S(inner, d)
    body = B['Body'](inner, d)
    nr = np.random.default_rng(rng.getrandbits(32))
    b = 2
    c0 = nr.uniform(-1, 1, size=(b, d)).astype(np.float32)
    xs_t = [nr.uniform(-1, 1, size=(b, d)).astype(np.float32) for _ in range(T)]
    xs = np.stack(xs_t, axis=in_ax)
    rngs = {'params': jax.random.key(i)}
    Vb = unfreeze(body.init(rngs, c0, xs_t[0]))
    if carry:
      # carried collections cannot be created inside the loop (their structure must not change between iterations): build the
      # variables from a standalone body init - axis collections stacked with per-slice distinct values
      V = {}
      for col in Vb:
        r = roles[col]
        if r[0] == 'axis':
          V[col] = stack([tmap(lambda a, t=t: (np.asarray(a) * (1 + 0.25 * t)).astype(np.asarray(a).dtype), Vb[col]) for t in range(T)], r[1])
        else:
          V[col] = Vb[col]
    else:
      V = unfreeze(m.init(rngs, c0, xs))
      ctx.op('nn.scan.init')
      # ---- init: stacked shapes (T inserted at the collection's axis), broadcast unstacked
      ok = set(V) == set(Vb)
      if ok:
        for col in V:
          r = roles[col]
          want = tmap(lambda a: stacked_shape(np.shape(a), r[1], T) if r[0] == 'axis' else tuple(np.shape(a)), Vb[col])
          got = tmap(lambda a: tuple(np.shape(a)), V[col])
          ok = ok and want == got
      ctx.check(ok, 'scan.init:shapes', lambda: dict(case=desc, got=repr(tmap(np.shape, V))[:400], body=repr(tmap(np.shape, Vb))[:400]))
      if not ok:
        return
      # split params rng: slices differ; unsplit: slices identical
      if roles.get('params', ('x',))[0] == 'axis' and T >= 2:
        ax = roles['params'][1]
        leaves = [np.asarray(l) for l in jax.tree_util.tree_leaves(V['params'])]
        rand_leaves = [l for l in leaves if l.size > T and np.std(l) > 0]
        if rand_leaves:
          same = all(all(np.array_equal(np.take(l, 0, axis=ax), np.take(l, t, axis=ax)) for t in range(1, T)) for l in rand_leaves)
          distinct = all(all(not np.array_equal(np.take(l, s, axis=ax), np.take(l, t, axis=ax)) for s, t in itertools.combinations(range(T), 2)) for l in rand_leaves)
          ctx.check(distinct if split_params else same, 'scan.init:split_rngs_' + ('not_split' if split_params else 'split_although_false'), lambda: dict(case=desc))
      if roles.get('params', ('x',))[0] == 'broadcast':
        # broadcast parameters are initialised once: equal to a single standalone body init with the same rng
        ctx.check(close(V['params'], Vb['params']), 'scan.init:broadcast_params_differ_from_single_init', lambda: dict(case=desc))
    # ---- apply vs loop reference
    for mut_name, mut in (('state-like', [c for c in cols if c != 'params']), ('False', False)):
      if mut is False and carry:
        continue  # carried collections must be mutable (documented)
      out = m.apply(V, c0, xs, mutable=mut)
      ctx.op('nn.scan.apply')
      (cT, ys), upd = out if mut is not False else (out, {})
      upd = unfreeze(upd)
      # reference
      cur = {col: V[col] for col in V}
      c = c0
      ys_ref = [None] * T
      axis_updates = {col: [None] * T for col in variable_axes}
      order = range(T - 1, -1, -1) if reverse else range(T)
      for t in order:
        Vt = {}
        for col in V:
          r = roles[col]
          Vt[col] = take(cur[col], r[1], t) if r[0] == 'axis' else cur[col]
        o = body.apply(Vt, c, xs_t[t], mutable=mut)
        (c, y), u = o if mut is not False else (o, {})
        u = unfreeze(u)
        ys_ref[t] = y
        for col in u:
          if roles[col][0] == 'carry':
            cur[col] = u[col]
          elif roles[col][0] == 'axis':
            axis_updates[col][t] = u[col]
      ys_want = np.stack([np.asarray(y) for y in ys_ref], axis=out_ax)
      ctx.check(close(cT, c) and close(ys, ys_want), 'scan.apply:outputs', lambda: dict(case=desc, mutable=mut_name))
      want_upd = {}
      for col in (mut or []):
        if col not in V:
          continue
        r = roles[col]
        if r[0] == 'carry':
          want_upd[col] = cur[col]
        elif r[0] == 'axis':
          want_upd[col] = stack(axis_updates[col], r[1])
        else:
          want_upd[col] = V[col]
      ctx.check(set(upd) == set(want_upd) and close(upd, want_upd), 'scan.apply:variables', lambda: dict(case=desc, mutable=mut_name,
                got=repr(tmap(lambda a: np.asarray(a).tolist(), upd))[:500], want=repr(tmap(lambda a: np.asarray(a).tolist(), want_upd))[:500]))


def run_vmap(ctx, i, rng):
  import jax
  import flax.linen as nn
  from flax.core import unfreeze
  from vf.gen import linen_prog as LP
  B = body_classes()
  d = rng.randint(1, 3)
  inner = gen_inner(rng, d, ['state', 'batch_stats'])
  cols = cols_of(inner)
  n = rng.randint(1, 4)
  rv = LP.ref_vars(inner, path=('core',))
  roles = {}
  for col in cols:
    rank_min = min([len(shape) for shape, _ in rv.get(col, {}).values()] or [0])
    roles[col] = rng.choice([('axis', 0), ('axis', min(1, rank_min)), ('none',)]) if col == 'params' else rng.choice([('axis', 0), ('axis', min(1, rank_min))])
  for col, r in list(roles.items()):
    if r[0] == 'axis' and rng.random() < 0.3:
      roles[col] = ('axis', -1)   # new last axis of every leaf, whatever its rank
  in_ax, out_ax = rng.choice([0, 0, 1, -1]), rng.choice([0, 0, 1, -1, -2])
  split_params = rng.random() < 0.7
  if roles['params'][0] == 'none':
    split_params = False  # shared (None-axis) parameters cannot be initialised from split rngs
  desc = dict(inner=repr(inner)[:500], d=d, n=n, roles=roles, in_axes=in_ax, out_axes=out_ax, split_params=split_params)
  with ctx.case('vmap', i, desc, nontrivial=n >= 2):
    variable_axes = {col: (r[1] if r[0] == 'axis' else None) for col, r in roles.items()}
    Vm = nn.vmap(B['VBody'], variable_axes=variable_axes, split_rngs={'params': split_params}, in_axes=in_ax, out_axes=out_ax, axis_size=n)
    m, body = Vm(inner, d), B['VBody'](inner, d)
    nr = np.random.default_rng(rng.getrandbits(32))
    xs_i = [nr.uniform(-1, 1, size=(2, d)).astype(np.float32) for _ in range(n)]
    xs = np.stack(xs_i, axis=in_ax)
    rngs = {'params': jax.random.key(i)}
    V = unfreeze(m.init(rngs, xs))
    Vb = unfreeze(body.init(rngs, xs_i[0]))
    ctx.op('nn.vmap')
    ok = set(V) == set(Vb)
    if ok:
      for col in V:
        r = roles[col]
        want = tmap(lambda a: stacked_shape(np.shape(a), r[1], n) if r[0] == 'axis' else tuple(np.shape(a)), Vb[col])
        ok = ok and want == tmap(lambda a: tuple(np.shape(a)), V[col])
    ctx.check(ok, 'vmap:init_shapes', lambda: dict(case=desc, got=repr(tmap(np.shape, V))[:400]))
    if not ok:
      return
    mut = [c for c in cols if c != 'params']
    ys, upd = m.apply(V, xs, mutable=mut)
    upd = unfreeze(upd)
    y_ref, u_ref = [], []
    for k in range(n):
      Vk = {col: (take(V[col], roles[col][1], k) if roles[col][0] == 'axis' else V[col]) for col in V}
      y, u = body.apply(Vk, xs_i[k], mutable=mut)
      y_ref.append(y)
      u_ref.append(unfreeze(u))
    ctx.check(close(ys, np.stack([np.asarray(y) for y in y_ref], axis=out_ax)), 'vmap:outputs', lambda: dict(case=desc))
    want_upd = {col: stack([u[col] for u in u_ref], roles[col][1]) for col in mut if col in V}
    ctx.check(set(upd) == set(want_upd) and close(upd, want_upd), 'vmap:variables', lambda: dict(case=desc))


def run_nested(ctx, i, rng):
  """nn.scan over an nn.vmap-ed body (and vmap over a scan-ed body): equal to the double Python loop over doubly sliced variables."""
  import jax
  import flax.linen as nn
  from flax.core import unfreeze
  B = body_classes()
  d = rng.randint(1, 2)
  inner = gen_inner(rng, d, ['state', 'batch_stats'])
  cols = cols_of(inner)
  T, n = rng.randint(1, 3), rng.randint(1, 3)
  order = ['scan_of_vmap', 'vmap_of_scan'][i % 2]
  a_v = {c: 0 for c in cols}
  a_s = {c: 0 for c in cols}
  a_v['params'] = rng.choice([0, 1])
  a_s['params'] = rng.choice([0, 1])
  reverse = rng.random() < 0.3
  desc = dict(order=order, inner=repr(inner)[:400], d=d, T=T, n=n, vmap_axes=a_v, scan_axes=a_s, reverse=reverse)
  with ctx.case('nested', i, desc, nontrivial=T >= 2 and n >= 2):
    vm = lambda tgt: nn.vmap(tgt, variable_axes=dict(a_v), split_rngs={'params': True}, in_axes=0, out_axes=0, axis_size=n)
    sc = lambda tgt: nn.scan(tgt, variable_axes=dict(a_s), split_rngs={'params': True}, in_axes=0, out_axes=0, length=T, reverse=reverse)
    M = sc(vm(B['Body'])) if order == 'scan_of_vmap' else vm(sc(B['Body']))
    m, body = M(inner, d), B['Body'](inner, d)
    nr = np.random.default_rng(rng.getrandbits(32))
    bsz = 2
    c0 = nr.uniform(-1, 1, size=(n, bsz, d)).astype(np.float32)
    # xs indexed [t][k]
    xs_tk = [[nr.uniform(-1, 1, size=(bsz, d)).astype(np.float32) for _ in range(n)] for _ in range(T)]
    if order == 'scan_of_vmap':
      xs = np.stack([np.stack(row) for row in xs_tk])                      # (T, n, b, d)
    else:
      xs = np.stack([np.stack([xs_tk[t][k] for t in range(T)]) for k in range(n)])  # (n, T, b, d)
    rngs = {'params': jax.random.key(i)}
    V = unfreeze(m.init(rngs, c0, xs))
    ctx.op('nn.scan+nn.vmap nested')
    mut = [c for c in cols if c != 'params']
    (cT, ys), upd = m.apply(V, c0, xs, mutable=mut)
    upd = unfreeze(upd)

    def slice2(tree, col, t, k):
      # outer transform's axis was inserted last: remove it first
      if order == 'scan_of_vmap':
        return take(take(tree, a_s[col], t), a_v[col], k)
      return take(take(tree, a_v[col], k), a_s[col], t)

    c_ref = [None] * n
    ys_ref = [[None] * n for _ in range(T)]
    upd_ref = {col: [[None] * n for _ in range(T)] for col in mut}
    for k in range(n):
      c = c0[k]
      for t in (range(T - 1, -1, -1) if reverse else range(T)):
        Vt = {col: slice2(V[col], col, t, k) for col in V}
        (c, y), u = body.apply(Vt, c, xs_tk[t][k], mutable=mut)
        ys_ref[t][k] = np.asarray(y)
        for col in mut:
          if col in u:
            upd_ref[col][t][k] = unfreeze(u)[col]
      c_ref[k] = np.asarray(c)
    if order == 'scan_of_vmap':
      ys_want = np.stack([np.stack(ys_ref[t]) for t in range(T)])
    else:
      ys_want = np.stack([np.stack([ys_ref[t][k] for t in range(T)]) for k in range(n)])
    ctx.check(close(cT, np.stack(c_ref)) and close(ys, ys_want), 'nested:outputs', lambda: dict(case=desc))
    ok = True
    for col in mut:
      if col not in V:
        continue
      if order == 'scan_of_vmap':
        want = stack([stack(upd_ref[col][t], a_v[col]) for t in range(T)], a_s[col])
      else:
        want = stack([stack([upd_ref[col][t][k] for t in range(T)], a_s[col]) for k in range(n)], a_v[col])
      ok = ok and col in upd and close(upd[col], want)
    ctx.check(ok, 'nested:variables', lambda: dict(case=desc))


def run_rng(ctx, i, rng):
  """split streams give every iteration / index a different key, unsplit streams the same key."""
  import jax
  import flax.linen as nn
  B = body_classes()
  streams = ('noise', 'other')
  split = {s: bool(rng.random() < 0.5) for s in streams}
  split['params'] = rng.random() < 0.5
  T = rng.randint(2, 4)
  kind = ['scan', 'vmap'][i % 2]
  desc = dict(kind=kind, split=split, T=T)
  with ctx.case('rng', i, desc, nontrivial=True):
    rngs = {'params': jax.random.key(i), 'noise': jax.random.key(100 + i), 'other': jax.random.key(200 + i)}
    if kind == 'scan':
      S = nn.scan(B['KeyBody'], variable_axes={'params': 0} if split['params'] else {}, variable_broadcast=False if split['params'] else 'params',
                  split_rngs=split, length=T, reverse=bool(i % 3 == 0))
      m = S(streams)
      (c, ks), V = m.init_with_output(rngs, np.zeros((2,), np.float32), np.ones((T, 2), np.float32))
      (c2, ks2) = m.apply(V, np.zeros((2,), np.float32), np.ones((T, 2), np.float32), rngs=rngs)
    else:
      Vm = nn.vmap(B['VKeyBody'], variable_axes={'params': 0 if split['params'] else None}, split_rngs=split, axis_size=T)
      m = Vm(streams)
      (y, ks), V = m.init_with_output(rngs, np.ones((T, 2), np.float32))
      (y2, ks2) = m.apply(V, np.ones((T, 2), np.float32), rngs=rngs)
    ctx.op('nn.%s(split_rngs)' % kind)
    for which, kk in (('init', ks), ('apply', ks2)):
      for s, karr in zip(streams, kk):
        rows = [np.asarray(karr)[t].tobytes() for t in range(T)]
        if split[s]:
          ctx.check(len(set(rows)) == T, 'rng:split_stream_repeats_key', lambda: dict(case=desc, stream=s, phase=which))
        else:
          ctx.check(len(set(rows)) == 1, 'rng:unsplit_stream_varies', lambda: dict(case=desc, stream=s, phase=which))
    w = np.asarray(V['params']['w'])
    if split['params']:
      ctx.check(w.shape == (T, 2) and len({w[t].tobytes() for t in range(T)}) == T, 'rng:split_params_not_distinct', lambda: dict(case=desc))
    else:
      ctx.check(w.shape == (2,), 'rng:unsplit_params_stacked', lambda: dict(case=desc, shape=w.shape))


def run_remat_scan(ctx, i, rng):
  import jax
  import flax.linen as nn
  from flax.core import unfreeze
  B = body_classes()
  lengths = [(2,), (3,), (2, 2), (1, 3), (2, 3)][i % 5]
  d = rng.randint(1, 3)
  desc = dict(lengths=lengths, d=d)
  with ctx.case('remat_scan', i, desc, nontrivial=True):
    RS = nn.remat_scan(B['DenseBody'], lengths=lengths)
    m, body = RS(d), B['DenseBody'](d)
    x = np.random.default_rng(i).uniform(-1, 1, size=(2, d)).astype(np.float32)
    rngs = {'params': jax.random.key(i)}
    V = unfreeze(m.init(rngs, x))
    ctx.op('nn.remat_scan')
    k = np.asarray(V['params']['lin']['kernel'])
    ctx.check(k.shape == tuple(lengths) + (d, d), 'remat_scan:param_shape', lambda: dict(case=desc, got=k.shape))
    y = m.apply(V, x)
    h = x
    for idx in itertools.product(*[range(n) for n in lengths]):
      Vt = tmap(lambda a: np.asarray(a)[idx], V)
      h = body.apply(Vt, h)
    ctx.check(close(y, h), 'remat_scan:outputs', lambda: dict(case=desc))
    # every layer drew its own parameters (split_rngs default {True: True})
    flat = k.reshape((-1, d * d))
    ctx.check(len({r.tobytes() for r in flat}) == flat.shape[0], 'remat_scan:layers_share_init', lambda: dict(case=desc))


def run_remat_scan_rng(ctx, i, rng):
  """remat_scan with user split_rngs: at EVERY nesting level split streams differ per iteration, unsplit streams do not."""
  import jax
  import flax.linen as nn
  B = body_classes()
  lengths = [(2, 3), (3,), (2, 2, 2), (1, 3), (3, 2)][i % 5]
  streams = ('noise', 'other')
  split = {'params': True, 'noise': bool(i % 2), 'other': bool((i // 2) % 2)}
  desc = dict(lengths=lengths, split=split)
  with ctx.case('remat_scan_rng', i, desc, nontrivial=True):
    RS = nn.remat_scan(B['RSKeyBody'], lengths=lengths, split_rngs=split)
    m = RS(streams)
    rngs = {'params': jax.random.key(i), 'noise': jax.random.key(10 + i), 'other': jax.random.key(20 + i)}
    V = m.init(rngs, np.ones((2,), np.float32))
    ctx.op('nn.remat_scan(split_rngs)')
    n = int(np.prod(lengths))
    for s in streams:
      k = np.asarray(V['keys'][s]).reshape((n, -1))
      rows = {r.tobytes() for r in k}
      if split[s]:
        ctx.check(len(rows) == n, 'rng:split_stream_repeats_key', lambda: dict(case=desc, stream=s, distinct=len(rows)))
      else:
        ctx.check(len(rows) == 1, 'rng:unsplit_stream_varies', lambda: dict(case=desc, stream=s, distinct=len(rows)))


def run_functional(ctx, i, rng):
  """Functional form nn.scan(fn)(self, ...) / nn.vmap(fn)(self, ...) whose target is the enclosing module: the module may already own
  variables in a broadcast collection when the region starts (layers created before it) and the body creates more of them. The
  reference is the same module with an explicit Python loop / per-example stack."""
  import jax
  import jax.numpy as jnp
  import flax.linen as nn
  from flax.core import unfreeze
  kind = ['scan', 'scan', 'vmap'][i % 3]
  pre = [0, 1, 2][(i // 3) % 3]          # layers created on `self` before the region
  post = (i // 9) % 2                    # a layer created after it
  n_body = 1 + (i // 18) % 2             # layers created inside the body
  T = rng.choice([1, 2, 3, 4])
  reverse = kind == 'scan' and rng.random() < 0.3
  counter = rng.random() < 0.5           # a carried / per-example mutable collection written in the body
  desc = dict(kind=kind, pre=pre, post=post, body_layers=n_body, T=T, reverse=reverse, counter=counter)
  B, F, H = 2, 3, 4
  with ctx.case('functional', i, desc, nontrivial=True):
    def step(mdl, c, x, cells=None, nvar=None):
      # lifted: layers / the counter are created or looked up inside the region; plain loop: created once and passed in
      h = jnp.concatenate([c, x], axis=-1)
      for k in range(n_body):
        h = jnp.tanh((cells[k] if cells else nn.Dense(H, name='cell%d' % k))(h))
      if counter:
        n = nvar if nvar is not None else mdl.variable('counter', 'n', lambda: jnp.zeros((), jnp.float32))
        n.value = n.value + 1.0
        h = h + 0.01 * n.value
      return h, h * 2.0

    def shapes(t):
      return jax.tree_util.tree_map(lambda a: (tuple(np.shape(a)), str(np.asarray(a).dtype)), t)

    class M(nn.Module):
      lifted: bool

      @nn.compact
      def __call__(self, xs):
        for k in range(pre):
          xs = nn.Dense(F, name='proj%d' % k)(xs)
        c0 = jnp.zeros((B, H))
        # a carried collection cannot be created inside a scan (documented): it is declared on the module before the region
        nvar = self.variable('counter', 'n', lambda: jnp.zeros((), jnp.float32)) if counter else None
        cells = None if self.lifted else [nn.Dense(H, name='cell%d' % k) for k in range(n_body)]
        if kind == 'scan':
          if self.lifted:
            c, ys = nn.scan(step, variable_broadcast='params', variable_carry='counter', split_rngs={'params': False},
                            in_axes=0, out_axes=0, reverse=reverse)(self, c0, xs)
          else:
            c, ys = c0, [None] * T
            for t in (range(T - 1, -1, -1) if reverse else range(T)):
              c, ys[t] = step(self, c, xs[t], cells, nvar)
            ys = jnp.stack(ys, 0)
        else:
          if self.lifted:
            c, ys = nn.vmap(step, variable_axes={'params': None, 'counter': None}, split_rngs={'params': False}, in_axes=(None, 0), out_axes=0)(self, c0, xs)
          else:
            outs = [step(self, c0, xs[t], cells, nvar) for t in range(T)]
            c, ys = jnp.stack([o[0] for o in outs], 0), jnp.stack([o[1] for o in outs], 0)
        if post:
          ys = nn.Dense(2, name='out')(ys)
        return c, ys

    if kind == 'vmap' and counter:
      # a broadcast (axis None) collection written by every example has no per-example-stack meaning: keep the counter read-only there
      ctx.event('note.functional:vmap_counter_skipped')
      return
    xs = jnp.asarray(np.random.default_rng(i).uniform(-1, 1, (T, B, F)).astype(np.float32))
    key = jax.random.key(i)
    (out_l, v_l), (out_p, v_p) = M(True).init_with_output(key, xs), M(False).init_with_output(key, xs)
    v_l, v_p = unfreeze(v_l), unfreeze(v_p)
    ctx.op('nn.%s(functional form on self).init' % kind)
    ok = ctx.check(shapes(v_l) == shapes(v_p), 'functional.init:tree', lambda: dict(case=desc, lifted=shapes(v_l), plain=shapes(v_p)))
    if not ok:
      return
    ctx.check(close(v_l['params'], v_p['params']), 'functional.init:values', lambda: dict(case=desc))
    ctx.check(close(out_l, out_p), 'functional.init:output', lambda: dict(case=desc))
    mut = ['counter'] if counter else False
    for rep in range(2):
      got = M(True).apply(v_p, xs, mutable=mut)
      want = M(False).apply(v_p, xs, mutable=mut)
      ctx.op('nn.%s(functional form on self).apply' % kind)
      ctx.check(close(got, want), 'functional.apply', lambda: dict(case=desc, rep=rep))
      if counter:
        v_p = dict(v_p, counter=unfreeze(want[1])['counter'])


def run_readonly_carry(ctx, i, rng):
  """A carried collection the caller did not make mutable (evaluation: apply without mutable=...): the body only reads it, the
  unrolled loop is perfectly defined, and the scan returns what that loop returns. Also a carried collection next to it that IS
  mutable keeps seeing each iteration's update."""
  import jax
  import jax.numpy as jnp
  import flax.linen as nn
  n = 2 + i % 3
  style = ['function', 'module'][(i // 3) % 2]
  two = (i // 6) % 2 == 1     # a second carried collection ('acc') that is mutable
  reverse = (i // 12) % 2 == 1
  desc = dict(length=n, style=style, second_mutable_carry=two, reverse=reverse)
  with ctx.case('readonly_carry', i, desc, nontrivial=True):
    class Cell(nn.Module):
      @nn.compact
      def __call__(self, c, x):
        cnt = self.variable('counter', 'i', lambda: jnp.full((), 2.0))
        if self.is_mutable_collection('counter'):
          cnt.value = cnt.value + 1
        y = c + x * cnt.value
        if two:
          acc = self.variable('acc', 'a', lambda: jnp.zeros(()))
          if self.is_mutable_collection('acc'):
            acc.value = acc.value + x
          y = y + acc.value
        return y, y * 2

    carry_cols = ['counter', 'acc'] if two else 'counter'

    class Top(nn.Module):
      @nn.compact
      def __call__(self, xs):
        if style == 'module':
          return nn.scan(Cell, variable_carry=carry_cols, reverse=reverse, variable_broadcast=False)(name='cell')(jnp.zeros(()), xs)
        cell = Cell(name='cell')
        return nn.scan(lambda m, c, x: m(c, x), variable_carry=carry_cols, reverse=reverse)(cell, jnp.zeros(()), xs)

    xs = jnp.asarray(np.random.default_rng(i).uniform(-1, 1, (n,)).astype(np.float32))
    # (carried variables have to exist before the loop starts: the variables are supplied, not initialised inside the scan)
    v = {'counter': {'cell': {'i': jnp.full((), 2.0)}}, **({'acc': {'cell': {'a': jnp.zeros(())}}} if two else {})}
    mut = ['acc'] if two else False
    out = Top().apply(v, xs, mutable=mut)
    ctx.op('nn.scan(variable_carry read-only at apply)')
    (c_got, ys_got), upd = out if two else (out, {})
    # reference loop
    c, cnt, acc, ys = 0.0, 2.0, 0.0, [None] * n
    order = range(n - 1, -1, -1) if reverse else range(n)
    for t in order:
      x = float(xs[t])
      y = c + x * cnt
      if two:
        acc = acc + x
        y = y + acc
      c = y
      ys[t] = y * 2
    ok = np.allclose(np.asarray(c_got), c, rtol=1e-5, atol=1e-5) and np.allclose(np.asarray(ys_got), np.asarray(ys), rtol=1e-5, atol=1e-5)
    ctx.check(ok, 'scan:readonly_carry_collection', lambda: dict(case=desc, got=np.asarray(ys_got).tolist(), want=ys))
    if two:
      ctx.check(np.allclose(np.asarray(upd['acc']['cell']['a']), acc, rtol=1e-5, atol=1e-5) and 'counter' not in upd, 'scan:readonly_carry_collection:state',
                lambda: dict(case=desc, upd=repr(upd)[:200]))


def run_attr_body(ctx, i, rng):
  """The scanned / vmapped body receives its sub-layers as dataclass attributes (injected layers), declared in an order that is not
  alphabetical; several scopes are lifted together and every attribute keeps its own variables: the result equals the loop / the
  per-example stack that runs the same body on the same variables."""
  import jax
  import jax.numpy as jnp
  import flax.linen as nn
  tr = ['scan_broadcast', 'scan_axis', 'vmap_axis', 'vmap_shared'][i % 4]
  order = [('proj', 'gate'), ('gate', 'proj'), ('trunk', 'head', 'aux')][(i // 4) % 3]
  reverse = (i // 12) % 2 == 1
  D, N = 3, 3 + (i // 24) % 2
  desc = dict(transform=tr, fields=order, reverse=reverse, n=N)
  with ctx.case('attr_body', i, desc, nontrivial=list(order) != sorted(order)):
    def const_init(v):
      return lambda key, shape, dtype=jnp.float32: v * jnp.arange(1, 1 + int(np.prod(shape)), dtype=dtype).reshape(shape) / 10.0

    def call_scan(self, c, x):
      layers = [getattr(self, f) for f in order]
      h = jnp.tanh(layers[0](x))
      g = jax.nn.sigmoid(layers[1](c))
      if len(layers) > 2:
        h = h + 0.1 * layers[2](x)
      c = g * c + (1 - g) * h
      return c, c * 2.0

    def call_map(self, x):
      layers = [getattr(self, f) for f in order]
      y = layers[1](jnp.tanh(layers[0](x)))
      return y + (0.1 * layers[2](x) if len(layers) > 2 else 0.0)
    is_scan = tr.startswith('scan')
    Body = type('Body', (nn.Module,), {'__annotations__': {f: nn.Module for f in order}, '__call__': call_scan if is_scan else call_map})

    def make(cls):
      return cls(**{f: nn.Dense(D, kernel_init=const_init(float(k + 1)), bias_init=const_init(-float(k + 1))) for k, f in enumerate(sorted(order))})
    nr = np.random.default_rng(i)
    xs = jnp.asarray(nr.uniform(-1, 1, (N, D)).astype(np.float32))
    c0 = jnp.full((D,), 0.25)
    plain = make(Body)
    v1 = plain.init(jax.random.key(0), c0, xs[0]) if is_scan else plain.init(jax.random.key(0), xs[0])
    # per-index variables: slice k is v1 scaled by (1 + k/4)
    stacked = jax.tree_util.tree_map(lambda a: jnp.stack([a * (1 + k / 4) for k in range(N)]), v1)
    sl = lambda k: jax.tree_util.tree_map(lambda a: a[k], stacked)  # noqa: E731
    steps = list(range(N - 1, -1, -1)) if (reverse and is_scan) else list(range(N))
    if tr == 'scan_broadcast':
      got = make(nn.scan(Body, variable_broadcast='params', split_rngs={'params': False}, reverse=reverse)).apply(v1, c0, xs)
      c, ys = c0, [None] * N
      for k in steps:
        c, ys[k] = plain.apply(v1, c, xs[k])
      want = (c, jnp.stack(ys))
    elif tr == 'scan_axis':
      got = make(nn.scan(Body, variable_axes={'params': 0}, split_rngs={'params': True}, reverse=reverse)).apply(stacked, c0, xs)
      c, ys = c0, [None] * N
      for k in steps:
        c, ys[k] = plain.apply(sl(k), c, xs[k])
      want = (c, jnp.stack(ys))
    elif tr == 'vmap_axis':
      got = make(nn.vmap(Body, variable_axes={'params': 0}, split_rngs={'params': True})).apply(stacked, xs)
      want = jnp.stack([plain.apply(sl(k), xs[k]) for k in range(N)])
    else:
      got = make(nn.vmap(Body, variable_axes={'params': None}, split_rngs={'params': False})).apply(v1, xs)
      want = jnp.stack([plain.apply(v1, xs[k]) for k in range(N)])
    ctx.op('nn.%s(body with attribute modules)' % tr)
    gl, wl = jax.tree_util.tree_leaves(got), jax.tree_util.tree_leaves(want)
    ok = len(gl) == len(wl) and all(np.shape(a) == np.shape(b) and np.allclose(a, b, atol=1e-5) for a, b in zip(gl, wl))
    ctx.check(ok, 'attr_body:%s' % ('scan_vs_loop' if is_scan else 'vmap_vs_stack'), lambda: dict(case=desc))


def run_grandchild_arg(ctx, i, rng):
  """Functional form with a bound GRAND-child sub-module passed as an extra argument next to `self`
  (nn.scan(body)(self, c, xs, self.mid.dense)): two lifted scopes, one two levels below the other with a non-lifted scope in
  between. The body computes with mid/dense - not with a direct child that happens to have the same name."""
  import jax
  import jax.numpy as jnp
  import flax.linen as nn
  tr = ['scan', 'vmap'][i % 2]
  reverse = (i // 2) % 2 == 1
  same_name = (i // 4) % 2 == 0      # self also owns a DIRECT child called 'dense'
  desc = dict(transform=tr, reverse=reverse, direct_child_with_same_name=same_name)
  with ctx.case('grandchild_arg', i, desc, nontrivial=True):
    class Mid(nn.Module):
      def setup(self):
        self.dense = nn.Dense(3)

      def __call__(self, x):
        return self.dense(x)

    class Outer(nn.Module):
      lifted: bool

      def setup(self):
        self.mid = Mid()
        if same_name:
          self.dense = nn.Dense(3)
        else:
          self.other = nn.Dense(3)

      def own(self, x):
        return self.dense(x) if same_name else self.other(x)

      def __call__(self, xs):
        n = xs.shape[0]
        if tr == 'scan':
          if self.lifted:
            def body(mdl, c, x, head):
              c = jnp.tanh(c + head(x)) + 0.1 * mdl.own(x)
              return c, 2.0 * c
            return nn.scan(body, variable_broadcast='params', split_rngs={'params': False}, reverse=reverse)(self, jnp.zeros((3,)), xs, self.mid.dense)
          c, ys = jnp.zeros((3,)), [None] * n
          for k in (range(n - 1, -1, -1) if reverse else range(n)):
            c = jnp.tanh(c + self.mid.dense(xs[k])) + 0.1 * self.own(xs[k])
            ys[k] = 2.0 * c
          return c, jnp.stack(ys)
        if self.lifted:
          return nn.vmap(lambda mdl, x, head: jnp.tanh(head(x)) + 0.1 * mdl.own(x), variable_axes={'params': None},
                         split_rngs={'params': False})(self, xs, self.mid.dense)
        return jnp.stack([jnp.tanh(self.mid.dense(xs[k])) + 0.1 * self.own(xs[k]) for k in range(n)])

    xs = jnp.asarray(np.random.default_rng(i).uniform(-1, 1, (4, 3)).astype(np.float32))
    vp = Outer(False).init(jax.random.key(i), xs)
    vl = Outer(True).init(jax.random.key(i), xs)
    ctx.op('nn.%s(fn)(self, ..., self.mid.dense)' % tr)
    sh = lambda t: jax.tree_util.tree_map(lambda a: tuple(a.shape), t)  # noqa: E731
    ctx.check(sh(vp) == sh(vl), 'grandchild_arg:init_tree', lambda: dict(case=desc, plain=repr(sh(vp))[:300], lifted=repr(sh(vl))[:300]))
    vp2 = jax.tree_util.tree_map(lambda a: a + jnp.asarray(np.random.default_rng(7).uniform(0.1, 0.6, a.shape).astype(np.float32)), vp)
    want = Outer(False).apply(vp2, xs)
    try:
      got = Outer(True).apply(vp2, xs)
    except Exception as e:  # noqa: BLE001
      ctx.check(False, 'grandchild_arg:apply_raises', dict(case=desc, error=repr(e)[:200]))
      return
    gl, wl = jax.tree_util.tree_leaves(got), jax.tree_util.tree_leaves(want)
    ctx.check(len(gl) == len(wl) and all(np.allclose(a, b, atol=1e-5) for a, b in zip(gl, wl)), 'grandchild_arg:%s' % ('scan_vs_loop' if tr == 'scan' else 'vmap_vs_stack'),
              lambda: dict(case=desc))


def run_multi_method(ctx, i, rng):
  """nn.scan / nn.vmap over a Module CLASS with `methods=` given as a dict of per-method settings that DIFFER (reverse, in_axes /
  out_axes, unroll): every method runs with its own settings, whichever is called and in whatever order - the result of each
  is the explicit loop over the un-lifted method with the per-step parameters. (Round h: every earlier stream lifted one method.)"""
  import jax
  import jax.numpy as jnp
  import flax.linen as nn
  kind = ['scan', 'vmap'][i % 2]
  order = [('a', 'b'), ('b', 'a'), ('a',), ('b',), ('a', 'b', 'a')][(i // 2) % 5]
  swap_decl = (i // 10) % 2 == 1      # declaration order of the dict
  as_list = (i // 20) % 3 == 2        # the list form: the same settings for both (control)
  L = 3
  desc = dict(kind=kind, order=list(order), swap_decl=swap_decl, methods_as_list=as_list)
  with ctx.case('multi_method', i, desc, nontrivial=not as_list):
    class Cell(nn.Module):
      def setup(self):
        self.dense = nn.Dense(L)

      def a(self, c, x):
        c = jnp.tanh(self.dense(c) + x)
        return c, c * 2.0

      def b(self, c, x):
        c = jnp.tanh(self.dense(c) - 2.0 * x)
        return c, c + 1.0

      def ra(self, x):
        return jnp.tanh(self.dense(x))

      def rb(self, x):
        return self.dense(x) * 3.0

    if kind == 'scan':
      common = dict(variable_axes={'params': 0}, split_rngs={'params': True}, length=L)
      sa = dict(common, in_axes=0, out_axes=0, reverse=False)
      sb = dict(common, in_axes=1, out_axes=1, reverse=True)
      items = [('a', sa), ('b', sb)]
      if as_list:
        sb = sa
        Lifted = nn.scan(Cell, methods=['b', 'a'] if swap_decl else ['a', 'b'], **sa)
      else:
        Lifted = nn.scan(Cell, methods=dict(reversed(items) if swap_decl else items))
    else:
      common = dict(variable_axes={'params': 0}, split_rngs={'params': True}, axis_size=L)
      sa = dict(common, in_axes=0, out_axes=0)
      sb = dict(common, in_axes=1, out_axes=1)
      items = [('ra', sa), ('rb', sb)]
      if as_list:
        sb = sa
        Lifted = nn.vmap(Cell, methods=['rb', 'ra'] if swap_decl else ['ra', 'rb'], **sa)
      else:
        Lifted = nn.vmap(Cell, methods=dict(reversed(items) if swap_decl else items))

    class Net(nn.Module):
      def setup(self):
        self.cell = Lifted()

      def __call__(self, c, xs, which):
        outs = []
        for w in which:
          if kind == 'scan':
            outs.append(getattr(self.cell, w)(c, xs))
          else:
            outs.append(getattr(self.cell, 'r' + w)(xs))
        return outs

    nr = np.random.default_rng(1000 + i)
    c0 = jnp.asarray(nr.uniform(-1, 1, (2, L)).astype(np.float32))
    # square in the two candidate axes, so that a wrong axis / direction is a silent wrong result, not a shape error
    xs = jnp.asarray(nr.uniform(-1, 1, (L, L, L) if kind == 'scan' else (L, L, L)).astype(np.float32))
    if kind == 'scan':
      c0 = jnp.asarray(nr.uniform(-1, 1, (L, L)).astype(np.float32))
    V = Net().init(jax.random.key(i), c0, xs, ('a',))
    V = tmap(lambda a: a + jnp.asarray(nr.uniform(-0.3, 0.3, a.shape).astype(np.float32)), V)
    outs = Net().apply(V, c0, xs, order)
    ctx.op('nn.%s(Class, methods={..differing settings..})' % kind)
    P = V['params']['cell']
    for w, got in zip(order, outs):
      st = sa if w == 'a' else sb
      if kind == 'scan':
        c, ys = c0, [None] * L
        steps = range(L - 1, -1, -1) if st['reverse'] else range(L)
        for t in steps:
          c, y = Cell().apply({'params': take(P, 0, t)}, c, jnp.take(xs, t, axis=st['in_axes']), method=w)
          ys[t] = y
        want = (c, jnp.stack(ys, axis=st['out_axes']))
      else:
        ys = [Cell().apply({'params': take(P, 0, t)}, jnp.take(xs, t, axis=st['in_axes']), method='r' + w) for t in range(L)]
        want = jnp.stack(ys, axis=st['out_axes'])
      ctx.event('multi_method_compared')
      ctx.check(close(got, want), 'multi_method:%s:method_ran_with_other_methods_settings' % kind,
                lambda: dict(case=desc, method=w))


def run(ctx):
  for i in ctx.indices(60, 'multi_method'):
    run_multi_method(ctx, i, ctx.rng('multi_method', i))
  for i in ctx.indices(16, 'grandchild_arg'):
    run_grandchild_arg(ctx, i, ctx.rng('grandchild_arg', i))
  for i in ctx.indices(48 if ctx.tier == 'quick' else 96, 'attr_body'):
    run_attr_body(ctx, i, ctx.rng('attr_body', i))
  for i in ctx.indices(24 if ctx.tier == 'quick' else 48, 'readonly_carry'):
    run_readonly_carry(ctx, i, ctx.rng('readonly_carry', i))
  for i in ctx.indices(72 if ctx.tier == 'quick' else 360, 'functional'):
    run_functional(ctx, i, ctx.rng('functional', i))
  for i in ctx.indices(12 if ctx.tier == 'quick' else 60, 'remat_scan_rng'):
    run_remat_scan_rng(ctx, i, ctx.rng('rsr', i))
  for i in ctx.indices(200 if ctx.tier == 'quick' else 2400, 'scan'):
    run_scan(ctx, i, ctx.rng('scan', i))
  for i in ctx.indices(100 if ctx.tier == 'quick' else 1200, 'vmap'):
    run_vmap(ctx, i, ctx.rng('vmap', i))
  for i in ctx.indices(30 if ctx.tier == 'quick' else 400, 'nested'):
    run_nested(ctx, i, ctx.rng('nested', i))
  for i in ctx.indices(24 if ctx.tier == 'quick' else 200, 'rng'):
    run_rng(ctx, i, ctx.rng('rng', i))
  for i in ctx.indices(10 if ctx.tier == 'quick' else 60, 'remat_scan'):
    run_remat_scan(ctx, i, ctx.rng('rs', i))
