"""C20 — host-side data helpers preserve values and order for any batch size and schedule.

Monitor shapes: (a) value oracles vs NumPy for pad_shard_unpad / scan_in_dim / replicate / unreplicate / shard /
stack_forest / onehot / get_metrics / prefetch_to_device under real device counts (child workers with
--xla_force_host_platform_device_count); (b) client-boundary history checker for PrefetchIterator with unique item ids;
(c) delay-bounded schedule enumeration (sys.monitoring LINE events on prefetch_iterator.py) with a state-based deadlock
detector (every live participant inside Condition.wait)."""
import itertools
import threading
import time

import numpy as np

LEVEL = 'exploration'
LEVEL_TEXT = ('Runtime history checking under controlled schedules: for every source length 0..4 (6 thorough), buffer size 1..3 and '
              'failing position, one run per single-delay schedule (every (thread role, function, line, occurrence<=3) point of '
              'prefetch_iterator.py outside a held lock; all pairs in the thorough tier) plus seeded random yield injection; the '
              'consumer-side history is checked against the source prefix and a deadlock is decided by thread state, not by a '
              'timeout. Value helpers are compared with NumPy under 1,2,3,4,8 host devices (scan_in_dim over positive and negative axis tuples).'
              ' scan_in_dim also runs over negative axes; onehot over narrow label dtypes; pad_shard_unpad over'
              ' same-shaped leaves of different dtypes.'
              ' Round e/f: BaseException / falsy source errors in PrefetchIterator, resumable sources for prefetch_to_device, shard with empty trailing dims, onehot with mixed value types.')
LEVEL_NOTE = ('Schedules are explored at statement granularity of one file under the GIL (the granularity CPython interleaves at); '
              'the traced Condition/Thread shim and jax device_put_sharded/replicated compat drop-ins are trusted.')
TECHNIQUE = 'runtime monitoring: client-boundary history checker + delay-bounded schedule enumeration + state-based deadlock detector; NumPy value oracles'
RULE = ('prefetch: (source length n, buffer size, failing position p or none, exception type, schedule) where schedule = none | '
        'single delay point (role, function, line, occurrence) | pair of points | seeded random yields; distinct = distinct '
        'descriptor; non-trivial = n>=1 or p is not None. values: (helper, device count, batch size, min_device_batch, pytree '
        'shape, axis tuple, keepdims, unroll).')
ASSUMPTIONS = ['source iterators raise Exception subclasses (BaseException kills the producer thread by design)',
               'vf.compat jax.device_put_sharded/replicated drop-ins are value-preserving']
PLAN = {'quick': dict(workers=4, timeout_s=900), 'thorough': dict(workers=14, timeout_s=3000)}
MIN_EVENTS = {'quick': {'oracle:prefetch.history': 300, 'sched.delay_injected': 200, 'sched.points_seen': 500,
                        'oracle:pad_shard_unpad': 100, 'oracle:scan_in_dim': 20, 'oracle:prefetch_to_device': 30},
              'thorough': {'oracle:prefetch.history': 5000, 'sched.delay_injected': 4000, 'oracle:pad_shard_unpad': 400}}


# ---------------------------------------------------------------------------------------------
# PrefetchIterator under schedules


class SrcError(Exception):
  pass


class Abort(BaseException):
  """Raised by the source like SystemExit would be: not an Exception subclass."""


class QuietError(Exception):
  """An exception whose truth value is False (e.g. an error class with __len__ returning 0)."""

  def __bool__(self):
    return False


EXC_TYPES = [ValueError, SrcError, KeyError, OSError, RuntimeError, Abort, QuietError]


class Source:
  """Yields unique ids (run, i); raises a chosen exception object at position p. Records producer-side events."""

  def __init__(self, run, n, p, exc_type, log):
    self.run, self.n, self.p, self.i, self.log = run, n, p, 0, log
    self.exc = exc_type('boom@%s' % (p,)) if p is not None else None

  def __iter__(self):
    return self

  def __next__(self):
    i = self.i
    self.log.append(('src_next', i))
    if self.p is not None and i == self.p:
      self.i += 1
      raise self.exc
    if i >= self.n:
      raise StopIteration
    self.i += 1
    return (self.run, i)


def run_prefetch_once(ctx, mod, cfg, sched, rng):
  """One execution of PrefetchIterator under one schedule. Returns (history, status)."""
  from vf import sched as S
  import warnings
  n, bs, p, exc_i, close_after = cfg
  S.REGISTRY.reset()
  log = []
  src = Source(id(log) & 0xffff, n, p, EXC_TYPES[exc_i % len(EXC_TYPES)], log)
  hist = []
  state = dict(it=None, consumer=None)

  def consumer():
    with warnings.catch_warnings():
      warnings.simplefilter('ignore')
      it = mod.PrefetchIterator(src, buffer_size=bs)
    state['it'] = it
    terminal = 0
    got = 0
    for _ in range(n + 4):
      try:
        x = next(it)
        hist.append(('item', x))
        got += 1
        if close_after is not None and got == close_after:
          it.close()
          hist.append(('close',))
      except StopIteration:
        hist.append(('stop',))
        terminal += 1
      except BaseException as e:  # noqa: BLE001
        hist.append(('raise', e))
        terminal += 1
      if terminal >= 3:
        break

  cthread = threading.Thread(target=consumer, daemon=True)
  state['consumer'] = cthread

  def participants():
    return [cthread] + list(S.REGISTRY.threads)

  def cond_of():
    return S.REGISTRY.conditions[-1] if S.REGISTRY.conditions else None

  def role_of():
    me = threading.current_thread()
    if me is cthread:
      return 'consumer'
    if me in S.REGISTRY.threads:
      return 'producer'
    return None

  kind = sched[0]
  targets = set(sched[1]) if kind in ('delay', 'pair') else set()
  q = sched[1] if kind == 'random' else 0.0
  rlock = threading.Lock()

  def decide(role, func, line, occ):
    cond = cond_of()
    if cond is not None and cond.owned_by_me():
      return False  # a sleep inside the held lock only lengthens one critical section
    if targets:
      return (role, func, line, occ) in targets
    if q:
      with rlock:
        return rng.random() < q
    return False

  def do_yield(role):
    ctx.event('sched.delay_injected')
    S.yield_until_others_blocked(participants, threading.current_thread(), cond_of)

  inj = S.LineInjector([mod], role_of, decide, do_yield)
  status = 'ok'
  with inj:
    cthread.start()
    t0 = time.monotonic()
    stable = 0
    while True:
      cthread.join(0.02)
      if not cthread.is_alive():
        break
      cond = cond_of()
      # state-based deadlock: every live participant is inside Condition.wait and no wake-up is in flight (a notified waiter
      # that has not been scheduled yet is still listed as waiting - on a loaded machine for longer than any fixed grace time)
      dead = False
      if cond is not None and cond.acquire(timeout=0.2):
        try:
          live = [t for t in participants() if t.is_alive()]
          dead = bool(live) and all(t.ident in cond.waiting for t in live) and cond.pending == 0
        finally:
          cond.release()
      stable = stable + 1 if dead else 0
      if stable >= 3:
        status = 'deadlock'
        break
      if time.monotonic() - t0 > 20:
        status = 'watchdog'
        break
  if status != 'ok' and state['it'] is not None:
    try:
      state['it'].close()
    except Exception:  # noqa: BLE001
      pass
  ctx.event('sched.points_seen', len(inj.points))
  return hist, status, inj.points, src, log


def check_history(ctx, cfg, sched, hist, status, src):
  n, bs, p, exc_i, close_after = cfg
  detail = lambda: dict(cfg=dict(n=n, buffer_size=bs, fail_at=p, exc=EXC_TYPES[exc_i % len(EXC_TYPES)].__name__, close_after=close_after),
                        schedule=sched, history=[repr(h)[:80] for h in hist], status=status)
  if status == 'watchdog':
    ctx.note_inconclusive('prefetch run exceeded 20 s without a decided deadlock')
    return
  if not ctx.check(status != 'deadlock', 'prefetch.deadlock', detail):
    return
  items = [h[1] for h in hist if h[0] == 'item']
  upto = n if p is None else min(p, n)
  expected_items = [(src.run, i) for i in range(upto)]
  first_term = next((k for k, h in enumerate(hist) if h[0] in ('stop', 'raise')), None)
  if close_after is not None and close_after <= len(expected_items):
    # close() is not part of the property text: only demand a duplicate-free in-order prefix that contains the items taken
    # before close, and termination (no deadlock, checked above). An item surfacing after a StopIteration that followed
    # close() is observed on the unchanged tree and deliberately not flagged.
    ok = items == expected_items[:len(items)] and len(items) >= close_after and first_term is not None
    ctx.check(ok, 'prefetch.history:close', detail)
    return
  ctx.check(items == expected_items, 'prefetch.history:items', detail)
  if not ctx.check(first_term is not None, 'prefetch.history:no_termination', detail):
    return
  ctx.check(all(h[0] == 'item' for h in hist[:first_term]) and first_term == len(expected_items), 'prefetch.history:order', detail)
  term = hist[first_term]
  if p is not None and p <= n:
    # the source's own exception object must reach the consumer after exactly p items
    if term[0] == 'stop':
      ctx.check(False, 'prefetch.error_lost' + (':first_item' if p == 0 else ''), detail)
    else:
      ctx.check(term[1] is src.exc, 'prefetch.history:wrong_exception', detail)
  else:
    ctx.check(term[0] == 'stop', 'prefetch.history:end_not_stop', detail)
  ctx.check(all(h[0] in ('stop', 'raise') for h in hist[first_term:]), 'prefetch.item_after_end', detail)


def configs(tier):
  nmax = 4 if tier == 'quick' else 6
  out = []
  for n in range(0, nmax + 1):
    for bs in (1, 2, 3):
      if tier == 'quick' and bs == 3 and n not in (2, 4):
        continue
      for p in [None] + list(range(0, n + 1)):
        out.append((n, bs, p, n + bs + (p or 0), None))
      if n >= 2:
        out.append((n, bs, None, 0, 1))
        out.append((n, bs, None, 0, n - 1))
  return out


def run_prefetch(ctx):
  from flax.training import prefetch_iterator as mod
  from vf import sched as S
  mod.threading = S.make_threading_shim()
  cfgs = configs(ctx.tier)
  case_no = 0
  for ci, cfg in ctx.items(cfgs, 'prefetch'):
    rng = ctx.rng('prefetch', ci)
    # run 0: no injection, discovers the points
    scheds = [('none',)]
    hist, status, points, src, log = run_prefetch_once(ctx, mod, cfg, ('none',), rng)
    pts = sorted({pt for pt in points if pt[3] <= 3})
    scheds += [('delay', (pt,)) for pt in pts]
    if ctx.tier == 'thorough':
      pairs = list(itertools.combinations(pts, 2))
      rng.shuffle(pairs)
      scheds += [('pair', pr) for pr in pairs[:120]]
    scheds += [('random', q, k) for k in range(6 if ctx.tier == 'quick' else 40) for q in (0.15, 0.5)]
    for si, sc in enumerate(scheds):
      desc = dict(n=cfg[0], buffer_size=cfg[1], fail_at=cfg[2], exc=EXC_TYPES[cfg[3] % len(EXC_TYPES)].__name__, close_after=cfg[4], schedule=sc)
      with ctx.case('prefetch', ci * 100000 + si, desc, nontrivial=cfg[0] >= 1 or cfg[2] is not None):
        r = ctx.rng('prefetch', ci, si)
        hist, status, points, src, log = run_prefetch_once(ctx, mod, cfg, sc, r)
        ctx.op('PrefetchIterator')
        check_history(ctx, cfg, sc, hist, status, src)
        ctx.extra['distinct_point_sets'] = ctx.extra.get('distinct_point_sets', 0)
    ctx.exhaustive['prefetch.single_delay_schedules'] = True


# ---------------------------------------------------------------------------------------------
# value helpers (run in a child with a given device count)


def tree_eq(a, b, exact=True):
  import jax
  la, ta = jax.tree_util.tree_flatten(a)
  lb, tb = jax.tree_util.tree_flatten(b)
  if ta != tb or len(la) != len(lb):
    return False
  for x, y in zip(la, lb):
    x, y = np.asarray(x), np.asarray(y)
    if x.shape != y.shape or x.dtype != y.dtype:
      return False
    if exact:
      if not np.array_equal(x, y):
        return False
    elif not np.allclose(x, y, rtol=1e-5, atol=1e-6):
      return False
  return True


def run_values(ctx):
  import jax
  import jax.numpy as jnp
  from flax import jax_utils
  from flax.training import common_utils
  d = jax.local_device_count()
  ctx.extra['device_counts_seen'] = d
  quick = ctx.tier == 'quick'

  # ---- pad_shard_unpad
  seen_shapes = []

  def per_example(params, x, aux=None, scale=1.0):
    # wrapped fn receives (d, db, ...) leaves; computes an elementwise-per-example function
    seen_shapes.append({k: np.shape(v) for k, v in x.items()})
    y = {'s': np.asarray(x['a']).sum(axis=-1) * params['w'] * scale, 'a2': np.asarray(x['a']) * 2 + params['w']}
    # leaves of the same per-example shape but different dtypes: each must arrive (and come back) in its own dtype, exactly
    y['i_echo'] = np.asarray(x['i'])
    y['big_mod'] = np.asarray(x['zbig']) % 7
    y['f_echo'] = np.asarray(x['f'])
    if aux is not None:
      y['aux'] = np.asarray(aux) + 1
    return y

  wrapped = jax_utils.pad_shard_unpad(per_example, static_argnums=(0,), static_argnames=('scale',))
  # static_argnames spelled as one string (as jax.jit accepts it); the batched keyword 's' is a SUBSTRING of 'scale'
  wrapped_str = jax_utils.pad_shard_unpad(lambda params, x, s=None, scale=1.0: per_example(params, x, s, scale), static_argnums=(0,), static_argnames='scale')
  bmax = 3 * d + 2 if not quick else 2 * d + 2
  k = 0
  for b in range(1, bmax + 1):
    for mdb in (None, 1, 2, 5):
      for with_aux in (False, True):
        k += 1
        rng = np.random.default_rng(ctx.rng('psu', d, k).getrandbits(32))
        x = {'a': rng.normal(size=(b, 3)).astype(np.float32), 'i': rng.integers(0, 9, size=(b,)).astype(np.int32),
             'f': rng.normal(size=(b,)).astype(np.float32),                                  # float32, flattened before ...
             'zbig': (rng.integers(0, 100, size=(b,)) + 16777217).astype(np.int32)}         # ... int32 values beyond 2**24, same shape
        aux = rng.normal(size=(b, 2, 2)).astype(np.float32) if with_aux else None
        params = {'w': np.float32(1.5)}
        desc = dict(helper='pad_shard_unpad', devices=d, b=b, min_device_batch=mdb, aux=with_aux)
        with ctx.case('values', d * 100000 + k, desc, nontrivial=b % d != 0 or mdb is not None):
          seen_shapes.clear()
          kw = dict(min_device_batch=mdb, scale=2.0)
          if with_aux and k % 3 == 0:
            got = wrapped_str(params, x, s=aux, **kw)
          else:
            got = wrapped(params, x, aux, **kw) if with_aux else wrapped(params, x, **kw)
          ctx.op('pad_shard_unpad')
          # direct evaluation on the unpadded batch (leaves viewed as (1, b, ...))
          want = per_example(params, {kk: v[None] for kk, v in x.items()}, None if aux is None else aux[None], scale=2.0)
          want = {kk: v[0] for kk, v in want.items()}
          ctx.check(tree_eq(got, want), 'pad_shard_unpad', lambda: dict(desc=desc, got={k2: np.shape(v) for k2, v in got.items()}))
          shp = seen_shapes[0]
          db = shp['a'][1]
          ok = shp['a'][0] == d and shp['i'][:2] == (d, db) and d * db >= b and (mdb is None or db >= mdb)
          ctx.check(ok, 'pad_shard_unpad:shapes', lambda: dict(desc=desc, seen=shp))
  # static_return passes the result through untouched
  sr = jax_utils.pad_shard_unpad(lambda p, x: ('static', x.shape), static_return=True)
  with ctx.case('values', d * 100000 + 90001, dict(helper='pad_shard_unpad.static_return', devices=d)):
    out = sr(None, np.zeros((d + 1, 2), np.float32))
    ctx.check(out[0] == 'static' and out[1][0] == d and out[1][1] * d >= d + 1, 'pad_shard_unpad:static_return', dict(out=repr(out)))

  # ---- replicate / unreplicate / shard / shard_prng_key
  for k in range(6):
    rng = np.random.default_rng(ctx.rng('rep', d, k).getrandbits(32))
    tree = {'w': rng.normal(size=(2, k + 1)).astype(np.float32), 'n': {'b': np.arange(k + 1, dtype=np.int32), 's': np.float32(k)}}
    with ctx.case('values', d * 100000 + 91000 + k, dict(helper='replicate', devices=d, k=k)):
      r = jax_utils.replicate(tree)
      ctx.op('replicate')
      want = jax.tree_util.tree_map(lambda x: np.broadcast_to(x, (d,) + np.shape(x)), tree)
      ctx.check(tree_eq(r, want), 'replicate', None)
      ctx.check(tree_eq(jax_utils.unreplicate(r), tree), 'unreplicate', None)
      ctx.op('unreplicate')
      bt = {'x': rng.normal(size=(d * (k + 1), 3)).astype(np.float32), 'y': np.arange(d * (k + 1))}
      if k % 2:
        # a batch of examples with an empty feature dimension (no tokens, zero-width crop): still d x per-device x 0
        bt['z'] = np.zeros((d * (k + 1), 0, 2), np.float32)
        bt['e'] = np.zeros((d * (k + 1), 0), np.int32)
      s = common_utils.shard(bt)
      ctx.op('shard')
      ctx.check(tree_eq(s, {kk: v.reshape((d, k + 1) + v.shape[1:]) for kk, v in bt.items()}), 'shard', None)
      keys = common_utils.shard_prng_key(jax.random.PRNGKey(k))
      ctx.check(np.array_equal(np.asarray(keys), np.asarray(jax.random.split(jax.random.PRNGKey(k), d))), 'shard_prng_key', None)

  # ---- prefetch_to_device (single-threaded generator): order, values, each once, then stop; error after preceding items
  k = 0
  for n in range(0, 5 if quick else 7):
    for size in (1, 2, 3):
      for p in [None] + list(range(0, n + 1)):
        k += 1
        desc = dict(helper='prefetch_to_device', devices=d, n=n, size=size, fail_at=p)
        with ctx.case('values', d * 100000 + 92000 + k, desc, nontrivial=n >= 1):
          exc = SrcError('boom@%s' % (p,))

          def gen():
            for i in range(n):
              if p is not None and i == p:
                raise exc
              yield {'x': np.full((d, 2), i, np.float32), 'id': np.full((d,), i, np.int32)}
            if p is not None and p == n:
              raise exc

          class Resumable:
            """An iterator that stays usable after raising (map(load, files), a reader object with __next__): the item after the
            failing one is there if anybody asks - the consumer must get the error first and never see it."""

            def __init__(self):
              self.i = 0

            def __iter__(self):
              return self

            def __next__(self):
              i = self.i
              self.i += 1
              if p is not None and i == p:
                raise exc
              if i >= n + (1 if p is not None and p < n else 0):
                raise StopIteration
              j = i - (1 if p is not None and i > p else 0)
              return {'x': np.full((d, 2), j, np.float32), 'id': np.full((d,), j + (1000 if p is not None and i > p else 0), np.int32)}

          hist = []
          resumable = (k % 2 == 0)
          desc['source'] = 'resumable iterator' if resumable else 'generator'
          it = jax_utils.prefetch_to_device(Resumable() if resumable else gen(), size)
          ctx.op('prefetch_to_device')
          for _ in range(n + 3):
            try:
              hist.append(('item', next(it)))
            except StopIteration:
              hist.append(('stop',))
            except SrcError as e:
              hist.append(('raise', e))
              if resumable:
                break    # what a resumable source hands out after its error is its own business
          items = [h[1] for h in hist if h[0] == 'item']
          upto = n if p is None else p
          first_term = next((j for j, h in enumerate(hist) if h[0] != 'item'), None)
          ids = [int(np.asarray(x['id'])[0]) for x in items]
          det = lambda: dict(desc=desc, ids=ids, hist=[h[0] for h in hist])
          ok_vals = all(np.array_equal(np.asarray(x['x']), np.full((d, 2), i, np.float32)) and np.asarray(x['id']).shape == (d,) for i, x in zip(ids, items))
          ctx.check(ids == list(range(len(ids))) and ok_vals and all(h[0] != 'item' for h in hist[first_term:]), 'prefetch_to_device', det)
          if p is None:
            ctx.check(ids == list(range(n)) and hist[first_term][0] == 'stop', 'prefetch_to_device:end', det)
          else:
            ctx.check(any(h[0] == 'raise' and h[1] is exc for h in hist), 'prefetch_to_device:error_lost', det)
            ctx.check(ids == list(range(upto)), 'prefetch_to_device:error_before_preceding_items', det)
          if items:
            sh = getattr(items[0]['x'], 'sharding', None)
            ctx.check(sh is not None and len(sh.device_set) == d, 'prefetch_to_device:not_sharded', lambda: dict(sharding=repr(sh)))

  if d != 1:
    return
  # ---- device-independent helpers
  # scan_in_dim vs nested python loops
  k = 0
  shapes = [(2, 3), (2, 3, 2), (3, 2, 2, 2)] if quick else [(2, 3), (3, 1), (2, 3, 2), (1, 2, 3), (3, 2, 2, 2), (2, 1, 3, 2)]
  for shape in shapes:
    nd = len(shape)
    axes = [a for r in (1, 2, 3) for a in itertools.permutations(range(nd), r) if r <= nd]
    if quick:
      axes = axes[::2]
    # the same axis tuples with some entries written as negative indices (seeded change C20-b): every tuple gets one signed twin,
    # the thorough tier every sign pattern
    signed = []
    for j, ax in enumerate(axes):
      masks = range(1, 2 ** len(ax)) if not quick else [1 + (j * 5 + len(shape)) % (2 ** len(ax) - 1)]
      for mask in masks:
        signed.append(tuple(a - nd if (mask >> i) & 1 else a for i, a in enumerate(ax)))
    for axis_given in axes + signed:
      axis = tuple(a % nd for a in axis_given)
      for keepdims in (False, True):
        for unroll in ((1,), (2,)) if not quick else ((1,),) if (k % 3) else ((1,), (2,)):
          k += 1
          desc = dict(helper='scan_in_dim', shape=shape, axis=axis_given, keepdims=keepdims, unroll=unroll)
          with ctx.case('values', 93000 + k, desc, nontrivial=len(axis) >= 2 or keepdims or min(axis_given) < 0):
            rng = np.random.default_rng(ctx.rng('scan', k).getrandbits(32))
            xs = rng.normal(size=shape).astype(np.float32)
            rest = tuple(s for i, s in enumerate(shape) if i not in axis)
            kshape = tuple(1 if i in axis else s for i, s in enumerate(shape))
            init = np.zeros(kshape if keepdims else rest, np.float32)

            def body(c, x):
              c2 = c * 0.5 + x
              return c2, c2 * 3.0 - x

            c, ys = jax_utils.scan_in_dim(body, jnp.asarray(init), jnp.asarray(xs), axis=axis_given, unroll=unroll, keepdims=keepdims)
            ctx.op('scan_in_dim')
            # reference: nested python loops in the order of `axis`
            cr = init.astype(np.float64)
            yr = np.zeros(shape, np.float64)
            for idx in itertools.product(*[range(shape[a]) for a in axis]):
              sl = [slice(None)] * nd
              for a, i in zip(axis, idx):
                sl[a] = slice(i, i + 1) if keepdims else i
              x = xs[tuple(sl)].astype(np.float64)
              cr = cr * 0.5 + x
              yr[tuple(sl)] = cr * 3.0 - x
            ctx.check(np.shape(c) == cr.shape and np.allclose(np.asarray(c), cr, rtol=1e-5, atol=1e-5)
                      and np.shape(ys) == yr.shape and np.allclose(np.asarray(ys), yr, rtol=1e-5, atol=1e-5),
                      'scan_in_dim', lambda: dict(desc=desc, c_shape=np.shape(c), ys_shape=np.shape(ys)))

  # stack_forest / get_metrics / onehot
  for k in range(8):
    rng = np.random.default_rng(ctx.rng('misc', k).getrandbits(32))
    m = k % 4 + 1
    forest = [{'a': rng.normal(size=(2,)).astype(np.float32), 'b': {'c': np.float32(i)}} for i in range(m)]
    with ctx.case('values', 94000 + k, dict(helper='stack_forest/onehot/get_metrics', k=k)):
      st = common_utils.stack_forest(forest)
      ctx.op('stack_forest')
      ctx.check(tree_eq(st, {'a': np.stack([f['a'] for f in forest]), 'b': {'c': np.stack([f['b']['c'] for f in forest])}}), 'stack_forest', None)
      nc = k + 2
      labels = rng.integers(0, nc, size=(3, k % 3 + 1))
      oh = common_utils.onehot(jnp.asarray(labels), nc, on_value=0.9, off_value=0.1)
      ctx.op('onehot')
      want = np.where(labels[..., None] == np.arange(nc), np.float32(0.9), np.float32(0.1)).astype(np.float32)
      ctx.check(np.asarray(oh).shape == want.shape and np.allclose(np.asarray(oh), want), 'onehot', None)
      # on / off values of different Python types ("defaults to 1.0" / "0.0": an int for one of them is the same number)
      on_v, off_v = [(1, 0.0), (1.0, 0), (2, 0.5), (True, 0.25)][k % 4]
      oh3 = common_utils.onehot(jnp.asarray(labels), nc, on_value=on_v, off_value=off_v)
      want3 = np.where(labels[..., None] == np.arange(nc), np.float32(on_v), np.float32(off_v)).astype(np.float32)
      ctx.check(np.asarray(oh3).dtype == np.float32 and np.array_equal(np.asarray(oh3), want3), 'onehot:mixed_value_types', lambda: dict(on=repr(on_v), off=repr(off_v)))
      # narrow label dtypes with more classes than the dtype can count (a class index vector built in the label dtype would wrap)
      ldt = ['uint8', 'int8', 'int16', 'uint16', 'int32', 'int64', 'uint8', 'int8'][k]
      nc2 = [300, 300, 40000, 70000, 300, 7, 1000, 257][k]
      hi = min(nc2, np.iinfo(ldt).max + 1)
      lab2 = rng.integers(0, hi, size=(2, 3)).astype(ldt)
      lab2[0, 0] = hi - 1
      lab2[0, 1] = min(5, hi - 1)
      for as_jax in (False, True):
        oh2 = common_utils.onehot(jnp.asarray(lab2) if as_jax else lab2, nc2)
        ctx.op('onehot')
        want2 = (lab2.astype(np.int64)[..., None] == np.arange(nc2)).astype(np.float32)
        ctx.check(np.asarray(oh2).shape == want2.shape and np.array_equal(np.asarray(oh2), want2), 'onehot:narrow_label_dtype',
                  lambda: dict(label_dtype=ldt, num_classes=nc2, row_sums=np.asarray(oh2).sum(-1).ravel()[:6].tolist()))
      dev_metrics = [jax_utils.replicate({'loss': np.float32(i + k), 'acc': np.float32(i)}) for i in range(m)]
      gm = common_utils.get_metrics(dev_metrics)
      ctx.op('get_metrics')
      ctx.check(tree_eq(gm, {'loss': np.arange(m, dtype=np.float32) + k, 'acc': np.arange(m, dtype=np.float32)}), 'get_metrics', None)


def run(ctx):
  if ctx.part and ctx.part.startswith('values'):
    run_values(ctx)
    return
  run_prefetch(ctx)
  counts = [1, 2, 3, 8] if ctx.tier == 'quick' else [1, 2, 3, 4, 5, 8]
  for i, d in ctx.items(counts, 'devices'):
    ctx.run_part('values-%d' % d, {'XLA_FLAGS': '--xla_force_host_platform_device_count=%d' % d})
