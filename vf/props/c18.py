"""C18 — Linen<->NNX bridge wrappers behave like the module they wrap.

Monitor shape: differential runs of the real wrappers against the wrapped module (ToNNX vs plain Linen apply on the variables
held by the wrapper; ToLinen vs a directly constructed NNX module carrying the same state), a round-trip comparator with
metadata for linen_vars_to_nnx_attrs / nnx_attrs_to_linen_vars, and a bijection invariant on VariableTypeCache evaluated after
every bridge call."""
import numpy as np

LEVEL = 'exploration'
LEVEL_TEXT = ('Seeded differential runtime check. ToNNX: hand-written Linen families (Dense/MLP-like body with optional BatchNorm, '
              'counter, boxed running statistic, dropout, noise stream, Partitioned/LogicallyPartitioned params, sow, variables created '
              'on a mutable call; nesting depth 1-3) and generated module programs (vf/gen/linen_prog.py) are wrapped, lazily initialised '
              'and driven through call sequences of length <= 4 (train/eval switches, mutable sets, method=) standalone, inside an NNX '
              'parent, across nnx.split/merge and under nnx.jit; every output is compared with the plain Linen apply on the variables '
              'held by the wrapper and the RNG keys the wrapper streams must hand out, every state after a call with the mutable outputs of '
              'that apply, every collection with the registered Variable type. ToLinen: NNX module families (Linear-like, BatchNorm, '
              'Dropout, noise stream, Param subclasses, registered counter type, LoRA, layer lists, partition metadata) standalone or inside a '
              'Linen parent are compared step by step with a directly constructed NNX module holding the same state (keys obtained with an '
              'independent Linen probe module). Conversions: generated Linen variable trees / NNX attribute trees are round-tripped both ways.'
              ' Further streams: nnx sow inside ToLinen, ToNNX inside an NNX parent that passes mutable=, a ToLinen'
              ' instance used several times, custom AxisMetadata boxes, namespace collisions (known finding K5).'
              ' Round e/f: default_only rngs, tolinen.hooked, tolinen.lifted_sharding, tolinen.falsy_meta, tolinen.restored_without_init.'
              ' Round g: negative stacking axes in tolinen.lifted_sharding.')
LEVEL_NOTE = ('Trusts nnx.Rngs stream semantics (key = fold_in(stream key, count)), Linen make_rng path folding (through a probe module at the '
              'same scope path) and the comparison helpers in vf/props/c18.py. Outside jit comparisons are bit-exact; under nnx.jit '
              'core.TOL_SAME_PROGRAM on well-conditioned programs (no BatchNorm division).')
TECHNIQUE = 'runtime monitoring: differential wrapper-vs-wrapped oracle + metadata round-trip comparator + VariableTypeCache bijection invariant'
RULE = ('tonnx: index-seeded (family features x nesting depth x Rngs layout {default, params, both} x embedding {plain, NNX parent, split/merge, '
        'nnx.jit} x lazy_init API x call sequence <= 4 of (train, mutable spec, method)); tonnx.prog: generated Linen programs (<= 4 nodes, '
        'counters/running stats in state|batch_stats|cache, noise/dropout, perturb; sow ops replaced by no-ops: default sow tuples are '
        'exercised by the hand-written feature sowt) x mutable subsets; tolinen: (NNX family features x {ToLinen, to_linen} x {standalone, '
        'Linen parent, jax.jit}) x apply sequence <= 4 of (rng key | none, mutable spec, train); convert: generated trees with unique paths '
        '(two collections never use the same path: one NNX object cannot hold two attributes of one name), leaves raw / nn.Partitioned / '
        'nn.LogicallyPartitioned / NNXMeta with non-empty metadata (an NNXMeta with empty metadata is by construction converted to a raw '
        'leaf), only registered Variable types; registry: fresh unique names only. distinct = distinct descriptor; non-trivial = the module '
        'has state or RNG use or metadata, or the sequence has >= 2 calls. Excluded: BatchNorm under nnx.jit/jax.jit comparisons (division by '
        'a batch-of-2 std is ill-conditioned; BatchNorm runs eagerly and bit-exactly), train=True with BatchNorm while batch_stats is '
        'immutable (plain Linen raises too), RNG streams a module uses are always present in the wrapper Rngs (Linen apply has no default '
        'fallback), ToNNX inside bridge.Module (mutable taken from the bridge scope) is not exercised.')
ASSUMPTIONS = ['vf.compat JAX aliases are faithful', 'nnx.Rngs / RngStream hand out fold_in(key, count) and increment count (C-level property of rnglib)',
               'a Linen probe module at the same scope path receives the same make_rng keys as the ToLinen wrapper']
PLAN = {'quick': dict(workers=4, timeout_s=900), 'thorough': dict(workers=12, timeout_s=3000)}
MIN_EVENTS = {'quick': {'oracle:tonnx.output': 700, 'oracle:tonnx.state_after_call': 600, 'oracle:tonnx.collection_type': 800,
                        'oracle:tonnx.init_values': 400, 'oracle:tolinen.output': 300, 'oracle:tolinen.collections': 120,
                        'oracle:tolinen.mutable_roundtrip': 400, 'oracle:tolinen.rng': 150, 'oracle:convert.l2n2l': 75,
                        'oracle:convert.n2l2n': 75, 'oracle:convert.sharding': 250, 'oracle:registry.bijective': 1500,
                        'mutable_update_observed': 300, 'nnx.jit(ToNNX)': 30, 'split_merge(ToNNX)': 100, 'nested_in_nnx_parent': 60,
                        'nested_in_linen_parent': 30},
              'thorough': {'oracle:tonnx.output': 10000, 'oracle:tonnx.state_after_call': 9000, 'oracle:tolinen.output': 4000,
                           'oracle:tolinen.mutable_roundtrip': 5000, 'oracle:convert.l2n2l': 700, 'oracle:convert.n2l2n': 700,
                           'oracle:registry.bijective': 20000, 'mutable_update_observed': 4000, 'nnx.jit(ToNNX)': 400}}

SKIP_ATTRS = ('module', 'rngs', '_object__state')
BUILTIN = {'params': 'Param', 'batch_stats': 'BatchStat', 'cache': 'Cache', 'intermediates': 'Intermediate',
           'perturbations': 'Perturbation'}


# ---------------------------------------------------------------------------------------------
# comparison helpers (independent of the bridge code)


def _is_key(a):
  import jax
  return hasattr(a, 'dtype') and jax.dtypes.issubdtype(a.dtype, jax.dtypes.prng_key)


def bits(a):
  import jax
  if _is_key(a):
    a = jax.random.key_data(a)
  return np.asarray(a)


def same_bits(a, b):
  try:
    x, y = bits(a), bits(b)
  except Exception:  # noqa: BLE001
    return False
  return x.dtype == y.dtype and x.shape == y.shape and x.tobytes() == y.tobytes()


def close(a, b):
  from vf import core
  try:
    x, y = bits(a), bits(b)
  except Exception:  # noqa: BLE001
    return False
  if x.dtype != y.dtype or x.shape != y.shape:
    return False
  if x.dtype.kind == 'f':
    return bool(np.allclose(x, y, equal_nan=True, **core.TOL_SAME_PROGRAM))
  return x.tobytes() == y.tobytes()


def tree_same(a, b, exact=True):
  import jax
  la, ta = jax.tree_util.tree_flatten(a)
  lb, tb = jax.tree_util.tree_flatten(b)
  if ta != tb:
    return False
  f = same_bits if exact else close
  return all(f(x, y) for x, y in zip(la, lb))


def is_box(x):
  from flax.core import meta
  return isinstance(x, meta.AxisMetadata)


def is_map(x):
  from collections.abc import Mapping
  return isinstance(x, Mapping)


def flat_linen(variables):
  """{(collection, *path): leaf}; boxes, tuples and arrays are leaves."""
  out = {}

  def go(x, path):
    if is_map(x) and not is_box(x):
      for k, v in x.items():
        go(v, path + (k,))
    else:
      out[path] = x

  go(variables, ())
  return out


def _msig(v):
  import jax
  if isinstance(v, jax.sharding.Mesh):
    return ('mesh', tuple(v.axis_names), tuple(v.devices.shape))
  if isinstance(v, type):
    return ('type', v.__module__, v.__qualname__)
  if is_map(v):
    return tuple(sorted((str(k), _msig(x)) for k, x in v.items()))
  if isinstance(v, (list, tuple)):
    return tuple(_msig(x) for x in v)
  return repr(v)


def box_sig(x):
  """Kind and metadata of a Linen leaf, read from the instance dict (robust against corrupted boxes)."""
  if is_box(x):
    d = dict(vars(x))
    d.pop('value', None)
    return (type(x).__name__, tuple(sorted((k, _msig(v)) for k, v in d.items())))
  return ('raw',)


def leaf_value(x):
  if is_box(x):
    return vars(x).get('value')
  return x


def var_meta(v):
  """Metadata of an nnx Variable / VariableState without empty hooks."""
  return {k: x for k, x in v.get_metadata().items() if not (k.endswith('_hooks') and x == ())}


def diff_vars(got, want, exact=True):
  """Compare two flat Linen trees: returns dict(missing, extra, value, box)."""
  missing = sorted(map(repr, set(want) - set(got)))
  extra = sorted(map(repr, set(got) - set(want)))
  value, box = [], []
  for k in want:
    if k in got:
      if not tree_same(leaf_value(got[k]), leaf_value(want[k]), exact):
        value.append(repr(k))
      if box_sig(got[k]) != box_sig(want[k]):
        box.append((repr(k), repr(box_sig(got[k])), repr(box_sig(want[k]))))
  return dict(missing=missing, extra=extra, value=value, box=box)


def no_diff(d):
  return not (d['missing'] or d['extra'] or d['value'] or d['box'])


def check_registry(ctx, where):
  """Invariant: VariableTypeCache is a bijection and both lookup functions are mutually inverse."""
  from flax.nnx import variablelib as vl
  cache = vl.VariableTypeCache
  types = list(cache.values())
  ok = len({id(t) for t in types}) == len(types)
  bad = None
  if ok:
    for n, t in cache.items():
      if vl.variable_type_from_name(n) is not t or vl.variable_name_from_type(t) != n:
        ok, bad = False, n
        break
  ctx.check(ok, 'registry.bijective:' + where, lambda: dict(names=list(cache), bad=bad, types=[repr(t) for t in types]))


def expected_keys(rngs):
  """Keys the streams of an nnx.Rngs hand out next (stream semantics: fold_in(key, count))."""
  import jax
  return {name: jax.random.fold_in(s.key.value, s.count.value) for name, s in rngs.items()}


def wrapper_vars(w):
  """Linen variable dict reconstructed from the wrapper's attributes with the public conversion function."""
  from flax.nnx.bridge import variables as bv
  return bv.nnx_attrs_to_linen_vars({k: v for k, v in vars(w).items() if k not in SKIP_ATTRS})


def attr_leaves(w):
  """{path: object held by the wrapper} by an own traversal of the wrapper's attributes."""
  out = {}

  def go(x, path):
    if is_map(x):
      for k, v in x.items():
        go(v, path + (k,))
    else:
      out[path] = x

  for k, v in vars(w).items():
    if k not in SKIP_ATTRS:
      go(v, (k,))
  return out


def check_types(ctx, w, flat_expected, where):
  """Each collection is stored under variable_type_from_name(collection) (and the documented built-in type)."""
  from flax import nnx
  from flax.nnx import variablelib as vl
  held = attr_leaves(w)
  bad = []
  for key in flat_expected:
    col, path = key[0], tuple(key[1:])
    obj = held.get(path)
    objs = list(obj) if isinstance(obj, (tuple, list)) else [obj]
    for o in objs:
      try:
        t = vl.variable_type_from_name(col)
      except ValueError:
        t = None
      ok = isinstance(o, nnx.Variable) and t is not None and type(o) is t
      if ok and col in BUILTIN:
        ok = type(o) is getattr(nnx, BUILTIN[col])
      if not ok:
        bad.append((col, repr(path), type(o).__name__))
  ctx.check(not bad, 'tonnx.collection_type:' + where, lambda: dict(bad=bad[:6]))
  # the same through the NNX state API: nnx.state(w) lists exactly these paths (plus the wrapper's rngs)
  try:
    st = nnx.state(w)
    from flax.nnx import statelib
    paths = {tuple(p) for p, v in statelib.to_flat_state(st) if not (p and p[0] == 'rngs')}
    want = set()
    for key in flat_expected:
      obj = held.get(tuple(key[1:]))
      if isinstance(obj, (tuple, list)):
        want |= {tuple(key[1:]) + (i,) for i in range(len(obj))}
      else:
        want.add(tuple(key[1:]))
    ctx.check(paths == want, 'tonnx.state_paths:' + where,
              lambda: dict(missing=sorted(map(repr, want - paths)), extra=sorted(map(repr, paths - want))))
  except Exception as e:  # noqa: BLE001
    ctx.check(False, 'tonnx.state_paths:raises', dict(error=repr(e)[:300]))


# ---------------------------------------------------------------------------------------------
# Linen families wrapped by ToNNX


def linen_classes():
  global _LCLS
  try:
    return _LCLS
  except NameError:
    pass
  import jax
  import jax.numpy as jnp
  import flax.linen as nn
  from flax import nnx
  from flax.nnx import bridge

  class Body(nn.Module):
    d: int
    feats: tuple = ()

    @nn.compact
    def __call__(self, x, train=False):
      f = self.feats
      kinit, binit = nn.initializers.lecun_normal(), nn.initializers.zeros_init()
      if 'part' in f:
        kinit = nn.with_partitioning(kinit, ('in', 'out'))
        binit = nn.with_logical_partitioning(binit, ('out-alias',), rules=(('out-alias', 'out'),))
      h = nn.Dense(self.d, kernel_init=kinit, bias_init=binit)(x)
      if 'bn' in f:
        h = nn.BatchNorm(use_running_average=not train, momentum=0.5)(h)
      h = jnp.tanh(h)
      if 'mlp' in f:
        h = jnp.tanh(nn.Dense(self.d, name='out')(h))
      if 'part' in f:
        g = self.param('g', nn.with_partitioning(nn.initializers.ones, ('out',)), (self.d,))
        h = h * g
      if 'counter' in f:
        c = self.variable('c18_counter', 'n', lambda: jnp.zeros((), jnp.int32))
        h = h + 0.01 * c.value.astype(h.dtype)
        if self.is_mutable_collection('c18_counter'):
          c.value = c.value + 1
      if 'boxed' in f:
        v = self.variable('batch_stats', 'ema', lambda: nn.Partitioned(jnp.zeros((self.d,), jnp.float32), names=('out',)))
        h = h - 0.1 * v.value
        if self.is_mutable_collection('batch_stats') and not self.is_initializing():
          v.value = 0.5 * v.value + 0.5 * h.reshape((-1, self.d)).mean(axis=0)
      if 'dropout' in f:
        h = nn.Dropout(0.5, deterministic=not train)(h)
      if 'noise' in f:
        h = h + 0.1 * jax.random.normal(self.make_rng('noise'), h.shape, h.dtype)
      if 'sowr' in f:
        self.sow('intermediates', 'last', h.mean(), reduce_fn=lambda a, b: b, init_fn=lambda: jnp.zeros((), jnp.float32))
      if 'sowt' in f:
        self.sow('intermediates', 'hist', h.mean())
      if 'newvar' in f:
        if not self.is_initializing() and self.is_mutable_collection('cache'):
          self.put_variable('cache', 'seen', h.sum())
      return h

    def scaled(self, x, train=False):
      return 2.0 * self(x, train)

    def both(self, x, train=False):
      y = self(x, train)
      return y, {'m': y.mean()}

  class Net(nn.Module):
    d: int
    feats: tuple = ()
    depth: int = 2

    @nn.compact
    def __call__(self, x, train=False):
      p = self.param('gain', nn.initializers.ones, (x.shape[-1],))
      x = x * p
      if self.depth > 2:
        return Net(self.d, self.feats, self.depth - 1, name='sub')(x, train)
      return Body(self.d, self.feats, name='blk')(x, train)

    def scaled(self, x, train=False):
      return 2.0 * self(x, train)

    def both(self, x, train=False):
      y = self(x, train)
      return y, {'m': y.mean()}

  class NParent(nnx.Module):
    """NNX parent holding a ToNNX wrapper next to a native layer."""

    def __init__(self, lin_module, d_in, rngs):
      self.pre = nnx.Linear(d_in, d_in, rngs=rngs)
      self.inner = bridge.ToNNX(lin_module, rngs=rngs)

    def __call__(self, x, **kw):
      return self.inner(jnp.tanh(self.pre(x)), **kw)

  _LCLS = dict(Body=Body, Net=Net, NParent=NParent)
  return _LCLS


FEAT_MENU = ['bn', 'counter', 'boxed', 'dropout', 'noise', 'part', 'sowr', 'newvar', 'mlp']
STATE_COLS = {'bn': 'batch_stats', 'counter': 'c18_counter', 'boxed': 'batch_stats', 'sowr': 'intermediates', 'sowt': 'intermediates',
              'newvar': 'cache'}


def gen_tonnx_cfg(rng, i):
  """Configuration of one hand-written ToNNX case (a deterministic function of rng and index)."""
  n = rng.choice([0, 1, 1, 2, 2, 3, 4])
  feats = sorted(rng.sample(FEAT_MENU, n))
  if i % 9 == 4:
    feats = sorted(set(feats) | {'sowt'})
  depth = rng.choice([1, 1, 2, 2, 3])
  embed = ['plain', 'parent', 'splitmerge', 'plain', 'parent', 'plain', 'jit', 'splitmerge'][i % 8]
  if embed == 'jit':
    feats = [f for f in feats if f != 'bn']  # BatchNorm's division by a batch-of-2 std is ill-conditioned under XLA refusion
  cols = sorted({STATE_COLS[f] for f in feats if f in STATE_COLS})
  rngcfg = rng.choice(['default', 'params', 'both', 'default_only'])
  lazy = rng.choice(['method', 'function']) if embed != 'parent' else 'function'
  steps = []
  n_steps = rng.randint(1, 4) if embed != 'jit' else rng.randint(1, 2)
  for _ in range(n_steps):
    train = rng.random() < 0.6
    opts = []
    if cols:
      opts += [list(cols), True, list(cols)]
      if len(cols) == 1:
        opts.append(cols[0])
      if len(cols) > 1:
        sub = sorted(rng.sample(cols, rng.randint(1, len(cols) - 1)))
        opts.append(sub)
      opts.append(('deny', 'params'))
    if not train or not cols:
      opts += [None, None]
    mutable = rng.choice(opts) if opts else None
    if train and 'bn' in feats:
      ok = mutable is True or (isinstance(mutable, list) and 'batch_stats' in mutable) or mutable == 'batch_stats' or \
          (isinstance(mutable, tuple) and mutable[0] == 'deny')
      if not ok:
        mutable = list(cols)
    method = rng.choice([None, None, None, 'scaled', 'scaled_bound', 'both'])
    steps.append(dict(train=train, mutable=mutable, method=method, rngs_override=rng.randint(1000, 1999) if rng.random() < 0.12 else None))
  if embed == 'jit' and len(steps) == 2:
    steps[1] = dict(steps[0])  # one compilation per jit case
  return dict(feats=tuple(feats), depth=depth, embed=embed, rngcfg=rngcfg, lazy=lazy, steps=steps, d=rng.randint(2, 4),
              d_in=rng.randint(2, 4), batch=rng.choice([(2,), (3,), (2, 2)]), seed=rng.randint(0, 999),
              lazy_method=rng.random() < 0.15)


def mutable_arg(spec):
  from flax.core import DenyList
  if isinstance(spec, tuple) and spec[0] == 'deny':
    return DenyList(spec[1])
  return spec


def make_rngs(rngcfg, seed, streams):
  from flax import nnx
  kw = {s: seed + 1 + j for j, s in enumerate(streams)}
  if rngcfg == 'default_only':
    # nnx.Rngs(0), the usual NNX spelling: every stream the Linen module asks for comes from the one default stream
    return nnx.Rngs(seed)
  if rngcfg == 'default':
    return nnx.Rngs(seed, **kw)
  if rngcfg == 'params':
    return nnx.Rngs(params=seed, **kw)
  return nnx.Rngs(seed + 50, params=seed, **kw)


def run_tonnx(ctx, m, x, streams, cfg, takes_train, tuple_leaves=False):
  """Drive one wrapped Linen module `m` through cfg['steps'] and compare with plain Linen apply."""
  import jax
  import jax.numpy as jnp
  from flax import nnx
  from flax.nnx import bridge
  C = linen_classes()
  embed = cfg['embed']
  exact = embed != 'jit'
  rngs = make_rngs(cfg['rngcfg'], cfg['seed'], streams)

  # ---- construction + lazy init
  init_kw = {}
  if cfg.get('lazy_method'):
    init_kw['method'] = 'scaled'
  if embed == 'parent':
    top = C['NParent'](m, x.shape[-1], rngs)
    w = top.inner
    ctx.event('nested_in_nnx_parent')
  else:
    top = w = bridge.ToNNX(m, rngs=rngs)
  h = jnp.tanh(top.pre(x)) if embed == 'parent' else x
  er = expected_keys(w.rngs)
  if 'params' not in er and 'default' in er:
    er['params'] = er.pop('default')  # documented: the default stream seeds Linen's 'params' rng at init
  try:
    if cfg['lazy'] == 'method' and embed != 'parent':
      ret = w.lazy_init(x, **init_kw)
      ctx.op('ToNNX.lazy_init')
    else:
      ret = bridge.lazy_init(top, x, **init_kw)
      ctx.op('bridge.lazy_init')
  except Exception as e:  # noqa: BLE001
    ctx.check(False, 'tonnx.lazy_init_raised:%s' % type(e).__name__, dict(error=repr(e)[:400], rngs=cfg['rngcfg'], streams=list(streams)))
    return
  ctx.check(ret is top, 'tonnx.lazy_init_returns_module', None)
  check_registry(ctx, 'lazy_init')
  mref = m
  lm = {'method': init_kw['method']} if init_kw else {}
  _, v_init = mref.init_with_output(er, h, **lm)
  held = flat_linen(wrapper_vars(w))
  d = diff_vars(held, flat_linen(v_init))
  ctx.check(no_diff(d), 'tonnx.init_values', lambda: dict(d, note='wrapper variables after lazy_init vs Linen init with the stream keys'))
  check_types(ctx, w, held, 'after_init')
  ctx.check(not w._object__state.initializing, 'tonnx.initializing_flag_left_set', None)

  jitted = {}
  # ---- call sequence
  for si, step in enumerate(cfg['steps']):
    if embed == 'splitmerge':
      gd, st = nnx.split(top)
      top = w = nnx.merge(gd, st)
      ctx.event('split_merge(ToNNX)')
    v_before = wrapper_vars(w)
    fb = flat_linen(v_before)
    override = None
    if step.get('rngs_override') is not None and embed in ('plain', 'splitmerge'):
      override = make_rngs('params', step['rngs_override'], streams)  # rngs= given at the call replaces the wrapper's own
    src = override if override is not None else w.rngs
    er = expected_keys(src)
    if 'params' not in er and 'default' in er:
      er['params'] = er.pop('default')  # as at init: NNX's fallback stream feeds Linen's fallback stream
    kw = {}
    if override is not None:
      kw['rngs'] = override
    if takes_train:
      kw['train'] = step['train']
    if step['mutable'] is not None:
      kw['mutable'] = mutable_arg(step['mutable'])
    meth = step['method']
    if meth == 'scaled_bound':
      kw['method'] = m.scaled
    elif meth:
      kw['method'] = meth
    h = jnp.tanh(top.pre(x)) if embed == 'parent' else x
    try:
      if embed == 'jit':
        key = repr(sorted((k, repr(v)) for k, v in kw.items()))
        if key not in jitted:
          jitted[key] = nnx.jit(lambda mod, xx, kw=kw: mod(xx, **kw))
        y = jitted[key](top, x)
        ctx.event('nnx.jit(ToNNX)')
      else:
        y = top(x, **kw)
    except Exception as e:  # noqa: BLE001
      msg = repr(e)[:400]
      if tuple_leaves and isinstance(e, ValueError) and 'Cannot infer collection name' in msg:
        ctx.check(False, 'tonnx.tuple_leaf_breaks_next_call', dict(step=si, error=msg, note='a default sow() tuple stored by a mutable call'))
      else:
        ctx.check(False, 'tonnx.call_raised:%s' % type(e).__name__, dict(step=si, error=msg, kw=repr(kw)[:200]))
      return
    ctx.op('ToNNX.__call__' + ('(mutable)' if 'mutable' in kw else '') + ('(method)' if 'method' in kw else ''))
    check_registry(ctx, 'call')
    ref = mref.apply(v_before, h, **dict(kw, rngs=er))
    upd = {}
    if 'mutable' in kw:
      ref, upd = ref
    if not ctx.check(tree_same(y, ref, exact), 'tonnx.output:' + ('exact' if exact else 'jit'),
                     lambda: dict(step=si, kw=repr(kw)[:200], got=repr(y)[:300], want=repr(ref)[:300])):
      return
    # ---- state after the call
    want = dict(fb)
    fu = flat_linen(upd)
    want.update(fu)
    changed = [k for k in fu if k not in fb or not tree_same(leaf_value(fu[k]), leaf_value(fb[k]))]
    if changed:
      ctx.event('mutable_update_observed')
    try:
      fa = flat_linen(wrapper_vars(w))
    except Exception as e:  # noqa: BLE001
      msg = repr(e)[:400]
      if tuple_leaves and 'Cannot infer collection name' in msg:
        ctx.check(False, 'tonnx.tuple_leaf_breaks_next_call', dict(step=si, error=msg, where='reading the state back'))
      else:
        ctx.check(False, 'tonnx.state_unreadable:%s' % type(e).__name__, dict(step=si, error=msg))
      return
    d = diff_vars(fa, want, exact)
    if no_diff(d):
      ctx.check(True, 'tonnx.state_after_call', None)
    else:
      upd_keys = {k: None for k in fu}
      lost_updates = [k for k in changed if repr(k) in d['missing'] or repr(k) in d['value']]
      # shallow-merge signature: every problem is a *missing* old path (length >= 3 below its attribute) next to an update
      sib = lambda p: any(len(p) >= 4 and u[1:3] == p[1:3] for u in upd_keys)
      missing_keys = [k for k in want if k not in fa]
      if lost_updates:
        mech = 'tonnx.mutable_update_dropped'
      elif missing_keys and not d['extra'] and not d['value'] and not d['box'] and all(sib(k) and k not in upd_keys for k in missing_keys):
        mech = 'tonnx.nested_update_drops_siblings'
      else:
        mech = 'tonnx.state_after_call:unrelated_state_changed'
      ctx.check(False, mech, dict(d, step=si, mutable=repr(step['mutable']), updated=sorted(map(repr, fu))[:8]))
      return
    check_types(ctx, w, fa, 'after_call')
    # rngs advanced: the next keys differ from the ones just used (every stream was drawn once)
    er2 = expected_keys(src)
    if 'params' not in er2 and 'default' in er2:
      er2['params'] = er2.pop('default')
    ctx.check(all(not same_bits(er[k], er2[k]) for k in er), 'tonnx.rng_not_advanced', None)


def strip_sow(node):
  """Generated programs: default sow() tuples are exercised by the hand-written feature 'sowt'; here sow becomes a no-op."""
  ops = []
  for op in node[2]:
    if op[0] == 'sow':
      ops.append(('nop',))
    elif op[0] == 'child':
      ops.append(op[:2] + (strip_sow(op[2]),) + op[3:])
    elif op[0] == 'shared':
      ops.append(op[:2] + (strip_sow(op[2]),) + op[3:])
    else:
      ops.append(op)
  return ('node', node[1], tuple(ops))


def gen_prog_cfg(rng, i):
  from vf.gen import linen_prog as LP
  spec = LP.gen_program(rng, stateful=True, rng_ops=i % 3 != 0, observe=i % 4 == 1, shared=i % 5 == 0, max_nodes=4, depth=2,
                        max_ops=4, cols=['state', 'batch_stats', 'cache'])
  spec['root'] = strip_sow(spec['root'])
  cols = sorted(LP.collections_used(spec['root']) - {'params', 'perturbations'})
  embed = ['plain', 'splitmerge', 'parent', 'plain', 'plain', 'parent', 'plain', 'plain', 'plain', 'plain', 'jit'][i % 11]
  steps = []
  for _ in range(rng.randint(1, 4) if embed != 'jit' else 1):
    opts = [None]
    if cols:
      opts += [list(cols), list(cols), True]
      if len(cols) > 1:
        opts.append(sorted(rng.sample(cols, rng.randint(1, len(cols) - 1))))
    steps.append(dict(train=None, mutable=rng.choice(opts), method=rng.choice([None, None, None, 'scaled']),
                      rngs_override=rng.randint(1000, 1999) if rng.random() < 0.1 else None))
  return spec, dict(embed=embed, rngcfg=rng.choice(['default', 'params', 'both']), lazy=rng.choice(['method', 'function']),
                    steps=steps, seed=rng.randint(0, 999), lazy_method=False)


# ---------------------------------------------------------------------------------------------
# NNX families wrapped by ToLinen


def nnx_classes():
  global _NCLS
  try:
    return _NCLS
  except NameError:
    pass
  import jax
  import jax.numpy as jnp
  import flax.linen as nn
  from flax import nnx
  from flax.core import FrozenDict
  from flax.nnx import bridge

  class C18Gain(nnx.Param):  # not registered: exposed under its class name
    pass

  @nnx.register_variable_name('c18_count')
  class C18Count(nnx.Variable):
    pass

  class NBlock(nnx.Module):
    def __init__(self, din, dout, feats=(), *, rngs):
      init = nnx.initializers.lecun_normal()
      if 'nnxpart' in feats:
        init = nnx.with_partitioning(init, ('in', 'out'))
      elif 'linpart' in feats:
        init = bridge.with_partitioning(init, ('in', 'out'))
      self.lin = nnx.Linear(din, dout, kernel_init=init, rngs=rngs)
      if 'bn' in feats:
        self.bn = nnx.BatchNorm(dout, momentum=0.5, rngs=rngs)
      if 'dropout' in feats:
        self.do = nnx.Dropout(0.5, rngs=rngs)
      if 'gain' in feats:
        self.g = C18Gain(jnp.full((dout,), 1.5, jnp.float32))
      if 'count' in feats:
        self.n = C18Count(jnp.zeros((), jnp.int32))
      if 'lora' in feats:
        self.lora = nnx.LoRA(din, 2, dout, rngs=rngs)
      if 'noise' in feats:
        self.rngs = rngs
      if 'stack' in feats:
        self.layers = [nnx.Linear(dout, dout, rngs=rngs) for _ in range(2)]
      if 'cache' in feats:
        self.last = nnx.Cache(jnp.zeros((dout,), jnp.float32))
      self.feats = tuple(feats)

    def __call__(self, x, train=True):
      f = self.feats
      h = self.lin(x)
      if 'lora' in f:
        h = h + self.lora(x)
      if 'bn' in f:
        h = self.bn(h, use_running_average=not train)
      h = jnp.tanh(h)
      if 'stack' in f:
        for l in self.layers:
          h = jnp.tanh(l(h))
      if 'dropout' in f:
        h = self.do(h, deterministic=not train)
      if 'gain' in f:
        h = h * self.g.value
      if 'noise' in f:
        h = h + 0.1 * jax.random.normal(self.rngs.noise(), h.shape, h.dtype)
      if 'count' in f:
        self.n.value = self.n.value + 1
        h = h + 0.01 * self.n.value.astype(h.dtype)
      if 'cache' in f:
        h = h + 0.1 * self.last.value
        self.last.value = h.reshape((-1, h.shape[-1])).mean(axis=0)
      if 'nsow' in f:
        # default nnx sow: an Intermediate whose value is a TUPLE that grows by one entry per call
        self.sow(nnx.Intermediate, 'acts', h.mean())
      return h

  class NCounter(nnx.Module):  # no rngs argument: ToLinen(skip_rng=True)
    def __init__(self, step=1):
      self.n = C18Count(jnp.zeros((), jnp.int32))
      self.step = step

    def __call__(self, x, train=True):
      self.n.value = self.n.value + self.step
      return x * self.n.value.astype(x.dtype)

  class Probe(nn.Module):
    names: tuple

    def __call__(self):
      return {n: self.make_rng(n) for n in self.names}

  class ProbeParent(nn.Module):
    names: tuple

    @nn.compact
    def __call__(self):
      return Probe(self.names, name='blk')()

  class LParent(nn.Module):
    """Linen parent holding a ToLinen wrapper (named 'blk') next to a native layer."""
    cls: type
    args: tuple
    kw: tuple
    api: str
    skip_rng: bool = False

    @nn.compact
    def __call__(self, x, **ckw):
      h = jnp.tanh(nn.Dense(x.shape[-1], name='pre')(x))
      if self.api == 'to_linen':
        inner = bridge.to_linen(self.cls, *self.args, name='blk', **dict(self.kw))
      else:
        inner = bridge.ToLinen(self.cls, args=self.args, kwargs=FrozenDict(dict(self.kw)), skip_rng=self.skip_rng, name='blk')
      return inner(h, **ckw)

  _NCLS = dict(C18Gain=C18Gain, C18Count=C18Count, NBlock=NBlock, NCounter=NCounter, Probe=Probe, ProbeParent=ProbeParent,
               LParent=LParent)
  return _NCLS


NFEATS = ['bn', 'dropout', 'gain', 'count', 'lora', 'noise', 'stack', 'cache', 'nnxpart', 'linpart', 'nsow']


def expected_collection(t):
  """Collection a Variable type must be exposed under: its registered name, else the class name."""
  from flax import nnx
  from flax.nnx import variablelib as vl
  for name, bt in BUILTIN.items():
    if t is getattr(nnx, bt):
      return name
  C = nnx_classes()
  if t is C['C18Count']:
    return 'c18_count'
  for n, tt in vl.VariableTypeCache.items():
    if tt is t and n != t.__name__:
      return n
  return t.__name__


def module_vars(mod):
  """{(collection, *path): Variable} of a real NNX module by graph traversal (first path per Variable)."""
  from flax import nnx
  out, seen = {}, set()
  for path, v in nnx.iter_graph(mod):
    if isinstance(v, nnx.Variable) and id(v) not in seen:
      seen.add(id(v))
      out[(expected_collection(type(v)),) + tuple(path)] = v
  return out


def gen_tolinen_cfg(rng, i):
  kind = 'counter' if i % 7 == 3 else 'block'
  feats = tuple(sorted(rng.sample(NFEATS, rng.choice([0, 1, 2, 2, 3, 4])))) if kind == 'block' else ()
  if 'nnxpart' in feats and 'linpart' in feats:
    feats = tuple(f for f in feats if f != 'linpart')
  embed = ['plain', 'parent', 'plain', 'parent', 'plain', 'jit'][i % 6]
  if embed == 'jit':
    feats = tuple(f for f in feats if f != 'bn')  # BatchNorm's division by a tiny-batch std is ill-conditioned under XLA refusion
  streams = [s for s, f in (('dropout', 'dropout'), ('noise', 'noise')) if f in feats]
  steps = []
  for _ in range(rng.randint(1, 4) if embed != 'jit' else 1):
    steps.append(dict(rng=rng.choice([None, rng.randint(1, 50)]) if streams else None,
                      mutable=rng.choice(['all', 'all', True, True, 'subset', False]), train=rng.random() < 0.7))
  return dict(kind=kind, feats=feats, embed=embed, api=rng.choice(['ToLinen', 'to_linen']) if kind == 'block' else 'ToLinen',
              din=rng.randint(2, 4), dout=rng.randint(2, 4), batch=rng.choice([(2,), (3,), (2, 2)]), seed=rng.randint(0, 999),
              streams=streams, steps=steps, step=rng.randint(1, 3))


def run_tolinen(ctx, cfg, rng):
  import jax
  import jax.numpy as jnp
  import flax.linen as nn
  from flax import nnx
  from flax.core import FrozenDict
  from flax.nnx import bridge
  C = nnx_classes()
  nested = cfg['embed'] == 'parent'
  nr = np.random.default_rng(rng.getrandbits(32))
  x = jnp.asarray(nr.uniform(-2, 2, size=tuple(cfg['batch']) + (cfg['din'],)).astype(np.float32))
  if cfg['kind'] == 'counter':
    cls, args, kwargs, skip = C['NCounter'], (), dict(step=cfg['step']), True
  else:
    cls, args, kwargs, skip = C['NBlock'], (cfg['din'], cfg['dout']), dict(feats=cfg['feats']), False
  if nested:
    model = C['LParent'](cls, args, tuple(sorted(kwargs.items())), cfg['api'], skip)
    ctx.event('nested_in_linen_parent')
  elif cfg['api'] == 'to_linen':
    model = bridge.to_linen(cls, *args, **kwargs)
    ctx.op('to_linen')
  else:
    model = bridge.ToLinen(cls, args=args, kwargs=FrozenDict(kwargs), skip_rng=skip)
    ctx.op('ToLinen')
  names = ('params',) + tuple(cfg['streams'])
  init_rngs = {n: jax.random.key(cfg['seed'] * 10 + j) for j, n in enumerate(names)}

  def probe(rngs):
    if not rngs:
      return {}
    p = C['ProbeParent'](tuple(rngs)) if nested else C['Probe'](tuple(rngs))
    return p.apply({}, rngs=rngs)

  def inner(V):
    """Collections restricted to the wrapper's sub-tree."""
    if not nested:
      return {c: t for c, t in V.items()}
    return {c: t['blk'] for c, t in V.items() if is_map(t) and 'blk' in t}

  def pre(V, xx):
    if not nested:
      return xx
    return jnp.tanh(nn.Dense(xx.shape[-1]).apply({'params': V['params']['pre']}, xx))

  def state_vs(mod, V, cols=None):
    """Compare the wrapper-side collections (optionally only `cols`) with the Variables of `mod`."""
    fl = {k: v for k, v in flat_linen({c: t for c, t in inner(V).items() if c != 'nnx'}).items() if cols is None or k[0] in cols}
    mv = {k: v for k, v in module_vars(mod).items() if cols is None or k[0] in cols}
    missing = sorted(map(repr, set(mv) - set(fl)))
    extra = sorted(map(repr, set(fl) - set(mv)))
    value = [repr(k) for k in mv if k in fl and not tree_same(leaf_value(fl[k]), mv[k].value)]
    meta = []
    for k in mv:
      if k in fl:
        md = var_meta(mv[k])
        names_ = md.get('sharding')
        leaf = fl[k]
        if names_ is not None:
          got = None
          if is_box(leaf):
            lv = vars(leaf)
            got = lv['names'] if 'names' in lv else (lv.get('metadata') or {}).get('sharding')
          if got != names_:
            meta.append((repr(k), repr(got), repr(names_)))
    return dict(missing=missing, extra=extra, value=value, meta=meta)

  def clean(d):
    return not (d['missing'] or d['extra'] or d['value'] or d['meta'])

  def sync(mod, V):
    iv = flat_linen(inner(V))
    mv = module_vars(mod)
    for k, v in mv.items():
      if k in iv:
        v.value = leaf_value(iv[k])
    # Variables that only exist once the module has run (sow): a freshly built reference module does not have them yet
    for k, leaf in iv.items():
      if k[0] == 'intermediates' and k not in mv and len(k) == 2:
        setattr(mod, k[1], nnx.Intermediate(leaf_value(leaf)))
    for k, v in mv.items():
      if k[0] == 'intermediates' and k not in iv and len(k) == 2:
        delattr(mod, k[1])

  def build(keys):
    if skip:
      return cls(*args, **kwargs)
    return cls(*args, **kwargs, rngs=nnx.Rngs(**keys))

  # ---- init
  y0, V = model.init_with_output(init_rngs, x)
  ctx.op('ToLinen.init')
  check_registry(ctx, 'tolinen.init')
  y0b, Vb = model.init_with_output(init_rngs, x)
  fa, fb_ = flat_linen({c: t for c, t in V.items() if c != 'nnx'}), flat_linen({c: t for c, t in Vb.items() if c != 'nnx'})
  ctx.check(tree_same(y0, y0b) and no_diff(diff_vars(fa, fb_)), 'tolinen.rng:init_not_reproducible', None)
  ref = build(probe(init_rngs))
  d_pre = state_vs(ref, V)
  ctx.check(not d_pre['missing'] and not d_pre['extra'] and not d_pre['meta'], 'tolinen.collections:init',
            lambda: dict(d_pre, note='every Variable under the collection named after its type, nothing else', feats=cfg['feats']))
  if d_pre['missing'] or d_pre['extra']:
    return
  yr = ref(pre(V, x))
  ctx.check(tree_same(y0, yr), 'tolinen.output:init', lambda: dict(got=repr(y0)[:200], want=repr(yr)[:200]))
  d_post = state_vs(ref, V)
  # the property does not say whether init exposes the state before or after the initial call: either is accepted
  ctx.check(not d_pre['value'] or not d_post['value'], 'tolinen.rng:init_values_differ_from_direct_construction',
            lambda: dict(pre=d_pre['value'], post=d_post['value']))
  gd = inner(V).get('nnx', {}).get('graphdef') if is_map(inner(V).get('nnx', {})) else None
  ctx.check(isinstance(gd, (nnx.graph.NodeDef, nnx.graph.NodeRef)), 'tolinen.graphdef_missing', None)

  persistent = build(probe(init_rngs))  # "the stateful NNX module called again and again"
  sync(persistent, V)
  track = True
  all_cols = sorted(c for c in inner(V) if c != 'nnx')
  jfn = {}
  for si, step in enumerate(cfg['steps']):
    rngs = {s: jax.random.key(step['rng'] + j) for j, s in enumerate(cfg['streams'])} if step['rng'] is not None else {}
    if step['mutable'] == 'all':
      mut = list(all_cols)
    elif step['mutable'] == 'subset':
      mut = sorted(rng.sample(all_cols, max(1, len(all_cols) // 2)))
    else:
      mut = step['mutable']
    if cfg['embed'] == 'jit' and mut is True:
      mut = list(all_cols)  # the 'nnx' collection (a static GraphDef) is not a jit output
    sig_before = {k: box_sig(v) for k, v in flat_linen({c: t for c, t in V.items() if c != 'nnx'}).items()}
    try:
      if cfg['embed'] == 'jit':
        static = {c: t for c, t in V.items() if c == 'nnx'}
        dyn = {c: t for c, t in V.items() if c != 'nnx'}
        f = jax.jit(lambda dv, xx: model.apply({**dv, **static}, xx, rngs=rngs, mutable=mut, train=step['train']))
        out = f(dyn, x)
        ctx.event('jax.jit(ToLinen.apply)')
      else:
        out = model.apply(V, x, rngs=rngs, mutable=mut, train=step['train'])
    except Exception as e:  # noqa: BLE001
      ctx.check(False, 'tolinen.apply_raised:%s' % type(e).__name__, dict(step=si, error=repr(e)[:400], mutable=repr(mut)))
      return
    ctx.op('ToLinen.apply')
    check_registry(ctx, 'tolinen.apply')
    y, upd = out if mut is not False else (out, {})
    exact = cfg['embed'] != 'jit'
    # input variables must survive the call (they are the caller's)
    sig_after = {k: box_sig(v) for k, v in flat_linen({c: t for c, t in V.items() if c != 'nnx'}).items()}
    if not ctx.check(sig_after == sig_before, 'tolinen.input_variables_corrupted',
                     lambda: dict(step=si, changed=[(repr(k), repr(sig_before[k]), repr(sig_after.get(k))) for k in sig_before
                                                    if sig_after.get(k) != sig_before[k]][:4])):
      return
    # reference: the NNX module holding exactly the state in V, reseeded with the keys Linen hands to this scope
    sync(ref, V)
    keys = probe(rngs)
    if keys:
      nnx.reseed(ref, **keys)
    yr = ref(pre(V, x), train=step['train'])
    ctx.check(tree_same(y, yr, exact), 'tolinen.output:' + ('exact' if exact else 'jit'),
              lambda: dict(step=si, mutable=repr(mut), rngs=sorted(rngs), got=repr(y)[:200], want=repr(yr)[:200]))
    if track:
      if keys:
        nnx.reseed(persistent, **keys)
      yp = persistent(pre(V, x), train=step['train'])
      ctx.check(tree_same(y, yp, exact), 'tolinen.mutable_roundtrip:vs_stateful_module',
                lambda: dict(step=si, note='apply on variables|updates vs the NNX module called repeatedly'))
    if mut is not False:
      got_cols = sorted(c for c in inner(upd) if c != 'nnx')
      # collections the module holds AFTER this call (a sow creates 'intermediates' on the first call)
      now_cols = sorted({k[0] for k in module_vars(ref)})
      want_cols = now_cols if mut is True else sorted(set(mut) & set(now_cols))
      all_cols = sorted(set(all_cols) | set(got_cols))
      ctx.check(got_cols == want_cols, 'tolinen.mutable_roundtrip:collections', lambda: dict(got=got_cols, want=want_cols))
      dd = state_vs(ref, upd, cols=set(want_cols)) if exact else None
      if exact:
        ctx.check(clean(dd), 'tolinen.mutable_roundtrip:state', lambda: dict(dd, step=si, mutable=repr(mut)))
      if any(not tree_same(leaf_value(v), leaf_value(flat_linen(inner(V)).get(k))) for k, v in flat_linen(inner(upd)).items() if k[0] != 'nnx'):
        ctx.event('mutable_update_observed')
      V = {**V, **upd}
    full = mut is True or (isinstance(mut, list) and set(mut) >= set(all_cols))
    track = track and full
    # RNG handling: same keys -> same output, different keys -> different output
    if rngs and exact and step['train'] and si == 0:
      Vprev = {**V}  # (V may already include the updates; reproducibility is checked on one fixed variable dict)
      a = model.apply(Vprev, x, rngs=rngs, train=True)
      b = model.apply(Vprev, x, rngs=rngs, train=True)
      other = {s: jax.random.key(step['rng'] + 1000 + j) for j, s in enumerate(cfg['streams'])}
      c = model.apply(Vprev, x, rngs=other, train=True)
      ctx.check(tree_same(a, b), 'tolinen.rng:not_reproducible', None)
      if 'noise' in cfg['feats']:  # continuous noise: a coincidence has probability 0
        ctx.check(not tree_same(a, c), 'tolinen.rng:apply_keys_ignored', dict(note='different apply rngs gave identical noise'))


# ---------------------------------------------------------------------------------------------
# conversion round trips


NAME_POOL = ['w', 'b', 'kernel', 'scale', 'mean', 'n', 'l2', 'l10', '_h', 'blk', 'Dense_0', 'sub', 'out', 'B']
CONV_COLS = ['params', 'batch_stats', 'cache', 'intermediates', 'c18_state', 'c18_aux']
AXES = ['in', 'out', None, 'data']


def mesh1():
  global _MESH
  try:
    return _MESH
  except NameError:
    import jax
    _MESH = jax.sharding.Mesh(np.array(jax.devices()[:1]), ('in',))
    return _MESH


def gen_paths(rng, n):
  """n distinct prefix-free paths of depth 1..3 over NAME_POOL."""
  leaves, prefixes = set(), set()
  tries = 0
  while len(leaves) < n and tries < 200:
    tries += 1
    depth = rng.choice([1, 1, 2, 2, 3])
    p = tuple(rng.choice(NAME_POOL) for _ in range(depth))
    if p in leaves or p in prefixes or any(p[:k] in leaves for k in range(1, len(p))):
      continue
    leaves.add(p)
    for k in range(1, len(p)):
      prefixes.add(p[:k])
  return sorted(leaves)


def gen_value(rng, nr):
  import jax.numpy as jnp
  shape = rng.choice([(), (2,), (3,), (2, 3)])
  if rng.random() < 0.2:
    return jnp.asarray(nr.integers(-5, 5, size=shape).astype(np.int32))
  return jnp.asarray(nr.normal(size=shape).astype(np.float32))


def gen_names(rng, ndim):
  return tuple(rng.choice(AXES) for _ in range(ndim))


def conv_types():
  """Registered Variable types per conversion collection (the two c18_* names are registered here, once per process)."""
  from flax import nnx
  from flax.nnx import variablelib as vl
  out = {c: getattr(nnx, BUILTIN[c]) for c in CONV_COLS if c in BUILTIN}
  for c in CONV_COLS:
    if c not in BUILTIN:
      out[c] = vl.variable_type_from_name(c, allow_register=True)
  return out


def run_convert_l2n2l(ctx, rng):
  import flax.linen as nn
  from flax import nnx
  from flax.nnx import bridge
  from flax.nnx.bridge import variables as bv
  nr = np.random.default_rng(rng.getrandbits(32))
  T = conv_types()
  paths = gen_paths(rng, rng.randint(1, 8))
  cols = rng.sample(CONV_COLS, rng.randint(1, 4))
  V, kinds = {}, {}
  for p in paths:
    col = rng.choice(cols)
    val = gen_value(rng, nr)
    kind = rng.choice(['raw', 'raw', 'partitioned', 'logical', 'nnxmeta']) if val.ndim else 'raw'
    if kind == 'partitioned':
      leaf = nn.Partitioned(val, names=gen_names(rng, val.ndim), mesh=rng.choice([None, None, mesh1()]))
    elif kind == 'logical':
      names = gen_names(rng, val.ndim)
      leaf = nn.LogicallyPartitioned(val, names=names, rules=rng.choice([None, (('out', 'in'),), (('data', None), ('out', 'in'))]))
    elif kind == 'nnxmeta':
      md = {'sharding': gen_names(rng, val.ndim)}
      if rng.random() < 0.4:
        md['tag'] = rng.choice(['t1', 't2'])
      leaf = bridge.NNXMeta(T[col], val, md)
    else:
      leaf = val
    kinds[(col,) + p] = kind
    t = V.setdefault(col, {})
    for k in p[:-1]:
      t = t.setdefault(k, {})
    t[p[-1]] = leaf
  f0 = flat_linen(V)
  sig0 = {k: box_sig(v) for k, v in f0.items()}
  val0 = {k: leaf_value(v) for k, v in f0.items()}
  attrs = bv.linen_vars_to_nnx_attrs(V)
  ctx.op('linen_vars_to_nnx_attrs')
  check_registry(ctx, 'linen_vars_to_nnx_attrs')
  # the caller's tree must survive the conversion
  sig1 = {k: box_sig(v) for k, v in flat_linen(V).items()}
  ctx.check(sig1 == sig0, 'convert.linen_box_corrupted',
            lambda: dict(changed=[(repr(k), repr(sig0[k]), repr(sig1.get(k))) for k in sig0 if sig1.get(k) != sig0[k]][:4],
                         note='linen_vars_to_nnx_attrs modified the boxes of its input'))
  # NNX side: one Variable per path, registered type, same bits, sharding metadata carried over
  held = {}

  def go(x, path):
    if is_map(x):
      for k, v in x.items():
        go(v, path + (k,))
    else:
      held[path] = x

  go(attrs, ())
  ctx.check(set(held) == {k[1:] for k in f0}, 'convert.l2n:paths', lambda: dict(got=sorted(map(repr, held)), want=sorted(repr(k[1:]) for k in f0)))
  bad_t, bad_v, bad_s = [], [], []
  for k, kind in kinds.items():
    var = held.get(k[1:])
    if not isinstance(var, nnx.Variable) or type(var) is not T[k[0]]:
      bad_t.append((repr(k), type(var).__name__))
      continue
    if not tree_same(var.value, val0[k]):
      bad_v.append(repr(k))
    md = var_meta(var)
    s = dict(sig0[k][1]) if kind != 'raw' else {}
    if kind in ('partitioned', 'logical'):
      ok = _msig(md.get('sharding')) == s['names'] and _msig(md.get('mesh')) == s['mesh']
      if kind == 'logical':
        ok = ok and _msig(md.get('sharding_rules')) == s['rules']
      if not ok:
        bad_s.append((repr(k), repr(md)[:200], repr(s)[:200]))
    elif kind == 'nnxmeta':
      if _msig(md) != s['metadata']:
        bad_s.append((repr(k), repr(md)[:200], repr(s)[:200]))
    elif md:
      bad_s.append((repr(k), repr(md)[:200], 'raw leaf'))
  ctx.check(not bad_t, 'convert.l2n:types', lambda: dict(bad=bad_t[:5]))
  ctx.check(not bad_v, 'convert.l2n:values', lambda: dict(bad=bad_v[:5]))
  ctx.check(not bad_s, 'convert.sharding:l2n', lambda: dict(bad=bad_s[:4]))
  # back
  V2 = bv.nnx_attrs_to_linen_vars(attrs)
  ctx.op('nnx_attrs_to_linen_vars')
  f2 = flat_linen(V2)
  want = {k: (sig0[k], val0[k]) for k in f0}
  d = dict(missing=sorted(map(repr, set(want) - set(f2))), extra=sorted(map(repr, set(f2) - set(want))),
           value=[repr(k) for k in want if k in f2 and not tree_same(leaf_value(f2[k]), want[k][1])],
           box=[(repr(k), repr(box_sig(f2[k])), repr(want[k][0])) for k in want if k in f2 and box_sig(f2[k]) != want[k][0]][:4])
  ctx.check(not (d['missing'] or d['extra'] or d['value']), 'convert.l2n2l', lambda: d)
  ctx.check(not d['box'], 'convert.sharding:l2n2l', lambda: d)


def run_convert_n2l2n(ctx, rng):
  import jax
  import flax.linen as nn
  from flax import nnx
  from flax.nnx import bridge
  from flax.nnx.bridge import variables as bv
  nr = np.random.default_rng(rng.getrandbits(32))
  T = conv_types()
  paths = gen_paths(rng, rng.randint(1, 8))
  cols = rng.sample(CONV_COLS, rng.randint(1, 4))
  attrs, spec = {}, {}
  for p in paths:
    col = rng.choice(cols)
    val = gen_value(rng, nr)
    kind = rng.choice(['plain', 'plain', 'sharding', 'sharding_mesh', 'tag', 'linen_partitioned']) if val.ndim else rng.choice(['plain', 'tag'])
    md = {}
    if kind in ('sharding', 'sharding_mesh', 'linen_partitioned'):
      md['sharding'] = gen_names(rng, val.ndim)
    if kind == 'sharding_mesh':
      md['mesh'] = mesh1()
    if kind == 'tag':
      md['tag'] = rng.choice(['t1', 't2'])
    if kind == 'linen_partitioned':
      md['mesh'] = None
      md['linen_meta_type'] = nn.Partitioned
    var = T[col](val, **md)
    as_state = rng.random() < 0.3
    spec[p] = (col, kind, val, md)
    t = attrs
    for k in p[:-1]:
      t = t.setdefault(k, {})
    t[p[-1]] = var.to_state() if as_state else var
  V = bv.nnx_attrs_to_linen_vars(attrs)
  ctx.op('nnx_attrs_to_linen_vars')
  check_registry(ctx, 'nnx_attrs_to_linen_vars')
  fl = flat_linen(V)
  ctx.check(set(fl) == {(c,) + p for p, (c, _, _, _) in spec.items()}, 'convert.n2l:collections',
            lambda: dict(got=sorted(map(repr, fl)), want=sorted(repr((c,) + p) for p, (c, _, _, _) in spec.items())))
  bad_v, bad_s = [], []
  for p, (col, kind, val, md) in spec.items():
    leaf = fl.get((col,) + p)
    if leaf is None:
      continue
    if not tree_same(leaf_value(leaf), val):
      bad_v.append(repr(p))
    if kind == 'plain':
      ok = not is_box(leaf)
    elif kind == 'linen_partitioned':
      ok = type(leaf) is nn.Partitioned and vars(leaf).get('names') == md['sharding'] and vars(leaf).get('mesh') is None
    else:
      ok = isinstance(leaf, bridge.NNXMeta) and leaf.var_type is T[col] and _msig(leaf.metadata) == _msig(md)
    if ok and 'sharding' in md:
      try:
        ok = nn.get_partition_spec(leaf) == jax.sharding.PartitionSpec(*md['sharding'])
      except Exception:  # noqa: BLE001
        ok = False
    if not ok:
      bad_s.append((repr(p), kind, repr(box_sig(leaf))[:200], repr(md)[:120]))
  ctx.check(not bad_v, 'convert.n2l:values', lambda: dict(bad=bad_v[:5]))
  ctx.check(not bad_s, 'convert.sharding:n2l', lambda: dict(bad=bad_s[:4]))
  attrs2 = bv.linen_vars_to_nnx_attrs(V)
  ctx.op('linen_vars_to_nnx_attrs')
  held = {}

  def go(x, path):
    if is_map(x):
      for k, v in x.items():
        go(v, path + (k,))
    else:
      held[path] = x

  go(attrs2, ())
  ok_paths = set(held) == set(spec)
  bad = []
  for p, (col, kind, val, md) in spec.items():
    var = held.get(p)
    if not isinstance(var, nnx.Variable) or type(var) is not T[col] or not tree_same(var.value, val):
      bad.append((repr(p), 'type/value', type(var).__name__))
  ctx.check(ok_paths and not bad, 'convert.n2l2n', lambda: dict(got=sorted(map(repr, held)), want=sorted(map(repr, spec)), bad=bad[:5]))
  bad_m = [(repr(p), repr(var_meta(held[p]))[:200], repr(md)[:200]) for p, (col, kind, val, md) in spec.items()
           if p in held and isinstance(held[p], nnx.Variable) and _msig(var_meta(held[p])) != _msig(md)]
  ctx.check(not bad_m, 'convert.sharding:n2l2n', lambda: dict(bad=bad_m[:4]))


# ---------------------------------------------------------------------------------------------
# registry


def run_registry(ctx, rng, i):
  import jax.numpy as jnp
  from flax import nnx
  from flax.nnx import variablelib as vl
  from flax.nnx.bridge import variables as bv
  tag = 'c18r_s%d_%s_%d' % (ctx.seed, ctx.tier[0], i)
  for k in range(rng.randint(2, 5)):
    how = rng.choice(['register', 'decorator', 'type_from_name', 'name_from_type', 'subclass', 'overwrite_own'])
    name = '%s_%d' % (tag, k)
    before = dict(vl.VariableTypeCache)
    if how == 'register':
      t = type('T' + name, (nnx.Variable,), {})
      ctx.check(vl.register_variable_name(name, t) is t, 'registry.register_returns_type', None)
    elif how == 'decorator':
      t = nnx.register_variable_name(name)(type('T' + name, (nnx.Variable,), {}))
    elif how == 'type_from_name':
      t = vl.variable_type_from_name(name, allow_register=True)
      ctx.check(issubclass(t, nnx.Variable) and t.__name__ == name, 'registry.created_type', None)
    elif how == 'name_from_type':
      t = type(name, (nnx.Param,), {})
      got = vl.variable_name_from_type(t, allow_register=True)
      ctx.check(got == name, 'registry.name_from_type', dict(got=got, want=name))
    elif how == 'subclass':
      t = type('T' + name, (rng.choice([nnx.Param, nnx.BatchStat, nnx.Cache]),), {})
      vl.register_variable_name(name, t)
    else:
      t0 = type('T0' + name, (nnx.Variable,), {})
      vl.register_variable_name(name, t0)
      t = type('T1' + name, (nnx.Variable,), {})
      vl.register_variable_name(name, t, overwrite=True)
    ctx.op('register:' + how)
    check_registry(ctx, 'register')
    cache = vl.VariableTypeCache
    ctx.check(cache.get(name) is t and all(cache.get(n) is tt for n, tt in before.items()), 'registry.other_entries_changed',
              lambda: dict(how=how, name=name))
    # an already taken name is rejected without overwrite, the mapping stays as it was
    try:
      vl.register_variable_name(name, type('Dup' + name, (nnx.Variable,), {}))
      rejected = False
    except ValueError:
      rejected = True
    ctx.check(rejected and vl.VariableTypeCache.get(name) is t, 'registry.duplicate_name_accepted', dict(name=name))
    # the new pair is used by the conversions in both directions
    V = {name: {'v': jnp.arange(3.0) + k}, 'params': {'w': jnp.ones(2)}}
    attrs = bv.linen_vars_to_nnx_attrs(V)
    ctx.check(type(attrs['v']) is t and type(attrs['w']) is nnx.Param, 'registry.conversion_uses_registered_type',
              lambda: dict(got=type(attrs['v']).__name__))
    back = bv.nnx_attrs_to_linen_vars(attrs)
    ctx.check(set(back) == {name, 'params'} and tree_same(back[name]['v'], V[name]['v']), 'registry.conversion_roundtrip',
              lambda: dict(got=sorted(back)))
    check_registry(ctx, 'register.convert')


def run_tonnx_in_parent(ctx, i, rng):
  """A ToNNX wrapper held by an NNX parent whose __call__ passes `mutable=` to it (the usual way to run a wrapped BatchNorm block):
  the parent is initialised with bridge.lazy_init through that very call and then called repeatedly; every output equals Linen apply
  on the variables held by the wrapper and the running statistics advance as Linen's mutable outputs say."""
  import jax
  import jax.numpy as jnp
  import flax.linen as nn
  from flax import nnx
  from flax.nnx import bridge
  mutable_arg_ = [['batch_stats'], True, ['batch_stats', 'intermediates'], 'batch_stats'][i % 4]
  n_calls = 1 + (i // 4) % 3
  d = rng.randint(2, 4)
  desc = dict(mutable=repr(mutable_arg_), calls=n_calls, d=d)
  with ctx.case('tonnx.in_parent', i, desc, nontrivial=True):
    class LM(nn.Module):
      @nn.compact
      def __call__(self, x):
        return nn.BatchNorm(use_running_average=False, momentum=0.5)(nn.Dense(d)(x))

    class P(nnx.Module):
      def __init__(self, rngs):
        self.sub = bridge.ToNNX(LM(), rngs=rngs)
        self.scale = nnx.Param(jnp.asarray(2.0))

      def __call__(self, x):
        return self.sub(x, mutable=mutable_arg_) * self.scale.value

    x = jnp.asarray(np.random.default_rng(i).uniform(-1, 1, (4, 3)).astype(np.float32))
    p = P(nnx.Rngs(i))
    try:
      bridge.lazy_init(p, x)
    except Exception as e:  # noqa: BLE001
      ctx.check(False, 'tonnx.lazy_init_through_mutable_call:raises', dict(case=desc, error=repr(e)[:300]))
      return
    ctx.op('bridge.lazy_init(parent calling ToNNX with mutable=)')
    V = bv_vars(p.sub)
    ctx.check(set(V) >= {'params', 'batch_stats'}, 'tonnx.lazy_init_through_mutable_call:collections', lambda: dict(case=desc, got=sorted(V)))
    for c in range(n_calls):
      want_y, want_upd = LM().apply(V, x, mutable=['batch_stats'])
      y = p(x)
      ctx.op('ToNNX(mutable=) inside NNX parent')
      ctx.check(close(y, want_y * 2.0), 'tonnx.output:in_parent', lambda: dict(case=desc, call=c))
      V2 = bv_vars(p.sub)
      ctx.check(tree_same(V2['batch_stats'], want_upd['batch_stats'], exact=False), 'tonnx.mutable_update_dropped:in_parent', lambda: dict(case=desc, call=c))
      ctx.check(tree_same(V2['params'], V['params']), 'tonnx.params_changed:in_parent', lambda: dict(case=desc, call=c))
      V = V2


def run_tolinen_reused(ctx, i, rng):
  """One ToLinen instance called several times inside a Linen parent: init creates ONE NNX module whose state every call shares
  (as one Linen sub-module called twice would), so init's output is what apply returns on the variables init returned."""
  import jax
  import jax.numpy as jnp
  import flax.linen as nn
  from flax import nnx
  from flax.nnx import bridge
  C = nnx_classes()
  # stateless blocks only: for a stateful block the property does not say whether init exposes the state before or after the
  # initial call (see run_tolinen), so "one module called n times during init" has no unique expected state
  feats = [(), ('gain',), ('lora',), ('stack',), ('gain', 'lora')][i % 5]
  n_uses = 2 + (i // 5) % 2
  style = ['setup', 'compact'][(i // 10) % 2]
  d = 3
  desc = dict(feats=feats, uses=n_uses, style=style)
  with ctx.case('tolinen.reused', i, desc, nontrivial=True):
    if style == 'setup':
      class Par(nn.Module):
        def setup(self):
          self.inner = bridge.to_linen(C['NBlock'], d, d, feats=feats)

        def __call__(self, x):
          for _ in range(n_uses):
            x = self.inner(x)
          return x
    else:
      class Par(nn.Module):
        @nn.compact
        def __call__(self, x):
          inner = bridge.to_linen(C['NBlock'], d, d, feats=feats, name='inner')
          for _ in range(n_uses):
            x = inner(x)
          return x

    x = jnp.asarray(np.random.default_rng(i).uniform(-1, 1, (2, d)).astype(np.float32))
    y0, V = Par().init_with_output(jax.random.key(i), x)
    ctx.op('ToLinen used %d times in one parent' % n_uses)
    # reference: ONE NNX module built with the keys Linen hands to that scope, called n_uses times
    # take the parameters init returned (the draw itself is covered by the main tolinen stream) and start from the initial state
    iv = flat_linen({c: t['inner'] for c, t in V.items() if c != 'nnx' and is_map(t) and 'inner' in t})
    fresh = C['NBlock'](d, d, feats=feats, rngs=nnx.Rngs(0))
    for k, v in module_vars(fresh).items():
      v.value = leaf_value(iv[k])
    h = x
    for _ in range(n_uses):
      h = fresh(h)
    ctx.check(close(y0, h), 'tolinen.reused:init_output', lambda: dict(case=desc, got=np.asarray(y0).tolist(), want=np.asarray(h).tolist()))
    y1 = Par().apply(V, x)
    ctx.check(close(y1, h), 'tolinen.reused:apply_output', lambda: dict(case=desc, got=np.asarray(y1).tolist(), want=np.asarray(h).tolist()))


_HOOKED = {}


def hooked_nnx_classes():
  if _HOOKED:
    return _HOOKED
  import jax.numpy as jnp
  from flax import nnx

  class CreateX2(nnx.Param):
    def on_create_value(self, value):
      return value * 2

  class ReadPlus1(nnx.Param):
    def on_get_value(self, value):
      return value + 1

  class SetClip(nnx.BatchStat):
    def on_set_value(self, value):
      return jnp.minimum(value, 2.0)

  class HM(nnx.Module):
    def __init__(self, kind, d, rngs):
      self.kind = kind
      w0 = jnp.arange(1.0, d + 1.0)
      if kind == 'create':
        self.w = CreateX2(w0)
      elif kind == 'read':
        self.w = ReadPlus1(w0)
      elif kind == 'create_meta':
        self.w = nnx.Param(w0, on_create_value_hooks=[lambda var, v: v * 3])   # hooks passed as metadata
      else:
        self.w = nnx.Param(w0)
      self.n = SetClip(jnp.zeros(())) if kind == 'set' else nnx.BatchStat(jnp.zeros(()))

    def __call__(self, x):
      self.n.value = self.n.value + 1.0
      return x * self.w.value + self.n.value

  _HOOKED.update(HM=HM)
  return _HOOKED


def run_tolinen_hooked(ctx, i, rng):
  """ToLinen around an NNX module whose Variables carry value hooks (on_create_value / on_get_value / on_set_value as subclass
  methods or as metadata): init, apply and repeated mutable applies return what the NNX module itself returns with the same state
  - a creation hook runs when the Variable is created, not again every time the Linen wrapper rebuilds the module."""
  import jax
  import jax.numpy as jnp
  from flax import nnx
  from flax.nnx import bridge
  HM = hooked_nnx_classes()['HM']
  kind = ['create', 'read', 'set', 'create_meta', 'plain'][i % 5]
  n_calls = 1 + (i // 5) % 3
  d = 2 + (i // 15) % 2
  desc = dict(hook=kind, calls=n_calls, d=d)
  with ctx.case('tolinen.hooked', i, desc, nontrivial=kind != 'plain'):
    x = jnp.asarray(np.random.default_rng(i).uniform(-1, 1, (2, d)).astype(np.float32))
    lin = bridge.to_linen(HM, kind, d)
    y0, V = lin.init_with_output(jax.random.key(i), x)
    ctx.op('ToLinen(hooked Variable).init')
    ref = HM(kind, d, nnx.Rngs(0))
    r0 = ref(x)
    ctx.check(close(y0, r0), 'tolinen.hooked:init_output', lambda: dict(case=desc, got=np.asarray(y0).tolist(), want=np.asarray(r0).tolist()))
    # apply on the variables init returned; the state the wrapper exposes at init is the state BEFORE the initial call
    ref = HM(kind, d, nnx.Rngs(0))
    for t in range(n_calls):
      # (a Variable subclass lives in a collection named after that subclass: everything but the graph definition is mutable)
      y, upd = lin.apply(V, x, mutable=[c for c in V if c != 'nnx'])
      ctx.op('ToLinen(hooked Variable).apply')
      r = ref(x)
      if not ctx.check(close(y, r), 'tolinen.hooked:apply_output', lambda: dict(case=desc, call=t, got=np.asarray(y).tolist(), want=np.asarray(r).tolist())):
        return
      V = {**V, **upd}
    got_n = leaf_value([t['n'] for c, t in V.items() if c != 'nnx' and 'n' in t][0])
    ctx.check(close(got_n, ref.n.value), 'tolinen.hooked:state_after', lambda: dict(case=desc, got=float(got_n), want=float(ref.n.value)))


def run_tolinen_lifted_sharding(ctx, i, rng):
  """ToLinen under nn.vmap with metadata_params={PARTITION_NAME: ...}: the stacked variables carry the new axis in their
  sharding names, as the same construction around nn.Dense does (the control). Own mechanism - see known finding
  C18-nnxmeta-add-axis-noop."""
  import jax
  import jax.numpy as jnp
  import flax.linen as nn
  from flax import nnx
  from flax.core import FrozenDict
  from flax.nnx import bridge
  axis = [0, 1, -1, -2][i % 4]
  n = 2 + (i // 4) % 2
  desc = dict(stack_axis=axis, lanes=n)
  with ctx.case('tolinen.lifted_sharding', i, desc, nontrivial=True):
    kw = dict(variable_axes={'params': axis, 'nnx': None}, split_rngs={'params': True}, metadata_params={nn.PARTITION_NAME: 'layers'})

    class PB(nn.Module):
      @nn.compact
      def __call__(self, x):
        V = nn.vmap(bridge.ToLinen, **kw)
        return V(nnx.Linear, args=(4, 3), kwargs=FrozenDict(kernel_init=nnx.with_partitioning(nnx.initializers.lecun_normal(), ('in', 'out'))), name='lin')(x)

    class PL(nn.Module):
      @nn.compact
      def __call__(self, x):
        V = nn.vmap(nn.Dense, **dict(kw, variable_axes={'params': axis}))
        return V(3, kernel_init=nn.with_partitioning(nn.initializers.lecun_normal(), ('in', 'out')), name='lin')(x)

    x = jnp.ones((n, 4))
    pos = axis % 3     # position of the new axis in the rank-3 stacked kernel
    want_names = tuple(['in', 'out'][:pos] + ['layers'] + ['in', 'out'][pos:])
    vl = PL().init(jax.random.key(i), x)
    spec_l = nn.get_partition_spec(vl)['params']['lin']['kernel']
    ctx.check(tuple(spec_l) == want_names, 'tolinen.lifted_sharding:linen_control', lambda: dict(case=desc, got=tuple(spec_l)))
    vb = PB().init(jax.random.key(i), x)
    ctx.op('nn.vmap(ToLinen, metadata_params)')
    kb = vb['params']['lin']['kernel']
    shape = tuple(nn.meta.unbox(kb).shape)
    ctx.check(shape == tuple([4, 3][:pos] + [n] + [4, 3][pos:]), 'tolinen.lifted_sharding:stacked_shape', lambda: dict(case=desc, shape=shape))
    spec_b = nn.get_partition_spec(vb)['params']['lin']['kernel']
    ctx.check(tuple(spec_b) == want_names, 'tolinen.lifted_sharding:axis_name_not_added',
              lambda: dict(case=desc, got=tuple(spec_b), want=want_names, value_shape=shape))
    # apply on the stacked variables (the axis is removed on the way in and added on the way out) returns what the lanes return
    yb = PB().apply(vb, x)
    k = np.asarray(nn.meta.unbox(kb))
    b = np.asarray(nn.meta.unbox(vb['params']['lin']['bias']))
    want_y = np.stack([np.asarray(x)[j] @ np.take(k, j, axis=pos) + np.take(b, j, axis=axis % 2) for j in range(n)])
    ctx.check(close(yb, want_y), 'tolinen.lifted_sharding:apply_output', lambda: dict(case=desc))

    # nn.scan over a ToLinen step (layers stacked along axis 0)
    class Step(nnx.Module):
      def __init__(self, rngs):
        self.lin = nnx.Linear(4, 4, use_bias=False, kernel_init=nnx.with_partitioning(nnx.initializers.lecun_normal(), ('in', 'out')), rngs=rngs)

      def __call__(self, c, _):
        return self.lin(c), None

    class PS(nn.Module):
      @nn.compact
      def __call__(self, c):
        S = nn.scan(bridge.ToLinen, variable_axes={'params': 0}, variable_broadcast='nnx', split_rngs={'params': True}, length=n,
                    metadata_params={nn.PARTITION_NAME: 'layers'})
        return S(Step, name='steps')(c, None)[0]

    c0 = jnp.ones((2, 4))
    ys, vs = PS().init_with_output(jax.random.key(i), c0)
    ctx.op('nn.scan(ToLinen, metadata_params)')
    ks = vs['params']['steps']['lin']['kernel']
    spec_s = nn.get_partition_spec(vs)['params']['steps']['lin']['kernel']
    ctx.check(tuple(nn.meta.unbox(ks).shape) == (n, 4, 4) and tuple(spec_s) == ('layers', 'in', 'out'), 'tolinen.lifted_sharding:axis_name_not_added',
              lambda: dict(case=desc, transform='scan', got=tuple(spec_s), shape=tuple(nn.meta.unbox(ks).shape)))
    ya = PS().apply(vs, c0)
    h = np.asarray(c0)
    for j in range(n):
      h = h @ np.asarray(nn.meta.unbox(ks))[j]
    ctx.check(close(ya, h) and close(ys, h), 'tolinen.lifted_sharding:apply_output', lambda: dict(case=desc, transform='scan'))
    spec_after = nn.get_partition_spec(vs)['params']['steps']['lin']['kernel']
    ctx.check(tuple(spec_after) == ('layers', 'in', 'out'), 'tolinen.lifted_sharding:axis_name_not_added', lambda: dict(case=desc, after='apply'))


def run_tolinen_falsy_meta(ctx, i, rng):
  """ToLinen around an NNX module whose Variables carry metadata with FALSY values (trainable=False, group=0, sharding=None, an empty
  tuple): the metadata is part of the Variable like any other and survives the conversion - the module rebuilt at apply sees it, and
  the Linen variable tree still holds it."""
  import jax
  import jax.numpy as jnp
  import flax.linen as nn
  from flax import nnx
  from flax.nnx import bridge
  meta_kw = [dict(trainable=False), dict(group=0), dict(trainable=False, group=0), dict(note=''), dict(sharding=None, trainable=False),
             dict(trainable=True)][i % 6]
  d = 2 + (i // 6) % 2
  desc = dict(metadata=repr(meta_kw), d=d)
  with ctx.case('tolinen.falsy_meta', i, desc, nontrivial='trainable=True' not in repr(meta_kw)):
    class FM(nnx.Module):
      def __init__(self, d, rngs):
        self.w = nnx.Param(jnp.arange(1.0, d + 1.0), **meta_kw)

      def __call__(self, x):
        w = self.w.value
        if not getattr(self.w, 'trainable', True):
          w = jax.lax.stop_gradient(w)                     # a frozen weight
        return x * w + float(getattr(self.w, 'group', 7)) + (0.5 if hasattr(self.w, 'note') else 0.0)

    x = jnp.asarray(np.random.default_rng(i).uniform(0.5, 1.5, (2, d)).astype(np.float32))
    ref = FM(d, nnx.Rngs(0))
    lin = bridge.to_linen(FM, d)
    y0, V = lin.init_with_output(jax.random.key(0), x)
    ctx.op('ToLinen(Variable with falsy metadata)')
    ctx.check(close(y0, ref(x)), 'tolinen.falsy_meta:init_output', lambda: dict(case=desc))
    y1 = lin.apply(V, x)
    ctx.check(close(y1, ref(x)), 'tolinen.falsy_meta:apply_output', lambda: dict(case=desc, got=np.asarray(y1).tolist(), want=np.asarray(ref(x)).tolist()))
    # gradient w.r.t. the weight through the Linen wrapper == through the NNX module
    g_l = jax.grad(lambda vv: jnp.sum(lin.apply(vv, x)))(V)
    g_w = [np.asarray(a) for a in jax.tree_util.tree_leaves({c: t for c, t in g_l.items() if c != 'nnx'})]
    g_ref = nnx.grad(lambda m: jnp.sum(m(x)))(ref)
    g_r = [np.asarray(a) for a in jax.tree_util.tree_leaves(g_ref)]
    ctx.check(len(g_w) == len(g_r) == 1 and close(g_w[0], g_r[0]), 'tolinen.falsy_meta:gradient', lambda: dict(case=desc, linen=[a.tolist() for a in g_w], nnx=[a.tolist() for a in g_r]))
    # the Linen tree still carries the metadata
    leaf = [t for c, t in V.items() if c != 'nnx'][0]['w']
    md = getattr(leaf, 'metadata', None)
    ctx.check(md is not None and all(k in md and md[k] == v for k, v in meta_kw.items()), 'tolinen.falsy_meta:metadata_lost',
              lambda: dict(case=desc, leaf_type=type(leaf).__name__, metadata=repr(md)[:200]))


def run_tolinen_restored_without_init(ctx, i, rng):
  """Applying a ToLinen module to restored variables in a process that never ran its init (the serving / evaluation flow): what
  init registered as a side effect - the collection-name -> Variable-type links of RngKey / RngCount and of user Variable classes -
  is forgotten (the registry entries are removed, as in a fresh interpreter) before apply is called."""
  import jax
  import jax.numpy as jnp
  from flax import nnx
  from flax.nnx import bridge, variablelib
  with_rng = i % 2 == 0
  custom = (i // 2) % 2 == 1
  desc = dict(module_has_rng_state=with_rng, custom_variable_type_with_metadata=custom)
  with ctx.case('tolinen.restored_without_init', i, desc, nontrivial=True):
    class Tally(nnx.Variable):
      pass

    class Net(nnx.Module):
      def __init__(self, rngs):
        self.lin = nnx.Linear(3, 3, rngs=rngs)
        self.drop = nnx.Dropout(0.5, rngs=rngs) if with_rng else None
        self.t = Tally(jnp.zeros(()), note='kept') if custom else None

      def __call__(self, x):
        y = self.lin(x)
        if self.t is not None:
          y = y + self.t.value
        return self.drop(y) if self.drop is not None else y

    x = jnp.ones((2, 3))
    before = dict(variablelib.VariableTypeCache)
    lm = bridge.to_linen(Net)
    rngs = {'params': jax.random.key(i), 'dropout': jax.random.key(50 + i)}
    v = lm.init(rngs, x)
    call_rngs = {'dropout': jax.random.key(99)} if with_rng else {}
    want = lm.apply(v, x, rngs=call_rngs)
    # a process that never ran init: forget every name init may have linked (also when an earlier stream of this worker had
    # registered the rng types already)
    added = [k for k in variablelib.VariableTypeCache if k not in before or k in ('RngKey', 'RngCount', 'Tally')]
    for k in added:
      variablelib.VariableTypeCache.pop(k)
    try:
      got = lm.apply(v, x, rngs=call_rngs)
      ctx.check(close(got, want), 'tolinen.restored_without_init:output', lambda: dict(case=desc))
    except Exception as e:  # noqa: BLE001
      ctx.check(False, 'tolinen.restored_without_init:apply_raises', dict(case=desc, forgotten=added, error=repr(e)[:300]))
    finally:
      variablelib.VariableTypeCache.clear()
      variablelib.VariableTypeCache.update(before)
    ctx.op('ToLinen.apply(variables restored in a fresh process)')


def run_tonnx_custom_box(ctx, i, rng):
  """A Linen variable boxed in a user-defined AxisMetadata class (public ABC; no from_nnx_metadata): the wrapper keeps the box's own
  fields as Variable metadata and every call returns what Linen apply returns."""
  import jax
  import jax.numpy as jnp
  import flax.linen as nn
  from flax import nnx, struct
  from flax.core import meta
  from flax.nnx import bridge
  col = ['params', 'batch_stats'][i % 2]
  n_calls = 1 + (i // 2) % 3
  desc = dict(collection=col, calls=n_calls)
  with ctx.case('tonnx.custom_box', i, desc, nontrivial=True):
    class Box(struct.PyTreeNode, meta.AxisMetadata):
      value: jax.Array
      tag: str = struct.field(pytree_node=False, default='t')

      def unbox(self):
        return self.value

      def replace_boxed(self, v):
        return self.replace(value=v)

      def add_axis(self, index, params):
        return self

      def remove_axis(self, index, params):
        return self

    class L2(nn.Module):
      @nn.compact
      def __call__(self, x):
        if col == 'params':
          k = self.param('kernel', lambda key: Box(jax.random.normal(key, (4, 3)), 'hello'))
        else:
          k = self.variable('batch_stats', 'kernel', lambda: Box(jnp.full((4, 3), 0.5), 'hello')).value
        return x @ k

    x = jnp.asarray(np.random.default_rng(i).uniform(-1, 1, (2, 4)).astype(np.float32))
    V = L2().init(jax.random.key(i), x)
    want = L2().apply(V, x)
    try:
      m = bridge.ToNNX(L2(), rngs=nnx.Rngs(params=jax.random.key(i))).lazy_init(x)
      ctx.check(m.kernel.get_metadata().get('tag') == 'hello', 'tonnx.metadata:custom_box_fields_lost', lambda: dict(case=desc, meta=repr(m.kernel.get_metadata())[:200]))
      outs = [m(x) for _ in range(n_calls)]
      want = L2().apply(bv_vars(m), x)   # Linen apply on the variables the wrapper holds
    except Exception as e:  # noqa: BLE001
      ctx.check(False, 'tonnx.custom_axis_metadata:raises', dict(case=desc, error=repr(e)[:300]))
      return
    ctx.op('ToNNX(custom AxisMetadata box)')
    ctx.check(all(close(o, want) for o in outs), 'tonnx.output:custom_box', lambda: dict(case=desc))


def run_tonnx_names(ctx, i, rng):
  """Legal Linen namings that collide inside the wrapper's attribute namespace: the same variable name in two collections of one
  module, and a sub-module / variable called like one of the wrapper's own attributes (`module`, `rngs`). Own stream, own mechanisms
  (known finding C18-tonnx-attribute-namespace)."""
  import jax
  import jax.numpy as jnp
  import flax.linen as nn
  from flax import nnx
  from flax.nnx import bridge
  kind = ['two_collections', 'attr_module', 'attr_rngs', 'two_collections_nested'][i % 4]
  desc = dict(kind=kind)
  with ctx.case('tonnx.names', i, desc, nontrivial=True):
    if kind.startswith('two_collections'):
      class Two(nn.Module):
        @nn.compact
        def __call__(self, x):
          w = self.param('w', nn.initializers.ones, (3,))
          s_ = self.variable('stats', 'w', lambda: jnp.full((3,), 5.0))
          return x * w + s_.value

      class Outer(nn.Module):
        @nn.compact
        def __call__(self, x):
          return Two(name='two')(x) * 2.0

      lm = Two() if kind == 'two_collections' else Outer()
    else:
      nm = 'module' if kind == 'attr_module' else 'rngs'

      class Named(nn.Module):
        @nn.compact
        def __call__(self, x):
          return nn.Dense(3, name=nm)(x)

      lm = Named()
    x = jnp.asarray(np.random.default_rng(i).uniform(-1, 1, (2, 3)).astype(np.float32))
    V = lm.init(jax.random.key(0), x)
    want = lm.apply(V, x)
    mech = 'tonnx.name_collision:' + ('same_name_in_two_collections' if kind.startswith('two') else 'wrapper_attribute')
    try:
      m = bridge.ToNNX(lm, rngs=nnx.Rngs(0)).lazy_init(x)
      got = m(x)
    except Exception as e:  # noqa: BLE001
      ctx.check(False, mech, dict(case=desc, error=repr(e)[:300]))
      return
    ctx.op('ToNNX(name collision: %s)' % kind)
    held = bv_vars(m)
    want_held = lm.apply(held, x) if set(held) >= set(V) else None
    ctx.check(want_held is not None and close(got, want_held), mech, lambda: dict(case=desc, collections_held=sorted(held), collections_of_module=sorted(V)))


def bv_vars(wrapper):
  """Linen variables held by a ToNNX wrapper (plain arrays)."""
  import jax
  from flax.nnx.bridge import variables as bv
  attrs = {k: v for k, v in vars(wrapper).items() if k not in ('module', 'rngs', '_object__state')}
  V = bv.nnx_attrs_to_linen_vars(attrs)
  return jax.tree_util.tree_map(lambda a: a, {c: t for c, t in V.items() if c != 'nnx'})


# ---------------------------------------------------------------------------------------------


def run(ctx):
  import jax.numpy as jnp
  from vf.gen import linen_prog as LP
  for i in ctx.indices(12, 'tonnx.custom_box'):
    run_tonnx_custom_box(ctx, i, ctx.rng('tonnx.custom_box', i))
  for i in ctx.indices(8, 'tonnx.names'):
    run_tonnx_names(ctx, i, ctx.rng('tonnx.names', i))
  for i in ctx.indices(20 if ctx.tier == 'quick' else 80, 'tolinen.reused'):
    run_tolinen_reused(ctx, i, ctx.rng('tolinen.reused', i))
  for i in ctx.indices(8, 'tolinen.lifted_sharding'):
    run_tolinen_lifted_sharding(ctx, i, ctx.rng('tolinen.lifted_sharding', i))
  for i in ctx.indices(8 if ctx.tier == 'quick' else 16, 'tolinen.restored_without_init'):
    run_tolinen_restored_without_init(ctx, i, ctx.rng('tolinen.restored_without_init', i))
  for i in ctx.indices(12 if ctx.tier == 'quick' else 36, 'tolinen.falsy_meta'):
    run_tolinen_falsy_meta(ctx, i, ctx.rng('tolinen.falsy_meta', i))
  for i in ctx.indices(30 if ctx.tier == 'quick' else 90, 'tolinen.hooked'):
    run_tolinen_hooked(ctx, i, ctx.rng('tolinen.hooked', i))
  for i in ctx.indices(24 if ctx.tier == 'quick' else 96, 'tonnx.in_parent'):
    run_tonnx_in_parent(ctx, i, ctx.rng('tonnx.in_parent', i))
  q = ctx.tier == 'quick'
  L = linen_classes()

  n = 450 if q else 8000
  for i in ctx.indices(n, 'tonnx'):
    rng = ctx.rng('tonnx', i)
    cfg = gen_tonnx_cfg(rng, i)
    nr = np.random.default_rng(rng.getrandbits(32))
    x = jnp.asarray(nr.uniform(-2, 2, size=tuple(cfg['batch']) + (cfg['d_in'],)).astype(np.float32))
    m = L['Body'](cfg['d'], cfg['feats']) if cfg['depth'] == 1 else L['Net'](cfg['d'], cfg['feats'], cfg['depth'])
    streams = [s for s in ('dropout', 'noise') if s in cfg['feats']]
    desc = dict(feats=cfg['feats'], depth=cfg['depth'], embed=cfg['embed'], rngs=cfg['rngcfg'], lazy=cfg['lazy'],
                lazy_method=cfg['lazy_method'], steps=[(s['train'], repr(s['mutable']), s['method'], s['rngs_override'] is not None) for s in cfg['steps']],
                dims=(cfg['d_in'], cfg['d'], cfg['batch']))
    with ctx.case('tonnx', i, desc, nontrivial=bool(cfg['feats']) or len(cfg['steps']) >= 2):
      run_tonnx(ctx, m, x, streams, cfg, takes_train=True, tuple_leaves='sowt' in cfg['feats'])

  n = 330 if q else 6000
  for i in ctx.indices(n, 'tonnx.prog'):
    rng = ctx.rng('tonnx.prog', i)
    spec, cfg = gen_prog_cfg(rng, i)
    m = LP.make_module(spec['root'])
    x = jnp.asarray(LP.make_input(rng, spec, batch_shape=rng.choice([(2,), (2, 3)])))
    streams = sorted(LP.streams_used(spec['root']))
    used = sorted(LP.ops_used(spec['root']))
    desc = dict(root=repr(spec['root'])[:500], embed=cfg['embed'], rngs=cfg['rngcfg'],
                steps=[(repr(s['mutable']), s['method']) for s in cfg['steps']])
    nontrivial = LP.count_nodes(spec['root']) >= 2 or any(o in used for o in ('counter', 'stat', 'noise', 'dropout'))
    with ctx.case('tonnx.prog', i, desc, nontrivial=nontrivial):
      for o in used:
        ctx.op('prog.' + o)
      run_tonnx(ctx, m, x, streams, cfg, takes_train=False)

  n = 260 if q else 5000
  for i in ctx.indices(n, 'tolinen'):
    rng = ctx.rng('tolinen', i)
    cfg = gen_tolinen_cfg(rng, i)
    desc = dict(kind=cfg['kind'], feats=cfg['feats'], embed=cfg['embed'], api=cfg['api'], dims=(cfg['din'], cfg['dout'], cfg['batch']),
                steps=[(s['rng'] is not None, repr(s['mutable']), s['train']) for s in cfg['steps']])
    with ctx.case('tolinen', i, desc, nontrivial=bool(cfg['feats']) or cfg['kind'] == 'counter' or len(cfg['steps']) >= 2):
      run_tolinen(ctx, cfg, rng)

  n = 300 if q else 3000
  for i in ctx.indices(n, 'convert'):
    rng = ctx.rng('convert', i)
    with ctx.case('convert', i, dict(direction='l2n2l' if i % 2 == 0 else 'n2l2n', tree=ctx.rng('convert', i).getrandbits(48)), nontrivial=True):
      if i % 2 == 0:
        run_convert_l2n2l(ctx, rng)
      else:
        run_convert_n2l2n(ctx, rng)

  n = 40 if q else 300
  for i in ctx.indices(n, 'registry'):
    rng = ctx.rng('registry', i)
    with ctx.case('registry', i, dict(i=i), nontrivial=True):
      run_registry(ctx, rng, i)
