"""C19 — partition metadata stays aligned with array axes through boxing and transforms.

Monitor shapes
  * alignment invariant on every leaf of every variable tree returned by init/apply under nn.scan / nn.vmap (single level and
    nested either way) and on every Variable of NNX modules created / run under nnx.vmap / nnx.scan: the names tuple must be the
    original one with the partition name inserted at the stacking position (independent list-insert reference) and -- because every
    logical name owns a unique dimension size in the generated shapes -- SIZE[names[i]] == value.shape[i] for every i;
  * what the body sees: the body module records (names, shape) of every variable it is handed, which must be the un-stacked ones;
  * assert-at-hook wrappers around meta.Partitioned.add_axis / remove_axis and flax.nnx.spmd.add_axis / remove_axis recording
    (index, names before, names after, value shape);
  * boxed vs raw: the same program with plain initialisers / Variables without `sharding`;
  * get_partition_spec (both APIs) against the expected names; logical_to_mesh_axes against an independent reference of the documented
    rule engine, exhaustively."""
import itertools

import numpy as np

LEVEL = 'exploration'
LEVEL_TEXT = ('Runtime check on the real code: (1) Linen modules whose params / mutable variables are boxed with with_partitioning / '
              'with_logical_partitioning (ranks 1-3, every stacking axis k in [-(rank+1), rank]) are initialised and applied under nn.scan, '
              'nn.vmap, scan-inside-vmap and vmap-inside-scan with metadata_params, NNX modules with `sharding` metadata are created and run '
              'under nnx.vmap / nnx.scan (and both nestings) with transform_metadata and StateAxes or plain int axes, StateAxes mixing stacked, carried and '
              'broadcast filters in every order, and the deprecated '
              'partitioning.scan_with_axes / vmap_with_axes API is run for every k; every returned leaf, every variable the '
              'body sees and every add_axis/remove_axis hook event is compared with a list-insert reference and with a size-based alignment '
              'oracle; the same programs are run with unboxed variables and must agree. (2) get_partition_spec of both APIs on all name '
              'tuples of length <= 3. (3) logical_to_mesh_axes on ALL rule lists of length <= 4 over 3 logical names x (3 mesh axes + None) '
              'against all logical-axis tuples of length <= 3 over those names + None + one unknown name, versus a 15-line reference. '
              'Part (3) and the unit-level add/remove inverse laws are exhaustive in their stated bounds; the transform part is exploration.'
              ' Round f: Variables bridged from LogicallyPartitioned under logical_axis_rules.')
LEVEL_NOTE = ('Trusts ref_insert / ref_remove / ref_l2m in vf/props/c19.py and the JAX compat aliases. Single device: sharding constraints '
              'applied by unbox() are not observable and not checked.')
TECHNIQUE = ('runtime monitoring: alignment invariant on returned variable trees + assert-at-hook on Partitioned.add_axis/remove_axis and '
             'nnx.spmd.add_axis/remove_axis + boxed-vs-raw relational oracle + reference model of the logical-to-mesh rule engine')
RULE = ('transform cases: rank r in 1..3 x stacking axis k in [-(r+1), r] (negative k is in the domain since the negative-axis repair and is '
        'normalised to k+r+1) for the params collection (a second, mutable collection gets its own rank and axis), x {scan, vmap} single '
        'level (all of them every run) and all (k_inner, k_outer) pairs for scan-in-vmap / vmap-in-scan (seeded subset on quick, all on '
        'thorough); names are drawn from {a,b,c,d,None} without repeats and every name owns a unique dimension size, partition names own '
        'the stacking lengths; an unboxed variable of the same rank rides along in the same collection. Partial-rank names only with '
        'k >= 0 on single-level cases (weaker oracle: names[k] == p, order, size alignment; negative k with partial names is ambiguous and '
        'not generated). The deprecated partitioning.*_with_axes API is exercised for negative k as well since /repo 7a65497 (LEGACY_NEGATIVE_AXES; before that fix its insert used '
        'Python semantics for negative positions; reported, outside the property text which speaks of boxed variables). logical_to_mesh_axes: duplicate logical names inside one logical-axis tuple are outside its domain (it rejects them; '
        'a ValueError is accepted, a returned spec must still be reuse-free); tuple-valued mesh targets are sampled, not enumerated; '
        'RulesFallback modes are decided only where the docstring is unambiguous (a name no rule mentions / every name assigned). '
        'distinct = distinct case descriptor; non-trivial = at least one boxed variable / one rule / one name.')
ASSUMPTIONS = ['logical axis names inside one array are distinct (the documented domain of logical_to_mesh_axes)',
               'one CPU device: with_sharding_constraint inside unbox() is a no-op and is not part of the oracle',
               'vf.compat JAX aliases are faithful']
PLAN = {'quick': dict(workers=4, timeout_s=900), 'thorough': dict(workers=12, timeout_s=3000)}
MIN_EVENTS = {'quick': {'oracle:linen.align': 100, 'oracle:nnx.align': 150, 'oracle:linen.body_names': 40, 'oracle:nnx.body_names': 30,
                        'hook:linen.add_axis': 1000, 'hook:linen.remove_axis': 1000, 'hook:nnx.add_axis': 300, 'hook:nnx.remove_axis': 250,
                        'oracle:hook.linen.add_axis': 600, 'oracle:hook.linen.remove_axis': 600, 'oracle:hook.nnx.add_axis': 800,
                        'oracle:hook.nnx.remove_axis': 600, 'oracle:boxed_vs_raw': 150, 'oracle:linen.pspec': 150, 'oracle:nnx.pspec': 150,
                        'oracle:linen.negative_axis_misaligned': 1500, 'oracle:nnx.negative_axis_misaligned': 1000,
                        'oracle:linen.negative_axis': 80, 'oracle:nnx.negative_axis': 80,
                        'oracle:rules.axes': 22621, 'rules.tuples_evaluated': 3528876, 'oracle:rules.context': 1000,
                        'oracle:meta.inverse': 1000, 'oracle:nnx.meta.inverse': 150, 'oracle:legacy.align': 20, 'oracle:legacy.body_names': 10},
              'thorough': {'oracle:linen.align': 1000, 'oracle:nnx.align': 1500, 'oracle:linen.body_names': 400, 'oracle:nnx.body_names': 300,
                           'hook:linen.add_axis': 5000, 'hook:linen.remove_axis': 5000, 'hook:nnx.add_axis': 3000, 'hook:nnx.remove_axis': 2000,
                           'oracle:boxed_vs_raw': 2000, 'oracle:linen.negative_axis_misaligned': 15000, 'oracle:nnx.negative_axis_misaligned': 15000,
                           'oracle:rules.axes': 22621, 'rules.tuples_evaluated': 3528876, 'oracle:meta.inverse': 1000,
                           'oracle:legacy.align': 200}}

# every logical name owns a dimension size; partition names own the stacking lengths
SIZE = {'a': 4, 'b': 5, 'c': 6, 'd': 8, None: 7}
P1, P2 = 'layers', 'stack'
LEN = {P1: 2, P2: 3}
ALLSIZE = dict(SIZE, **LEN)
LOG = []    # hook events of the running case
SEEN = []   # what the body module saw


# ---------------------------------------------------------------------------------------------
# references (plain Python, no flax/jax)


def ref_insert(names, index, p):
  """Documented add_axis: the new axis name goes to position `index` of the stacked array (negative: counted from the end of
  the stacked array); shorter (partial-rank) names are padded with None."""
  names = list(names)
  if index < 0:
    index += len(names) + 1
  names += [None] * (index - len(names))
  return tuple(names[:index] + [p] + names[index:])


def ref_remove(names, index):
  names = list(names)
  if index < 0:
    index += len(names)
  return tuple(names[:index] + names[index + 1:])


def ref_l2m(names, rules):
  """Documented algorithm: rules in order of precedence; (array dim, mesh dim) applies if the array dim is present and not yet
  assigned and the mesh dim(s) are not yet used; a None target assigns 'unsharded'; everything left over is None."""
  if names is None:
    return None
  assigned, used = {}, set()
  for lname, target in rules:
    if not isinstance(lname, str) or lname not in names:
      continue
    pos = list(names).index(lname)
    mesh = () if target is None else ((target,) if isinstance(target, str) else tuple(target))
    if pos in assigned or used & set(mesh):
      continue
    assigned[pos] = target
    used |= set(mesh)
  return tuple(assigned.get(i) if isinstance(n, str) else n for i, n in enumerate(names))


def aligned_by_size(names, shape):
  return len(names) <= len(shape) and all(ALLSIZE.get(n) == shape[i] for i, n in enumerate(names))


def norm_axis(k, rank_before):
  return k if k >= 0 else k + rank_before + 1


def shape_insert(shape, k, n):
  k = norm_axis(k, len(shape))
  return tuple(shape[:k]) + (n,) + tuple(shape[k:])


# ---------------------------------------------------------------------------------------------
# hooks


def install_hooks():
  from flax.core import meta
  from flax.nnx import spmd as nspmd
  from flax.nnx import variablelib
  import jax

  P = meta.Partitioned
  o_add, o_rem = P.add_axis, P.remove_axis

  def add_axis(self, index, params):
    before, shape = tuple(self.names), tuple(np.shape(self.value))
    out = o_add(self, index, params)
    LOG.append(('linen.add', index, before, tuple(out.names), shape, params.get(meta.PARTITION_NAME), type(out) is type(self)))
    return out

  def remove_axis(self, index, params):
    before, shape = tuple(self.names), tuple(np.shape(self.value))
    try:
      out = o_rem(self, index, params)
    except BaseException as e:
      LOG.append(('linen.remove.raised', index, before, None, shape, params.get(meta.PARTITION_NAME), type(e).__name__))
      raise
    LOG.append(('linen.remove', index, before, tuple(out.names), shape, params.get(meta.PARTITION_NAME), type(out) is type(self)))
    return out

  P.add_axis, P.remove_axis = add_axis, remove_axis

  def snap(tree):
    out = []
    for x in jax.tree.leaves(tree, is_leaf=lambda x: isinstance(x, variablelib.VariableState)):
      if isinstance(x, variablelib.VariableState):
        sh = x.get_metadata().get('sharding')
        out.append((None if sh is None else tuple(sh), tuple(np.shape(x.value))))
    return out

  n_add, n_rem = nspmd.add_axis, nspmd.remove_axis

  def nnx_add_axis(tree, index, transform_metadata):
    before = snap(tree)
    out = n_add(tree, index, transform_metadata)
    after = snap(out)
    for (b, shape), (a, _) in zip(before, after):
      LOG.append(('nnx.add', index, b, a, shape, transform_metadata.get(nspmd.PARTITION_NAME), len(before) == len(after)))
    return out

  def nnx_remove_axis(tree, index, transform_metadata):
    before = snap(tree)
    try:
      out = n_rem(tree, index, transform_metadata)
    except BaseException as e:
      LOG.append(('nnx.remove.raised', index, None, None, None, transform_metadata.get(nspmd.PARTITION_NAME), type(e).__name__))
      raise
    after = snap(out)
    for (b, shape), (a, _) in zip(before, after):
      LOG.append(('nnx.remove', index, b, a, shape, transform_metadata.get(nspmd.PARTITION_NAME), len(before) == len(after)))
    return out

  nspmd.add_axis, nspmd.remove_axis = nnx_add_axis, nnx_remove_axis


def drain_hooks(ctx, api, full_rank=True):
  """Evaluates the add/remove laws on the hook events recorded since the last drain; returns the per-kind counts."""
  counts = {}
  events, LOG[:] = list(LOG), []
  for kind, index, before, after, shape, p, flag in events:
    counts[kind] = counts.get(kind, 0) + 1
    if kind.endswith('.raised'):
      ctx.event('hook:' + kind)
      continue
    if before is None:  # nnx Variable without sharding metadata: must stay without
      ctx.check(after is None, 'hook.%s_axis:unannotated_touched' % kind, lambda: dict(index=index, after=after))
      continue
    ctx.event('hook:%s_axis' % kind)
    neg = index < 0
    if kind.endswith('.add'):
      want = ref_insert(before, index, p)
      # linen: called outside the mapped function, the value already carries the new axis; nnx: inside, it does not
      rank_after = len(shape) if kind == 'linen.add' else len(shape) + 1
      ok = after == want and flag
      if full_rank:
        ok = ok and len(after) == rank_after
        if kind == 'linen.add':
          ok = ok and aligned_by_size(after, shape)
      mech = ('%s.negative_axis_misaligned' % api) if neg else 'hook.%s_axis' % kind
      ctx.check(ok, mech, lambda: dict(hook=kind, index=index, before=before, after=after, want=want, value_shape=shape, p=p))
    else:
      want = ref_remove(before, index)
      ok = after == want and flag and before[index] == p
      if full_rank:
        rank_before = len(shape) if kind == 'linen.remove' else len(shape) + 1
        ok = ok and len(before) == rank_before
      mech = ('%s.negative_axis_misaligned' % api) if neg else 'hook.%s_axis' % kind
      ctx.check(ok, mech, lambda: dict(hook=kind, index=index, before=before, after=after, want=want, value_shape=shape, p=p))
  return counts


# ---------------------------------------------------------------------------------------------
# Linen workload

_CACHE = {}


def linen_body():
  if 'body' in _CACHE:
    return _CACHE['body']
  import flax.linen as nn
  import jax
  import jax.numpy as jnp

  def lin(shape):
    n = int(np.prod(shape))
    return jnp.asarray(((np.arange(n) % 7) - 3.0).reshape(shape) / 4.0, jnp.float32)

  def key_init(key, shape):
    # cheap key-dependent initialiser (jax.random.normal costs ~0.5 s of XLA compile per scan configuration)
    kd = jax.random.key_data(key).astype(jnp.float32)
    return lin(shape) * (1.0 + (kd[-1] % 7.0) / 7.0) + (kd[0] % 3.0)

  def boxer(box, names, fn):
    if box == 'part':
      return nn.with_partitioning(fn, names)
    if box == 'logical':
      return nn.with_logical_partitioning(fn, names)
    return fn

  class Body(nn.Module):
    # specs: ((collection, name, names-or-None, shape, box), ...)
    specs: tuple

    @nn.compact
    def __call__(self, c, x):
      y = jnp.zeros((), jnp.float32)
      for col, name, names, shape, box in self.specs:
        if col == 'params':
          v = self.param(name, boxer(box, names, key_init), shape)
          y = y + jnp.sum(v * lin(shape)) * x
        else:
          var = self.variable(col, name, boxer(box, names, lambda shape=shape: lin(shape) * 0.5))
          y = y + jnp.sum(var.value * lin(shape))
          if self.is_mutable_collection(col):
            var.value = var.value + x  # Variable.value setter re-boxes with replace_boxed
        raw = self.variables[col][name]
        SEEN.append((col, name, type(raw).__name__, tuple(getattr(raw, 'names', ())) if hasattr(raw, 'names') else None,
                     tuple(np.shape(raw.value if hasattr(raw, 'names') else raw))))
      return c, y

  _CACHE['body'] = Body
  return Body


def linen_wrap(cls, kind, axes, pname, length, inout=None):
  import flax.linen as nn
  va = dict(axes)
  if inout:
    col, mode = inout
    from flax.core import lift
    va[col] = (lift.In if mode == 'in' else lift.Out)(va[col])
  mp = {nn.PARTITION_NAME: pname}
  if kind == 'scan':
    return nn.scan(cls, variable_axes=va, split_rngs={'params': True}, in_axes=0, out_axes=0, length=length, metadata_params=mp)
  return nn.vmap(cls, variable_axes=va, split_rngs={'params': True}, in_axes=(None, None), out_axes=(None, 0), axis_size=length,
                 metadata_params=mp)


def linen_module(specs, levels, inout=None):
  """levels: inner-first list of (kind, {col: k}, pname)."""
  cls = linen_body()
  for li, (kind, axes, pname) in enumerate(levels):
    cls = linen_wrap(cls, kind, axes, pname, LEN[pname], inout if li == 0 else None)
  return cls(specs=tuple(specs))


def linen_input(levels):
  import jax.numpy as jnp
  scans = [LEN[p] for kind, _, p in levels if kind == 'scan']
  x = jnp.asarray(0.5 + 0.25 * np.arange(int(np.prod(scans)) if scans else 1).reshape(tuple(scans)), jnp.float32)
  return jnp.asarray(1.0, jnp.float32), x


def expected_leaf(names, shape, col, levels):
  en, es = (None if names is None else tuple(names)), tuple(shape)
  for kind, axes, pname in levels:
    k = axes[col]
    if en is not None:
      en = ref_insert(en, k, pname)
    es = shape_insert(es, k, LEN[pname])
  return en, es


def check_linen_tree(ctx, tree, specs, levels, where, neg, cols=None):
  """Alignment invariant on every leaf of a returned variable tree."""
  from flax.core import meta
  from flax.linen import spmd as lspmd
  want_cols = {c for c, *_ in specs if cols is None or c in cols}
  ctx.check(set(tree.keys()) == want_cols, 'linen.tree_collections', lambda: dict(where=where, got=sorted(tree.keys()), want=sorted(want_cols)))
  mis = 'linen.negative_axis_misaligned' if neg else 'linen.align'
  for col, name, names, shape, box in specs:
    if col not in want_cols or col not in tree:
      continue
    leaf = tree[col].get(name)
    en, es = expected_leaf(names, shape, col, levels)
    full = names is not None and len(names) == len(shape)
    detail = lambda: dict(where=where, var=(col, name), box=box, user_names=names, user_shape=shape, want_names=en, want_shape=es,
                          got=repr(leaf)[:300] if not hasattr(leaf, 'names') else dict(names=leaf.names, shape=np.shape(leaf.value)))
    if box == 'raw':
      ctx.check(not isinstance(leaf, meta.AxisMetadata) and tuple(np.shape(leaf)) == es, 'linen.unboxed_leaf', detail)
      continue
    want_type = meta.Partitioned if box == 'part' else lspmd.LogicallyPartitioned
    if not ctx.check(type(leaf) is want_type, 'linen.box_lost', detail):
      continue
    got, gshape = tuple(leaf.names), tuple(np.shape(leaf.value))
    ctx.check(gshape == es, mis + ':shape', detail)
    if full:
      ctx.check(len(got) == len(gshape), mis + ':len', detail)
      ctx.check(got == en, mis + ':names', detail)
      ctx.check(aligned_by_size(got, gshape), mis + ':size', detail)
    else:  # partial-rank names: names[k] == p and the user's names keep their order (single level, k >= 0 only)
      (kind, axes, pname), = levels
      k = axes[col]
      ctx.check(len(got) > k and got[k] == pname, 'linen.align:partial_position', detail)
      ctx.check([n for n in got if n not in (None, pname)] == [n for n in names if n is not None], 'linen.align:partial_order', detail)
      ctx.check(aligned_by_size(got, gshape), 'linen.align:partial_size', detail)


def check_body_seen(ctx, specs, api, where, neg):
  seen, SEEN[:] = list(SEEN), []
  by = {}
  for col, name, tname, names, shape in seen:
    by.setdefault((col, name), []).append((tname, names, shape))
  mech = ('%s.negative_axis_misaligned:body' % api) if neg else '%s.body_names' % api
  for col, name, names, shape, box in specs:
    recs = by.get((col, name), [])
    want = (None if box == 'raw' else tuple(names), tuple(shape))
    if box != 'raw' and len(names) != len(shape):
      # partial-rank names come back padded with None (add_axis pads up to the index); only order and size alignment are demanded
      ok = bool(recs) and all(r[2] == want[1] and [n for n in r[1] if n is not None] == [n for n in names if n is not None]
                              and aligned_by_size(r[1], r[2]) for r in recs)
      ctx.check(ok, '%s.body_names:partial' % api, lambda: dict(where=where, var=(col, name), want=want, seen=recs[:4]))
      continue
    ctx.check(bool(recs) and all((r[1], r[2]) == want for r in recs), mech,
              lambda: dict(where=where, var=(col, name), want=want, seen=recs[:4]))


def close(a, b):
  import jax
  from vf import core
  la, ta = jax.tree_util.tree_flatten(a)
  lb, tb = jax.tree_util.tree_flatten(b)
  return ta == tb and all(np.shape(x) == np.shape(y) and np.allclose(np.asarray(x, np.float64), np.asarray(y, np.float64), **core.TOL_SAME_PROGRAM)
                          for x, y in zip(la, lb))


def want_pspec_tree(specs, levels, cols=None):
  from jax.sharding import PartitionSpec as P
  out = {}
  for col, name, names, shape, box in specs:
    if cols is not None and col not in cols:
      continue
    en, _ = expected_leaf(names, shape, col, levels)
    out.setdefault(col, {})[name] = P() if box == 'raw' else P(*en)
  return out


def run_linen_case(ctx, d):
  import flax.linen as nn
  from flax.core import meta
  import jax

  specs, levels, neg = d['specs'], d['levels'], d['neg']
  full = all(n is None or len(n) == len(s) for _, _, n, s, _ in specs)
  nboxed = sum(1 for s in specs if s[4] != 'raw')
  key = jax.random.key(d['key'])
  c, x = linen_input(levels)
  mod = linen_module(specs, levels)
  raw_specs = [(col, name, None, shape, 'raw') for col, name, names, shape, box in specs]
  raw_mod = linen_module(raw_specs, levels)
  del LOG[:], SEEN[:]

  def guarded(fn, where):
    """k < 0 is in the domain since the negative-axis repair: an exception there is reported under its own mechanism."""
    if not neg:
      return fn()
    try:
      out = fn()
    except Exception as e:  # noqa: BLE001
      ctx.check(False, 'linen.negative_axis:raises', dict(where=where, error=repr(e)[:300], hook_events=[ev[:4] for ev in LOG[-4:]]))
      raise CaseAbort()
    ctx.check(True, 'linen.negative_axis:raises')
    return out

  # ---- init
  ctx.op('nn.' + '_in_'.join(k for k, _, _ in levels) + '.init')
  variables = guarded(lambda: mod.init(key, c, x), 'init')
  check_linen_tree(ctx, variables, specs, levels, 'init', neg)
  check_body_seen(ctx, specs, 'linen', 'init', neg)
  counts = drain_hooks(ctx, 'linen', full)
  ctx.check(counts.get('linen.add', 0) >= nboxed * len(levels), 'hook.linen.add_axis:not_called',
            lambda: dict(where='init', counts=counts, boxed=nboxed, levels=len(levels)))
  # ---- get_partition_spec
  ctx.op('nn.get_partition_spec')
  spec = nn.get_partition_spec(variables)
  want_spec = want_pspec_tree(specs, levels)
  if full:
    ctx.check(_spec_tree_eq(spec, want_spec), 'linen.pspec', lambda: dict(where='init', got=repr(spec), want=repr(want_spec)))
    if d.get('eval_shape'):
      abstract = jax.eval_shape(lambda k_: mod.init(k_, c, x), key)
      del LOG[:], SEEN[:]
      aspec = nn.get_partition_spec(abstract)
      ctx.check(_spec_tree_eq(aspec, want_spec), 'linen.pspec:eval_shape', lambda: dict(got=repr(aspec), want=repr(want_spec)))
  # ---- apply (mutable second collection)
  mut_cols = sorted({s[0] for s in specs if s[0] != 'params'})
  ctx.op('nn.' + '_in_'.join(k for k, _, _ in levels) + '.apply')
  (c2, y), mutated = guarded(lambda: mod.apply(variables, c, x, mutable=mut_cols), 'apply')
  check_body_seen(ctx, specs, 'linen', 'apply', neg)
  check_linen_tree(ctx, mutated, specs, levels, 'apply.mutated', neg, cols=mut_cols)
  counts = drain_hooks(ctx, 'linen', full)
  ctx.check(counts.get('linen.remove', 0) >= nboxed * len(levels), 'hook.linen.remove_axis:not_called',
            lambda: dict(where='apply', counts=counts, boxed=nboxed, levels=len(levels)))
  out_shape = tuple(LEN[p] for _, _, p in reversed(levels))
  ctx.check(tuple(np.shape(y)) == out_shape, 'linen.output_shape', lambda: dict(got=np.shape(y), want=out_shape))
  # second apply on the mutated tree: the returned tree is a valid input again (remove_axis finds p where add_axis put it)
  v2 = dict(variables, **mutated)
  (c3, y3), mutated2 = guarded(lambda: mod.apply(v2, c, x, mutable=mut_cols), 'apply2')
  check_linen_tree(ctx, mutated2, specs, levels, 'apply2.mutated', neg, cols=mut_cols)
  del SEEN[:]
  drain_hooks(ctx, 'linen', full)

  # ---- boxed vs raw
  raw_vars = raw_mod.init(key, c, x)
  ctx.check(close(meta.unbox(variables), raw_vars), 'boxed_vs_raw:linen.init',
            lambda: dict(boxed=repr(jax.tree.map(np.shape, meta.unbox(variables))), raw=repr(jax.tree.map(np.shape, raw_vars))))
  (rc2, ry), rmut = raw_mod.apply(raw_vars, c, x, mutable=mut_cols)
  ctx.check(close((c2, y), (rc2, ry)), 'boxed_vs_raw:linen.apply', lambda: dict(boxed=np.asarray(y).tolist(), raw=np.asarray(ry).tolist()))
  ctx.check(close(meta.unbox(mutated), rmut), 'boxed_vs_raw:linen.mutated', None)
  # the raw programs never reach the Partitioned hooks
  ctx.check(not [e for e in LOG if e[0].startswith('linen.')], 'hook.linen:called_on_raw', lambda: dict(events=LOG[:3]))
  del LOG[:], SEEN[:]

  # ---- In / Out axes on the mutable collection
  if d.get('inout') and mut_cols:
    col = mut_cols[0]
    m_out = linen_module(specs, levels, inout=(col, 'out'))
    ctx.op('nn.Out')
    v_out = guarded(lambda: m_out.init(key, c, x), 'init(Out)')
    check_linen_tree(ctx, v_out, specs, levels, 'init(Out)', neg)
    ctx.check(close(meta.unbox(v_out), meta.unbox(variables)), 'linen.out_axis_init_differs', None)
    drain_hooks(ctx, 'linen', full)
    del SEEN[:]
    m_in = linen_module(specs, levels, inout=(col, 'in'))
    ctx.op('nn.In')
    c4, y4 = guarded(lambda: m_in.apply(variables, c, x), 'apply(In)')
    check_body_seen(ctx, specs, 'linen', 'apply(In)', neg)
    counts = drain_hooks(ctx, 'linen', full)
    ctx.check(counts.get('linen.remove', 0) >= nboxed, 'hook.linen.remove_axis:not_called', lambda: dict(where='apply(In)', counts=counts))
    ctx.check(close(y4, y), 'linen.in_axis_output_differs', lambda: dict(y_in=np.asarray(y4).tolist(), y=np.asarray(y).tolist()))


class CaseAbort(Exception):
  """The case already reported its violation; stop it without a second 'unexpected_exception' record."""


def _spec_tree_eq(a, b):
  import jax
  from jax.sharding import PartitionSpec as P
  is_leaf = lambda x: isinstance(x, P) or x is None
  la, ta = jax.tree_util.tree_flatten(_plain(a), is_leaf=is_leaf)
  lb, tb = jax.tree_util.tree_flatten(_plain(b), is_leaf=is_leaf)
  return ta == tb and all(type(x) is type(y) and (x is None or tuple(x) == tuple(y)) for x, y in zip(la, lb))


def _plain(x):
  from collections.abc import Mapping
  if isinstance(x, Mapping):
    return {k: _plain(v) for k, v in x.items()}
  return x


# ---------------------------------------------------------------------------------------------
# case enumeration (shared by Linen and NNX)

POOL = ['a', 'b', 'c', 'd', None]


def pick_names(rng, rank):
  names = rng.sample(POOL[:4], rank)
  if rank and rng.random() < 0.3:
    names[rng.randrange(rank)] = None
  return tuple(names)


def shape_of(names, extra=0):
  return tuple(SIZE[n] for n in names) + (SIZE[None],) * extra


def axis_range(rank, neg):
  return list(range(-(rank + 1), rank + 1)) if neg else list(range(rank + 1))


def transform_cases(ctx, api):
  """[(kinds inner-first, r_w, (k per level for params), variant)], complete for single level incl. negative axes; nested pairs complete
  on thorough, seeded subset on quick."""
  quick = ctx.tier == 'quick'
  single, nested = [], []
  for kind in ('scan', 'vmap'):
    for r in (1, 2, 3):
      for k in axis_range(r, True):
        for variant in range(1 if quick else 6):
          single.append(((kind,), r, (k,), variant))
  for kinds in (('scan', 'vmap'), ('vmap', 'scan')):
    for r in (1, 2, 3):
      for k_in in axis_range(r, True):
        for k_out in axis_range(r + 1, True):
          for variant in range(1 if quick else 2):
            nested.append((kinds, r, (k_in, k_out), variant))
  if quick:
    rng = ctx.rng(api, 'nested-subset')
    n = 18 if api == 'linen' else 24
    nested = rng.sample(nested, n)
  return single + nested


def build_specs(ctx, api, i, case):
  kinds, r_w, ks, variant = case
  rng = ctx.rng(api, 'case', i)
  neg = any(k < 0 for k in ks)
  names_w = pick_names(rng, r_w)
  r_s = rng.choice([1, 2, 3])
  names_s = pick_names(rng, r_s)
  ks_s, rank = [], r_s
  for _ in kinds:
    ks_s.append(rng.choice(axis_range(rank, True)))
    rank += 1
  neg = neg or any(k < 0 for k in ks_s)
  partial = (not neg) and len(kinds) == 1 and r_w >= 2 and rng.random() < 0.35
  return rng, neg, names_w, names_s, tuple(ks_s), partial


def linen_descriptor(ctx, i, case):
  kinds, r_w, ks, variant = case
  rng, neg, names_w, names_s, ks_s, partial = build_specs(ctx, 'linen', i, case)
  box_w = rng.choice(['part', 'logical'])
  box_s = rng.choice(['part', 'logical', 'part'])
  specs = [('params', 'w', names_w, shape_of(names_w), box_w),
           ('params', 'u', None, (SIZE[None],) * r_w, 'raw'),
           ('stats', 's', names_s, shape_of(names_s), box_s)]
  if partial:  # fewer names than dimensions
    cut = rng.randrange(0, r_w)
    specs.append(('params', 'h', names_w[:cut], shape_of(names_w[:cut], r_w - cut), 'part'))
  pnames = [P2, P1] if len(kinds) == 2 else [rng.choice([P1, P2])]
  levels = [(kind, {'params': k, 'stats': k_s}, p) for kind, k, k_s, p in zip(kinds, ks, ks_s, pnames)]
  return dict(specs=specs, levels=levels, neg=neg, key=rng.randrange(1 << 16), inout=(i % 3 == 0), eval_shape=(i % 4 == 1),
              variant=variant)


# ---------------------------------------------------------------------------------------------
# NNX workload


def nnx_block():
  if 'blk' in _CACHE:
    return _CACHE['blk']
  from flax import nnx
  import jax
  import jax.numpy as jnp

  def lin(shape):
    n = int(np.prod(shape))
    return jnp.asarray(((np.arange(n) % 7) - 3.0).reshape(shape) / 4.0, jnp.float32)

  def key_init(key, shape):
    kd = jax.random.key_data(key).astype(jnp.float32)
    return lin(shape) * (1.0 + (kd[-1] % 7.0) / 7.0) + (kd[0] % 3.0)

  class Blk(nnx.Module):
    def __init__(self, specs, boxed, rngs):
      # specs: ((attr, 'param'|'stat', names-or-None, shape), ...)
      for attr, vt, names, shape in specs:
        kw = dict(sharding=tuple(names)) if (boxed and names is not None) else {}
        if vt == 'param':
          setattr(self, attr, nnx.Param(key_init(rngs.params(), shape), **kw))
        else:
          setattr(self, attr, nnx.BatchStat(lin(shape) * 0.5, **kw))

    def __call__(self, specs, x):
      y = jnp.zeros((), jnp.float32)
      for attr, vt, names, shape in specs:
        var = getattr(self, attr)
        SEEN.append((vt, attr, type(var).__name__, (lambda s: None if s is None else tuple(s))(var.get_metadata().get('sharding')),
                     tuple(np.shape(var.value))))
        y = y + jnp.sum(var.value * lin(shape)) * (x if vt == 'param' else 1.0)
        if vt == 'stat':
          var.value = var.value + x
      return y

  _CACHE['blk'] = Blk
  return Blk


def nnx_descriptor(ctx, i, case):
  kinds, r_w, ks, variant = case
  rng, neg, names_w, names_s, ks_s, partial = build_specs(ctx, 'nnx', i, case)
  int_axes = rng.random() < 0.3  # plain int in/out axes for the whole module instead of StateAxes: every Variable shares rank and axis
  if int_axes:
    names_s, ks_s, partial = pick_names(rng, r_w), tuple(ks), False
    neg = any(k < 0 for k in ks)
  specs = [('w', 'param', names_w, shape_of(names_w)), ('u', 'param', None, (SIZE[None],) * r_w), ('s', 'stat', names_s, shape_of(names_s))]
  if partial:
    cut = rng.randrange(0, r_w)
    specs.append(('h', 'param', names_w[:cut], shape_of(names_w[:cut], r_w - cut)))
  pnames = [P2, P1] if len(kinds) == 2 else [rng.choice([P1, P2])]
  levels = [(kind, {'param': k, 'stat': k_s}, p) for kind, k, k_s, p in zip(kinds, ks, ks_s, pnames)]
  return dict(specs=specs, levels=levels, neg=neg, seed=rng.randrange(1 << 16), create=rng.choice(['vmap', 'vmap', 'scan']) if len(kinds) == 1 else 'vmap',
              variant=variant, int_axes=int_axes)


def nnx_expected(names, shape, vt, levels):
  en, es = (None if names is None else tuple(names)), tuple(shape)
  for kind, axes, pname in levels:
    k = axes[vt]
    if en is not None:
      en = ref_insert(en, k, pname)
    es = shape_insert(es, k, LEN[pname])
  return en, es


def check_nnx_module(ctx, m, specs, levels, where, neg, boxed=True):
  mis = 'nnx.negative_axis_misaligned' if neg else 'nnx.align'
  for attr, vt, names, shape in specs:
    var = getattr(m, attr)
    en, es = nnx_expected(names, shape, vt, levels)
    sh = var.get_metadata().get('sharding')
    gshape = tuple(np.shape(var.value))
    detail = lambda: dict(where=where, var=attr, user_names=names, user_shape=shape, want_names=en, want_shape=es, got_sharding=sh, got_shape=gshape)
    ctx.check(gshape == es, mis + ':shape', detail)
    if names is None or not boxed:
      ctx.check(sh is None, 'nnx.unannotated_gained_sharding', detail)
      continue
    if not ctx.check(sh is not None, 'nnx.sharding_lost', detail):
      continue
    got = tuple(sh)
    if len(names) == len(shape):
      ctx.check(len(got) == len(gshape), mis + ':len', detail)
      ctx.check(got == en, mis + ':names', detail)
      ctx.check(aligned_by_size(got, gshape), mis + ':size', detail)
    else:
      (kind, axes, pname), = levels
      k = axes[vt]
      ctx.check(len(got) > k and got[k] == pname, 'nnx.align:partial_position', detail)
      ctx.check([n for n in got if n not in (None, pname)] == [n for n in names if n is not None], 'nnx.align:partial_order', detail)
      ctx.check(aligned_by_size(got, gshape), 'nnx.align:partial_size', detail)


def check_nnx_seen(ctx, specs, where, neg, boxed=True):
  seen, SEEN[:] = list(SEEN), []
  by = {}
  for vt, attr, tname, sh, shape in seen:
    by.setdefault(attr, []).append((sh, shape))
  mech = 'nnx.negative_axis_misaligned:body' if neg else 'nnx.body_names'
  for attr, vt, names, shape in specs:
    want = (tuple(names) if (boxed and names is not None) else None, tuple(shape))
    recs = by.get(attr, [])
    if want[0] is not None and len(names) != len(shape):
      ok = bool(recs) and all(r[1] == want[1] and r[0] is not None and [n for n in r[0] if n is not None] == [n for n in names if n is not None]
                              and aligned_by_size(r[0], r[1]) for r in recs)
      ctx.check(ok, 'nnx.body_names:partial', lambda: dict(where=where, var=attr, want=want, seen=recs[:4]))
      continue
    ctx.check(bool(recs) and all(r == want for r in recs), mech, lambda: dict(where=where, var=attr, want=want, seen=recs[:4]))


def nnx_programs(specs, levels, boxed, int_axes=False):
  """(create, forward) closures for the given nesting; levels inner-first."""
  from flax import nnx
  Blk = nnx_block()
  tspecs = tuple(specs)
  sas = [axes['param'] if int_axes else nnx.StateAxes({nnx.Param: axes['param'], nnx.BatchStat: axes['stat']}) for _, axes, _ in levels]
  tms = [{nnx.PARTITION_NAME: p} for _, _, p in levels]
  lens = [LEN[p] for _, _, p in levels]

  def make_create(create_kind):
    f = lambda rngs: Blk(tspecs, boxed, rngs)
    for li in range(len(levels)):
      tr = nnx.scan if (create_kind == 'scan' and len(levels) == 1) else nnx.vmap
      f = tr(f, in_axes=(0,), out_axes=sas[li], transform_metadata=tms[li])
    splits = tuple(reversed(lens)) if len(lens) > 1 else lens[0]
    return nnx.split_rngs(splits=splits)(f)

  def make_forward():
    def base(m, c):
      return m(tspecs, c)

    def wrap(inner, li):
      kind = levels[li][0]
      if kind == 'vmap':
        return nnx.vmap(inner, in_axes=(sas[li], None), out_axes=0, transform_metadata=tms[li])

      def body(m, c):
        return c, inner(m, c)

      scanned = nnx.scan(body, in_axes=(sas[li], nnx.Carry), out_axes=(nnx.Carry, 0), transform_metadata=tms[li])
      return lambda m, c: scanned(m, c)[1]

    f = base
    for li in range(len(levels)):
      f = wrap(f, li)
    return f

  return make_create, make_forward


def run_nnx_case(ctx, d):
  from flax import nnx
  import jax
  import jax.numpy as jnp

  specs, levels, neg = d['specs'], d['levels'], d['neg']
  full = all(n is None or len(n) == len(s) for _, _, n, s in specs)
  nboxed = sum(1 for s in specs if s[2] is not None)
  make_create, make_forward = nnx_programs(specs, levels, True, d['int_axes'])
  del LOG[:], SEEN[:]

  def guarded(fn, where):
    if not neg:
      return fn()
    try:
      out = fn()
    except Exception as e:  # noqa: BLE001
      ctx.check(False, 'nnx.negative_axis:raises', dict(where=where, error=repr(e)[:300], hook_events=[ev[:4] for ev in LOG[-4:]]))
      raise CaseAbort()
    ctx.check(True, 'nnx.negative_axis:raises')
    return out

  ctx.op('nnx.%s(create)' % d['create'])
  ctx.op('nnx.axes:' + ('int' if d['int_axes'] else 'StateAxes'))
  m = guarded(lambda: make_create(d['create'])(nnx.Rngs(params=d['seed'])), 'create')
  check_nnx_module(ctx, m, specs, levels, 'create', neg)
  counts = drain_hooks(ctx, 'nnx', full)
  ctx.check(counts.get('nnx.add', 0) >= nboxed * len(levels), 'hook.nnx.add_axis:not_called', lambda: dict(where='create', counts=counts))
  del SEEN[:]

  # get_partition_spec on the State and on the Variables
  if full:
    from jax.sharding import PartitionSpec as P
    ctx.op('nnx.get_partition_spec')
    st = nnx.state(m)
    ps = nnx.get_partition_spec(st)
    for attr, vt, names, shape in specs:
      en, _ = nnx_expected(names, shape, vt, levels)
      want = P() if names is None else P(*en)
      got = ps[attr].value
      ctx.check(isinstance(got, P) and tuple(got) == tuple(want), 'nnx.pspec', lambda: dict(var=attr, got=repr(got), want=repr(want)))

  fwd = make_forward()
  x = jnp.asarray(0.75, jnp.float32)
  ctx.op('nnx.' + '_in_'.join(k for k, _, _ in levels) + '(forward)')
  y = guarded(lambda: fwd(m, x), 'forward')
  check_nnx_seen(ctx, specs, 'forward', neg)
  check_nnx_module(ctx, m, specs, levels, 'forward', neg)
  counts = drain_hooks(ctx, 'nnx', full)
  ctx.check(counts.get('nnx.remove', 0) >= nboxed * len(levels) and counts.get('nnx.add', 0) >= nboxed * len(levels),
            'hook.nnx.remove_axis:not_called', lambda: dict(where='forward', counts=counts))
  out_shape = tuple(LEN[p] for _, _, p in reversed(levels))
  ctx.check(tuple(np.shape(y)) == out_shape, 'nnx.output_shape', lambda: dict(got=np.shape(y), want=out_shape))
  y2 = guarded(lambda: fwd(m, x), 'forward2')
  check_nnx_module(ctx, m, specs, levels, 'forward2', neg)
  del SEEN[:]
  drain_hooks(ctx, 'nnx', full)

  # ---- boxed vs raw
  rc, rf = nnx_programs(specs, levels, False, d['int_axes'])
  rm = rc(d['create'])(nnx.Rngs(params=d['seed']))
  check_nnx_module(ctx, rm, specs, levels, 'raw.create', neg, boxed=False)
  ry = rf()(rm, x)
  ry2 = rf()(rm, x)
  ctx.check(close(y, ry) and close(y2, ry2), 'boxed_vs_raw:nnx.forward', lambda: dict(boxed=np.asarray(y).tolist(), raw=np.asarray(ry).tolist()))
  ctx.check(close(jax.tree.leaves(nnx.state(m)), jax.tree.leaves(nnx.state(rm))), 'boxed_vs_raw:nnx.state', None)
  check_nnx_seen(ctx, specs, 'raw.forward', neg, boxed=False)
  drain_hooks(ctx, 'nnx', full)
  del LOG[:], SEEN[:]


# ---------------------------------------------------------------------------------------------
# NNX StateAxes that mix stacked (integer axis) states with carried / broadcast states, in every filter order: nnx.scan keeps only
# the stacked states inside its NodeStates, so name removal/insertion must still pair each of them with *its own* axis.


def nnx_mixed_cases(ctx):
  quick = ctx.tier == 'quick'
  out = []
  n = 140 if quick else 900
  for i in range(n):
    rng = ctx.rng('nnx.mixed', i)
    kind = ['scan', 'scan', 'vmap'][i % 3]
    entries = []
    # stacked entries: one or two Variable types with their own rank / axis
    n_vec = 1 + (i // 3) % 2
    for t in ['Param', 'Cache'][:n_vec]:
      r = rng.choice([1, 2, 2, 3])
      names = pick_names(rng, r)
      entries.append(dict(type=t, attr=t.lower(), mode='axis', k=rng.choice(axis_range(r, rng.random() < 0.3)), names=names, shape=shape_of(names)))
    # non-stacked entries: carried (scan only) and/or broadcast
    modes = [['carry'], ['bcast'], ['carry', 'bcast']][(i // 6) % 3] if kind == 'scan' else [['bcast'], ['bcast', 'bcast2']][(i // 6) % 2]
    for mode, t in zip(modes, ['BatchStat', 'Intermediate']):
      r = rng.choice([0, 1, 2])
      names = pick_names(rng, r)
      entries.append(dict(type=t, attr=t.lower(), mode='carry' if mode == 'carry' else 'bcast', k=None, names=names, shape=shape_of(names)))
    order = list(range(len(entries)))
    rng.shuffle(order)
    if i % 4 == 0:  # a non-stacked filter first: the order in which pairing by position goes wrong
      order.sort(key=lambda j: entries[j]['mode'] == 'axis')
    out.append(dict(kind=kind, entries=[entries[j] for j in order], annotate_nonstacked=rng.random() < 0.8))
  return out


def run_nnx_mixed_case(ctx, d):
  from flax import nnx
  import jax.numpy as jnp
  L = LEN[P1]
  types = dict(Param=nnx.Param, Cache=nnx.Cache, BatchStat=nnx.BatchStat, Intermediate=nnx.Intermediate)

  def lin(shape):
    n = int(np.prod(shape)) if shape else 1
    return jnp.asarray(((np.arange(n) % 5) - 2.0).reshape(shape) / 4.0, jnp.float32)

  class Mix(nnx.Module):
    pass

  def build(boxed):
    m = Mix()
    for e in d['entries']:
      if e['mode'] == 'axis':
        shape, names = shape_insert(e['shape'], e['k'], L), ref_insert(e['names'], e['k'], P1)
      else:
        shape, names = e['shape'], e['names']
      kw = dict(sharding=tuple(names)) if boxed and (e['mode'] == 'axis' or d['annotate_nonstacked']) else {}
      setattr(m, e['attr'], types[e['type']](lin(shape) + (0.25 if e['mode'] == 'axis' else 0.0), **kw))
    return m

  def axis_of(e):
    return e['k'] if e['mode'] == 'axis' else (nnx.Carry if e['mode'] == 'carry' else None)

  sa = nnx.StateAxes({types[e['type']]: axis_of(e) for e in d['entries']})
  tm = {nnx.PARTITION_NAME: P1}

  def body(m, x):
    y = x
    for e in d['entries']:
      var = getattr(m, e['attr'])
      sh = var.get_metadata().get('sharding')
      SEEN.append((e['attr'], None if sh is None else tuple(sh), tuple(np.shape(var.value))))
      y = y + jnp.sum(var.value * lin(e['shape']))
      if e['mode'] == 'carry':
        var.value = var.value + 1.0
    return y

  def program(m):
    x0 = jnp.asarray(0.5, jnp.float32)
    if d['kind'] == 'scan':
      return nnx.scan(body, in_axes=(sa, nnx.Carry), out_axes=nnx.Carry, transform_metadata=tm)(m, x0)
    return nnx.vmap(body, in_axes=(sa, None), out_axes=0, transform_metadata=tm)(m, x0)

  def check_module(m, where, boxed):
    for e in d['entries']:
      var = getattr(m, e['attr'])
      sh = var.get_metadata().get('sharding')
      gshape = tuple(np.shape(var.value))
      if e['mode'] == 'axis':
        wn, ws = ref_insert(e['names'], e['k'], P1), shape_insert(e['shape'], e['k'], L)
      else:
        wn, ws = tuple(e['names']), tuple(e['shape'])
      annotated = boxed and (e['mode'] == 'axis' or d['annotate_nonstacked'])
      ctx.check(gshape == ws and (tuple(sh) == wn if annotated else sh is None) and (not annotated or aligned_by_size(tuple(sh), gshape)),
                'nnx.align:mixed_state_axes', lambda: dict(where=where, var=e['attr'], mode=e['mode'], want=(wn, ws), got=(sh, gshape)))

  del LOG[:], SEEN[:]
  ctx.op('nnx.%s(mixed StateAxes)' % d['kind'])
  m = build(True)
  y = program(m)
  seen, SEEN[:] = list(SEEN), []
  ctx.check(bool(seen), 'nnx.body_names:mixed_state_axes', lambda: dict(error='body never ran'))
  for attr, sh, shape in seen:
    e = [e for e in d['entries'] if e['attr'] == attr][0]
    annotated = e['mode'] == 'axis' or d['annotate_nonstacked']
    want = (tuple(e['names']) if annotated else None, tuple(e['shape']))
    ctx.check((sh, shape) == want, 'nnx.body_names:mixed_state_axes',
              lambda: dict(var=attr, mode=e['mode'], axis=e['k'], filter_order=[(x['type'], x['mode'], x['k']) for x in d['entries']], want=want, seen=(sh, shape)))
  check_module(m, 'after', True)
  counts = drain_hooks(ctx, 'nnx', True)
  n_vec = sum(1 for e in d['entries'] if e['mode'] == 'axis')
  ctx.check(counts.get('nnx.remove', 0) >= n_vec and counts.get('nnx.add', 0) >= n_vec, 'hook.nnx.remove_axis:not_called',
            lambda: dict(where='mixed', counts=counts, stacked=n_vec))
  # boxed vs raw
  rm = build(False)
  ry = program(rm)
  del SEEN[:]
  check_module(rm, 'raw', False)
  ctx.check(close(y, ry), 'boxed_vs_raw:nnx.forward', lambda: dict(boxed=np.asarray(y).tolist(), raw=np.asarray(ry).tolist()))
  import jax
  ctx.check(close(jax.tree.leaves(nnx.state(m)), jax.tree.leaves(nnx.state(rm))), 'boxed_vs_raw:nnx.state', None)
  drain_hooks(ctx, 'nnx', True)
  del LOG[:], SEEN[:]


# ---------------------------------------------------------------------------------------------
# legacy (deprecated) logical-axes API of flax/linen/partitioning.py: param_with_axes / variable_with_axes keep the names in a
# parallel '<collection>_axes' collection; scan_with_axes / vmap_with_axes insert `axis_name` at the stacking position.

# the legacy insert_fn_leaf still uses list.insert(axis_pos) with Python semantics for axis_pos < 0 (reported); the property text
# speaks of boxed variables + metadata_params, so negative axes of this deprecated API are not generated unless this is flipped.
LEGACY_NEGATIVE_AXES = True


def legacy_body():
  if 'lbody' in _CACHE:
    return _CACHE['lbody']
  import flax.linen as nn
  from flax.linen import partitioning as pt
  import jax
  import jax.numpy as jnp

  def lin(shape):
    n = int(np.prod(shape))
    return jnp.asarray(((np.arange(n) % 7) - 3.0).reshape(shape) / 4.0, jnp.float32)

  def key_init(key, shape):
    kd = jax.random.key_data(key).astype(jnp.float32)
    return lin(shape) * (1.0 + (kd[-1] % 7.0) / 7.0) + (kd[0] % 3.0)

  class LBody(nn.Module):
    specs: tuple  # ((collection, name, names-or-None, shape), ...)

    @nn.compact
    def __call__(self, c, x):
      y = jnp.zeros((), jnp.float32)
      for col, name, names, shape in self.specs:
        if col == 'params':
          v = pt.param_with_axes(name, key_init, shape, axes=names)
          y = y + jnp.sum(v * lin(shape)) * x
        else:
          var = pt.variable_with_axes(col, name, lambda shape=shape: lin(shape) * 0.5, axes=names)
          y = y + jnp.sum(var.value * lin(shape))
          if self.is_mutable_collection(col):
            var.value = var.value + x
        ax = self.variables.get(col + '_axes', {}).get(name + '_axes')
        SEEN.append((col, name, type(ax).__name__, None if ax is None else tuple(ax.names), tuple(np.shape(self.variables[col][name]))))
      return c, y

  _CACHE['lbody'] = LBody
  return LBody


def legacy_module(specs, levels):
  from flax.linen import partitioning as pt
  cls = legacy_body()
  cols = tuple(sorted({s[0] for s in specs}))
  for kind, axes, pname in levels:
    if kind == 'scan':
      cls = pt.scan_with_axes(cls, variable_axes=dict(axes), split_rngs={'params': True}, in_axes=0, out_axes=0, length=LEN[pname],
                              axis_name=pname, axes_collections=cols)
    else:
      cls = pt.vmap_with_axes(cls, variable_axes=dict(axes), split_rngs={'params': True}, in_axes=(None, None), out_axes=(None, 0),
                              axis_size=LEN[pname], partitioning_axis_names={c: pname for c in cols})
  return cls(specs=tuple(specs))


def legacy_cases(ctx):
  quick = ctx.tier == 'quick'
  single, nested = [], []
  for kind in ('scan', 'vmap'):
    for r in (1, 2, 3):
      for k in axis_range(r, LEGACY_NEGATIVE_AXES):
        for variant in range(1 if quick else 3):
          single.append(((kind,), r, (k,), variant))
  for kinds in (('scan', 'vmap'), ('vmap', 'scan')):
    for r in (1, 2, 3):
      for k_in in axis_range(r, LEGACY_NEGATIVE_AXES):
        for k_out in axis_range(r + 1, LEGACY_NEGATIVE_AXES):
          nested.append((kinds, r, (k_in, k_out), 0))
  if quick:
    rng = ctx.rng('legacy', 'subset')
    single, nested = rng.sample(single, min(len(single), 8)), rng.sample(nested, 4)
  return single + nested


def legacy_descriptor(ctx, i, case):
  kinds, r_w, ks, variant = case
  rng = ctx.rng('legacy', 'case', i)
  names_w = pick_names(rng, r_w)
  r_s = rng.choice([1, 2, 3])
  names_s = pick_names(rng, r_s)
  ks_s, rank = [], r_s
  for _ in kinds:
    ks_s.append(rng.choice(axis_range(rank, LEGACY_NEGATIVE_AXES)))
    rank += 1
  specs = [('params', 'w', names_w, shape_of(names_w)), ('params', 'u', None, (SIZE[None],) * r_w), ('stats', 's', names_s, shape_of(names_s))]
  pnames = [P2, P1] if len(kinds) == 2 else [rng.choice([P1, P2])]
  levels = [(kind, {'params': k, 'stats': k_s}, p) for kind, k, k_s, p in zip(kinds, ks, ks_s, pnames)]
  return dict(specs=specs, levels=levels, neg=any(k < 0 for k in tuple(ks) + tuple(ks_s)), key=rng.randrange(1 << 16), variant=variant)


def check_legacy_tree(ctx, tree, specs, levels, where, neg, cols):
  from flax.linen import partitioning as pt
  mis = 'legacy.negative_axis_misaligned' if neg else 'legacy.align'
  for col, name, names, shape in specs:
    if col not in cols:
      continue
    en, es = expected_leaf(names, shape, col, levels)
    val = tree.get(col, {}).get(name)
    ax = tree.get(col + '_axes', {}).get(name + '_axes')
    detail = lambda: dict(where=where, var=(col, name), user_names=names, want_names=en, want_shape=es, got_shape=np.shape(val), got_axes=repr(ax))
    ctx.check(val is not None and tuple(np.shape(val)) == es, mis + ':shape', detail)
    if names is None:
      ctx.check(ax is None, 'legacy.unannotated_gained_axes', detail)
      continue
    if where.startswith('apply'):
      continue  # '<col>_axes' is only (re)written when it is mutable, i.e. at init
    if not ctx.check(isinstance(ax, pt.AxisMetadata), 'legacy.axes_lost', detail):
      continue
    got = tuple(ax.names)
    ctx.check(len(got) == len(es), mis + ':len', detail)
    ctx.check(got == en, mis + ':names', detail)
    ctx.check(aligned_by_size(got, es), mis + ':size', detail)


def run_legacy_case(ctx, d):
  import jax
  from jax.sharding import PartitionSpec as P
  from flax.linen import partitioning as pt
  specs, levels, neg = d['specs'], d['levels'], d['neg']
  key = jax.random.key(d['key'])
  c, x = linen_input(levels)
  mod = legacy_module(specs, levels)
  del SEEN[:]

  def guarded(fn, where):
    if not neg:
      return fn()
    try:
      out = fn()
    except Exception as e:  # noqa: BLE001
      ctx.check(False, 'legacy.negative_axis:raises', dict(where=where, error=repr(e)[:300]))
      raise CaseAbort()
    ctx.check(True, 'legacy.negative_axis:raises')
    return out

  kinds = '_in_'.join(k for k, _, _ in levels)
  ctx.op('partitioning.%s_with_axes.init' % kinds)
  variables = guarded(lambda: mod.init(key, c, x), 'init')
  cols = sorted({s[0] for s in specs})
  check_legacy_tree(ctx, variables, specs, levels, 'init', neg, cols)
  seen, SEEN[:] = list(SEEN), []
  for col, name, names, shape in specs:
    recs = [r for r in seen if r[0] == col and r[1] == name]
    want = (None if names is None else tuple(names), tuple(shape))
    ctx.check(bool(recs) and all((r[3], r[4]) == want for r in recs), 'legacy.negative_axis_misaligned:body' if neg else 'legacy.body_names',
              lambda: dict(where='init', var=(col, name), want=want, seen=recs[:3]))
  # get_axis_names: logical PartitionSpecs, '_axes' suffix stripped
  for col in cols:
    ctx.op('partitioning.get_axis_names')
    got = pt.get_axis_names(variables[col + '_axes'])
    want = {name: P(*expected_leaf(names, shape, col, levels)[0]) for c_, name, names, shape in specs if c_ == col and names is not None}
    ctx.check(_spec_tree_eq(got, want), 'legacy.get_axis_names', lambda: dict(col=col, got=repr(got), want=repr(want)))
  ctx.op('partitioning.%s_with_axes.apply' % kinds)
  (c2, y), mutated = guarded(lambda: mod.apply(variables, c, x, mutable=['stats']), 'apply')
  seen, SEEN[:] = list(SEEN), []
  for col, name, names, shape in specs:
    recs = [r for r in seen if r[0] == col and r[1] == name]
    want = (None if names is None else tuple(names), tuple(shape))
    ctx.check(bool(recs) and all((r[3], r[4]) == want for r in recs), 'legacy.negative_axis_misaligned:body' if neg else 'legacy.body_names',
              lambda: dict(where='apply', var=(col, name), want=want, seen=recs[:3]))
  check_legacy_tree(ctx, mutated, specs, levels, 'apply.mutated', neg, ['stats'])
  out_shape = tuple(LEN[p] for _, _, p in reversed(levels))
  ctx.check(tuple(np.shape(y)) == out_shape, 'legacy.output_shape', lambda: dict(got=np.shape(y), want=out_shape))
  # the boxed (metadata_params) API and the legacy API describe the same stacked arrays: same values for the same key
  boxed_specs = [(col, name, names, shape, 'raw' if names is None else 'part') for col, name, names, shape in specs]
  bmod = linen_module(boxed_specs, levels)
  bvars = bmod.init(key, c, x)
  from flax.core import meta
  ctx.check(close(meta.unbox(bvars), {k: variables[k] for k in cols}), 'boxed_vs_raw:legacy.init', None)
  del LOG[:], SEEN[:]


# ---------------------------------------------------------------------------------------------
# unit level: add_axis / remove_axis are inverses (exhaustive over rank <= 3, index in [-(rank+1), rank])


def all_name_tuples(max_len, pool=('a', 'b', 'c', None)):
  out = []
  for n in range(max_len + 1):
    for t in itertools.product(pool, repeat=n):
      strs = [s for s in t if s is not None]
      if len(set(strs)) == len(strs):
        out.append(t)
  return out


def run_meta(ctx):
  from flax.core import meta
  from flax.linen import spmd as lspmd
  from flax import errors, nnx
  from flax.nnx import spmd as nspmd
  import jax.numpy as jnp

  cases = [(names, idx) for names in all_name_tuples(3) for idx in axis_range(len(names), True)]
  for i, (names, idx) in ctx.items(cases, 'meta'):
    with ctx.case('meta', i, dict(names=names, index=idx), nontrivial=len(names) >= 1):
      del LOG[:]
      shape = shape_of(names)
      stacked = shape_insert(shape, idx, LEN[P1])
      val = jnp.zeros(stacked)  # as in lift.vmap: add_axis sees the stacked value
      params = {meta.PARTITION_NAME: P1}
      want = ref_insert(names, idx, P1)
      for cls in (meta.Partitioned, lspmd.LogicallyPartitioned):
        x = cls(val, names)
        y = x.add_axis(idx, params)
        ctx.op('Partitioned.add_axis')
        ok = type(y) is cls and tuple(y.names) == want and y.value is val and aligned_by_size(tuple(y.names), stacked)
        ctx.check(ok, 'linen.negative_axis_misaligned:unit' if idx < 0 else 'meta.add_axis',
                  lambda: dict(cls=cls.__name__, names=names, index=idx, got=y.names, want=want))
        try:
          z = y.remove_axis(idx, params)
        except Exception as e:  # noqa: BLE001
          ctx.check(False, 'linen.negative_axis:raises' if idx < 0 else 'meta.inverse:raises', dict(names=names, index=idx, error=repr(e)))
          continue
        ctx.op('Partitioned.remove_axis')
        ctx.check(type(z) is cls and tuple(z.names) == tuple(names) and z.value is val,
                  'linen.negative_axis_misaligned:unit_inverse' if idx < 0 else 'meta.inverse',
                  lambda: dict(cls=cls.__name__, names=names, index=idx, added=y.names, removed=z.names))
        # remove . add == id on a tree that already carries p at idx
        w = cls(val, want).remove_axis(idx, params).add_axis(idx, params)
        ctx.check(tuple(w.names) == want, 'linen.negative_axis_misaligned:unit_inverse' if idx < 0 else 'meta.inverse',
                  lambda: dict(order='remove.add', names=want, index=idx, got=w.names))
        # tree-level functions leave unboxed leaves alone
        tree = {'b': x, 'raw': val, 'n': {'b2': cls(val, names)}}
        t2 = meta.add_axis(tree, idx, params)
        ctx.check(t2['raw'] is val and tuple(t2['b'].names) == want and tuple(t2['n']['b2'].names) == want, 'meta.tree_add_axis',
                  lambda: dict(names=names, index=idx))
        t3 = meta.remove_axis(t2, idx, params)
        ctx.check(t3['raw'] is val and tuple(t3['b'].names) == tuple(names), 'meta.inverse', lambda: dict(tree=True, names=names, index=idx))
        if i % 7 == 0:
          try:
            x.add_axis(idx, {})
            ctx.check(False, 'meta.missing_partition_name_accepted', dict(names=names))
          except errors.PartitioningUnspecifiedError:
            ctx.check(True, 'meta.missing_partition_name_accepted')
        # the partition name may equal an entry that is already there (metadata_params={PARTITION_NAME: None} is documented;
        # a repeated string name is legal too): removal is by POSITION, never by value
        n_log = len(LOG)
        for pname in (None, names[0] if names else P2):
          pp = {meta.PARTITION_NAME: pname}
          want_d = ref_insert(names, idx, pname)
          yd = cls(val, names).add_axis(idx, pp)
          ctx.check(tuple(yd.names) == want_d, 'meta.add_axis:duplicate_partition_name', lambda: dict(names=names, index=idx, pname=pname, got=yd.names, want=want_d))
          try:
            zd = yd.remove_axis(idx, pp)
            ctx.check(tuple(zd.names) == tuple(names), 'meta.inverse:duplicate_partition_name',
                      lambda: dict(cls=cls.__name__, names=names, index=idx, pname=pname, added=yd.names, removed=zd.names))
          except Exception as e:  # noqa: BLE001
            ctx.check(False, 'meta.inverse:duplicate_partition_name:raises', dict(names=names, index=idx, pname=pname, error=repr(e)))
        del LOG[n_log:]  # the hook-level size checks assume the distinct partition names P1/P2
      drain_hooks(ctx, 'linen', True)
      del LOG[:]
      # partial-rank names (fewer names than dimensions), index beyond them, k >= 0: only names[index] == p and order are demanded
      for idx2 in range(len(names) + 1, 5):
        y = meta.Partitioned(jnp.zeros((2,) * (idx2 + 1)), names).add_axis(idx2, params)
        ctx.check(len(y.names) > idx2 and y.names[idx2] == P1 and [n for n in y.names if n not in (None, P1)] == [n for n in names if n is not None],
                  'meta.add_axis:partial', lambda: dict(names=names, index=idx2, got=y.names))
        out = nspmd.add_axis(nnx.State({'w': nnx.VariableState(type=nnx.Param, value=jnp.zeros((2,) * idx2), sharding=tuple(names))}), idx2,
                             {nnx.PARTITION_NAME: P1})
        got2 = tuple(out['w'].get_metadata().get('sharding') or ())
        ctx.check(len(got2) > idx2 and got2[idx2] == P1 and [n for n in got2 if n not in (None, P1)] == [n for n in names if n is not None],
                  'nnx.meta.add_axis:partial', lambda: dict(names=names, index=idx2, got=got2))
      del LOG[:]

      # NNX: spmd.add_axis / remove_axis on a State (in place on VariableStates); inside nnx.vmap the value is un-stacked
      inner_val = jnp.zeros(shape)
      st = nnx.State({'w': nnx.VariableState(type=nnx.Param, value=inner_val, sharding=tuple(names)),
                      'u': nnx.VariableState(type=nnx.Param, value=inner_val),
                      'raw': inner_val})
      tm = {nnx.PARTITION_NAME: P1}
      out = nspmd.add_axis(st, idx, tm)
      ctx.op('nnx.spmd.add_axis')
      got = out['w'].get_metadata().get('sharding')
      ctx.check(got is not None and tuple(got) == want and 'sharding' not in out['u'].get_metadata(),
                'nnx.negative_axis_misaligned:unit' if idx < 0 else 'nnx.meta.add_axis', lambda: dict(names=names, index=idx, got=got, want=want))
      try:
        back = nspmd.remove_axis(out, idx, tm)
      except Exception as e:  # noqa: BLE001
        ctx.check(False, 'nnx.negative_axis:raises' if idx < 0 else 'nnx.meta.inverse:raises', dict(names=names, index=idx, error=repr(e)))
      else:
        ctx.op('nnx.spmd.remove_axis')
        gb = back['w'].get_metadata().get('sharding')
        ctx.check(gb is not None and tuple(gb) == tuple(names) and 'sharding' not in back['u'].get_metadata(),
                  'nnx.negative_axis_misaligned:unit_inverse' if idx < 0 else 'nnx.meta.inverse',
                  lambda: dict(names=names, index=idx, got=gb))
      n_log = len(LOG)
      for pname in (None, names[0] if names else P2):
        # partition name equal to an existing entry: removal is by position (see the Linen part above)
        st_d = nnx.State({'w': nnx.VariableState(type=nnx.Param, value=inner_val, sharding=tuple(names))})
        tmd = {nnx.PARTITION_NAME: pname}
        out_d = nspmd.add_axis(st_d, idx, tmd)
        want_d = ref_insert(names, idx, pname)
        gd_ = out_d['w'].get_metadata().get('sharding')
        ctx.check(gd_ is not None and tuple(gd_) == want_d, 'nnx.meta.add_axis:duplicate_partition_name', lambda: dict(names=names, index=idx, pname=pname, got=gd_))
        try:
          back_d = nspmd.remove_axis(out_d, idx, tmd)
          gb_ = back_d['w'].get_metadata().get('sharding')
          ctx.check(gb_ is not None and tuple(gb_) == tuple(names), 'nnx.meta.inverse:duplicate_partition_name',
                    lambda: dict(names=names, index=idx, pname=pname, got=gb_))
        except Exception as e:  # noqa: BLE001
          ctx.check(False, 'nnx.meta.inverse:duplicate_partition_name:raises', dict(names=names, index=idx, pname=pname, error=repr(e)))
      del LOG[n_log:]
      if i % 7 == 0:
        try:
          nspmd.add_axis(st, idx, {})
          ctx.check(False, 'nnx.meta.missing_partition_name_accepted', dict(names=names))
        except ValueError:
          ctx.check(True, 'nnx.meta.missing_partition_name_accepted')
      drain_hooks(ctx, 'nnx', True)
      del LOG[:]
  ctx.exhaustive['meta.add_remove_inverse.rank<=3'] = True


# ---------------------------------------------------------------------------------------------
# get_partition_spec on hand-built trees (exhaustive over name tuples of length <= 3)


def run_pspec(ctx):
  import jax
  import jax.numpy as jnp
  import flax.linen as nn
  from flax import nnx
  from flax.core import meta, freeze
  from flax.linen import spmd as lspmd
  from jax.sharding import PartitionSpec as P, Mesh, NamedSharding

  mesh_axes = ('a', 'b', 'c', 'd', P1, P2)
  mesh = Mesh(np.array(jax.devices()[:1]).reshape((1,) * len(mesh_axes)), mesh_axes)
  tuples = all_name_tuples(3, pool=('a', 'b', 'c', None))
  for i, names in ctx.items(tuples, 'pspec'):
    with ctx.case('pspec', i, dict(names=names), nontrivial=len(names) >= 1):
      shape = shape_of(names)
      arr = jnp.ones(shape)
      tree = {'params': {'w': meta.Partitioned(arr, names), 'lw': lspmd.LogicallyPartitioned(arr, names), 'raw': arr,
                         'scalar': jnp.float32(1.0), 'np': np.ones(shape), 'sds': meta.Partitioned(jax.ShapeDtypeStruct(shape, jnp.float32), names),
                         'asds': jax.ShapeDtypeStruct(shape, jnp.float32)}}
      want = {'params': {'w': P(*names), 'lw': P(*names), 'raw': P(), 'scalar': P(), 'np': P(), 'sds': P(*names), 'asds': P()}}
      for wrap in (lambda t: t, freeze):
        got = nn.get_partition_spec(wrap(tree))
        ctx.op('nn.get_partition_spec')
        ctx.check(_spec_tree_eq(got, want), 'linen.pspec', lambda: dict(names=names, got=repr(got), want=repr(want)))
      # non-array leaves never get names
      got = nn.get_partition_spec({'py': 3.0, 'w': meta.Partitioned(arr, names)})
      ctx.check((got['py'] is None or got['py'] == P()) and got['w'] == P(*names), 'linen.pspec:non_array', lambda: dict(got=repr(got)))
      # get_sharding on a 1-device mesh
      sh = nn.get_sharding(tree, mesh)
      ctx.op('nn.get_sharding')
      ok = all(isinstance(sh['params'][k], NamedSharding) and tuple(sh['params'][k].spec) == tuple(want['params'][k]) for k in want['params'])
      ctx.check(ok, 'linen.get_sharding', lambda: dict(names=names, got=repr(sh)))
      # Partitioned methods
      ctx.check(meta.Partitioned(arr, names).get_partition_spec() == P(*names), 'linen.pspec', None)
      # unbox / replace_boxed keep names and values
      ub = meta.unbox(tree)
      ctx.check(ub['params']['w'] is arr and ub['params']['lw'] is arr and ub['params']['raw'] is arr, 'meta.unbox', None)
      rb = meta.replace_boxed(tree['params'], jax.tree.map(lambda x: x, ub['params']))
      ctx.check(type(rb['w']) is meta.Partitioned and tuple(rb['w'].names) == tuple(names) and type(rb['lw']) is lspmd.LogicallyPartitioned
                and tuple(rb['lw'].names) == tuple(names) and not isinstance(rb['raw'], meta.AxisMetadata), 'meta.replace_boxed',
                lambda: dict(names=names, got=repr(rb)[:300]))

      # NNX
      state = nnx.State({'w': nnx.VariableState(type=nnx.Param, value=arr, sharding=tuple(names)),
                         'u': nnx.VariableState(type=nnx.Param, value=arr),
                         's': nnx.VariableState(type=nnx.BatchStat, value=arr, sharding=tuple(names), tag='x'),
                         'raw': arr, 'scalar': nnx.VariableState(type=nnx.Param, value=jnp.float32(2.0))})
      ps = nnx.get_partition_spec(state)
      ctx.op('nnx.get_partition_spec')
      ok = (tuple(ps['w'].value) == tuple(names) and isinstance(ps['w'].value, P) and ps['u'].value == P() and
            tuple(ps['s'].value) == tuple(names) and ps['s'].type is nnx.BatchStat and ps['raw'] == P() and ps['scalar'].value == P())
      ctx.check(ok, 'nnx.pspec', lambda: dict(names=names, got=repr(ps)[:600]))

      # a Variable bridged from a default LogicallyPartitioned box (its sharding_rules metadata is None): the spec is still
      # computable, with and without a logical_axis_rules context (one rule per distinct name: no priorities involved)
      if names and all(n is not None for n in names) and len(set(names)) == len(names):
        md = lspmd.LogicallyPartitioned(arr, names).to_nnx_metadata()
        bridged = nnx.State({'w': nnx.Param(md.pop('value'), **md).to_state()})
        ctx.op('nnx.get_partition_spec(bridged LogicallyPartitioned)')
        ctx.check(tuple(nnx.get_partition_spec(bridged)['w'].value) == tuple(names), 'nnx.pspec:bridged_logically_partitioned', lambda: dict(names=names))
        rules = tuple((n, 'M' + n) for n in names)
        with nn.logical_axis_rules(rules):
          try:
            got_b = tuple(nnx.get_partition_spec(bridged)['w'].value)
          except Exception as e:  # noqa: BLE001
            got_b = repr(e)[:200]
        ctx.check(got_b == tuple('M' + n for n in names), 'nnx.pspec:bridged_logically_partitioned', lambda: dict(names=names, under_rules=got_b))

      class Holder(nnx.Module):
        def __init__(self):
          self.w = nnx.Param(arr, sharding=tuple(names))
          self.u = nnx.Param(arr)

      ps2 = nnx.get_partition_spec(nnx.state(Holder()))
      ctx.check(tuple(ps2['w'].value) == tuple(names) and ps2['u'].value == P(), 'nnx.pspec', lambda: dict(names=names, got=repr(ps2)[:400]))
      ns = nnx.get_named_sharding(nnx.state(Holder()), mesh)
      ctx.op('nnx.get_named_sharding')
      ctx.check(isinstance(ns['w'].value, NamedSharding) and tuple(ns['w'].value.spec) == tuple(names) and tuple(ns['u'].value.spec) == (),
                'nnx.get_named_sharding', lambda: dict(names=names, got=repr(ns)[:400]))
  ctx.exhaustive['pspec.names<=3'] = True


# ---------------------------------------------------------------------------------------------
# logical_to_mesh_axes: exhaustive

LNAMES = ['a', 'b', 'c']
MESH = ['X', 'Y', 'Z']


def run_rules(ctx):
  from flax.linen import spmd as lspmd
  import flax.linen as nn
  import jax
  from jax.sharding import PartitionSpec as P, Mesh, NamedSharding

  rule_atoms = [(l, m) for l in LNAMES for m in MESH + [None]]
  rule_lists = [rl for n in range(5) for rl in itertools.product(rule_atoms, repeat=n)]
  syms = LNAMES + [None, 'zz_unknown']
  tuples = [t for n in range(4) for t in itertools.product(syms, repeat=n)]
  dup = [len({s for s in t if s is not None}) != len([s for s in t if s is not None]) for t in tuples]
  refs_cache = {}
  l2m = lspmd.logical_to_mesh_axes
  for i, rl in ctx.items(rule_lists, 'rules'):
    with ctx.case('rules', i, rl, nontrivial=len(rl) >= 1):
      bad = None
      nrej = 0
      as_list = list(rl) if i % 2 else rl  # both documented containers
      for t, isdup in zip(tuples, dup):
        try:
          got = l2m(t, as_list)
        except ValueError as e:
          if isdup:
            nrej += 1
            continue
          bad = bad or dict(names=t, raised=repr(e))
          continue
        gt = tuple(got)
        flat = [m for m in gt if m is not None]
        if isdup:  # outside the documented domain if accepted; still never reuse a mesh axis
          if len(set(flat)) != len(flat):
            bad = bad or dict(names=t, got=gt, problem='mesh axis reused')
          continue
        want = ref_l2m(t, rl)
        if type(got) is not P or gt != want or len(set(flat)) != len(flat):
          bad = bad or dict(names=t, got=gt, want=want)
      ctx.event('rules.duplicate_names_rejected', nrej)
      ctx.event('rules.tuples_evaluated', len(tuples))
      ctx.check(bad is None, 'rules.axes', lambda: dict(rules=rl, **bad))
    ctx.op('logical_to_mesh_axes')
  ctx.exhaustive['rules.len<=4.names<=3.mesh<=3+None.tuples<=3'] = True

  # ---- modes, context rules, tree versions, tuple-valued targets (sampled)
  mesh = Mesh(np.array(jax.devices()[:1]).reshape(1, 1, 1), tuple(MESH))
  n_misc = 300 if ctx.tier == 'quick' else 3000
  good = [t for t, d_ in zip(tuples, dup) if not d_]
  for i in ctx.indices(n_misc, 'rules.misc'):
    rng = ctx.rng('rules.misc', i)
    # (1-tuples are not generated: PartitionSpec itself canonicalises ('Z',) to 'Z')
    targets = MESH + [None, ('X', 'Y'), ('Y', 'Z'), ('Z', 'X'), ('X', 'Y', 'Z')]
    rl = tuple((rng.choice(LNAMES), rng.choice(targets)) for _ in range(rng.randrange(0, 6)))
    ts = [rng.choice(good) for _ in range(4)]
    with ctx.case('rules.misc', i, dict(rules=rl, tuples=ts), nontrivial=len(rl) >= 1):
      for t in ts:
        want = ref_l2m(t, rl)
        got = l2m(t, rl)
        flat = [a for m in got if m is not None for a in ((m,) if isinstance(m, str) else m)]
        ctx.check(tuple(got) == want and len(set(flat)) == len(flat), 'rules.axes:tuple_targets', lambda: dict(rules=rl, names=t, got=tuple(got), want=want))
        # rules from the dynamic context
        with nn.logical_axis_rules(rl):
          got_ctx = l2m(t)
        ctx.op('logical_axis_rules')
        ctx.check(tuple(got_ctx) == want, 'rules.context', lambda: dict(rules=rl, names=t, got=tuple(got_ctx), want=want))
        ctx.check(tuple(l2m(t)) == tuple(None if isinstance(n, str) else n for n in t), 'rules.context:leaked', lambda: dict(names=t))
        # a PartitionSpec of logical names is accepted like a tuple
        ctx.check(tuple(l2m(P(*t), rl)) == want, 'rules.axes:pspec_input', lambda: dict(rules=rl, names=t))
      ctx.check(l2m(None, rl) is None, 'rules.axes:none_input', None)
      try:
        l2m(ts[0], dict((k, v) for k, v in rl))
        ctx.check(False, 'rules.bad_rules_type_accepted', dict(rules=rl))
      except ValueError:
        ctx.check(True, 'rules.bad_rules_type_accepted')
      # tree versions
      tree = {'x': P(*ts[0]), 'n': {'y': P(*ts[1]), 'z': None}}
      got = lspmd.logical_to_mesh(tree, rl)
      ctx.op('logical_to_mesh')
      ctx.check(tuple(got['x']) == ref_l2m(ts[0], rl) and tuple(got['n']['y']) == ref_l2m(ts[1], rl) and got['n']['z'] is None,
                'rules.logical_to_mesh', lambda: dict(rules=rl, tree=repr(tree), got=repr(got)))
      gs = lspmd.logical_to_mesh_sharding({'x': P(*ts[0]), 'y': P(*ts[1])}, mesh, rl)
      ctx.op('logical_to_mesh_sharding')
      ctx.check(all(isinstance(gs[k], NamedSharding) and tuple(gs[k].spec) == ref_l2m(t, rl) and gs[k].mesh == mesh for k, t in (('x', ts[0]), ('y', ts[1]))),
                'rules.logical_to_mesh_sharding', lambda: dict(rules=rl, got=repr(gs)))
      # fallback modes of with_logical_constraint (documented: behaviour "when no matching rule is found"); only the unambiguous
      # situations are decided: a name no rule mentions at all / every name assigned.  Empty rule lists are a documented no-op.
      if rl:
        import jax.numpy as jnp
        t = ts[2]
        xarr = jnp.ones(tuple(2 for _ in t))
        mentioned = {l for l, _ in rl}
        unmentioned = [n for n in t if isinstance(n, str) and n not in mentioned]
        want = ref_l2m(t, rl)
        all_assigned = all((not isinstance(n, str)) or (w is not None) for n, w in zip(t, want))
        for fb in lspmd.RulesFallback:
          try:
            out = lspmd.with_logical_constraint(xarr, t, rules=rl, fallback=fb)
            raised = None
          except ValueError as e:
            out, raised = None, e
          ctx.op('with_logical_constraint')
          if fb is lspmd.RulesFallback.RAISE_ERROR and unmentioned:
            ctx.check(raised is not None, 'rules.fallback:raise_error_silent', lambda: dict(rules=rl, names=t))
          elif fb is not lspmd.RulesFallback.RAISE_ERROR or all_assigned:
            ctx.check(raised is None and out is not None and np.array_equal(out, xarr), 'rules.fallback', lambda: dict(rules=rl, names=t, fallback=fb.name, raised=repr(raised)))


# ---------------------------------------------------------------------------------------------


def run(ctx):
  import time
  install_hooks()
  t0 = time.time()
  run_rules(ctx)
  ctx.extra['t_rules'] = time.time() - t0
  t0 = time.time()
  run_meta(ctx)
  run_pspec(ctx)
  ctx.extra['t_unit'] = time.time() - t0
  t0 = time.time()

  lcases = transform_cases(ctx, 'linen')
  for i, case in ctx.items(lcases, 'linen'):
    d = linen_descriptor(ctx, i, case)
    with ctx.case('linen', i, d, nontrivial=True, allow=(CaseAbort,)):
      run_linen_case(ctx, d)
    del LOG[:], SEEN[:]

  ctx.extra['t_linen'] = time.time() - t0
  t0 = time.time()
  ncases = transform_cases(ctx, 'nnx')
  for i, case in ctx.items(ncases, 'nnx'):
    d = nnx_descriptor(ctx, i, case)
    with ctx.case('nnx', i, d, nontrivial=True, allow=(CaseAbort,)):
      run_nnx_case(ctx, d)
    del LOG[:], SEEN[:]
  for i, d in ctx.items(nnx_mixed_cases(ctx), 'nnx.mixed'):
    with ctx.case('nnx.mixed', i, d, nontrivial=True, allow=(CaseAbort,)):
      run_nnx_mixed_case(ctx, d)
    del LOG[:], SEEN[:]
  ctx.extra['t_nnx'] = time.time() - t0
  t0 = time.time()
  for i, case in ctx.items(legacy_cases(ctx), 'legacy'):
    d = legacy_descriptor(ctx, i, case)
    with ctx.case('legacy', i, d, nontrivial=True, allow=(CaseAbort,)):
      run_legacy_case(ctx, d)
    del LOG[:], SEEN[:]
  ctx.extra['t_legacy'] = time.time() - t0
