"""C10 — state-dict / msgpack serialization round-trips exactly and rejects mismatches.

Monitor shape: bit-exact tree comparator + input-snapshot contract around to_bytes / to_state_dict / msgpack_serialize,
single-edit mismatch enumeration over the saved state with expected outcome derived from the property text."""
import collections

import numpy as np

LEVEL = 'exploration'
LEVEL_TEXT = ('Generated trees over dict/FrozenDict/list/tuple/namedtuple/struct.dataclass/PyTreeNode/TrainState with NumPy and JAX '
              'leaves of every numeric dtype (incl. bfloat16, float8 variants, int4/uint4), ranks 0-4, empty arrays, C/Fortran/strided/'
              'negative-stride/broadcast/non-native-byte-order layouts and Python scalars are round-tripped through the real '
              'to_bytes/from_bytes and to_state_dict/from_state_dict under several MAX_CHUNK_SIZE thresholds (1 byte upward) and '
              'compared bit-exactly; inputs are snapshotted before/after; every single-edit mutant of the saved state (delete/add '
              'key, shorten/lengthen sequence, rename/add/delete field) and every key-order permutation is restored and the outcome '
              'compared with what the property text prescribes.'
              ' Round e/f: Rec namedtuple, rename-index mutant, restore from a frozen state dict.')
LEVEL_NOTE = ('Trusts vf/snap.py comparators. Python ints outside 64 bits, object dtypes, non-string dict keys, OrderedDict/defaultdict '
              'are outside the property and not generated. Byte order is treated as layout (dtype.name + native bytes must match).')
TECHNIQUE = 'runtime monitoring: bit-exact round-trip comparator + input snapshot contract + single-edit mismatch enumeration on the real serializers'
RULE = ('seeded random trees (depth<=4, <=5 children) over 9 container kinds x leaf kinds (array dtype x shape x layout, Python '
        'scalars, NumPy scalars, None/bytes/str/complex) x chunk thresholds {1,2,3,7,8,64,default}; for each tree all single-edit '
        'mutants of the saved state (<=40 per tree). distinct = structural signature (container kinds, dtypes, shapes, layouts); '
        'non-trivial = at least one array leaf and one nested container.')
ASSUMPTIONS = ['msgpack (third party) encodes/decodes bin/str/ext faithfully', 'vf.compat JAX aliases are faithful']
PLAN = {'quick': dict(workers=4, timeout_s=900), 'thorough': dict(workers=14, timeout_s=3000)}
MIN_EVENTS = {'quick': {'oracle:roundtrip.bytes': 400, 'oracle:roundtrip.state_dict': 400, 'oracle:input_unchanged': 800,
                        'oracle:mismatch': 1500, 'oracle:chunk_invariance': 300},
              'thorough': {'oracle:roundtrip.bytes': 8000, 'oracle:mismatch': 30000}}

Point = collections.namedtuple('Point', ['x', 'y'])
Triple = collections.namedtuple('Triple', ['first', 'second', 'third'])
# field names of the pre-2022 namedtuple encoding ({'name','fields','values'}): an ordinary namedtuple may use them too
Rec = collections.namedtuple('Rec', ['name', 'fields', 'values'])


def _classes():
  """struct dataclasses are created lazily (flax import must follow compat.install)."""
  global _CLS
  try:
    return _CLS
  except NameError:
    pass
  from flax import struct

  @struct.dataclass
  class Box:
    a: object
    b: object
    label: str = struct.field(pytree_node=False, default='static')

  class Node(struct.PyTreeNode):
    left: object
    right: object
    depth: int = struct.field(pytree_node=False, default=0)

  class SubNode(Node):
    extra: object = None

  _CLS = dict(Box=Box, Node=Node, SubNode=SubNode)
  return _CLS


def dtypes():
  import jax.numpy as jnp
  import ml_dtypes
  names = ['bool', 'int8', 'int16', 'int32', 'int64', 'uint8', 'uint16', 'uint32', 'uint64', 'float16', 'float32', 'float64',
           'complex64', 'complex128']
  out = [np.dtype(n) for n in names]
  for n in ('bfloat16', 'float8_e4m3fn', 'float8_e5m2', 'float8_e4m3b11fnuz', 'float8_e4m3fnuz', 'float8_e5m2fnuz', 'int4', 'uint4'):
    if hasattr(ml_dtypes, n):
      out.append(np.dtype(getattr(ml_dtypes, n)))
  return out


SHAPES = [(), (0,), (1,), (3,), (2, 3), (3, 0, 2), (2, 1, 3), (2, 2, 2, 2), (5,), (4, 3)]
LAYOUTS = ['C', 'F', 'strided', 'negstride', 'broadcast', 'byteswapped', 'jax', 'transposed']


def make_array(rng, dt, shape, layout):
  """Returns (array, layout actually used)."""
  n = int(np.prod(shape)) if shape else 1
  nr = np.random.default_rng(rng.getrandbits(32))
  if dt.kind == 'b':
    base = nr.integers(0, 2, size=shape).astype(dt)
  elif dt.kind in 'iu':
    lo, hi = (-8, 8) if dt.name == 'int4' else (0, 16) if dt.name == 'uint4' else (-100, 100) if dt.kind == 'i' else (0, 200)
    base = nr.integers(lo, hi, size=shape).astype(dt)
  elif dt.kind == 'c':
    base = (nr.normal(size=shape) + 1j * nr.normal(size=shape)).astype(dt)
  else:
    base = nr.normal(size=shape).astype(dt)
  if layout == 'jax':
    import jax
    import jax.numpy as jnp
    if dt.name in ('int64', 'uint64', 'float64', 'complex128') and not jax.config.jax_enable_x64:
      return np.ascontiguousarray(base), 'C'
    return jnp.asarray(base), 'jax'
  if layout == 'F' and len(shape) >= 2:
    return np.asfortranarray(base), 'F'
  if layout == 'transposed' and len(shape) >= 2:
    big = nr.normal(size=shape[::-1]).astype(dt) if dt.kind not in 'biu' else np.ascontiguousarray(base.T)
    return big.T if big.T.shape == tuple(shape) else base, 'transposed'
  if layout == 'strided' and len(shape) >= 1 and shape[0] > 0:
    big = np.repeat(base, 2, axis=0)
    return big[::2], 'strided'
  if layout == 'negstride' and len(shape) >= 1:
    return base[::-1], 'negstride'
  if layout == 'broadcast' and len(shape) >= 1:
    return np.broadcast_to(base[:1] if shape[0] > 0 else base, shape) if shape[0] > 0 else base, 'broadcast'
  if layout == 'byteswapped' and dt.itemsize > 1 and dt.isbuiltin:
    return base.astype(dt.newbyteorder('>')), 'byteswapped'
  return np.ascontiguousarray(base), 'C'


def make_leaf(rng, dts):
  r = rng.random()
  if r < 0.62:
    dt = rng.choice(dts)
    shape = rng.choice(SHAPES)
    arr, lay = make_array(rng, dt, shape, rng.choice(LAYOUTS))
    return arr, ('arr', dt.name, tuple(shape), lay)
  if r < 0.70:
    dt = rng.choice([d for d in dts if d.isbuiltin])
    v = make_array(rng, dt, (), 'C')[0][()]
    return v, ('npscalar', dt.name)
  kind = rng.choice(['int', 'float', 'bool', 'complex', 'none', 'bytes', 'str', 'bigint', 'negfloat', 'nan', 'inf'])
  val = {'int': rng.randint(-1000, 1000), 'float': rng.random() * 10, 'bool': rng.random() < 0.5, 'complex': complex(rng.random(), -rng.random()),
         'none': None, 'bytes': bytes(rng.getrandbits(8) for _ in range(rng.randint(0, 5))), 'str': rng.choice(['', 'a', 'héllo', 'x/y']),
         'bigint': rng.choice([2**63 - 1, -2**63, 2**64 - 1, 2**40]), 'negfloat': -0.0, 'nan': float('nan'), 'inf': float('-inf')}[kind]
  return val, ('py', kind)


KEYS = ['a', 'b', 'c', 'params', 'w', '0', '10', '2', 'x y', '', 'ü']


def make_tree(rng, dts, depth, sig):
  from flax.core import FrozenDict
  C = _classes()
  if depth <= 0 or rng.random() < 0.25:
    leaf, s = make_leaf(rng, dts)
    sig.append(s)
    return leaf
  kind = rng.choice(['dict', 'dict', 'frozen', 'list', 'tuple', 'point', 'triple', 'rec', 'box', 'node', 'subnode', 'emptydict', 'emptylist', 'emptytuple'])
  sig.append(('c', kind))
  sub = lambda: make_tree(rng, dts, depth - 1, sig)
  if kind in ('dict', 'frozen'):
    ks = rng.sample(KEYS, rng.randint(1, 4))
    d = {k: sub() for k in ks}
    return d if kind == 'dict' else FrozenDict(d)
  if kind == 'list':
    return [sub() for _ in range(rng.randint(1, 3))]
  if kind == 'tuple':
    return tuple(sub() for _ in range(rng.randint(1, 3)))
  if kind == 'point':
    return Point(sub(), sub())
  if kind == 'triple':
    return Triple(sub(), sub(), sub())
  if kind == 'rec':
    return Rec(sub(), sub(), sub())
  if kind == 'box':
    return C['Box'](a=sub(), b=sub(), label=rng.choice(['s1', 's2']))
  if kind == 'node':
    return C['Node'](left=sub(), right=sub(), depth=depth)
  if kind == 'subnode':
    return C['SubNode'](left=sub(), right=sub(), depth=depth, extra=sub())
  return {'emptydict': {}, 'emptylist': [], 'emptytuple': ()}[kind]


def make_train_state(rng, dts, sig):
  import jax.numpy as jnp
  import optax
  from flax.training import train_state
  sig.append(('c', 'TrainState'))
  params = {'dense': {'kernel': jnp.asarray(np.random.default_rng(rng.getrandbits(32)).normal(size=(2, 3)).astype(np.float32)),
                      'bias': jnp.zeros((3,), jnp.bfloat16)}}
  tx = rng.choice([optax.sgd(0.1), optax.adam(1e-3), optax.chain(optax.clip(1.0), optax.adamw(1e-3))])
  st = train_state.TrainState.create(apply_fn=lambda *a: None, params=params, tx=tx)
  if rng.random() < 0.5:
    st = st.apply_gradients(grads=params)
  return st


# ---------------------------------------------------------------------------------------------
# comparators


def is_dc(x):
  import dataclasses
  return dataclasses.is_dataclass(x) and not isinstance(x, type)


def tree_same(a, b, path=()):
  """None if the trees have the same structure/container types and bit-equal leaves, else the first differing path."""
  from collections.abc import Mapping
  from flax.core import FrozenDict
  from vf.snap import leaf_equal
  if path == ():
    # the container walk below goes through the public read API ([] re-wraps nested dicts of a FrozenDict): the pytree structure
    # JAX sees and what unfreeze() returns are part of "same structure and container types" as well
    import jax
    from flax.core import unfreeze
    try:
      sa, sb = jax.tree_util.tree_structure(a), jax.tree_util.tree_structure(b)
    except Exception:  # noqa: BLE001 - not a pytree (opaque leaves)
      sa = sb = None
    if sa != sb:
      return path, 'pytree structure', str(sa)[:200], str(sb)[:200]

    def frozen_inside(x):
      if isinstance(x, FrozenDict):
        return True
      if isinstance(x, dict):
        return any(frozen_inside(v) for v in x.values())
      return False
    if isinstance(b, FrozenDict) and isinstance(a, FrozenDict) and frozen_inside(unfreeze(b)) and not frozen_inside(unfreeze(a)):
      return path, 'container', 'unfreeze(original) is plain', 'unfreeze(restored) still holds a FrozenDict'
  if isinstance(a, (dict, FrozenDict)) or isinstance(b, (dict, FrozenDict)):
    if type(a) is not type(b) or list(a.keys()) != list(b.keys()):
      return path, 'container', type(a).__name__, type(b).__name__
    for k in a:
      d = tree_same(a[k], b[k], path + (k,))
      if d:
        return d
    return None
  if isinstance(a, (list, tuple)) or isinstance(b, (list, tuple)):
    if type(a) is not type(b) or len(a) != len(b):
      return path, 'container', type(a).__name__, type(b).__name__
    for i, (x, y) in enumerate(zip(a, b)):
      d = tree_same(x, y, path + (i,))
      if d:
        return d
    return None
  if is_dc(a) or is_dc(b):
    import dataclasses
    if type(a) is not type(b):
      return path, 'container', type(a).__name__, type(b).__name__
    for f in dataclasses.fields(a):
      va, vb = getattr(a, f.name), getattr(b, f.name)
      if f.metadata.get('pytree_node', True):
        d = tree_same(va, vb, path + (f.name,))
        if d:
          return d
      elif va is not vb and va != vb:
        return path + (f.name,), 'static field changed'
    return None
  if isinstance(a, tuple(_opaque_types())) or isinstance(b, tuple(_opaque_types())):
    return None if type(a) is type(b) else (path, 'opaque', type(a).__name__, type(b).__name__)
  return None if leaf_equal(a, b) else (path, 'leaf', _lr(a), _lr(b))


def _opaque_types():
  return ()


def _lr(x):
  try:
    a = np.asarray(x)
    return '%s%s %s' % (a.dtype.name, a.shape, np.asarray(a).tobytes()[:24].hex())
  except Exception:  # noqa: BLE001
    return repr(x)[:60]


def leaf_at(tree, path):
  for k in path:
    tree = getattr(tree, k) if is_dc(tree) or (isinstance(tree, tuple) and hasattr(tree, '_fields') and isinstance(k, str)) else tree[k]
  return tree


def rt_mech(base, tree, d):
  """Mechanism name for a round-trip difference: byte-swapped source arrays are one known mechanism."""
  if d and len(d) >= 2 and d[1] == 'leaf':
    try:
      leaf = leaf_at(tree, d[0])
      if isinstance(leaf, np.ndarray) and not leaf.dtype.isnative:
        return base + ':nonnative_byteorder'
    except Exception:  # noqa: BLE001
      pass
  return base


def state_containers(target, path=()):
  """Container nodes of the target with their state-dict path and kind."""
  from flax.core import FrozenDict
  import dataclasses
  out = []
  if isinstance(target, (dict, FrozenDict)):
    out.append((path, 'dict', list(target.keys())))
    for k, v in target.items():
      out += state_containers(v, path + (k,))
  elif isinstance(target, tuple) and hasattr(target, '_fields'):
    out.append((path, 'namedtuple', list(target._fields)))
    for k in target._fields:
      out += state_containers(getattr(target, k), path + (k,))
  elif isinstance(target, (list, tuple)):
    out.append((path, 'seq', [str(i) for i in range(len(target))]))
    for i, v in enumerate(target):
      out += state_containers(v, path + (str(i),))
  elif is_dc(target):
    names = [f.name for f in dataclasses.fields(target) if f.metadata.get('pytree_node', True)]
    out.append((path, 'dataclass', names))
    for k in names:
      out += state_containers(getattr(target, k), path + (k,))
  return out


def edit(state, path, fn):
  """Copy of the nested state dict with fn applied to the dict at path."""
  if not path:
    d = dict(state)
    fn(d)
    return d
  d = dict(state)
  d[path[0]] = edit(state[path[0]], path[1:], fn)
  return d


def get(state, path):
  for k in path:
    state = state[k]
  return state


def run_tree(ctx, tree, rng, thresholds, want_mutants=True):
  from flax import serialization as ser
  from vf import snap
  default_chunk = ser.MAX_CHUNK_SIZE
  before = snap.snap(tree)

  # ---- to_state_dict / from_state_dict
  sd = ser.to_state_dict(tree)
  ctx.op('to_state_dict')
  ctx.check(snap.diff(before, snap.snap(tree)) is None, 'input_unchanged:to_state_dict', lambda: dict(diff=snap.diff(before, snap.snap(tree))))
  back = ser.from_state_dict(tree, sd)
  ctx.op('from_state_dict')
  ctx.check(tree_same(tree, back) is None, 'roundtrip.state_dict', lambda: dict(diff=repr(tree_same(tree, back))[:600]))
  ctx.check(snap.diff(before, snap.snap(tree)) is None, 'input_unchanged:from_state_dict', None)
  if isinstance(sd, dict):
    # the same state handed over as a FrozenDict (a state that went through flax.core.freeze): restoring matches by key all the same
    from flax.core import freeze
    try:
      back_f = ser.from_state_dict(tree, freeze(sd))
      ctx.check(tree_same(tree, back_f) is None, 'roundtrip.state_dict:frozen_state', lambda: dict(diff=repr(tree_same(tree, back_f))[:600]))
    except Exception as e:  # noqa: BLE001
      ctx.check(False, 'roundtrip.state_dict:frozen_state', dict(error=repr(e)[:300]))

  restored = {}
  enc0 = None
  for th in thresholds:
    ser.MAX_CHUNK_SIZE = default_chunk if th == 'default' else th
    try:
      enc = ser.to_bytes(tree)
      ctx.op('to_bytes')
      ctx.check(snap.diff(before, snap.snap(tree)) is None, 'input_unchanged:to_bytes',
                lambda: dict(threshold=th, diff=repr(snap.diff(before, snap.snap(tree)))[:600]))
      back = ser.from_bytes(tree, enc)
      ctx.op('from_bytes')
      ctx.check(tree_same(tree, back) is None, rt_mech('roundtrip.bytes', tree, tree_same(tree, back)), lambda: dict(threshold=th, diff=repr(tree_same(tree, back))[:600]))
      restored[th] = back
      if enc0 is None:
        enc0 = enc
      # msgpack_serialize(in_place=False) leaves its argument (a state dict) untouched and decodes to the same state
      sd2 = ser.to_state_dict(tree)
      sb = snap.snap(sd2)
      enc2 = ser.msgpack_serialize(sd2)
      ctx.op('msgpack_serialize')
      ctx.check(snap.diff(sb, snap.snap(sd2)) is None, 'input_unchanged:msgpack_serialize',
                lambda: dict(threshold=th, diff=repr(snap.diff(sb, snap.snap(sd2)))[:600]))
      back2 = ser.from_state_dict(tree, ser.msgpack_restore(enc2))
      ctx.op('msgpack_restore')
      ctx.check(tree_same(tree, back2) is None, rt_mech('roundtrip.msgpack', tree, tree_same(tree, back2)), lambda: dict(threshold=th, diff=repr(tree_same(tree, back2))[:600]))
    finally:
      ser.MAX_CHUNK_SIZE = default_chunk
  ths = list(restored)
  for a, b in zip(ths, ths[1:]):
    ctx.check(tree_same(restored[a], restored[b]) is None, 'chunk_invariance', lambda: dict(thresholds=(a, b)))

  if not want_mutants or enc0 is None:
    return
  # ---- mismatch enumeration on the saved state (decoded once; edits copy the spine)
  state = ser.msgpack_restore(enc0)
  if not isinstance(state, dict):
    return
  conts = state_containers(tree)
  rng.shuffle(conts)
  n_mut = 0
  for path, kind, names in conts:
    if n_mut > 40:
      break
    pstr = '/'.join(('.',) + tuple(path))
    try:
      node = get(state, path)
    except (KeyError, TypeError):
      continue
    if not isinstance(node, dict):
      continue

    def expect_raise(edited, what):
      try:
        out = ser.from_state_dict(tree, edited)
      except ValueError as e:
        ctx.check(pstr in str(e), 'mismatch:error_without_path', lambda: dict(edit=what, path=pstr, error=str(e)[:300]))
        return
      except Exception as e:  # noqa: BLE001 - wrong exception class: data is not invented, but the contract says ValueError
        ctx.check(False, 'mismatch:wrong_exception_type', dict(edit=what, path=pstr, error=repr(e)[:300]))
        return
      ctx.check(False, 'mismatch:accepted', dict(edit=what, path=pstr, kind=kind, result=repr(out)[:300]))

    def expect_same(edited, what):
      try:
        out = ser.from_state_dict(tree, edited)
      except Exception as e:  # noqa: BLE001
        ctx.check(False, 'mismatch:surplus_key_rejected', dict(edit=what, path=pstr, error=repr(e)[:300]))
        return
      ctx.check(tree_same(tree, out) is None, rt_mech('mismatch:surplus_changed_result', tree, tree_same(tree, out)), lambda: dict(edit=what, path=pstr))

    # key order never matters
    if len(node) >= 2:
      perm = edit(state, path, lambda d: [d.__setitem__(k, d.pop(k)) for k in list(d.keys())[::-1]])
      expect_same(perm, 'reverse key order')
      n_mut += 1
    if names:
      k = rng.choice(names)
      expect_raise(edit(state, path, lambda d: d.pop(k)), 'delete %r' % k)
      n_mut += 1
    if kind == 'dict':
      expect_same(edit(state, path, lambda d: d.__setitem__('zz_surplus', 1)), 'add surplus key')
      n_mut += 1
    elif kind == 'seq':
      expect_raise(edit(state, path, lambda d: d.__setitem__(str(len(names)), 1)), 'append element')
      n_mut += 1
      if names:
        # same length, one index missing ("a target entry missing from the saved state")
        k3 = rng.choice(names)
        expect_raise(edit(state, path, lambda d: d.__setitem__('x' + k3, d.pop(k3))), 'rename index %r' % k3)
        n_mut += 1
    else:
      expect_raise(edit(state, path, lambda d: d.__setitem__('zz_surplus', 1)), 'add unknown field')
      if names:
        k2 = rng.choice(names)
        expect_raise(edit(state, path, lambda d: d.__setitem__(k2 + '_renamed', d.pop(k2))), 'rename field %r' % k2)
      n_mut += 2
  ctx.event('mutants', n_mut)


def run(ctx):
  dts = dtypes()
  ctx.extra['dtypes'] = [d.name for d in dts]
  n = 900 if ctx.tier == 'quick' else 12000
  all_th = [1, 2, 3, 7, 8, 64, 'default']
  for i in ctx.indices(n, 'tree'):
    rng = ctx.rng('tree', i)
    sig = []
    if i % 25 == 24:
      tree = make_train_state(rng, dts, sig)
    else:
      tree = make_tree(rng, dts, rng.randint(1, 4), sig)
      if not isinstance(tree, (dict, list, tuple)) and not is_dc(tree) and type(tree).__name__ != 'FrozenDict':
        tree = {'leaf': tree}
        sig.append(('c', 'wrap'))
    ths = ['default'] + rng.sample(all_th[:-1], 2 if ctx.tier == 'quick' else 3)
    nontrivial = any(s[0] == 'arr' for s in sig) and sum(1 for s in sig if s[0] == 'c') >= 2
    with ctx.case('tree', i, dict(signature=sig[:40], thresholds=ths), nontrivial=nontrivial):
      run_tree(ctx, tree, rng, ths)

  # dtype x layout x threshold grid on single-array trees (exhaustive over the lists above)
  grid = [(dt, shape, lay) for dt in dts for shape in SHAPES for lay in LAYOUTS]
  if ctx.tier == 'quick':
    grid = grid[::5]
  for i, (dt, shape, lay) in ctx.items(grid, 'grid'):
    rng = ctx.rng('grid', i)
    arr, used = make_array(rng, dt, shape, lay)
    with ctx.case('grid', i, dict(dtype=dt.name, shape=shape, layout=used), nontrivial=True):
      run_tree(ctx, {'w': arr, 'n': [arr]}, rng, all_th if ctx.tier == 'thorough' else [1, 8, 'default'], want_mutants=False)
  if ctx.tier == 'thorough':
    ctx.exhaustive['dtype x shape x layout x threshold grid'] = True
