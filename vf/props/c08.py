"""C08 — NNX vmap / scan / grad match the loop, the stack and jax.grad of the functional form.

Monitor shape: shadow-model reference. A small stateful NNX module (Params, a custom Variable type, an int counter, a running statistic)
is built from raw arrays; the reference closes over the raw arrays only (no nnx.split/merge): per-index / per-step evaluation of the
documented cell formula on slices, threading of Carry state, jax.grad of the loss as a function of the selected Variables' values.
After every call the Variables of every argument are compared with the reference state."""
import itertools

import numpy as np

LEVEL = 'exploration'
LEVEL_TEXT = ('nnx.vmap with StateAxes assignments of Variable types / path filters to axis 0-2 or None, in/out axes, sizes 1-4, modules created '
              'inside vmap with split_rngs; nnx.scan with Carry / axis / broadcast state, length 1-4, reverse, carry-only and carry+xs forms, '
              'stacked layers; nnx.grad / value_and_grad with argnums and DiffState filters, has_aux; each compared with a NumPy/JAX '
              'reference over raw arrays and with the post-call state the reference computation leaves (stacked per-index updates, final '
              'carry, forward side effects applied once); inconsistent aliasing across arguments must be rejected.'
              ' Further streams: negative axes, call histories with rejected calls on one grad object, NNX objects of'
              ' every kind in the scan carry, argnums in any order and as negative positions.'
              ' Round f: bare_variables (stateful arguments that are bare nnx.Variables under vmap / grad / scan).'
              ' Round g: in_axes given as a list.')
LEVEL_NOTE = 'Reference = the cell formula written over raw arrays + jax.grad (trusted); float32 same-program tolerance.'
TECHNIQUE = 'runtime monitoring: shadow-model loop/stack/autodiff reference on the real nnx.vmap / nnx.scan / nnx.grad'
RULE = ('case = (transform, axis assignment per Variable group, sizes, in/out axes, reverse, argnums/DiffState filter, has_aux). distinct = '
        'distinct descriptor; non-trivial = size/length >= 2.')
ASSUMPTIONS = ['jax.grad / jax.vmap are correct', 'vf.compat aliases are faithful']
PLAN = {'quick': dict(workers=8, timeout_s=1500), 'thorough': dict(workers=14, timeout_s=3400)}
MIN_EVENTS = {'quick': {'oracle:vmap': 80, 'oracle:scan': 80, 'oracle:grad': 80, 'oracle:state_after': 150, 'oracle:aliasing': 6, 'oracle:split_rngs': 10},
              'thorough': {'oracle:vmap': 1200, 'oracle:scan': 1200, 'oracle:grad': 1200}}

TOL = dict(rtol=1e-5, atol=1e-5)


def classes():
  global _C
  try:
    return _C
  except NameError:
    pass
  import jax.numpy as jnp
  from flax import nnx

  class Gain(nnx.Variable):
    pass

  class Count(nnx.Variable):
    pass

  class Cell(nnx.Module):
    def __init__(self, arrays):
      self.w = nnx.Param(jnp.asarray(arrays['w']))
      self.b = nnx.Param(jnp.asarray(arrays['b']), tag='bias')
      self.gain = Gain(jnp.asarray(arrays['gain']))
      self.count = Count(jnp.asarray(arrays['count']))
      self.stat = nnx.BatchStat(jnp.asarray(arrays['stat']))

    def __call__(self, x):
      y = jnp.tanh(x @ self.w.value + self.b.value) * self.gain.value - 0.1 * self.stat.value
      self.count.value = self.count.value + 1
      self.stat.value = 0.9 * self.stat.value + 0.1 * y.mean(axis=0)
      return y

  class RandCell(nnx.Module):
    def __init__(self, d, rngs):
      self.lin = nnx.Linear(d, d, rngs=rngs)
      self.drop_key = nnx.Cache(rngs.dropout())

  _C = dict(Gain=Gain, Count=Count, Cell=Cell, RandCell=RandCell)
  return _C


def cell_ref(a, x):
  """The cell formula over raw arrays (float64). Returns (y, new arrays)."""
  x = np.asarray(x, np.float64)
  y = np.tanh(x @ np.asarray(a['w'], np.float64) + np.asarray(a['b'], np.float64)) * np.asarray(a['gain'], np.float64) - 0.1 * np.asarray(a['stat'], np.float64)
  new = dict(a)
  new['count'] = np.asarray(a['count']) + 1
  new['stat'] = 0.9 * np.asarray(a['stat'], np.float64) + 0.1 * y.mean(axis=0)
  return y, new


def base_arrays(nr, d):
  return dict(w=nr.uniform(-1, 1, size=(d, d)).astype(np.float32), b=nr.uniform(-1, 1, size=(d,)).astype(np.float32),
              gain=nr.uniform(0.5, 1.5, size=(d,)).astype(np.float32), count=np.asarray(nr.integers(0, 5), np.int32),
              stat=nr.uniform(-1, 1, size=(d,)).astype(np.float32))


def stacked(arrs, axes):
  """arrs: list of per-index array dicts; axes: name -> axis or None (shared: taken from index 0)."""
  out = {}
  for k in arrs[0]:
    ax = axes[k]
    out[k] = arrs[0][k] if ax is None else np.stack([a[k] for a in arrs], axis=ax)
  return out


def state_of(model):
  return {k: np.asarray(getattr(model, k).value) for k in ('w', 'b', 'gain', 'count', 'stat')}


def close_arrays(got, want):
  return set(got) == set(want) and all(np.shape(got[k]) == np.shape(want[k]) and np.allclose(np.asarray(got[k], np.float64), np.asarray(want[k], np.float64), **TOL)
                                       for k in want)


def axes_to_state_axes(axes, C):
  """name->axis mapping expressed through Variable-type / path / tag filters (several equivalent spellings)."""
  from flax import nnx
  # groups: Param w, Param b (tag 'bias'), Gain, Count, BatchStat
  spec = {}
  if axes['w'] == axes['b']:
    spec[nnx.Param] = axes['w']
  else:
    spec['bias'] = axes['b']               # tag filter first: first match wins
    spec[nnx.PathContains('w')] = axes['w']
  spec[C['Gain']] = axes['gain']
  if axes['count'] == axes['stat']:
    spec[(C['Count'], nnx.BatchStat)] = axes['count']
  else:
    spec[C['Count']] = axes['count']
    spec[...] = axes['stat']
  return nnx.StateAxes(spec)


def rank_ok(name, ax, d):
  rank = {'w': 2, 'b': 1, 'gain': 1, 'count': 0, 'stat': 1}[name]
  return ax is None or ax <= rank


def run_vmap(ctx, i, rng):
  import jax.numpy as jnp
  from flax import nnx
  C = classes()
  d, n, bsz = rng.randint(1, 3), rng.randint(1, 4), 2
  axes = dict(w=rng.choice([0, 0, 1, 2, None, -1, -2]), b=rng.choice([0, 1, None, -1]), gain=rng.choice([None, 0, 1]), count=rng.choice([0, -1]), stat=rng.choice([0, 1, -1, -2]))
  if axes['w'] is None and axes['b'] is not None and rng.random() < 0.5:
    axes['b'] = None
  in_x, out_y = rng.choice([0, 0, 1, -1]), rng.choice([0, 0, 1, 2, -1])
  desc = dict(d=d, n=n, axes=axes, in_axes_x=in_x, out_axes=out_y)
  with ctx.case('vmap', i, desc, nontrivial=n >= 2):
    nr = np.random.default_rng(rng.getrandbits(32))
    shared = base_arrays(nr, d)
    per = []
    for k in range(n):
      a = base_arrays(nr, d)
      for name, ax in axes.items():
        if ax is None:
          a[name] = shared[name]
      per.append(a)
    model = C['Cell'](stacked(per, axes))
    xs_i = [nr.uniform(-1, 1, size=(bsz, d)).astype(np.float32) for _ in range(n)]
    xs = np.stack(xs_i, axis=in_x)
    ids_before = {k: id(getattr(model, k)) for k in axes}
    f = nnx.vmap(lambda m, x: m(x), in_axes=(axes_to_state_axes(axes, C), in_x), out_axes=out_y)
    ys = f(model, jnp.asarray(xs))
    ctx.op('nnx.vmap')
    refs = [cell_ref(per[k], xs_i[k]) for k in range(n)]
    ctx.check(np.shape(ys) == np.stack([r[0] for r in refs], axis=out_y).shape and
              np.allclose(np.asarray(ys, np.float64), np.stack([r[0] for r in refs], axis=out_y), **TOL), 'vmap:outputs', lambda: dict(case=desc))
    want = stacked([r[1] for r in refs], axes)
    for name, ax in axes.items():
      if ax is None:
        want[name] = shared[name]
    ctx.check(close_arrays(state_of(model), want), 'state_after:vmap', lambda: dict(case=desc, got={k: np.asarray(v).tolist() for k, v in state_of(model).items() if k in ('count', 'stat')},
                                                                                  want={k: np.asarray(want[k]).tolist() for k in ('count', 'stat')}))
    ctx.check(all(id(getattr(model, k)) == ids_before[k] for k in axes), 'state_after:vmap_replaced_caller_variables', lambda: dict(case=desc))


def run_scan(ctx, i, rng):
  import jax.numpy as jnp
  from flax import nnx
  C = classes()
  d, T, bsz = rng.randint(1, 3), rng.randint(1, 4), 2
  reverse = rng.random() < 0.4
  mode = ['layers', 'carry_module', 'broadcast_params'][i % 3]
  desc = dict(mode=mode, d=d, T=T, reverse=reverse)
  with ctx.case('scan', i, desc, nontrivial=T >= 2):
    nr = np.random.default_rng(rng.getrandbits(32))
    order = range(T - 1, -1, -1) if reverse else range(T)
    if mode == 'layers':
      # a stack of T layers (all state has axis 0), carry = activations, no xs: the "scan over layers" pattern
      axes = dict(w=rng.choice([0, 1, 2, 2, -1]), b=rng.choice([0, 1, -1]), gain=0, count=0, stat=rng.choice([0, 1, -2]))
      per = [base_arrays(nr, d) for _ in range(T)]
      model = C['Cell'](stacked(per, axes))
      x0 = nr.uniform(-1, 1, size=(bsz, d)).astype(np.float32)

      def step(m, h):
        return m(h)

      f = nnx.scan(step, in_axes=(axes_to_state_axes(axes, C), nnx.Carry), out_axes=nnx.Carry, reverse=reverse)
      h = f(model, jnp.asarray(x0))
      ctx.op('nnx.scan')
      hr = x0
      news = [None] * T
      for t in order:
        hr, news[t] = cell_ref(per[t], hr)
      ctx.check(np.allclose(np.asarray(h, np.float64), hr, **TOL), 'scan:final_carry', lambda: dict(case=desc))
      ctx.check(close_arrays(state_of(model), stacked(news, axes)), 'state_after:scan_layers', lambda: dict(case=desc))
    elif mode == 'carry_module':
      # the module itself is carried: its side effects must be threaded through the steps; xs scanned, ys stacked
      a0 = base_arrays(nr, d)
      model = C['Cell'](a0)
      in_x, out_y = rng.choice([0, 0, 1, 2, -1, -2, 2]), rng.choice([0, 1, 2, -1])   # every axis of the rank-3 data, either sign
      xs_t = [nr.uniform(-1, 1, size=(bsz, d)).astype(np.float32) for _ in range(T)]
      xs = np.stack(xs_t, axis=in_x)
      desc.update(in_axes_x=in_x, out_axes_y=out_y)

      def step(m, x):
        return m, m(x)

      f = nnx.scan(step, in_axes=(nnx.Carry, in_x), out_axes=(nnx.Carry, out_y), reverse=reverse)
      m_out, ys = f(model, jnp.asarray(xs))
      ctx.op('nnx.scan')
      cur = a0
      ys_r = [None] * T
      for t in order:
        ys_r[t], cur = cell_ref(cur, xs_t[t])
      ctx.check(np.allclose(np.asarray(ys, np.float64), np.stack(ys_r, axis=out_y), **TOL), 'scan:stacked_outputs', lambda: dict(case=desc))
      ctx.check(m_out is model, 'state_after:scan_carry_is_a_copy', lambda: dict(case=desc))
      ctx.check(close_arrays(state_of(model), cur), 'state_after:scan_carry', lambda: dict(case=desc, got=repr(state_of(model))[:300], want=repr(cur)[:300]))
    else:
      # parameters broadcast (None), per-step state (count, stat) with an axis, activations carried, xs scanned
      axes = dict(w=None, b=None, gain=None, count=0, stat=rng.choice([0, 1]))
      shared = base_arrays(nr, d)
      per = []
      for t in range(T):
        a = base_arrays(nr, d)
        for name in ('w', 'b', 'gain'):
          a[name] = shared[name]
        per.append(a)
      model = C['Cell'](stacked(per, axes))
      x0 = nr.uniform(-1, 1, size=(bsz, d)).astype(np.float32)
      xs_t = [nr.uniform(-1, 1, size=(bsz, d)).astype(np.float32) for _ in range(T)]

      def step(m, h, x):
        y = m(h + x)
        return y, y * 2.0

      f = nnx.scan(step, in_axes=(axes_to_state_axes(axes, C), nnx.Carry, 0), out_axes=(nnx.Carry, 0), reverse=reverse)
      h, ys = f(model, jnp.asarray(x0), jnp.asarray(np.stack(xs_t)))
      ctx.op('nnx.scan')
      hr = x0
      ys_r, news = [None] * T, [None] * T
      for t in order:
        hr, news[t] = cell_ref(per[t], hr + xs_t[t])
        ys_r[t] = hr * 2.0
      want = stacked(news, axes)
      for name in ('w', 'b', 'gain'):
        want[name] = shared[name]
      ctx.check(np.allclose(np.asarray(h, np.float64), hr, **TOL) and np.allclose(np.asarray(ys, np.float64), np.stack(ys_r), **TOL), 'scan:outputs',
                lambda: dict(case=desc))
      ctx.check(close_arrays(state_of(model), want), 'state_after:scan_broadcast', lambda: dict(case=desc))


def run_grad(ctx, i, rng):
  import jax
  import jax.numpy as jnp
  from flax import nnx
  C = classes()
  d, bsz = rng.randint(1, 3), 2
  wrt_name, wrt, selected = rng.choice([
      ('Param', nnx.Param, ('w', 'b')), ('default', None, ('w', 'b')), ('Gain', C['Gain'], ('gain',)), ("tag 'bias'", 'bias', ('b',)),
      ('Any(Param, Gain)', nnx.Any(nnx.Param, C['Gain']), ('w', 'b', 'gain')), ("PathContains('w')", nnx.PathContains('w'), ('w',)),
      ('(Gain, BatchStat)', (C['Gain'], nnx.BatchStat), ('gain', 'stat'))])
  has_aux = rng.random() < 0.4
  vag = rng.random() < 0.5
  two_args = rng.random() < 0.3
  desc = dict(wrt=wrt_name, has_aux=has_aux, value_and_grad=vag, two_modules=two_args, d=d)
  with ctx.case('grad', i, desc, nontrivial=True):
    nr = np.random.default_rng(rng.getrandbits(32))
    a, a2 = base_arrays(nr, d), base_arrays(nr, d)
    model, model2 = C['Cell'](a), C['Cell'](a2)
    x = nr.uniform(-1, 1, size=(bsz, d)).astype(np.float32)

    def loss(m, x, m2=None):
      y = m(x)
      if m2 is not None:
        y = m2(y)
      l = jnp.sum(y ** 2)
      return (l, {'mean': jnp.mean(y)}) if has_aux else l

    def loss_ref(sel, sel2):
      aa = {k: (sel[k] if k in sel else jnp.asarray(a[k])) for k in a}
      y = jnp.tanh(jnp.asarray(x) @ aa['w'] + aa['b']) * aa['gain'] - 0.1 * aa['stat']
      if two_args:
        bb = {k: (sel2[k] if k in sel2 else jnp.asarray(a2[k])) for k in a2}
        y = jnp.tanh(y @ bb['w'] + bb['b']) * bb['gain'] - 0.1 * bb['stat']
      return jnp.sum(y ** 2), jnp.mean(y)

    # the module is argument 0 of (m, x) / (m, x, m2): the same position written as a negative index must select the same state
    neg = rng.random() < 0.25
    pos0 = 0 if not neg else (-3 if two_args else -2)
    desc['argnum_of_module'] = pos0
    argnums = pos0 if wrt is None else nnx.DiffState(pos0, wrt)
    swapped = two_args and rng.random() < 0.5   # argnums listed in descending position order: results follow the ORDER GIVEN
    desc['argnums_order'] = 'descending' if swapped else 'ascending'
    if two_args:
      second = 2 if wrt is None else nnx.DiffState(2, wrt)
      argnums = (second, argnums) if swapped else (argnums, second)
    # no default arguments in the differentiated signature: a negative argnum counts from the end of the arguments actually there
    loss_fn = loss if two_args else (lambda m, x: loss(m, x))
    tf = (nnx.value_and_grad if vag else nnx.grad)(loss_fn, argnums=argnums, has_aux=has_aux)
    out = tf(model, jnp.asarray(x), model2) if two_args else tf(model, jnp.asarray(x))
    ctx.op('nnx.value_and_grad' if vag else 'nnx.grad')
    sel = {k: jnp.asarray(a[k]) for k in selected}
    sel2 = {k: jnp.asarray(a2[k]) for k in selected} if two_args else {}
    (l_r, aux_r), (g_r, g2_r) = jax.value_and_grad(loss_ref, argnums=(0, 1), has_aux=True)(sel, sel2)
    if vag:
      val, grads = out
      if has_aux:
        val, aux = val
      ctx.check(np.allclose(float(val), float(l_r), **TOL), 'grad:value', lambda: dict(case=desc))
    else:
      grads = out
      if has_aux:
        grads, aux = grads
    if has_aux:
      ctx.check(np.allclose(float(aux['mean']), float(aux_r), **TOL), 'grad:aux', lambda: dict(case=desc))
    if swapped:
      grads = (grads[1], grads[0])   # back to (model, model2) order for the comparisons below
    g1 = grads[0] if two_args else grads
    def flat(gs):
      return {p[0]: np.asarray(v.value if hasattr(v, 'value') else v) for p, v in nnx.to_flat_state(gs)}
    got = flat(g1)
    ctx.check(set(got) == set(selected), 'grad:unselected_state_in_gradient', lambda: dict(case=desc, got=sorted(got), want=sorted(selected)))
    ctx.check(all(k in got and np.allclose(got[k], np.asarray(g_r[k]), rtol=1e-4, atol=1e-5) for k in selected), 'grad:values', lambda: dict(case=desc))
    if two_args:
      got2 = flat(grads[1])
      ctx.check(set(got2) == set(selected) and all(np.allclose(got2[k], np.asarray(g2_r[k]), rtol=1e-4, atol=1e-5) for k in selected), 'grad:second_argument', lambda: dict(case=desc))
    # forward-pass side effects applied exactly once to the caller's objects; parameters untouched
    _, want = cell_ref(a, x)
    ctx.check(close_arrays(state_of(model), want), 'state_after:grad', lambda: dict(case=desc, count=int(model.count.value), want=int(want['count'])))


def run_scan_carry_objects(ctx, i, rng):
  """The Carry of nnx.scan holds NNX objects of different kinds - a bare Variable, a Module, tuples / dicts of both in either order:
  after the scan every one of them is the caller's own object in the state the Python loop leaves."""
  import jax.numpy as jnp
  from flax import nnx
  shape = ['var', 'module', 'var_module', 'module_var', 'dict', 'var_var', 'module_array_var'][i % 7]
  T = rng.randint(1, 4)
  reverse = rng.random() < 0.3
  desc = dict(carry=shape, T=T, reverse=reverse)
  with ctx.case('scan_carry', i, desc, nontrivial=True):
    class Acc(nnx.Module):
      def __init__(self, v0):
        self.total = nnx.BatchStat(jnp.asarray(v0, jnp.float32))
        self.n = nnx.Variable(jnp.asarray(0, jnp.int32))

    def build():
      v, w, m = nnx.Variable(jnp.asarray(0.5, jnp.float32)), nnx.Param(jnp.asarray(-1.0, jnp.float32)), Acc(2.0)
      arr = jnp.asarray(3.0, jnp.float32)
      carry = {'var': v, 'module': m, 'var_module': (v, m), 'module_var': (m, v), 'dict': {'z': v, 'a': m}, 'var_var': (v, w),
               'module_array_var': (m, arr, v)}[shape]
      return carry, dict(v=v, w=w, m=m)

    def parts(c):
      if shape == 'var':
        return dict(v=c)
      if shape == 'module':
        return dict(m=c)
      if shape == 'var_module':
        return dict(v=c[0], m=c[1])
      if shape == 'module_var':
        return dict(m=c[0], v=c[1])
      if shape == 'dict':
        return dict(v=c['z'], m=c['a'])
      if shape == 'var_var':
        return dict(v=c[0], w=c[1])
      return dict(m=c[0], arr=c[1], v=c[2])

    def rebuild(c, arr):
      return (c[0], arr, c[2]) if shape == 'module_array_var' else c

    def body(c, x):
      p = parts(c)
      arr = None
      if 'v' in p:
        p['v'].value = p['v'].value * 0.5 + x
      if 'w' in p:
        p['w'].value = p['w'].value - 2.0 * x
      if 'm' in p:
        p['m'].total.value = p['m'].total.value + 2.0 * x
        p['m'].n.value = p['m'].n.value + 1
      if 'arr' in p:
        arr = p['arr'] + x
      return rebuild(c, arr), x * 3.0

    xs = jnp.asarray(np.random.default_rng(i).uniform(-1, 1, (T,)).astype(np.float32))
    carry_e, objs_e = build()
    ce = carry_e
    for t in (range(T - 1, -1, -1) if reverse else range(T)):
      ce, _ = body(ce, xs[t])
    carry_t, objs_t = build()
    out_c, ys = nnx.scan(body, in_axes=(nnx.Carry, 0), out_axes=(nnx.Carry, 0), reverse=reverse)(carry_t, xs)
    ctx.op('nnx.scan(carry=%s)' % shape)

    def vals(objs):
      out = {}
      for k, o in objs.items():
        if k == 'm':
          out['m.total'], out['m.n'] = np.asarray(o.total.value), np.asarray(o.n.value)
        else:
          out[k] = np.asarray(o.value)
      return out

    ve, vt = vals(objs_e), vals(objs_t)
    ctx.check(all(np.allclose(ve[k], vt[k], **TOL) for k in ve), 'state_after:scan_carry_objects',
              lambda: dict(case=desc, loop={k: v.tolist() for k, v in ve.items()}, scan={k: v.tolist() for k, v in vt.items()}))
    po = parts(out_c)
    same = all(po[k] is objs_t[k] for k in po if k != 'arr')
    ctx.check(same, 'identity:scan_carry_result_is_a_copy', lambda: dict(case=desc, types={k: type(v).__name__ for k, v in po.items()}))
    if 'arr' in po:
      ctx.check(np.allclose(np.asarray(po['arr']), np.asarray(parts(ce)['arr']), **TOL), 'scan_carry:array_value', lambda: dict(case=desc))
    ctx.check(np.allclose(np.asarray(ys), np.asarray(xs) * 3.0, **TOL), 'scan_carry:outputs', lambda: dict(case=desc))


def run_broadcast_update(ctx, i, rng):
  """State given the axis None is SHARED by all steps / indices: an update the body makes to it is an update of the one shared
  object, exactly as in the Python loop (known finding C08-broadcast-state-update-dropped: the transforms treat it as a constant)."""
  import jax.numpy as jnp
  from flax import nnx
  kind = ['scan', 'scan_stateaxes', 'vmap_stateaxes'][i % 3]
  n = rng.randint(2, 4)
  desc = dict(transform=kind, n=n)
  with ctx.case('broadcast_update', i, desc, nontrivial=True):
    class Cnt(nnx.Variable):
      pass

    class M(nnx.Module):
      def __init__(self):
        self.w = nnx.Param(jnp.arange(3.0))
        self.c = Cnt(jnp.asarray(0.0))

    xs = jnp.asarray(np.random.default_rng(i).uniform(0.5, 1.5, (n,)).astype(np.float32))

    def body(m, x):
      m.c.value = m.c.value + 1.0
      if kind == 'scan':
        m.w.value = m.w.value + x
      return jnp.sum(m.w.value) * x + m.c.value

    ref = M()
    if kind == 'vmap_stateaxes':
      stacked = jnp.stack([jnp.arange(3.0) + k for k in range(n)])
      ref_ys = []
      for k in range(n):
        ref.w.value = stacked[k]
        ref_ys.append(body(ref, xs[k]))
      m = M()
      m.w.value = stacked
      ys = nnx.vmap(body, in_axes=(nnx.StateAxes({nnx.Param: 0, Cnt: None}), 0), out_axes=0)(m, xs)
    else:
      ref_ys = [body(ref, xs[k]) for k in range(n)]
      m = M()
      ia = None if kind == 'scan' else nnx.StateAxes({Cnt: None, nnx.Param: None})
      ys = nnx.scan(body, in_axes=(ia, 0), out_axes=0)(m, xs)
    ctx.op('nnx.%s(update of None-axis state)' % kind.split('_')[0])
    tr = kind.split('_')[0]
    ctx.check(np.allclose(float(m.c.value), float(ref.c.value)), 'state_after:broadcast_state_update_dropped:' + tr,
              lambda: dict(case=desc, got=float(m.c.value), loop=float(ref.c.value)))
    if kind == 'scan':
      ctx.check(np.allclose(np.asarray(ys), np.asarray(jnp.stack(ref_ys)), **TOL), 'outputs:broadcast_state_update_dropped:' + tr,
                lambda: dict(case=desc, got=np.asarray(ys).tolist(), loop=np.asarray(jnp.stack(ref_ys)).tolist()))


def run_grad_history(ctx, i, rng):
  """One nnx.grad / value_and_grad function object reused over a call history that contains rejected calls (integer-dtype selected
  Variable, an exception in the user's loss, inconsistent aliasing): every accepted call must still equal jax.grad of the functional
  form and leave its own model in the reference state - nothing of an earlier call may leak into a later one."""
  import jax
  import jax.numpy as jnp
  from flax import nnx
  C = classes()
  d, bsz = rng.randint(1, 3), 2
  wrt_name, wrt, selected = rng.choice([('Param', nnx.Param, ('w', 'b')), ('Gain', C['Gain'], ('gain',)), ("tag 'bias'", 'bias', ('b',)),
                                        ('(Gain, BatchStat)', (C['Gain'], nnx.BatchStat), ('gain', 'stat'))])
  vag = rng.random() < 0.5
  hist = [rng.choice(['ok', 'ok', 'int_selected', 'user_raises', 'aliasing', 'ok_same_model']) for _ in range(rng.randint(3, 6))]
  if not any(h != 'ok' and h != 'ok_same_model' for h in hist[:-1]):
    hist.insert(1, rng.choice(['int_selected', 'aliasing', 'user_raises']))
  hist.append('ok')
  desc = dict(wrt=wrt_name, value_and_grad=vag, history=hist, d=d)
  with ctx.case('grad_history', i, desc, nontrivial=True):
    nr = np.random.default_rng(rng.getrandbits(32))
    boom = [False]

    def loss(m, x, m2=None):
      if boom[0]:
        raise ValueError('user error inside the loss')
      y = m(x)
      if m2 is not None:
        y = y + m2(x)
      return jnp.sum(y ** 2)

    tf = (nnx.value_and_grad if vag else nnx.grad)(loss, argnums=nnx.DiffState(0, wrt))
    tf2 = (nnx.value_and_grad if vag else nnx.grad)(loss, argnums=(nnx.DiffState(0, wrt), nnx.DiffState(2, nnx.Not(wrt))))
    prev = None
    for step, h in enumerate(hist):
      a = base_arrays(nr, d)
      x = nr.uniform(-1, 1, size=(bsz, d)).astype(np.float32)
      if h == 'ok_same_model' and prev is not None:
        model, a = prev
      else:
        model = C['Cell'](a)
      ctx.op('nnx.grad(history:%s)' % h.split('_')[0])
      if h == 'int_selected':
        for k in selected:
          getattr(model, k).value = jnp.asarray(np.asarray(a[k]).astype(np.int32))
        try:
          tf(model, jnp.asarray(x))
          ctx.event('note.grad_history:int_selected_accepted')
        except Exception:  # noqa: BLE001 - jax.grad rejects integer inputs
          ctx.event('grad_history:rejected_call')
        continue
      if h == 'user_raises':
        boom[0] = True
        try:
          tf(model, jnp.asarray(x))
        except ValueError:
          ctx.event('grad_history:rejected_call')
        boom[0] = False
        continue
      if h == 'aliasing':
        # the same module under two different differentiation filters
        try:
          tf2(model, jnp.asarray(x), model)
          ctx.event('note.grad_history:aliasing_accepted')
        except Exception:  # noqa: BLE001
          ctx.event('grad_history:rejected_call')
        continue
      before = {k: np.asarray(v) for k, v in state_of(model).items()}
      out = tf(model, jnp.asarray(x))

      def loss_ref(sel):
        aa = {k: (sel[k] if k in sel else jnp.asarray(before[k])) for k in before}
        y = jnp.tanh(jnp.asarray(x) @ aa['w'] + aa['b']) * aa['gain'] - 0.1 * aa['stat']
        return jnp.sum(y ** 2)

      l_r, g_r = jax.value_and_grad(loss_ref)({k: jnp.asarray(before[k]) for k in selected})
      grads = out[1] if vag else out
      if vag:
        ctx.check(np.allclose(float(out[0]), float(l_r), **TOL), 'grad:value:after_rejected_call', lambda: dict(case=desc, step=step))
      got = {p[0]: np.asarray(v.value if hasattr(v, 'value') else v) for p, v in nnx.to_flat_state(grads)}
      ctx.check(set(got) == set(selected) and all(np.allclose(got[k], np.asarray(g_r[k]), rtol=1e-4, atol=1e-5) for k in selected),
                'grad:values:after_rejected_call', lambda: dict(case=desc, step=step, got=sorted(got)))
      _, want = cell_ref(before, x)
      ctx.check(close_arrays(state_of(model), want), 'state_after:grad:after_rejected_call',
                lambda: dict(case=desc, step=step, count=int(model.count.value), want=int(want['count'])))
      prev = (model, {k: np.asarray(v) for k, v in state_of(model).items()})


def run_aliasing(ctx, i, rng):
  """The same Variable reached under two different axis specifications must be rejected, not silently resolved."""
  import jax.numpy as jnp
  from flax import nnx
  C = classes()
  d, n = 2, 3
  desc = dict(kind=['same_module_two_axes', 'shared_variable_two_axes'][i % 2])
  with ctx.case('aliasing', i, desc, nontrivial=True):
    nr = np.random.default_rng(i)
    axes = dict(w=0, b=0, gain=0, count=0, stat=0)
    per = [base_arrays(nr, d) for _ in range(n)]
    m1 = C['Cell'](stacked(per, axes))
    if i % 2 == 0:
      call = lambda: nnx.vmap(lambda a, b, x: a(x), in_axes=(0, None, 0))(m1, m1, jnp.ones((n, 2, d)))
    else:
      m2 = C['Cell'](stacked(per, axes))
      m2.w = m1.w  # one Variable shared by two modules that get different axes
      call = lambda: nnx.vmap(lambda a, b, x: a(x) + b(x), in_axes=(0, nnx.StateAxes({nnx.PathContains('w'): None, ...: 0}), 0))(m1, m2, jnp.ones((n, 2, d)))
    try:
      call()
      raised = None
    except Exception as e:  # noqa: BLE001
      raised = e
    ctx.op('nnx.vmap(inconsistent aliasing)')
    ctx.check(raised is not None, 'aliasing:inconsistent_axes_accepted', lambda: dict(case=desc))


def run_split_rngs(ctx, i, rng):
  """Modules created inside vmap with split_rngs: every index gets different parameters; the caller's stream resumes."""
  import jax
  import jax.numpy as jnp
  from flax import nnx
  C = classes()
  n, d = rng.randint(2, 4), 2
  only = [None, 'params'][i % 2]
  desc = dict(n=n, only=only)
  with ctx.case('split_rngs', i, desc, nontrivial=True):
    rngs = nnx.Rngs(params=i, dropout=100 + i)
    kw = {} if only is None else dict(only=only)

    in_axes = 0 if only is None else (nnx.StateAxes({nnx.PathContains('params'): 0, ...: None}),)

    def make(r):
      return C['RandCell'](d, r)

    try:
      create = nnx.split_rngs(splits=n, **kw)(nnx.vmap(make, in_axes=in_axes, out_axes=0))
      m = create(rngs)
    except Exception as e:  # noqa: BLE001 - this filter spelling is not accepted by this version: not part of the property
      ctx.event('split_rngs.config_rejected:' + type(e).__name__)
      return
    ctx.op('nnx.split_rngs+vmap')
    k = np.asarray(m.lin.kernel.value)
    ctx.check(k.shape == (n, d, d) and len({k[j].tobytes() for j in range(n)}) == n, 'split_rngs:indices_share_parameters', lambda: dict(case=desc, shape=k.shape))
    # the caller's streams are scalar again and continue without replaying the key used for the split
    before = np.asarray(jax.random.key_data(jax.random.fold_in(jax.random.key(i), 0))).tobytes()
    nxt = np.asarray(jax.random.key_data(rngs.params())).tobytes()
    ctx.check(rngs.params.key.value.shape == () and nxt != before, 'split_rngs:stream_not_restored', lambda: dict(case=desc))


def run_bare_variables(ctx, i, rng):
  """The stateful arguments are bare nnx.Variables (no Module around them): per-index updates come back stacked from nnx.vmap, forward
  side effects of nnx.grad / value_and_grad are applied once, scanned / carried Variables equal the loop - and a second call starts
  from the state the first one left."""
  import jax
  import jax.numpy as jnp
  from flax import nnx
  kind = ['vmap', 'vmap_shared_param', 'grad', 'value_and_grad', 'scan_axis', 'scan_carry'][i % 6]
  N = 2 + (i // 6) % 3
  calls = 1 + (i // 18) % 2
  desc = dict(kind=kind, n=N, calls=calls)
  with ctx.case('bare_variables', i, desc, nontrivial=True):
    class Count(nnx.Variable):
      pass
    nr = np.random.default_rng(i)
    X = jnp.asarray(nr.uniform(0.5, 1.5, (N, 3)).astype(np.float32))
    same = lambda a, b: bool(np.allclose(np.asarray(a), np.asarray(b), rtol=1e-5, atol=1e-5))  # noqa: E731

    def body(w, total, x):
      total.value = total.value + w.value * x
      return total.value.sum()

    if kind in ('vmap', 'vmap_shared_param'):
      shared = kind == 'vmap_shared_param'
      w0 = nr.uniform(1, 2, (3,) if shared else (N, 3)).astype(np.float32)
      w, total = nnx.Param(jnp.asarray(w0)), Count(jnp.zeros((N, 3)))
      ref_total = np.zeros((N, 3))
      for c in range(calls):
        ax = (None if shared else 0, 0, 0)
        if (i // 6) % 2:
          ax = list(ax)          # "int | None | Sequence": a list, as jax.vmap accepts
        y = nnx.vmap(body, in_axes=ax, out_axes=0)(w, total, X)
        ctx.op('nnx.vmap(bare Variables)')
        ref_total = ref_total + (w0[None] if shared else w0) * np.asarray(X)
        ctx.check(same(y, ref_total.sum(-1)), 'bare_variables:vmap_output', lambda: dict(case=desc, call=c))
        ctx.check(same(total.value, ref_total), 'bare_variables:vmap_update_lost', lambda: dict(case=desc, call=c, got=np.asarray(total.value).tolist()))
    elif kind in ('grad', 'value_and_grad'):
      p0 = nr.uniform(-2, 2, (3,)).astype(np.float32)
      p, ncalls, seen = nnx.Param(jnp.asarray(p0)), Count(jnp.asarray(0.0)), Count(jnp.zeros((3,)))

      def loss(p, ncalls, seen):
        ncalls.value = ncalls.value + 1.0
        seen.value = jnp.tanh(p.value)
        return jnp.sum(p.value ** 3)
      for c in range(calls):
        if kind == 'grad':
          g = nnx.grad(loss)(p, ncalls, seen)
        else:
          l, g = nnx.value_and_grad(loss)(p, ncalls, seen)
          ctx.check(same(l, np.sum(p0.astype(np.float64) ** 3)), 'bare_variables:loss', lambda: dict(case=desc))
        ctx.op('nnx.%s(bare Variables)' % kind)
        ctx.check(same(g.value, 3 * p0.astype(np.float64) ** 2), 'bare_variables:gradient', lambda: dict(case=desc))
        ctx.check(same(ncalls.value, c + 1.0) and same(seen.value, np.tanh(p0)), 'bare_variables:forward_side_effect_not_applied_once',
                  lambda: dict(case=desc, call=c, calls_counter=float(ncalls.value)))
    else:
      w0 = nr.uniform(1, 2, (N, 3)).astype(np.float32)
      w = nnx.Param(jnp.asarray(w0))
      if kind == 'scan_axis':
        total = Count(jnp.zeros((N, 3)))

        @nnx.scan(in_axes=(nnx.Carry, 0, 0, 0), out_axes=(nnx.Carry, 0))   # (nnx.scan documents a tuple)
        def f(c, w, total, x):
          total.value = total.value + w.value * x + c
          return c + 1.0, total.value.sum()
        c_out, ys = f(jnp.asarray(0.0), w, total, X)
        want = w0 * np.asarray(X) + np.arange(N)[:, None]
        ctx.check(same(total.value, want) and same(ys, want.sum(-1)) and same(c_out, N), 'bare_variables:scan_axis_variable', lambda: dict(case=desc))
      else:
        acc = Count(jnp.zeros((3,)))

        @nnx.scan(in_axes=(nnx.Carry, 0, 0), out_axes=(nnx.Carry, 0))
        def f(acc, w, x):
          acc.value = acc.value + w.value * x
          return acc, acc.value.sum()
        acc_out, ys = f(acc, w, X)
        want = np.cumsum(w0 * np.asarray(X), axis=0)
        ctx.check(same(acc.value, want[-1]) and same(ys, want.sum(-1)), 'bare_variables:scan_carry_variable', lambda: dict(case=desc))
      ctx.op('nnx.scan(bare Variables)')


def run(ctx):
  for i in ctx.indices(36 if ctx.tier == 'quick' else 108, 'bare_variables'):
    run_bare_variables(ctx, i, ctx.rng('bare_variables', i))
  for i in ctx.indices(110 if ctx.tier == 'quick' else 1600, 'vmap'):
    run_vmap(ctx, i, ctx.rng('vmap', i))
  for i in ctx.indices(110 if ctx.tier == 'quick' else 1600, 'scan'):
    run_scan(ctx, i, ctx.rng('scan', i))
  for i in ctx.indices(110 if ctx.tier == 'quick' else 1600, 'grad'):
    run_grad(ctx, i, ctx.rng('grad', i))
  for i in ctx.indices(9, 'broadcast_update'):
    run_broadcast_update(ctx, i, ctx.rng('broadcast_update', i))
  for i in ctx.indices(42 if ctx.tier == 'quick' else 280, 'scan_carry'):
    run_scan_carry_objects(ctx, i, ctx.rng('scan_carry', i))
  for i in ctx.indices(60 if ctx.tier == 'quick' else 600, 'grad_history'):
    run_grad_history(ctx, i, ctx.rng('grad_history', i))
  for i in ctx.indices(8, 'aliasing'):
    run_aliasing(ctx, i, ctx.rng('alias', i))
  for i in ctx.indices(12 if ctx.tier == 'quick' else 60, 'split_rngs'):
    run_split_rngs(ctx, i, ctx.rng('sr', i))
