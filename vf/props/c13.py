"""C13 — attention and RNNs: stepwise equals whole-sequence; padding and masks are inert.

Monitor shape: relational oracles on the real flax layers
  * stepwise vs whole (decode cache one token at a time vs causal whole sequence; cell in a Python loop vs RNN),
    with a cache monitor between decode steps (index +1 per step, written rows frozen),
  * paired-input non-interference (inputs that differ only on ignored positions, by +-1e3),
  * float64 NumPy references (vf/refs/seq.py): softmax(q.k/sqrt(d)+bias) over allowed keys, multi-head attention,
    mask helpers, every cell's docstring recurrence, and the index arithmetic of reverse/keep_order/time_major/
    seq_lengths/Bidirectional,
  * Linen vs NNX on shared parameters (attention, LSTM)."""
import itertools

import numpy as np

LEVEL = 'exploration'
LEVEL_TEXT = ('Seeded bounded exploration at run time of the real Linen and NNX attention / recurrent layers: cells x T in 1..6 x '
              'batch shapes (), (2,), (2,3) (+ square (2,2), (3,3) for RNN with seq_lengths) x heads 1..3 x every reverse/keep_order/time_major/return_carry/seq_lengths flag '
              'combination (complete product for nn.RNN on the thorough tier) x seq_lengths in [1,T] per batch element x random '
              'masks and biases, QK normalisation with independent random LayerNorm scales. Each case compares the layer with (i) the same layer driven one step at a time, (ii) a paired '
              'input that differs by +-1e3 on ignored positions only, (iii) float64 NumPy references written from the docstrings, '
              '(iv) the other API on the same parameters; a monitor watches the decode cache between steps.'
              ' Attention cases include QK normalisation with independent LayerNorm scales.'
              ' Round e/f: partially broadcast masks/biases over two batch dims, wrapped attention_fn (**kwargs), value depth != query depth on the nnx fused path.'
              ' Round g: non-default activation_fn LSTM cells, empty sequences (seq_lengths 0), masks / biases of rank 2 and 3.')
LEVEL_NOTE = ('Trusts vf/refs/seq.py (NumPy references), the harness-side random parameter filling (parameter tree shapes are taken '
              'from the real init via jax.eval_shape / nnx.state), jax.jit / nnx.jit used to share one compilation between the '
              'paired inputs of a case, and the vf.compat JAX aliases. The storage order of fused gate kernels (ConvLSTMCell '
              'i,g,f,o; NNX OptimizedLSTMCell i,f,g,o; NNX GRUCell r,z,n) is not documented and is taken from the implementation.')
TECHNIQUE = ('runtime monitoring: stepwise-vs-whole and paired-input non-interference oracles, decode-cache monitor between steps, '
             'float64 NumPy formula references, Linen-vs-NNX cross-check, all on the real layers')
RULE = ('streams: attn.fn (dot_product_attention[_weights] + mask helpers, both APIs; shapes batch in {(),(2,),(2,3)} x Tq,Tk in 1..5 '
        'x heads 1..3 x depth 1..3 x bias/mask broadcast forms), attn.mha (Linen MultiHeadDotProductAttention + NNX '
        'MultiHeadAttention on the same parameters: decode loop with cache monitor vs causal whole sequence, extra random mask and '
        'attention_bias, causal / padding / dead-key / garbage-cache perturbations), rnn.linen (9-11 cell variants x batch shapes '
        'x T 1..6 x 32 flag combinations, balanced sample on quick, complete product on thorough), rnn.nnx (5 NNX cell variants, '
        'same flags; LSTMCell also against Linen LSTMCell/OptimizedLSTMCell on the same parameters), rnn.square (both RNNs on '
        'square batch shapes (2,2), (3,3), mostly with seq_lengths and return_carry: the shapes where an indexing slip over the '
        'batch dims returns a wrong-shaped carry instead of raising), rnn.bidir (Linen and NNX Bidirectional). Every RNN configuration is run on K value draws (inputs, seq_lengths in [1,T]^batch, optional random '
        'initial carry, +-1e3 padding perturbation). Random masks always keep >= 1 allowed key per query row (rows with no allowed '
        'key are out of domain: softmax of all finfo.min is uniform by construction); masks/biases carry either the full batch '
        'dims or all-singleton batch dims (partially broadcast batch dims are outside the documented MultiHeadAttention mask shape); '
        'outputs at padded positions (t >= seq_lengths) are unspecified by the docstring and never compared; perturbations are '
        'finite (+-1e3), never NaN/inf; the function nnx.dot_product_attention gets value depth != query/key depth only on its '
        'explicit-weights path (module given): its fused jax.nn path rejects that shape, which is not a clause of this property '
        '(the Linen function gets both); ConvLSTMCell only with padding=SAME, stride 1 (other settings change the carry shape). '
        'distinct = distinct configuration descriptors; non-trivial = sequence length >= 2.')
ASSUMPTIONS = [
    'float32 parameters and inputs, |x| <= 1, |params| <= 0.7, dims <= 6: stepwise/whole differences are rounding only (TOL_SAME_PROGRAM), formula differences within TOL_FORMULA',
    'jax.jit / nnx.jit of a layer call computes the same function as the eager call (a quarter of the cases run eagerly)',
    'vf.compat JAX aliases are faithful',
]
PLAN = {'quick': dict(workers=4, timeout_s=900), 'thorough': dict(workers=12, timeout_s=3000)}
MIN_EVENTS = {
    'quick': {'oracle:attn.decode_vs_whole': 200, 'oracle:attn.cache_index': 250, 'oracle:attn.cache_rows_frozen': 200, 'cache_observed': 250,
              'oracle:attn.weights': 130, 'oracle:attn.noninterference': 200, 'oracle:attn.mask_helper': 200,
              'oracle:rnn.outputs': 450, 'oracle:rnn.final_carry': 140, 'oracle:rnn.noninterference': 200,
              'oracle:cell.recurrence': 450, 'oracle:xapi.attention': 120, 'oracle:xapi.lstm': 10, 'oracle:bidir.outputs': 40,
              'oracle:rnn.seq_lengths_multi_batch_dims': 80},
    'thorough': {'oracle:attn.decode_vs_whole': 2000, 'oracle:attn.cache_index': 2500, 'oracle:attn.cache_rows_frozen': 2000,
                 'oracle:attn.weights': 1500, 'oracle:attn.noninterference': 2500, 'oracle:rnn.outputs': 20000,
                 'oracle:rnn.final_carry': 8000, 'oracle:rnn.noninterference': 9000, 'oracle:cell.recurrence': 20000,
                 'oracle:xapi.attention': 1200, 'oracle:xapi.lstm': 500, 'oracle:bidir.outputs': 600,
                 'oracle:rnn.seq_lengths_multi_batch_dims': 3000},
}

F5 = 'rnn.seq_lengths_multi_batch_dims:raises'            # documented seq_lengths of shape (*batch), >= 2 batch dims, carry requested
F5_WRONG = 'rnn.seq_lengths_multi_batch_dims:wrong_carry'  # same inputs, no exception, carry of wrong shape / values (square batches)
BATCHES = [(), (2,), (2, 3)]
SQUARE_BATCHES = [(2, 2), (3, 3)]
BIG = 1e3

LINEN_CELLS = [
    ('LSTMCell', ()), ('OptimizedLSTMCell', ()), ('GRUCell', ()), ('SimpleCell', ()), ('SimpleCell', (('residual', True),)),
    ('LSTMCell', (('act', 'soft_sign'),)), ('OptimizedLSTMCell', (('act', 'soft_sign'),)),
    ('MGUCell', ()), ('MGUCell', (('reset_gate', False),)), ('ConvLSTMCell', (('kernel_size', (2,)),)),
    ('ConvLSTMCell', (('kernel_size', (3,)),)),
]
LINEN_CELLS_THOROUGH = LINEN_CELLS + [('ConvLSTMCell', (('kernel_size', (2, 2)),)),
                                      ('ConvLSTMCell', (('kernel_size', (2,)), ('use_bias', False)))]
NNX_CELLS = [('LSTMCell', ()), ('OptimizedLSTMCell', ()), ('GRUCell', ()), ('SimpleCell', ()), ('SimpleCell', (('residual', True),)),
             ('LSTMCell', (('act', 'soft_sign'),)), ('OptimizedLSTMCell', (('act', 'soft_sign'),))]

_CACHE = {}


# ---------------------------------------------------------------------------------------------
# small helpers


def _np_rng(ctx, *key):
  return np.random.default_rng(ctx.rng(*key).getrandbits(32))


def _close(a, b, tol):
  a, b = np.asarray(a, np.float64), np.asarray(b, np.float64)
  return a.shape == b.shape and bool(np.all(np.isfinite(a))) and bool(np.allclose(a, b, **tol))


def _diff(a, b):
  a, b = np.asarray(a, np.float64), np.asarray(b, np.float64)
  if a.shape != b.shape:
    return dict(shape_got=a.shape, shape_want=b.shape)
  return dict(max_abs_diff=float(np.max(np.abs(a - b))) if a.size else 0.0, shape=a.shape)


def _leaves(tree):
  import jax
  return [np.asarray(l) for l in jax.tree_util.tree_leaves(tree)]


def _tree_close(a, b, tol, sel=None):
  la, lb = _leaves(a), _leaves(b)
  if len(la) != len(lb):
    return False
  for x, y in zip(la, lb):
    if x.shape != y.shape:
      return False
    if sel is not None:
      x, y = x[sel], y[sel]
    if not _close(x, y, tol):
      return False
  return True


def _tree_diff(a, b):
  la, lb = _leaves(a), _leaves(b)
  if len(la) != len(lb):
    return dict(n_leaves_got=len(la), n_leaves_want=len(lb))
  return [_diff(x, y) for x, y in zip(la, lb)]


def _random_tree(shapes, rg, scale=0.7):
  import jax
  import jax.numpy as jnp
  return jax.tree_util.tree_map(lambda s: jnp.asarray(rg.uniform(-scale, scale, s.shape).astype(np.float32)), shapes)


def _to_np(tree):
  import jax
  return jax.tree_util.tree_map(np.asarray, tree)


def _big(rg, shape):
  """Finite large perturbation values: +-1e3 scaled by [0.5, 1]."""
  return (rg.choice([-BIG, BIG], size=shape) * rg.uniform(0.5, 1.0, size=shape)).astype(np.float32)


def _layout(x_bm, nb, time_major):
  return np.moveaxis(x_bm, nb, 0) if time_major else x_bm


def _unlayout(x, nb, time_major):
  return np.moveaxis(np.asarray(x), 0, nb) if time_major else np.asarray(x)


def _spec_kw(spec):
  kw = {k: v for k, v in spec[1]}
  if 'act' in kw:
    # a non-default activation_fn (by name, so that the spec stays hashable)
    import jax
    kw['activation_fn'] = getattr(jax.nn, kw.pop('act'))
  return kw


def _spec_act(spec):
  from vf.refs import seq
  name = dict(spec[1]).get('act')
  return np.tanh if name is None else getattr(seq, name)


def _feat_shape(spec, fin):
  ks = _spec_kw(spec).get('kernel_size')
  if ks is None:
    return (fin,)
  return ((3,) if len(ks) == 1 else (2, 2)) + (fin,)


def _spec_name(spec):
  # (from the hashable spec itself: the resolved keyword arguments may hold function objects)
  kw = dict(spec[1])
  return spec[0] + ('[' + ','.join('%s=%s' % (k, kw[k]) for k in sorted(kw)) + ']' if kw else '')


# ---------------------------------------------------------------------------------------------
# cells: construction, jitted single step, NumPy recurrence


def linen_cell(spec, hidden):
  import flax.linen as nn
  return getattr(nn, spec[0])(features=hidden, **_spec_kw(spec))


def linen_cell_param_shapes(spec, fin, hidden):
  import jax
  key = ('lshape', spec, fin, hidden)
  if key not in _CACHE:
    cell = linen_cell(spec, hidden)
    x = np.zeros((1,) + _feat_shape(spec, fin), np.float32)
    carry = cell.initialize_carry(jax.random.key(0), x.shape)
    _CACHE[key] = jax.eval_shape(lambda: cell.init(jax.random.key(0), carry, x))['params']
  return _CACHE[key]


def linen_step_fn(spec, hidden):
  import jax
  key = ('lstep', spec, hidden)
  if key not in _CACHE:
    cell = linen_cell(spec, hidden)
    _CACHE[key] = jax.jit(lambda p, c, x: cell.apply({'params': p}, c, x))
  return _CACHE[key]


def linen_ref_step(spec):
  from vf.refs import seq
  name, kw = spec[0], _spec_kw(spec)
  if name in ('LSTMCell', 'OptimizedLSTMCell'):
    act = _spec_act(spec)
    return lambda p, c, x: seq.lstm_step(p, c, x, act=act)
  if name == 'GRUCell':
    return seq.gru_step
  if name == 'SimpleCell':
    return lambda p, c, x: seq.simple_step(p, c, x, residual=kw.get('residual', False))
  if name == 'MGUCell':
    return lambda p, c, x: seq.mgu_step(p, c, x, reset_gate=kw.get('reset_gate', True))
  if name == 'ConvLSTMCell':
    return seq.convlstm_step
  raise ValueError(spec)


def nnx_cell(spec, fin, hidden, rg):
  """A real NNX cell whose Params are then overwritten with random float32 values (non-zero biases)."""
  import jax
  import jax.numpy as jnp
  from flax import nnx
  import flax.linen as nn
  z = nn.initializers.zeros_init()
  kw = _spec_kw(spec)
  cell = getattr(nnx, spec[0])(fin, hidden, kernel_init=z, recurrent_kernel_init=z, rngs=nnx.Rngs(0), **kw)
  st = nnx.state(cell, nnx.Param)
  st = jax.tree_util.tree_map(lambda a: jnp.asarray(rg.uniform(-0.7, 0.7, a.shape).astype(np.float32)), st)
  nnx.update(cell, st)
  return cell


def nnx_cell_params(cell):
  """Plain nested dict of the cell's own parameters, with the Linen naming for LSTMCell ('if_' -> 'if')."""
  from flax import nnx
  d = nnx.to_pure_dict(nnx.state(cell, nnx.Param))
  out = {}
  for k, v in d.items():
    out['if' if k == 'if_' else k] = {kk: np.asarray(vv) for kk, vv in v.items()}
  return out


def nnx_ref_step(spec):
  from vf.refs import seq
  name, kw = spec[0], _spec_kw(spec)
  if name == 'LSTMCell':
    act = _spec_act(spec)
    return lambda p, c, x: seq.lstm_step(p, c, x, act=act)
  if name == 'OptimizedLSTMCell':
    act = _spec_act(spec)
    return lambda p, c, x: seq.fused_lstm_step(p, c, x, act=act)
  if name == 'GRUCell':
    return seq.fused_gru_step
  if name == 'SimpleCell':
    return lambda p, c, x: seq.simple_step(p, c, x, residual=kw.get('residual', False), names=('dense_i', 'dense_h'))
  raise ValueError(spec)


def loop_cell(step, carry0, x_bm, nb):
  """The real cell driven in a Python loop over the time axis of a batch-major array."""
  import jax.numpy as jnp
  T = x_bm.shape[nb]
  carry, ys, hist = carry0, [], []
  for t in range(T):
    carry, y = step(carry, jnp.asarray(np.take(x_bm, t, axis=nb)))
    ys.append(np.asarray(y))
    hist.append(_to_np(carry))
  return np.stack(ys, axis=nb), hist


def loop_numpy(ref_step, params_np, carry0, x_bm, nb):
  T = x_bm.shape[nb]
  carry, ys, hist = _to_np(carry0), [], []
  for t in range(T):
    carry, y = ref_step(params_np, carry, np.take(x_bm, t, axis=nb))
    ys.append(y)
    hist.append(carry)
  return np.stack(ys, axis=nb), hist


def expected_rnn(step, carry0, x_bm, lengths, nb, reverse, keep_order):
  """Index-arithmetic reference for RNN flags built from the per-step cell applied in a Python loop.
  Returns (outputs batch-major, final carry tree, (inputs fed, raw outputs, carry history))."""
  import jax
  from vf.refs import seq
  xr = seq.reverse_valid(x_bm, lengths, nb) if reverse else x_bm
  ys, hist = loop_cell(step, carry0, xr, nb)
  out = seq.reverse_valid(ys, lengths, nb) if (reverse and keep_order) else ys
  leaves_t = [jax.tree_util.tree_leaves(h) for h in hist]
  treedef = jax.tree_util.tree_structure(hist[0])
  init_leaves = [np.asarray(a) for a in jax.tree_util.tree_leaves(carry0)]
  sel = [seq.select_at_length([lt[k] for lt in leaves_t], lengths, nb, initial=init_leaves[k]) for k in range(len(leaves_t[0]))]
  return out, jax.tree_util.tree_unflatten(treedef, sel), (xr, ys, hist)


# ---------------------------------------------------------------------------------------------
# RNN case body shared by Linen and NNX


def flag_str(fl):
  return 'tm%d.rev%d.ko%d.rc%d.L%d' % tuple(fl)


def rnn_configs(ctx, stream, cells, n_quick):
  """(cell, batch, T, flags): complete product on thorough, balanced sample of it on quick; the remaining
  attributes (feature sizes, flags via constructor or call, random initial carry, jit or eager) are drawn per index."""
  flags = list(itertools.product([0, 1], repeat=5))  # time_major, reverse, keep_order, return_carry, seq_lengths given
  if ctx.tier == 'thorough':
    base = list(itertools.product(range(len(cells)), range(3), range(1, 7), flags))
  else:
    r = ctx.rng(stream, 'cfg')
    combos = list(itertools.product(range(len(cells)), range(3)))
    r.shuffle(combos)
    fl = list(flags)
    r.shuffle(fl)
    base = []
    for i in range(n_quick):
      ci, bi = combos[i % len(combos)]
      f = fl[(i // len(combos) + 5 * (i % len(combos))) % 32]
      base.append((ci, bi, 1 + (i * 5 + i // len(combos) + i // 6) % 6, f))
  out = []
  for i, (ci, bi, T, f) in enumerate(base):
    r = ctx.rng(stream, 'attr', i)
    fin, hid = r.choice([(3, 2), (2, 3)])
    out.append(dict(cell=cells[ci], batch=BATCHES[bi], T=T, flags=tuple(f), fin=fin, hid=hid,
                    via=r.choice(['ctor', 'call']), init_carry=r.random() < 0.5, eager=r.random() < 0.25))
  return out


def square_configs(ctx, n_quick):
  """Square batch shapes (n, n) with seq_lengths: the shapes on which a per-batch-dim indexing slip does not raise but
  returns a carry of the wrong shape.  Both APIs; seq_lengths and return_carry are on in 3 of 4 configurations."""
  if ctx.tier == 'thorough':
    base = [(api, ci, bi, f) for api, cells in (('linen', LINEN_CELLS_THOROUGH), ('nnx', NNX_CELLS)) for ci in range(len(cells))
            for bi in range(2) for f in itertools.product([0, 1], repeat=3)]
  else:
    base = [(('linen', 'nnx')[i % 2], i // 2, (i // 2) % 2, ((i // 4) % 2, (i // 8) % 2, (i // 2) % 2)) for i in range(n_quick)]
  out = []
  for i, (api, ci, bi, (tm, rev, ko)) in enumerate(base):
    r = ctx.rng('rnn.square', 'attr', i)
    cells = (LINEN_CELLS_THOROUGH if ctx.tier == 'thorough' else LINEN_CELLS) if api == 'linen' else NNX_CELLS
    rc, use_L = (1, 1) if i % 4 != 3 else (r.randrange(2), r.randrange(2))
    fin, hid = r.choice([(3, 2), (2, 3)])
    out.append(dict(api=api, cell=cells[ci % len(cells)], batch=SQUARE_BATCHES[bi], T=r.randrange(1, 7), flags=(tm, rev, ko, rc, use_L), fin=fin, hid=hid,
                    via=r.choice(['ctor', 'call']), init_carry=r.random() < 0.5, eager=r.random() < 0.25))
  return out


def desc_of(cfg):
  d = dict(cfg)
  d['cell'] = _spec_name(cfg['cell'])
  d['flags'] = flag_str(cfg['flags'])
  return d


def run_rnn_case(ctx, api, cfg, rg, K):
  """One RNN configuration on K value draws.  api: 'linen' | 'nnx'."""
  import jax
  import jax.numpy as jnp
  from vf import core
  from vf.refs import seq
  spec, bs, T, fin, hid = cfg['cell'], tuple(cfg['batch']), cfg['T'], cfg['fin'], cfg['hid']
  tm, rev, ko, rc, use_L = (bool(v) for v in cfg['flags'])
  nb = len(bs)
  feat = _feat_shape(spec, fin)
  flags = dict(time_major=tm, reverse=rev, keep_order=ko, return_carry=rc)
  ctor_kw, call_kw = (flags, {}) if cfg['via'] == 'ctor' else ({}, flags)
  name = _spec_name(spec)

  if api == 'linen':
    import flax.linen as nn
    cell = linen_cell(spec, hid)
    params = _random_tree(linen_cell_param_shapes(spec, fin, hid), rg)
    params_np = _to_np(params)
    ref_step = linen_ref_step(spec)
    jstep = linen_step_fn(spec, hid)
    step = lambda c, x: jstep(params, c, x)
    rnn = nn.RNN(cell, **ctor_kw)
    zero_carry = cell.initialize_carry(jax.random.key(0), bs + feat)

    def call(x, L, c0, **over):
      return rnn.apply({'params': {'cell': params}}, x, seq_lengths=L, initial_carry=c0, **{**call_kw, **over})

    real = call if cfg['eager'] else jax.jit(call, static_argnames=('return_carry',))
    ctx.op('nn.RNN[%s]' % spec[0])
  else:
    from flax import nnx
    cell = nnx_cell(spec, fin, hid, rg)
    params_np = nnx_cell_params(cell)
    ref_step = nnx_ref_step(spec)
    step = lambda c, x: cell(c, x)
    rnn = nnx.RNN(cell, **ctor_kw)
    zero_carry = cell.initialize_carry(bs + feat)

    def call_m(m, x, L, c0, **over):
      return m(x, seq_lengths=L, initial_carry=c0, **{**call_kw, **over})

    jcall = call_m if cfg['eager'] else nnx.jit(call_m, static_argnames=('return_carry',))
    real = lambda x, L, c0, **over: jcall(rnn, x, L, c0, **over)
    ctx.op('nnx.RNN[%s]' % spec[0])

  for k in range(K):
    x = rg.uniform(-1, 1, bs + (T,) + feat).astype(np.float32)
    L = None
    if use_L:
      # lengths in [1, T]; every second draw also has empty sequences (length 0: no valid position at all)
      L = rg.integers(0 if k % 2 == 1 else 1, T + 1, size=bs).astype(np.int32)
      if k == 0 and T >= 2 and np.all(L == T):  # make sure padding exists somewhere in the first draw
        L[(0,) * nb] = rg.integers(1, T)
    Lf = seq.lengths_or_full(L, bs, T)
    valid = seq.valid_mask(Lf, bs, T)
    c0 = None
    carry0 = zero_carry
    if cfg['init_carry']:
      c0 = jax.tree_util.tree_map(lambda a: jnp.asarray(rg.uniform(-1, 1, a.shape).astype(np.float32)), zero_carry)
      carry0 = c0
    Lj = None if L is None else jnp.asarray(L)
    detail = dict(api=api, cell=name, batch=bs, T=T, flags=flag_str(cfg['flags']), via=cfg['via'], seq_lengths=None if L is None else L.tolist(),
                  initial_carry=cfg['init_carry'], eager=cfg['eager'], draw=k)

    # ---- the real layer
    over = {}
    f5_domain = nb >= 2 and use_L and rc
    try:
      got = real(jnp.asarray(_layout(x, nb, tm)), Lj, c0)
      if f5_domain:
        ctx.check(True, F5)
    except ValueError as e:
      if not f5_domain:
        raise
      # documented input (seq_lengths of shape (*batch), several batch dims) rejected when the carry is requested
      ctx.check(False, F5, dict(detail, error=repr(e)[:300], x_shape=_layout(x, nb, tm).shape, seq_lengths_shape=L.shape))
      over = dict(return_carry=False)  # still check the output sequence of this configuration
      got = real(jnp.asarray(_layout(x, nb, tm)), Lj, c0, **over)
    has_carry = rc and not over
    got_carry, got_out = got if has_carry else (None, got)
    got_out = _unlayout(got_out, nb, tm)

    # ---- reference: per-step real cell in a Python loop + index arithmetic
    exp_out, exp_carry, (xr, ys_loop, hist) = expected_rnn(step, carry0, x, Lf, nb, rev, ko)
    ok_shape = got_out.shape == exp_out.shape
    ctx.check(ok_shape and _close(got_out[valid], exp_out[valid], core.TOL_SAME_PROGRAM), 'rnn.outputs:' + api,
              lambda: dict(detail, diff=_diff(got_out[valid], exp_out[valid]) if ok_shape else _diff(got_out, exp_out)))
    if has_carry:
      ctx.check(_tree_close(got_carry, exp_carry, core.TOL_SAME_PROGRAM), F5_WRONG if f5_domain else 'rnn.final_carry:' + api,
                lambda: dict(detail, diff=_tree_diff(got_carry, exp_carry)))

    # ---- the cell follows its documented recurrence (float64 NumPy, the cell's own parameters)
    ys_np, hist_np = loop_numpy(ref_step, params_np, carry0, xr, nb)
    ctx.check(_close(ys_loop, ys_np, core.TOL_FORMULA) and _tree_close(hist[-1], hist_np[-1], core.TOL_FORMULA),
              'cell.recurrence:%s.%s' % (api, name), lambda: dict(detail, diff=_diff(ys_loop, ys_np), carry=_tree_diff(hist[-1], hist_np[-1])))

    # ---- non-interference: +-1e3 on the padded positions only
    if L is not None and not valid.all():
      x2 = x.copy()
      x2[~valid] = _big(rg, x2[~valid].shape)
      got2 = real(jnp.asarray(_layout(x2, nb, tm)), Lj, c0, **over)
      got2_carry, got2_out = got2 if has_carry else (None, got2)
      got2_out = _unlayout(got2_out, nb, tm)
      ctx.check(got2_out.shape == got_out.shape and _close(got2_out[valid], got_out[valid], core.TOL_SAME_PROGRAM),
                'rnn.noninterference:%s.outputs' % api, lambda: dict(detail, diff=_diff(got2_out[valid], got_out[valid])))
      if has_carry:
        ctx.check(_tree_close(got2_carry, got_carry, core.TOL_SAME_PROGRAM), F5_WRONG if f5_domain else 'rnn.noninterference:%s.carry' % api,
                  lambda: dict(detail, diff=_tree_diff(got2_carry, got_carry)))

    # ---- Linen and NNX agree on the same parameters (LSTM)
    if api == 'nnx' and spec[0] == 'LSTMCell' and k == 0:
      import flax.linen as nn
      lname = ['LSTMCell', 'OptimizedLSTMCell'][int(rg.integers(0, 2))]
      lrnn = nn.RNN(getattr(nn, lname)(features=hid, **_spec_kw(spec)), **ctor_kw)
      lp = jax.tree_util.tree_map(jnp.asarray, params_np)
      lgot = lrnn.apply({'params': {'cell': lp}}, jnp.asarray(_layout(x, nb, tm)), seq_lengths=Lj, initial_carry=c0, **{**call_kw, **over})
      ctx.op('xapi.lstm[%s]' % lname)
      l_carry, l_out = lgot if has_carry else (None, lgot)
      l_out = _unlayout(l_out, nb, tm)
      ctx.check(l_out.shape == got_out.shape and _close(got_out[valid], l_out[valid], core.TOL_FORMULA), 'xapi.lstm:outputs',
                lambda: dict(detail, linen_cell=lname, diff=_diff(got_out[valid], l_out[valid])))
      if has_carry:
        ctx.check(_tree_close(got_carry, l_carry, core.TOL_FORMULA), 'xapi.lstm:carry', lambda: dict(detail, linen_cell=lname, diff=_tree_diff(got_carry, l_carry)))


# ---------------------------------------------------------------------------------------------
# Bidirectional


def bidir_configs(ctx, n):
  out = []
  dense = [s for s in LINEN_CELLS if s[0] != 'ConvLSTMCell']
  for i in range(n):
    r = ctx.rng('rnn.bidir', 'cfg', i)
    api = 'linen' if i % 3 != 2 else 'nnx'
    cells = dense if api == 'linen' else NNX_CELLS
    out.append(dict(api=api, fwd=cells[i % len(cells)], bwd=r.choice(cells), batch=(BATCHES + SQUARE_BATCHES[:1])[(i // 2) % 4], T=1 + (i * 5 + i // 6) % 6,
                    time_major=bool((i // 3) % 2), return_carry=bool(i % 2), use_L=r.random() < 0.6, fin=r.choice([2, 3]),
                    hid_f=r.choice([2, 3]), hid_b=r.choice([1, 2]), via=r.choice(['ctor', 'call']), init_carry=r.random() < 0.4))
  return out


def run_bidir_case(ctx, cfg, rg, K):
  import jax
  import jax.numpy as jnp
  from vf import core
  from vf.refs import seq
  api, bs, T, fin = cfg['api'], tuple(cfg['batch']), cfg['T'], cfg['fin']
  tm, rc, use_L = cfg['time_major'], cfg['return_carry'], cfg['use_L']
  nb = len(bs)
  flags = dict(time_major=tm, return_carry=rc)
  ctor_kw, call_kw = (flags, {}) if cfg['via'] == 'ctor' else ({}, flags)
  sides = []
  if api == 'linen':
    import flax.linen as nn
    for spec, hid in ((cfg['fwd'], cfg['hid_f']), (cfg['bwd'], cfg['hid_b'])):
      cell = linen_cell(spec, hid)
      p = _random_tree(linen_cell_param_shapes(spec, fin, hid), rg)
      js = linen_step_fn(spec, hid)
      sides.append((cell, p, (lambda c, x, js=js, p=p: js(p, c, x)), cell.initialize_carry(jax.random.key(0), bs + (fin,))))
    layer = nn.Bidirectional(nn.RNN(sides[0][0]), nn.RNN(sides[1][0]), **ctor_kw)
    variables = {'params': {'forward_rnn': {'cell': sides[0][1]}, 'backward_rnn': {'cell': sides[1][1]}}}
    real = jax.jit(lambda x, L, c0: layer.apply(variables, x, seq_lengths=L, initial_carry=c0, **call_kw))
    ctx.op('nn.Bidirectional')
  else:
    from flax import nnx
    for spec, hid in ((cfg['fwd'], cfg['hid_f']), (cfg['bwd'], cfg['hid_b'])):
      cell = nnx_cell(spec, fin, hid, rg)
      sides.append((cell, None, (lambda c, x, cell=cell: cell(c, x)), cell.initialize_carry(bs + (fin,))))
    layer = nnx.Bidirectional(nnx.RNN(sides[0][0]), nnx.RNN(sides[1][0]), **ctor_kw)
    real = lambda x, L, c0: layer(x, seq_lengths=L, initial_carry=c0, **call_kw)
    ctx.op('nnx.Bidirectional')

  for k in range(K):
    x = rg.uniform(-1, 1, bs + (T, fin)).astype(np.float32)
    L = rg.integers(1, T + 1, size=bs).astype(np.int32) if use_L else None
    Lf = seq.lengths_or_full(L, bs, T)
    valid = seq.valid_mask(Lf, bs, T)
    c0, carries0 = None, [sides[0][3], sides[1][3]]
    if cfg['init_carry']:
      carries0 = [jax.tree_util.tree_map(lambda a: jnp.asarray(rg.uniform(-1, 1, a.shape).astype(np.float32)), c) for c in carries0]
      c0 = tuple(carries0)
    Lj = None if L is None else jnp.asarray(L)
    detail = dict(api=api, fwd=_spec_name(cfg['fwd']), bwd=_spec_name(cfg['bwd']), batch=bs, T=T, time_major=tm, return_carry=rc,
                  seq_lengths=None if L is None else L.tolist(), via=cfg['via'], draw=k)
    f5_domain = nb >= 2 and use_L  # Bidirectional always asks its RNNs for the carry
    try:
      got = real(jnp.asarray(_layout(x, nb, tm)), Lj, c0)
      if f5_domain:
        ctx.check(True, F5)
    except ValueError as e:
      if not f5_domain:
        raise
      ctx.check(False, F5, dict(detail, layer='Bidirectional', error=repr(e)[:300]))
      return
    got_carry, got_out = got if rc else (None, got)
    got_out = _unlayout(got_out, nb, tm)
    f_out, f_carry, _ = expected_rnn(sides[0][2], carries0[0], x, Lf, nb, False, False)
    b_out, b_carry, _ = expected_rnn(sides[1][2], carries0[1], x, Lf, nb, True, True)
    exp_out = np.concatenate([f_out, b_out], axis=-1)
    ok_shape = got_out.shape == exp_out.shape
    ctx.check(ok_shape and _close(got_out[valid], exp_out[valid], core.TOL_SAME_PROGRAM), 'bidir.outputs:' + api,
              lambda: dict(detail, diff=_diff(got_out[valid], exp_out[valid]) if ok_shape else _diff(got_out, exp_out)))
    if rc:
      ctx.check(isinstance(got_carry, tuple) and len(got_carry) == 2 and _tree_close(got_carry[0], f_carry, core.TOL_SAME_PROGRAM)
                and _tree_close(got_carry[1], b_carry, core.TOL_SAME_PROGRAM), F5_WRONG if f5_domain else 'bidir.final_carry:' + api,
                lambda: dict(detail, diff=_tree_diff(got_carry, (f_carry, b_carry))))
    if L is not None and not valid.all():
      x2 = x.copy()
      x2[~valid] = _big(rg, x2[~valid].shape)
      got2 = real(jnp.asarray(_layout(x2, nb, tm)), Lj, c0)
      got2_carry, got2_out = got2 if rc else (None, got2)
      got2_out = _unlayout(got2_out, nb, tm)
      ctx.check(_close(got2_out[valid], got_out[valid], core.TOL_SAME_PROGRAM), 'rnn.noninterference:%s.bidir.outputs' % api,
                lambda: dict(detail, diff=_diff(got2_out[valid], got_out[valid])))
      if rc:
        ctx.check(_tree_close(got2_carry, got_carry, core.TOL_SAME_PROGRAM), F5_WRONG if f5_domain else 'rnn.noninterference:%s.bidir.carry' % api,
                  lambda: dict(detail, diff=_tree_diff(got2_carry, got_carry)))


# ---------------------------------------------------------------------------------------------
# attention: function level


def random_mask(rg, shape, dead_keys=()):
  """Boolean mask of `shape` (..., Tq, Tk) with >= 1 allowed key in every query row; columns in dead_keys are masked everywhere."""
  m = rg.random(shape) < 0.6
  tk = shape[-1]
  live = [j for j in range(tk) if j not in dead_keys]
  m[..., list(dead_keys)] = False
  forced = rg.choice(live, size=shape[:-1])
  np.put_along_axis(m, forced[..., None], True, axis=-1)
  return m


def bcast_shape(rg, bs, h, kind):
  """Shape prefix of a mask/bias: full batch dims or all-singleton batch dims; heads full or 1."""
  if kind == 'full':
    return tuple(bs) + (h,)
  if kind == 'head1':
    return tuple(bs) + (1,)
  if kind == 'batch1':
    return (1,) * len(bs) + (h,)
  if kind == 'rank2':
    return ()              # "broadcastable to [batch..., num_heads, q_length, kv_length]": a bare (q_length, kv_length) mask / bias
  if kind == 'rank3':
    return (h,)
  if kind in ('bpart', 'bpart_head1'):
    # same rank, broadcast over SOME batch dimensions only (needs two batch dims to differ from full/batch1)
    keep = int(rg.integers(0, max(len(bs), 1)))
    return tuple(b if i == keep else 1 for i, b in enumerate(bs)) + ((h,) if kind == 'bpart' else (1,))
  raise ValueError(kind)


def attn_fn_configs(ctx, n):
  out = []
  for i in range(n):
    r = ctx.rng('attn.fn', 'cfg', i)
    tq = 1 + (i * 3 + i // 5) % 5
    out.append(dict(batch=BATCHES[i % 3], Tq=tq, Tk=r.choice([tq, tq, 1 + r.randrange(5)]), H=1 + (i // 3) % 3, D=r.choice([1, 2, 3]),
                    Dv=0, bias=r.choice(['none', 'full', 'head1', 'batch1']),
                    mask=r.choice(['none', 'full', 'full', 'head1', 'batch1']), dead=r.random() < 0.6,
                    partial=r.choice(['', '', 'bias', 'mask', 'both']),
                    mask_bool=r.random() < 0.5, eager=r.random() < 0.15))
    out[-1]['Dv'] = out[-1]['D'] if r.random() < 0.75 else 1 + out[-1]['D'] % 3  # Dv != D: Linen function and NNX explicit path only
    c = out[-1]
    if len(c['batch']) >= 2:
      # masks/biases that broadcast over some batch dimensions only
      if c.pop('partial') in ('bias', 'both'):
        c['bias'] = r.choice(['bpart', 'bpart_head1'])
      if i % 2 and c['mask'] != 'none' or c['bias'] in ('bpart', 'bpart_head1') and r.random() < 0.5:
        c['mask'] = r.choice(['bpart', 'bpart_head1'])
    else:
      c.pop('partial')
    r5 = ctx.rng('attn.fn', 'lowrank', i)
    if r5.random() < 0.3:
      c['mask' if r5.random() < 0.6 else 'bias'] = r5.choice(['rank2', 'rank3'])
      c['Dv'] = c['D']      # keep the fused NNX path reachable
  # two fixed configurations: a bare (q, kv) mask / bias with TWO batch dimensions on the fused path
  for which in ('mask', 'bias'):
    out.append(dict(batch=(2, 3), Tq=3, Tk=3, H=2, D=2, Dv=2, bias='none', mask='none', dead=False, mask_bool=True, eager=False, **{}))
    out[-1][which] = 'rank2'
  return out


def run_attn_fn_case(ctx, cfg, rg, K, index):
  import jax
  import jax.numpy as jnp
  import flax.linen as nn
  from flax import nnx
  from flax.nnx.nn import attention as nattn
  from vf import core
  from vf.refs import seq
  bs, tq, tk, h, d, dv = tuple(cfg['batch']), cfg['Tq'], cfg['Tk'], cfg['H'], cfg['D'], cfg['Dv']
  eager = cfg['eager']

  # one compilation for the four real functions of a configuration (eager: called op by op)
  def bundle(a, b, c, jb, jm):
    return dict(
        lw=nn.dot_product_attention_weights(a, b, jb, jm, deterministic=True),
        lo=nn.dot_product_attention(a, b, c, jb, jm, deterministic=True),
        nw=nattn.dot_product_attention_weights(a, b, jb, jm, deterministic=True))

  def nnx_fast(a, b, c, jb, jm):
    return nnx.dot_product_attention(a, b, c, jb, jm, deterministic=True)

  if not eager:
    bundle, nnx_fast = jax.jit(bundle), jax.jit(nnx_fast)

  for k in range(K):
    q = rg.uniform(-1, 1, bs + (tq, h, d)).astype(np.float32)
    kk = rg.uniform(-1, 1, bs + (tk, h, d)).astype(np.float32)
    v = rg.uniform(-1, 1, bs + (tk, h, dv)).astype(np.float32)
    bias = None if cfg['bias'] == 'none' else rg.uniform(-2, 2, bcast_shape(rg, bs, h, cfg['bias']) + (tq, tk)).astype(np.float32)
    dead = ()
    mask = None
    if cfg['mask'] != 'none':
      if cfg['dead'] and tk >= 2:
        dead = tuple(sorted(rg.choice(tk, size=int(rg.integers(1, tk)), replace=False).tolist()))
      mask = random_mask(rg, bcast_shape(rg, bs, h, cfg['mask']) + (tq, tk), dead)
    mname = 'bool' if cfg['mask_bool'] else 'float'
    detail = dict(cfg, draw=k, dead_keys=dead)
    jb = None if bias is None else jnp.asarray(bias)
    jm = None if mask is None else jnp.asarray(mask if cfg['mask_bool'] else mask.astype(np.float32))
    w_ref, row_ok = seq.attention_weights(q, kk, bias, mask)
    o_ref, _ = seq.attention(q, kk, v, bias, mask)
    assert row_ok.all()
    jq, jk, jv = jnp.asarray(q), jnp.asarray(kk), jnp.asarray(v)
    k2, v2 = kk.copy(), v.copy()
    if dead:
      idx = (Ellipsis, list(dead), slice(None), slice(None))
      k2[idx] = _big(rg, k2[idx].shape)
      v2[idx] = _big(rg, v2[idx].shape)

    res = _to_np(bundle(jq, jk, jv, jb, jm))
    ctx.op('linen.dot_product_attention_weights')
    ctx.op('linen.dot_product_attention')
    ctx.op('nnx.dot_product_attention_weights')
    for api, key in (('linen', 'lw'), ('nnx', 'nw')):
      ctx.check(_close(res[key], w_ref, core.TOL_FORMULA), 'attn.weights:%s.fn' % api, lambda: dict(detail, mask_dtype=mname, diff=_diff(res[key], w_ref)))
    ctx.check(_close(res['lo'], o_ref, core.TOL_FORMULA), 'attn.output:linen.fn', lambda: dict(detail, mask_dtype=mname, diff=_diff(res['lo'], o_ref)))
    if dead:
      # non-interference: keys/values at positions masked for every query may change freely
      res2 = _to_np(bundle(jq, jnp.asarray(k2), jnp.asarray(v2), jb, jm))
      ctx.check(_close(res2['lo'], res['lo'], core.TOL_SAME_PROGRAM), 'attn.noninterference:linen.fn.dead_keys', lambda: dict(detail, diff=_diff(res2['lo'], res['lo'])))
      ctx.check(_close(res2['lw'], res['lw'], core.TOL_SAME_PROGRAM) and _close(res2['nw'], res['nw'], core.TOL_SAME_PROGRAM),
                'attn.noninterference:fn.dead_keys_weights', lambda: dict(detail, diff=_diff(res2['lw'], res['lw'])))

    # NNX dot_product_attention: fused jax.nn path (module=None), and the explicit-weights path taken when weights are sown
    # (value depth != query/key depth is documented ([..., kv_length, num_heads, v_depth_per_head]) and accepted by Linen)
    ctx.op('nnx.dot_product_attention')
    if True:
      no = np.asarray(nnx_fast(jq, jk, jv, jb, jm))
      ctx.check(_close(no, o_ref, core.TOL_FORMULA), 'attn.output:nnx.fn', lambda: dict(detail, mask_dtype=mname, diff=_diff(no, o_ref)))
      if dead:
        no2 = np.asarray(nnx_fast(jq, jnp.asarray(k2), jnp.asarray(v2), jb, jm))
        ctx.check(_close(no2, no, core.TOL_SAME_PROGRAM), 'attn.noninterference:nnx.fn.dead_keys', lambda: dict(detail, diff=_diff(no2, no)))
    if dv != d or (k == 0 and (eager or index % 3 == 0)):
      holder = nnx.Module()
      ns = np.asarray(nnx.dot_product_attention(jq, jk, jv, jb, jm, deterministic=True, module=holder))
      ws = np.asarray(holder.attention_weights.value[-1])
      ctx.check(_close(ns, o_ref, core.TOL_FORMULA), 'attn.output:nnx.fn.sow_path', lambda: dict(detail, diff=_diff(ns, o_ref)))
      ctx.check(_close(ws, w_ref, core.TOL_FORMULA), 'attn.weights:nnx.fn.sown', lambda: dict(detail, diff=_diff(ws, w_ref)))

  # mask helpers (exact)
  for api, mod in (('linen', nn), ('nnx', nnx)):
    e = int(rg.integers(0, 2))
    lead = (1,) * e
    cm = np.asarray(mod.make_causal_mask(jnp.zeros(bs + (tq,)), extra_batch_dims=e))
    ctx.op(api + '.make_causal_mask')
    want = seq.causal_mask(bs, tq).astype(np.float32).reshape(lead + bs + (1, tq, tq))
    ctx.check(cm.shape == want.shape and cm.dtype == np.float32 and np.array_equal(cm, want), 'attn.mask_helper:%s.causal' % api,
              lambda: dict(batch=bs, T=tq, extra_batch_dims=e, got_shape=cm.shape))
    qv = (rg.random(bs + (tq,)) < 0.7).astype(np.float32)
    kv = (rg.random(bs + (tk,)) < 0.7).astype(np.float32)
    am = np.asarray(mod.make_attention_mask(jnp.asarray(qv), jnp.asarray(kv), extra_batch_dims=e))
    ctx.op(api + '.make_attention_mask')
    want = seq.pairwise_mask(qv, kv, lambda a, b: a * b).reshape(lead + bs + (1, tq, tk))
    ctx.check(am.shape == want.shape and np.array_equal(am, want), 'attn.mask_helper:%s.attention' % api, lambda: dict(batch=bs, got_shape=am.shape))
    qs, ks = rg.integers(0, 3, bs + (tq,)), rg.integers(0, 3, bs + (tk,))
    sm = np.asarray(mod.make_attention_mask(jnp.asarray(qs), jnp.asarray(ks), jnp.equal, dtype=bool))
    want_s = seq.pairwise_mask(qs, ks, lambda a, b: a == b) != 0
    ctx.check(sm.shape == want_s.shape and sm.dtype == bool and np.array_equal(sm, want_s), 'attn.mask_helper:%s.segments' % api, lambda: dict(batch=bs))
    am0 = am[(0,) * e] if e else am
    comb = mod.combine_masks(jnp.asarray(am0), None, jnp.asarray(sm))
    ctx.op(api + '.combine_masks')
    want_c = seq.combine(am0, None, sm)
    ctx.check(np.array_equal(np.asarray(comb) != 0, want_c) and np.asarray(comb).dtype == np.float32, 'attn.mask_helper:%s.combine' % api, lambda: dict(batch=bs))
    ctx.check(mod.combine_masks(None, None) is None, 'attn.mask_helper:%s.combine_none' % api, None)


# ---------------------------------------------------------------------------------------------
# attention: modules, decode cache


class CacheMonitor:
  """Between decode steps: the index moves by exactly +1, rows already written never change."""

  def __init__(self, ctx, api, detail):
    self.ctx, self.api, self.detail = ctx, api, detail
    self.prev = None

  def observe(self, index, ck, cv):
    index, ck, cv = int(index), np.array(ck), np.array(cv)
    self.ctx.event('cache_observed')
    if self.prev is None:
      self.ctx.check(index == 0, 'attn.cache_index:%s.initial' % self.api, lambda: dict(self.detail, index=index))
    else:
      pi, pk, pv = self.prev
      self.ctx.check(index == pi + 1, 'attn.cache_index:%s.step' % self.api, lambda: dict(self.detail, before=pi, after=index))
      n = min(pi, ck.shape[-3])
      same = ck.shape == pk.shape and np.array_equal(ck[..., :n, :, :], pk[..., :n, :, :]) and np.array_equal(cv[..., :n, :, :], pv[..., :n, :, :])
      self.ctx.check(same, 'attn.cache_rows_frozen:' + self.api, lambda: dict(self.detail, rows_below=n, index=index))
    self.prev = (index, ck, cv)


def mha_configs(ctx, n):
  out = []
  for i in range(n):
    r = ctx.rng('attn.mha', 'cfg', i)
    h = 1 + i % 3
    out.append(dict(batch=BATCHES[(i // 3) % 3], T=1 + (i * 5 + i // 9 + i // 6) % 6, H=h, D=r.choice([1, 2]), F=r.choice([2, 3]),
                    Fout=r.choice([None, None, 2]), use_bias=r.random() < 0.75, mask=r.choice(['none', 'full', 'head1', 'batch1']),
                    bias=r.choice(['none', 'full', 'head1']), cache_init=r.choice(['apply', 'apply', 'init']), eager=r.random() < 0.12))
    # QK normalisation with non-default LayerNorm scales (seeded change C13-b); head_dim >= 4 keeps the LayerNorm well conditioned
    r2 = ctx.rng('attn.mha', 'nqk', i)
    out[-1]['nqk'] = r2.random() < 0.35
    if out[-1]['nqk']:
      out[-1]['D'] = r2.choice([4, 8])
    r4 = ctx.rng('attn.mha', 'wrapped_fn', i)
    out[-1]['wrapped_fn'] = r4.choice([None, None, None, 'kwargs', 'named_and_kwargs'])
    r3 = ctx.rng('attn.mha', 'bpart', i)
    if len(out[-1]['batch']) >= 2 and r3.random() < 0.5:
      # mask / bias broadcasting over one of the two batch dimensions only
      which = r3.choice(['mask', 'bias', 'both'])
      if which in ('mask', 'both'):
        out[-1]['mask'] = r3.choice(['bpart', 'bpart_head1'])
      if which in ('bias', 'both'):
        out[-1]['bias'] = r3.choice(['bpart', 'bpart_head1'])
  return out


def run_mha_case(ctx, cfg, rg, index):
  import jax
  import jax.numpy as jnp
  import flax.linen as nn
  from flax import nnx
  from vf import core
  from vf.refs import seq
  bs, T, H, D, F, Fout, ub = tuple(cfg['batch']), cfg['T'], cfg['H'], cfg['D'], cfg['F'], cfg['Fout'], cfg['use_bias']
  nb = len(bs)
  eager = cfg['eager']
  z = nn.initializers.zeros_init()
  nqk = cfg.get('nqk', False)
  kw = dict(num_heads=H, qkv_features=H * D, out_features=Fout, use_bias=ub, normalize_qk=nqk)
  if cfg.get('wrapped_fn'):
    # a user-supplied attention_fn that forwards its keyword arguments (thin wrapper): mask and bias still have to arrive
    if cfg['wrapped_fn'] == 'kwargs':
      kw['attention_fn'] = lambda q, k, v, **kwa: nn.dot_product_attention(q, k, v, **kwa)
    else:
      kw['attention_fn'] = lambda q, k, v, bias=None, mask=None, **kwa: nn.dot_product_attention(q, k, v, bias=bias, mask=mask, **kwa)
  whole = nn.MultiHeadDotProductAttention(decode=False, **kw)
  dec = nn.MultiHeadDotProductAttention(decode=True, kernel_init=z, **kw)  # cheap initializer: init is used for the cache only
  skey = ('mha_shapes', H, D, F, Fout, ub, nqk)
  if skey not in _CACHE:
    _CACHE[skey] = jax.eval_shape(lambda: whole.init(jax.random.key(0), np.zeros((1, F), np.float32)))['params']
  params = _random_tree(_CACHE[skey], rg)
  params_np = _to_np(params)
  x = rg.uniform(-1, 1, bs + (T, F)).astype(np.float32)
  M = None if cfg['mask'] == 'none' else rg.random(bcast_shape(rg, bs, H, cfg['mask']) + (T, T)) < 0.6
  if M is not None:
    M[..., np.arange(T), np.arange(T)] = True  # with the causal mask every query row keeps >= 1 allowed key (itself)
  B = None if cfg['bias'] == 'none' else rg.uniform(-2, 2, bcast_shape(rg, bs, H, cfg['bias']) + (T, T)).astype(np.float32)
  full_mask_ref = seq.combine(seq.causal_mask(bs, T), M)
  jx = jnp.asarray(x)
  jM = None if M is None else jnp.asarray(M.astype(np.float32))
  jB = None if B is None else jnp.asarray(B)
  detail = dict(cfg)
  out_ref, w_ref, row_ok, (q_ref, k_ref, v_ref) = seq.mha(params_np, x, x, x, full_mask_ref, B)
  assert row_ok.all()

  # paired inputs: (a) positions after a causal position p, (b) padded positions, (c) keys no query may see
  p = int(rg.integers(0, T - 1)) if T >= 2 else None
  x_c = x.copy()
  if p is not None:
    x_c[..., p + 1:, :] = _big(rg, x_c[..., p + 1:, :].shape)
  lens = rg.integers(1, T + 1, size=bs)
  if T >= 2 and np.all(lens == T):
    lens[(0,) * nb] = rg.integers(1, T)
  valid = seq.valid_mask(seq.lengths_or_full(lens, bs, T), bs, T)
  jvalid = jnp.asarray(valid.astype(np.float32))
  x_p = x.copy()
  x_p[~valid] = _big(rg, x_p[~valid].shape)
  o_pad_ref = seq.mha(params_np, x, x, x, seq.pairwise_mask(valid, valid, lambda a, b: a * b), None)[0]
  Tk = int(rg.integers(2, 6))
  dead = tuple(sorted(rg.choice(Tk, size=int(rg.integers(1, Tk)), replace=False).tolist()))
  xm = random_mask(rg, bcast_shape(rg, bs, H, 'full' if cfg['mask'] == 'none' else cfg['mask']) + (T, Tk), dead)
  xk = rg.uniform(-1, 1, bs + (Tk, F)).astype(np.float32)
  xv = rg.uniform(-1, 1, bs + (Tk, F)).astype(np.float32)
  o_x_ref = seq.mha(params_np, x, xk, xv, xm, None)[0]
  xk2, xv2 = xk.copy(), xv.copy()
  xk2[..., list(dead), :] = _big(rg, xk2[..., list(dead), :].shape)
  xv2[..., list(dead), :] = _big(rg, xv2[..., list(dead), :].shape)
  jxm = jnp.asarray(xm)

  def rows(a, t):
    return None if a is None else a[..., t:t + 1, :]

  def check_whole(api, r1, r2):
    """r1: results on the original inputs, r2: on the perturbed inputs (same compiled program)."""
    y, yc, yp, yx = (np.asarray(r1[k]) for k in ('y', 'y', 'y_pad', 'y_cross'))
    ctx.check(_close(y, out_ref, core.TOL_FORMULA), 'attn.mha_formula:' + api, lambda: dict(detail, diff=_diff(y, out_ref)))
    w = np.asarray(r1['w'])
    ctx.check(_close(w, w_ref, core.TOL_FORMULA), 'attn.weights:%s.mha' % api, lambda: dict(detail, diff=_diff(w, w_ref)))
    if 'y_sow' in r1:
      ys = np.asarray(r1['y_sow'])
      ctx.check(_close(ys, out_ref, core.TOL_FORMULA), 'attn.mha_formula:%s.sow_path' % api, lambda: dict(detail, diff=_diff(ys, out_ref)))
    ctx.check(yp.shape == o_pad_ref.shape and _close(yp[valid], o_pad_ref[valid], core.TOL_FORMULA), 'attn.mha_formula:%s.padding' % api,
              lambda: dict(detail, lengths=lens.tolist(), diff=_diff(yp[valid], o_pad_ref[valid])))
    ctx.check(_close(yx, o_x_ref, core.TOL_FORMULA), 'attn.mha_formula:%s.cross' % api, lambda: dict(detail, Tk=Tk, dead=dead, diff=_diff(yx, o_x_ref)))
    y2, yp2, yx2 = (np.asarray(r2[k]) for k in ('y', 'y_pad', 'y_cross'))
    if p is not None:
      ctx.check(_close(y2[..., :p + 1, :], y[..., :p + 1, :], core.TOL_SAME_PROGRAM), 'attn.noninterference:%s.causal' % api,
                lambda: dict(detail, last_equal_position=p, diff=_diff(y2[..., :p + 1, :], y[..., :p + 1, :])))
    if not valid.all():
      ctx.check(_close(yp2[valid], yp[valid], core.TOL_SAME_PROGRAM), 'attn.noninterference:%s.padding' % api,
                lambda: dict(detail, lengths=lens.tolist(), diff=_diff(yp2[valid], yp[valid])))
    ctx.check(_close(yx2, yx, core.TOL_SAME_PROGRAM), 'attn.noninterference:%s.dead_keys' % api, lambda: dict(detail, Tk=Tk, dead=dead, diff=_diff(yx2, yx)))
    return y

  # ---------------- Linen
  def l_whole(xc, xp, xq, k_in, v_in):
    lmask = nn.combine_masks(nn.make_causal_mask(jnp.zeros(bs + (T,))), jM)
    y, inter = whole.apply({'params': params}, xc, mask=lmask, attention_bias=jB, sow_weights=True, mutable=['intermediates'])
    return dict(y=y, w=inter['intermediates']['attention_weights'][0],
                y_pad=whole.apply({'params': params}, xp, mask=nn.make_attention_mask(jvalid, jvalid)),
                y_cross=whole.apply({'params': params}, xq, k_in, v_in, mask=jxm))

  def l_step(cache, xt, m, b):
    return dec.apply({'params': params, 'cache': cache}, xt, mask=m, attention_bias=b, mutable=['cache'])

  def l_init_cache():
    if cfg['cache_init'] == 'init':
      return dec.init(jax.random.key(1), jnp.zeros(bs + (T, F)))['cache']
    return dec.apply({'params': params}, jnp.zeros(bs + (T, F)), mutable=['cache'])[1]['cache']

  if not eager:
    l_whole, l_step, l_init_cache = jax.jit(l_whole), jax.jit(l_step), jax.jit(l_init_cache)
  ctx.op('nn.MultiHeadDotProductAttention')
  y = check_whole('linen', l_whole(jx, jx, jx, jnp.asarray(xk), jnp.asarray(xv)),
                  l_whole(jnp.asarray(x_c), jnp.asarray(x_p), jx, jnp.asarray(xk2), jnp.asarray(xv2)))

  def l_decode(cache, monitor):
    outs = []
    if monitor:
      monitor.observe(cache['cache_index'], cache['cached_key'], cache['cached_value'])
    for t in range(T):
      o, mut = l_step(cache, jx[..., t:t + 1, :], rows(jM, t), rows(jB, t))
      cache = mut['cache']
      outs.append(np.asarray(o))
      if monitor:
        monitor.observe(cache['cache_index'], cache['cached_key'], cache['cached_value'])
    return outs, cache

  cache0 = l_init_cache()
  ctx.op('nn.MultiHeadDotProductAttention[decode]')
  ck0 = np.asarray(cache0['cached_key'])
  ctx.check(ck0.shape == bs + (T, H, D) and np.asarray(cache0['cached_value']).shape == bs + (T, H, D), 'attn.cache_shape:linen', lambda: dict(detail, got=ck0.shape))
  outs, cache_end = l_decode(cache0, CacheMonitor(ctx, 'linen', detail))
  for t in range(T):
    ctx.check(_close(outs[t], y[..., t:t + 1, :], core.TOL_SAME_PROGRAM), 'attn.decode_vs_whole:linen',
              lambda: dict(detail, step=t, diff=_diff(outs[t], y[..., t:t + 1, :])))
  ctx.check(_close(cache_end['cached_key'], k_ref, core.TOL_FORMULA) and _close(cache_end['cached_value'], v_ref, core.TOL_FORMULA),
            'attn.cache_row_value:linen', lambda: dict(detail, diff=_diff(cache_end['cached_key'], k_ref)))
  # garbage in the not-yet-written cache rows is masked
  garbage = dict(cache0)
  garbage['cached_key'] = jnp.asarray(_big(rg, ck0.shape))
  garbage['cached_value'] = jnp.asarray(_big(rg, ck0.shape))
  outs_g, _ = l_decode(garbage, None)
  ctx.check(all(_close(a, b, core.TOL_SAME_PROGRAM) for a, b in zip(outs_g, outs)), 'attn.noninterference:linen.cache_garbage',
            lambda: dict(detail, diff=[_diff(a, b) for a, b in zip(outs_g, outs)]))

  # ---------------- NNX on the same parameters
  m = nnx.MultiHeadAttention(H, F, H * D, Fout, use_bias=ub, decode=True, kernel_init=z, normalize_qk=nqk, rngs=nnx.Rngs(0))
  for nm in ('query', 'key', 'value', 'out'):
    getattr(m, nm).kernel.value = params[nm]['kernel']
    if ub:
      getattr(m, nm).bias.value = params[nm]['bias']
  if nqk:
    m.query_ln.scale.value = params['query_ln']['scale']
    m.key_ln.scale.value = params['key_ln']['scale']
  ctx.op('nnx.MultiHeadAttention')

  def n_whole(mm, xc, xp, xq, k_in, v_in):
    nmask = nnx.combine_masks(nnx.make_causal_mask(jnp.zeros(bs + (T,))), jM)
    out = dict(y=mm(xc, mask=nmask, attention_bias=jB, decode=False),
               y_sow=mm(xc, mask=nmask, attention_bias=jB, decode=False, sow_weights=True))
    out['w'] = mm.attention_weights.value[-1]
    del mm.attention_weights
    out['y_pad'] = mm(xp, mask=nnx.make_attention_mask(jvalid, jvalid), decode=False)
    out['y_cross'] = mm(xq, k_in, v_in, mask=jxm, decode=False)
    return out

  def n_step(mm, xt, mk, b):
    return mm(xt, mask=mk, attention_bias=b)

  if not eager:
    n_whole, n_step = nnx.jit(n_whole), nnx.jit(n_step)
  yn = check_whole('nnx', n_whole(m, jx, jx, jx, jnp.asarray(xk), jnp.asarray(xv)),
                   n_whole(m, jnp.asarray(x_c), jnp.asarray(x_p), jx, jnp.asarray(xk2), jnp.asarray(xv2)))
  ctx.check(_close(yn, y, core.TOL_FORMULA), 'xapi.attention:whole', lambda: dict(detail, diff=_diff(yn, y)))

  def n_decode(monitor, garbage=False):
    m.init_cache(bs + (T, F))
    if garbage:
      m.cached_key.value = jnp.asarray(_big(rg, bs + (T, H, D)))
      m.cached_value.value = jnp.asarray(_big(rg, bs + (T, H, D)))
    outs = []
    if monitor:
      monitor.observe(m.cache_index.value, m.cached_key.value, m.cached_value.value)
    for t in range(T):
      outs.append(np.asarray(n_step(m, jx[..., t:t + 1, :], rows(jM, t), rows(jB, t))))
      if monitor:
        monitor.observe(m.cache_index.value, m.cached_key.value, m.cached_value.value)
    return outs

  outs_n = n_decode(CacheMonitor(ctx, 'nnx', detail))
  ctx.op('nnx.MultiHeadAttention[decode]')
  for t in range(T):
    ctx.check(_close(outs_n[t], yn[..., t:t + 1, :], core.TOL_SAME_PROGRAM), 'attn.decode_vs_whole:nnx',
              lambda: dict(detail, step=t, diff=_diff(outs_n[t], yn[..., t:t + 1, :])))
    ctx.check(_close(outs_n[t], outs[t], core.TOL_FORMULA), 'xapi.attention:decode', lambda: dict(detail, step=t, diff=_diff(outs_n[t], outs[t])))
  ctx.check(_close(m.cached_key.value, k_ref, core.TOL_FORMULA) and _close(m.cached_value.value, v_ref, core.TOL_FORMULA),
            'attn.cache_row_value:nnx', lambda: dict(detail, diff=_diff(m.cached_key.value, k_ref)))
  outs_ng = n_decode(None, garbage=True)
  ctx.check(all(_close(a, b, core.TOL_SAME_PROGRAM) for a, b in zip(outs_ng, outs_n)), 'attn.noninterference:nnx.cache_garbage',
            lambda: dict(detail, diff=[_diff(a, b) for a, b in zip(outs_ng, outs_n)]))


# ---------------------------------------------------------------------------------------------


def run_long_narrow_case(ctx, i, rg):
  """Long padded sequences whose lengths arrive in a narrow integer dtype (int8 / uint8 / int16, the way data pipelines store
  them): the dtype of seq_lengths is bookkeeping - outputs and final carry equal those obtained with int32 lengths, in both APIs."""
  import jax
  import jax.numpy as jnp
  import flax.linen as nn
  from flax import nnx
  dt, T = [('int8', 70), ('uint8', 130), ('int8', 127), ('int16', 70), ('uint8', 255), ('int8', 100)][i % 6]
  layer = ['rnn_reverse', 'rnn_reverse_keep_order', 'bidirectional', 'rnn_forward'][(i // 6) % 4]
  api = ['linen', 'nnx'][(i // 24) % 2] if layer != 'bidirectional' or True else 'linen'
  desc = dict(lengths_dtype=dt, T=T, layer=layer, api=api)
  with ctx.case('rnn.long_narrow', i, desc, nontrivial=True):
    B, F, H = 2, 2, 3
    x = jnp.asarray(rg.uniform(-1, 1, (B, T, F)).astype(np.float32))
    lens = np.asarray([T - 3, max(1, T // 2)], np.int64)
    L32, Ln = jnp.asarray(lens.astype(np.int32)), jnp.asarray(lens.astype(dt))
    if api == 'linen':
      if layer == 'bidirectional':
        mod = nn.Bidirectional(nn.RNN(nn.GRUCell(H)), nn.RNN(nn.GRUCell(H)), return_carry=True)
      else:
        mod = nn.RNN(nn.GRUCell(H), reverse=layer != 'rnn_forward', keep_order=layer == 'rnn_reverse_keep_order', return_carry=True)
      v = mod.init(jax.random.key(i), x, seq_lengths=L32)
      call = lambda L: mod.apply(v, x, seq_lengths=L)  # noqa: E731
    else:
      mk = lambda: nnx.RNN(nnx.GRUCell(F, H, rngs=nnx.Rngs(i)), reverse=layer != 'rnn_forward', keep_order=layer == 'rnn_reverse_keep_order', return_carry=True)  # noqa: E731
      if layer == 'bidirectional':
        mod = nnx.Bidirectional(mk_f := nnx.RNN(nnx.GRUCell(F, H, rngs=nnx.Rngs(i)), return_carry=True), nnx.RNN(nnx.GRUCell(F, H, rngs=nnx.Rngs(i + 1)), return_carry=True), return_carry=True)
      else:
        mod = mk()
      call = lambda L: mod(x, seq_lengths=L)  # noqa: E731
    want = call(L32)
    got = call(Ln)
    ctx.op('%s.%s(seq_lengths dtype %s, T=%d)' % (api, layer, dt, T))
    la, lb = jax.tree_util.tree_leaves(want), jax.tree_util.tree_leaves(got)
    valid = np.arange(T)[None, :] < lens[:, None]
    ok = len(la) == len(lb)
    for a, b in zip(la, lb):
      a, b = np.asarray(a), np.asarray(b)
      if a.shape != b.shape:
        ok = False
      elif a.ndim == 3 and a.shape[:2] == (B, T):
        ok = ok and np.allclose(a[valid], b[valid], rtol=1e-5, atol=1e-6)   # padded positions are unspecified
      else:
        ok = ok and np.allclose(a, b, rtol=1e-5, atol=1e-6)
    ctx.check(ok, 'rnn.seq_lengths_dtype_changes_result:%s' % api, lambda: dict(case=desc))


def run(ctx):
  import time
  quick = ctx.tier == 'quick'
  for i in ctx.indices(24 if quick else 48, 'rnn.long_narrow'):
    with_rg = _np_rng(ctx, 'rnn.long_narrow', i)
    run_long_narrow_case(ctx, i, with_rg)
  t_last = [time.time()]

  def lap(name):
    now = time.time()
    ctx.extra['seconds.' + name] = round(now - t_last[0], 1)
    t_last[0] = now

  n_fn, n_mha, n_lin, n_nnx, n_sq, n_bi = (24, 36, 216, 60, 16, 36) if quick else (240, 432, None, None, None, 360)
  K = 2 if quick else 3

  for i, cfg in ctx.items(attn_fn_configs(ctx, n_fn), 'attn.fn'):
    with ctx.case('attn.fn', i, cfg, nontrivial=cfg['Tk'] >= 2):
      run_attn_fn_case(ctx, cfg, _np_rng(ctx, 'attn.fn', i), K, i)

  lap('attn.fn')
  for i, cfg in ctx.items(mha_configs(ctx, n_mha), 'attn.mha'):
    with ctx.case('attn.mha', i, cfg, nontrivial=cfg['T'] >= 2):
      run_mha_case(ctx, cfg, _np_rng(ctx, 'attn.mha', i), i)

  lap('attn.mha')
  cells = LINEN_CELLS if quick else LINEN_CELLS_THOROUGH
  for i, cfg in ctx.items(rnn_configs(ctx, 'rnn.linen', cells, n_lin), 'rnn.linen'):
    with ctx.case('rnn.linen', i, desc_of(cfg), nontrivial=cfg['T'] >= 2):
      run_rnn_case(ctx, 'linen', cfg, _np_rng(ctx, 'rnn.linen', i), K)
  if not quick:
    ctx.exhaustive['nn.RNN: cells x batch shapes x T<=6 x 32 flag combinations'] = True

  lap('rnn.linen')
  for i, cfg in ctx.items(rnn_configs(ctx, 'rnn.nnx', NNX_CELLS, n_nnx), 'rnn.nnx'):
    with ctx.case('rnn.nnx', i, desc_of(cfg), nontrivial=cfg['T'] >= 2):
      run_rnn_case(ctx, 'nnx', cfg, _np_rng(ctx, 'rnn.nnx', i), K)
  if not quick:
    ctx.exhaustive['nnx.RNN: cells x batch shapes x T<=6 x 32 flag combinations'] = True

  lap('rnn.nnx')
  for i, cfg in ctx.items(square_configs(ctx, n_sq), 'rnn.square'):
    with ctx.case('rnn.square', i, desc_of(cfg), nontrivial=cfg['T'] >= 2):
      run_rnn_case(ctx, cfg['api'], cfg, _np_rng(ctx, 'rnn.square', i), K)
  lap('rnn.square')
  for i, cfg in ctx.items(bidir_configs(ctx, n_bi), 'rnn.bidir'):
    d = dict(cfg, fwd=_spec_name(cfg['fwd']), bwd=_spec_name(cfg['bwd']))
    with ctx.case('rnn.bidir', i, d, nontrivial=cfg['T'] >= 2):
      run_bidir_case(ctx, cfg, _np_rng(ctx, 'rnn.bidir', i), K)
  lap('rnn.bidir')
