"""C09 — random keys are deterministic, position-addressed and never reused.

Monitor shape: *draw log* — a wrapper on Scope.make_rng (Linen) and on RngStream.__call__ (NNX) records, at the boundary where a key
is handed to user code, (logical position, key data bytes). Offline checkers over the logs: determinism (two runs, equal logs), frame
(program P vs P + an unrelated edit agree on all common positions), injectivity (position -> key is injective within a run; the
colliding pair is the witness), fallback equality, resume-after-split/restore and reseed for NNX streams. Initial parameter values are a
second observation of initializer keys."""
import hashlib

import numpy as np

LEVEL = 'exploration'
LEVEL_TEXT = ('Generated Linen module programs (<= 30 draws; params, noise streams, dropout; adversarial names such as ab/c vs a/bc) are run '
              'twice, and again after unrelated edits (extra/removed/reordered explicitly named siblings, extra streams, appended '
              'variables), with both settings of flax_fix_rng_separator, typed and legacy keys; every key handed out is logged at '
              'Scope.make_rng and checked for determinism, frame, injectivity and params-fallback. NNX Rngs with <= 5 streams and <= 50 '
              'calls, default-fallback, split_rngs (int and tuple splits, only-filters) + restore, fork and reseed are checked against '
              'fold_in(seed key, count) and for never replaying a key.'
              ' Further streams: keys inside nn.jit across applies, flag toggling within one process, scopes lifted'
              ' together with a transformed module (attribute sub-modules, repeated uses, function-style lifts), random push / draw / lift'
              ' programs on bare flax.core Scopes (lifts of a subset of the streams), Rngs handed to nnx.scan / nnx.vmap (split recipe or broadcast).'
              ' Round e: core.scope programs, nnx.transform_rngs (K8).'
              ' Round g: nnx.reseed with key arrays.')
LEVEL_NOTE = ('With flax_fix_rng_separator off, path-concatenation collisions are expected: only the count / stream-seed / sibling-name '
              'distinctness clauses are asserted there. The 32-bit truncation of the path hash can collide by chance (p < 1e-6 per run at '
              'these sizes); such a collision is reported as inconclusive when the full SHA-1 digests differ.')
TECHNIQUE = 'runtime monitoring: draw log at make_rng / RngStream.__call__ with offline determinism, frame and injectivity checkers'
RULE = ('case = (program, rng seeds, flag, edit kind) for Linen; (stream set, seeds, call sequence, split/fork/reseed script) for NNX. '
        'distinct = distinct descriptor; non-trivial = >= 3 draws in >= 2 scopes or streams.')
ASSUMPTIONS = ['jax.random.fold_in / split are injective enough (trusted)', 'vf.compat get_opaque_trace_state alias is faithful']
PLAN = {'quick': dict(workers=6, timeout_s=1200), 'thorough': dict(workers=14, timeout_s=3000)}
MIN_EVENTS = {'quick': {'hook.make_rng': 4000, 'oracle:determinism': 200, 'oracle:frame': 300, 'oracle:injective': 300, 'oracle:fallback': 40,
                        'hook.rngstream_call': 2000, 'oracle:nnx.position': 1500, 'oracle:nnx.no_replay': 100, 'oracle:nnx.reseed': 30},
              'thorough': {'hook.make_rng': 60000, 'oracle:frame': 5000, 'oracle:nnx.no_replay': 1500}}


class DrawLog:
  def __init__(self, ctx):
    import jax
    from flax.core import scope
    from flax.nnx import rnglib
    self.events = []   # (path tuple, requested, effective, count, key bytes)
    self.nnx = []      # (stream tag, count before, key bytes)
    self.active = False
    log = self
    orig = scope.Scope.make_rng

    def make_rng(self_scope, name='params'):
      key = orig(self_scope, name)
      if log.active:
        ctx.event('hook.make_rng')
        eff = name if self_scope.has_rng(name) else 'params'
        log.events.append((tuple(self_scope.path), name, eff, int(self_scope.rng_counters[eff]), key_bytes(key)))
      return key

    scope.Scope.make_rng = make_rng
    orig_call = rnglib.RngStream.__call__

    def stream_call(self_stream):
      cnt = np.asarray(self_stream.count.value).copy() if log.active else None
      key = orig_call(self_stream)
      if log.active:
        ctx.event('hook.rngstream_call')
        log.nnx.append((self_stream.key.tag, cnt.tolist(), key_bytes(key)))
      return key

    rnglib.RngStream.__call__ = stream_call


def key_bytes(key):
  import jax
  import jax.numpy as jnp
  if jax.dtypes.issubdtype(key.dtype, jax.dtypes.prng_key):
    return np.asarray(jax.random.key_data(key)).tobytes()
  return np.asarray(key).tobytes()


def digest(path, count, fix_sep):
  """Full SHA-1 digest flax feeds (truncated to 32 bits) to fold_in - used only to classify chance collisions."""
  m = hashlib.sha1()
  for x in tuple(path) + (count,):
    if fix_sep:
      m.update(b'\x00')
    if isinstance(x, str):
      m.update(x.encode('utf-8'))
    else:
      m.update(x.to_bytes((x.bit_length() + 7) // 8, byteorder='big'))
  return m.digest()


# ---------------------------------------------------------------------------------------------
# Linen


def adversarial_names(node, rng, depth=0):
  """Rename explicitly named children / give explicit names from a set with concatenation ambiguities."""
  pool = ['ab', 'a', 'b', 'c', 'bc', 'abc', 'a_1', 'a_', '_1', 'x', 'xx']
  used = {op[1] for op in node[2] if op[0] in ('child', 'dense', 'shared', 'param') and op[1] is not None}
  used |= {op[2] for op in node[2] if op[0] in ('counter', 'stat', 'sow')}
  ops = []
  for op in node[2]:
    if op[0] in ('child', 'dense') and node[1] == 'compact' and rng.random() < 0.7:
      cands = [n for n in pool if n not in used]
      if cands:
        n = rng.choice(cands)
        used.add(n)
        if op[0] == 'child':
          op = (op[0], n, adversarial_names(op[2], rng, depth + 1)) + op[3:]
        else:
          op = (op[0], n) + op[2:]
    elif op[0] == 'child':
      op = (op[0], op[1], adversarial_names(op[2], rng, depth + 1)) + op[3:]
    ops.append(op)
  return (node[0], node[1], tuple(ops))


def run_logged(log, m, rngs, x, init=True, variables=None):
  log.events.clear()
  log.active = True
  try:
    if init:
      out = m.init_with_output(rngs, x)
    else:
      out = m.apply(variables, x, rngs=rngs)
  finally:
    log.active = False
  return out, list(log.events)


def positions(events):
  """position -> key bytes; a position is (path, effective stream, count)."""
  pos = {}
  for path, req, eff, cnt, kb in events:
    pos[(path, eff, cnt)] = kb
  return pos


def edit_program(spec, rng, kind):
  """Unrelated edits that leave every other draw's logical position unchanged (compact roots: explicitly named siblings)."""
  node = spec['root']
  ops = list(node[2])
  d = spec['d_out']
  if kind == 'add_sibling':
    # an explicitly named dim-preserving child with its own draws, inserted at a random place
    pos = rng.randint(0, len(ops))
    d_here = spec['d_in']
    for op in ops[:pos]:
      if op[0] == 'dense':
        d_here = op[3]
      elif op[0] == 'child':
        d_here = op[4]
    new_child = ('node', 'compact', (('param', 'p_new', 'scale', d_here), ('noise', 'noise'), ('dense', 'inner_new', d_here, d_here)))
    n_subs_before = sum(1 for op in ops[:pos] if op[0] in ('dense', 'child', 'shared', 'dropout'))
    ops = ops[:pos] + [('child', 'zz_unrelated_sibling', new_child, d_here, d_here)] + \
        [(('again', op[1] + 1) if op[0] == 'again' and op[1] >= n_subs_before else op) for op in ops[pos:]]
  elif kind == 'append_draws':
    ops += [('noise', 'other'), ('param', 'p_appended', 'bias', d), ('dropout', 0.5)]
  elif kind == 'remove_named_child':
    idx = [i for i, op in enumerate(ops) if op[0] == 'child' and op[1] is not None and op[3] == op[4]]
    if not idx:
      return None
    k = rng.choice(idx)
    sub_k = sum(1 for op in ops[:k] if op[0] in ('dense', 'child', 'shared', 'dropout'))
    if any(op[0] == 'again' and op[1] == sub_k for op in ops):
      return None
    ops = ops[:k] + [(('again', op[1] - 1) if op[0] == 'again' and op[1] > sub_k else op) for op in ops[k + 1:]]
  elif kind == 'extra_stream':
    pass
  return dict(spec, root=(node[0], node[1], tuple(ops)))


def run_linen(ctx, i, rng, log):
  import flax
  import jax
  from vf.gen import linen_prog as LP
  fix_sep = bool(i % 2)
  spec = LP.gen_program(rng, max_nodes=6, depth=3, styles=['compact'], stateful=False, observe=False, shared=(i % 3 == 0))
  spec = dict(spec, root=adversarial_names(spec['root'], rng))
  legacy = rng.random() < 0.2
  desc = dict(program=repr(spec['root'])[:800], fix_rng_separator=fix_sep, legacy_keys=legacy)
  with ctx.case('linen', i, desc, nontrivial=True):
    flax.config.update('flax_fix_rng_separator', fix_sep)
    try:
      m = LP.make_module(spec['root'])
      x = LP.make_input(rng, spec)
      seed = 1 + i % 7
      rngs = LP.rng_dict(spec, seed, legacy=legacy, extra=['noise', 'other', 'dropout'])
      (y1, v1), ev1 = run_logged(log, m, rngs, x)
      (y2, v2), ev2 = run_logged(log, LP.make_module(spec['root']), dict(rngs), x)
      ctx.op('init')
      # ---- determinism: same program, same seeds => same positions and same keys; same initial parameter values
      ctx.check(ev1 == ev2, 'determinism:draw_log', lambda: dict(case=desc, n=len(ev1)))
      same_vals = all(np.array_equal(np.asarray(a), np.asarray(b)) for a, b in zip(jax.tree_util.tree_leaves(v1), jax.tree_util.tree_leaves(v2)))
      ctx.check(same_vals and np.array_equal(np.asarray(y1), np.asarray(y2)), 'determinism:values', lambda: dict(case=desc))
      _, ev_a1 = run_logged(log, m, rngs, x, init=False, variables=v1)
      _, ev_a2 = run_logged(log, m, rngs, x, init=False, variables=v1)
      ctx.op('apply')
      ctx.check(ev_a1 == ev_a2, 'determinism:draw_log_apply', lambda: dict(case=desc))
      # different seeds => different keys at every position
      rngs_b = LP.rng_dict(spec, seed + 50, legacy=legacy, extra=['noise', 'other', 'dropout'])
      _, ev_b = run_logged(log, m, rngs_b, x)
      pa, pb = positions(ev1), positions(ev_b)
      ctx.check(set(pa) == set(pb) and all(pa[k] != pb[k] for k in pa), 'injective:different_seed_same_key', lambda: dict(case=desc))

      # ---- injectivity within one run
      pos = positions(ev1)
      ctx.check(len(pos) == len(ev1), 'injective:position_visited_twice', lambda: dict(case=desc))
      by_key = {}
      for p, kb in pos.items():
        by_key.setdefault(kb, []).append(p)
      for kb, ps in by_key.items():
        if len(ps) < 2:
          continue
        a, b = ps[0], ps[1]
        chance = digest(a[0], a[2], fix_sep) != digest(b[0], b[2], fix_sep) and a[1] == b[1]
        if chance:
          ctx.note_inconclusive('32-bit hash truncation collision between %r and %r' % (a, b))
          continue
        same_scope = a[0] == b[0]
        siblings = len(a[0]) == len(b[0]) and a[0][:-1] == b[0][:-1]
        if fix_sep or same_scope or siblings or a[1] != b[1]:
          clause = 'count' if same_scope and a[1] == b[1] else 'stream' if a[1] != b[1] else 'sibling' if siblings else 'path'
          ctx.check(False, 'injective:same_key_at_two_positions:' + clause, lambda: dict(case=desc, a=repr(a), b=repr(b)))
      ctx.check(True, 'injective')

      # ---- frame: unrelated edits leave every other key unchanged
      for kind in ('add_sibling', 'append_draws', 'remove_named_child', 'extra_stream'):
        spec2 = edit_program(spec, rng, kind)
        if spec2 is None:
          continue
        rngs2 = dict(rngs)
        if kind == 'extra_stream':
          rngs2['brand_new_stream'] = jax.random.key(999) if not legacy else jax.random.PRNGKey(999)
        try:
          _, ev_e = run_logged(log, LP.make_module(spec2['root']), rngs2, x)
        except Exception as e:  # noqa: BLE001 - the edited program is not runnable (shape mismatch after removal): skip this edit
          ctx.event('frame.edit_not_applicable')
          continue
        pe = positions(ev_e)
        common = set(pos) & set(pe)
        moved = [p for p in common if pos[p] != pe[p]]
        expect_common = set(pos) if kind != 'remove_named_child' else None
        ctx.check(not moved and (expect_common is None or expect_common <= set(pe)), 'frame:' + kind,
                  lambda: dict(case=desc, edit=kind, moved=[repr(p) for p in moved[:4]], lost=[repr(p) for p in (set(pos) - set(pe))][:4]))

      # ---- reorder sibling creation (explicitly named, dim-preserving children commute for key purposes)
      ops = list(spec['root'][2])
      idx = [k for k, op in enumerate(ops) if op[0] == 'child' and op[1] is not None and op[3] == op[4]]
      if len(idx) >= 2 and not any(op[0] == 'again' for op in ops) and all(op[0] in ('child', 'act', 'noise', 'param') or (op[0] == 'dense' and op[2] == op[3]) for op in ops[idx[0]:idx[-1] + 1]):
        a, b = idx[0], idx[-1]
        if ops[a][3] == ops[b][3]:
          ops[a], ops[b] = ops[b], ops[a]
          spec3 = dict(spec, root=(spec['root'][0], spec['root'][1], tuple(ops)))
          try:
            _, ev_r = run_logged(log, LP.make_module(spec3['root']), rngs, x)
            pr = positions(ev_r)
            # draws inside the two swapped children keep their keys (their own scope paths and counts are unchanged)
            inside = [p for p in pos if len(p[0]) >= 1 and p[0][0] in (ops[a][1], ops[b][1])]
            ctx.check(all(pr.get(p) == pos[p] for p in inside), 'frame:reorder_siblings', lambda: dict(case=desc))
          except Exception:  # noqa: BLE001
            ctx.event('frame.edit_not_applicable')

      # ---- fallback: a missing stream uses 'params' (same key as asking for 'params' at that position)
      streams = sorted(LP.streams_used(spec['root']))
      if streams:
        missing = rng.choice(streams)
        rngs_m = {k: v for k, v in rngs.items() if k != missing}
        _, ev_m = run_logged(log, LP.make_module(spec['root']), rngs_m, x)
        ok = True
        seen_missing = 0
        for path, req, eff, cnt, kb in ev_m:
          if req == missing:
            seen_missing += 1
            ok = ok and eff == 'params'
        # reference: the same program with that stream's ops asking for 'params' directly
        def ren(node):
          ops2 = []
          for op in node[2]:
            if op[0] == 'noise' and op[1] == missing:
              op = ('noise', 'params')
            elif op[0] in ('child', 'shared'):
              op = op[:2] + (ren(op[2]),) + op[3:]
            ops2.append(op)
          return (node[0], node[1], tuple(ops2))
        if missing != 'dropout' and seen_missing:
          _, ev_p = run_logged(log, LP.make_module(ren(spec['root'])), rngs_m, x)
          ok = ok and [(e[0], e[2], e[3], e[4]) for e in ev_m] == [(e[0], e[2], e[3], e[4]) for e in ev_p]
        if seen_missing:
          ctx.check(ok, 'fallback:missing_stream_not_params', lambda: dict(case=desc, missing=missing))
    finally:
      flax.config.update('flax_fix_rng_separator', False)


# ---------------------------------------------------------------------------------------------
# NNX


def run_nnx(ctx, i, rng, log):
  import jax
  import jax.numpy as jnp
  from flax import nnx
  names = rng.sample(['params', 'dropout', 'noise', 'a', 'ab', 'b'], rng.randint(0, 4))
  seeds = {n: rng.randint(0, 3) for n in names}
  default_seed = rng.choice([None, 0, 1, 7])
  if default_seed is None and not names:
    default_seed = 0
  n_calls = rng.randint(5, 50 if ctx.tier == 'thorough' else 30)
  script = []
  for _ in range(n_calls):
    r = rng.random()
    if r < 0.7:
      script.append(('call', rng.choice(names + ['missing_stream', 'default'] if default_seed is not None else names or ['default'])))
    elif r < 0.8:
      splits = rng.choice([1, 1, 2, 3, 4, (2, 2)])
      script.append(('split', splits, rng.choice([..., 'params', 'dropout']), splits == 1 and rng.random() < 0.6, rng.randint(0, 2)))
    elif r < 0.88:
      script.append(('fork',))
    else:
      script.append(('reseed', rng.choice(names) if names else 'default', rng.randint(0, 5), rng.random() < 0.5))   # seed given as int or as a key
  desc = dict(streams=seeds, default=default_seed, script=[repr(s) for s in script][:40])
  with ctx.case('nnx', i, desc, nontrivial=len(script) >= 5):
    def make():
      return nnx.Rngs(default_seed, **seeds) if default_seed is not None else nnx.Rngs(**seeds)

    def play(rngs):
      """Returns list of (stream tag, kind, key bytes list) in order."""
      out = []
      model = {}  # tag -> (seed key bytes of base key, count)
      for st in script:
        if st[0] == 'call':
          name = st[1]
          try:
            k = rngs[name]()
          except (KeyError, AttributeError):
            out.append(('no-stream', name))
            continue
          out.append(('key', name, key_bytes(k)))
        elif st[0] == 'split':
          _, splits, only, squeeze, n_inside = st
          counts_before = {tag: int(rngs[tag].count.value) for tag in vars(rngs) if tag != '_object__state'}
          with nnx.split_rngs(rngs, splits=splits, only=only, squeeze=squeeze) as backups:
            for tag in list(vars(rngs)):
              if tag == '_object__state':
                continue
              kv = rngs[tag].key.value
              touched = kv.shape != () or int(rngs[tag].count.value) != counts_before[tag] or squeeze and (only is ... or only == tag)
              if kv.shape != () or (squeeze and touched):
                flat = kv.reshape(-1)
                out.append(('split_keys', tag, [key_bytes(flat[j]) for j in range(flat.shape[0])]))
                # draws made INSIDE the context (what a vmapped / scanned body does)
                for _ in range(n_inside if kv.shape == () else 0):   # (a batched key can only be drawn from under vmap)
                  kk = rngs[tag]().reshape(-1)
                  out.append(('inner_keys', tag, [key_bytes(kk[j]) for j in range(kk.shape[0])]))
        elif st[0] == 'fork':
          forked = jax.tree.map(lambda x: x, nnx.state(rngs))  # observation only
          out.append(('fork',))
        elif st[0] == 'reseed':
          nnx.reseed(rngs, **{st[1]: (jax.random.key(st[2]) if st[3] else st[2])})
          out.append(('reseed', st[1], st[2]))
      return out

    log.nnx.clear()
    log.active = True
    h1 = play(make())
    n1 = list(log.nnx)
    log.nnx.clear()
    h2 = play(make())
    n2 = list(log.nnx)
    log.active = False
    ctx.op('nnx.Rngs')
    ctx.check(h1 == h2 and n1 == n2, 'nnx.determinism', lambda: dict(case=desc))

    # ---- position addressing: key == fold_in(base key of the effective stream, count); counts advance by one
    base = {n: jax.random.key(s) for n, s in seeds.items()}
    if default_seed is not None:
      base['default'] = jax.random.key(default_seed)
    counts = {n: 0 for n in base}
    handed = {n: set() for n in base}   # every key ever handed out per effective stream
    ok_all = True
    for ev in h1:
      if ev[0] == 'key':
        eff = ev[1] if ev[1] in base else 'default'
        want = key_bytes(jax.random.fold_in(base[eff], counts[eff]))
        good = ev[2] == want
        ctx.check(good, 'nnx.position:key_not_fold_in_of_count', lambda: dict(case=desc, stream=ev[1], count=counts[eff]))
        ctx.check(ev[2] not in handed[eff], 'nnx.no_replay:key_handed_out_twice', lambda: dict(case=desc, stream=ev[1], count=counts[eff]))
        handed[eff].add(ev[2])
        counts[eff] += 1
      elif ev[0] == 'split_keys':
        tag = ev[1]
        # the split consumed exactly one key of the stream; the split keys are pairwise distinct and new
        counts[tag] += 1
        ks = ev[2]
        ctx.check(len(set(ks)) == len(ks) and not (set(ks) & handed[tag]), 'nnx.no_replay:split_keys_not_fresh', lambda: dict(case=desc, stream=tag))
        handed[tag].update(ks)
      elif ev[0] == 'inner_keys':
        tag, ks = ev[1], ev[2]
        ctx.check(len(set(ks)) == len(ks) and not (set(ks) & handed[tag]), 'nnx.no_replay:key_inside_split_context_replayed', lambda: dict(case=desc, stream=tag))
        handed[tag].update(ks)
      elif ev[0] == 'reseed':
        tag, s = ev[1], ev[2]
        if tag in base:
          base[tag] = jax.random.key(s)
          counts[tag] = 0
          handed[tag] = set()
          ctx.check(True, 'nnx.reseed')
      elif ev[0] == 'no-stream':
        ctx.check(default_seed is None and ev[1] not in base, 'nnx.fallback:missing_stream_rejected_although_default_exists', lambda: dict(case=desc, stream=ev[1]))
    # a reseeded stream replays exactly the sequence of a fresh stream with that seed (checked above through `base` reset)
    # real counters agree with the model at the end
    r = make()
    log.active = True
    play(r)
    log.active = False
    for n in base:
      got = int(np.asarray(r[n].count.value))
      ctx.check(got == counts[n], 'nnx.position:final_count', lambda: dict(case=desc, stream=n, got=got, want=counts[n]))


def run_adversarial(ctx, i, log):
  """Hand-built concatenation traps: with flax_fix_rng_separator on, any two different paths must give different keys."""
  import flax
  from vf.gen import linen_prog as LP
  traps = [(('ab', 'c'), ('a', 'bc')), (('a', 'b', 'c'), ('ab', 'c')), (('x', 'xx'), ('xx', 'x')), (('a_', '1'), ('a', '_1')),
           (('abc',), ('ab', 'c')), (('a', 'bc'), ('abc',))]
  pa, pb = traps[i % len(traps)]
  stream = ['noise', 'params', 'other'][i % 3]

  def chain(path):
    node = ('node', 'compact', (('noise', stream),))
    for name in reversed(path[1:]):
      node = ('node', 'compact', (('child', name, node, 2, 2),))
    return ('child', path[0], node, 2, 2)

  root = ('node', 'compact', (chain(pa), chain(pb)))
  spec = dict(root=root, d_in=2, d_out=2)
  desc = dict(paths=[pa, pb], stream=stream)
  with ctx.case('adversarial', i, desc, nontrivial=True):
    m = LP.make_module(root)
    x = np.ones((2,), np.float32)
    rngs = LP.rng_dict(spec, 1 + i, extra=['noise', 'other'])
    # the same program first runs with the separator fix OFF in this process (collisions are expected and not asserted there):
    # keys are a function of (seed, stream, position, flag) only, never of what was hashed earlier in the process
    flax.config.update('flax_fix_rng_separator', False)
    _, ev_off = run_logged(log, m, rngs, x)
    flax.config.update('flax_fix_rng_separator', True)
    try:
      _, ev = run_logged(log, LP.make_module(root), rngs, x)
      _, ev_again = run_logged(log, LP.make_module(root), rngs, x)
      ctx.check(ev == ev_again, 'determinism:draw_log', lambda: dict(case=desc))
      keys = {}
      for path, req, eff, cnt, kb in ev:
        keys.setdefault(kb, []).append((path, eff, cnt))
      dup = [v for v in keys.values() if len(v) > 1]
      ctx.check(not dup, 'injective:same_key_at_two_positions:path', lambda: dict(case=desc, collisions=[repr(d) for d in dup]))
      ctx.check(len(ev) == 2, 'injective:trap_not_exercised', lambda: dict(n=len(ev)))
    finally:
      flax.config.update('flax_fix_rng_separator', False)


def jit_classes():
  global _JC
  try:
    return _JC
  except NameError:
    pass
  import jax
  import jax.numpy as jnp
  import flax.linen as nn

  class Leaf(nn.Module):
    stream: str

    @nn.compact
    def __call__(self, x):
      return jax.random.key_data(self.make_rng(self.stream))

  class KeyBlock(nn.Module):
    stream: str

    @nn.compact
    def __call__(self, x):
      own = jax.random.key_data(self.make_rng(self.stream))
      sub = Leaf(self.stream, name='leaf')(x)      # a child scope created inside the (jitted) call
      sub2 = Leaf(self.stream, name='leaf')(x) if False else Leaf(self.stream, name='leaf2')(x)
      return jnp.stack([own, sub, sub2])

  JitKeyBlock = nn.jit(KeyBlock)   # created once, like user code: the trace cache lives across applies

  class Host(nn.Module):
    stream: str
    reps: int
    jitted: bool

    @nn.compact
    def __call__(self, x):
      blk = (JitKeyBlock if self.jitted else KeyBlock)(self.stream, name='blk')
      first = jax.random.key_data(self.make_rng(self.stream))
      ks = [blk(x) for _ in range(self.reps)]
      last = jax.random.key_data(self.make_rng(self.stream))
      return jnp.concatenate([first[None], *ks, last[None]])

  _JC = dict(Host=Host)
  return _JC


def run_jit(ctx, i, rng):
  """Keys handed out inside nn.jit-ed modules: the same program with the same seeds yields the same keys on every apply in one
  process (trace-cache hits included), never repeats a key within a run, and a fresh instance agrees."""
  import jax
  H = jit_classes()['Host']
  reps = 1 + i % 3
  stream = ['noise', 'params'][i % 2]
  desc = dict(reps=reps, stream=stream, i=i)
  with ctx.case('linen.jit', i, desc, nontrivial=reps >= 2):
    x = np.ones((2,), np.float32)
    rngs = {'params': jax.random.key(i), 'noise': jax.random.key(40 + i)}
    m = H(stream, reps, True)
    outs = [np.asarray(m.apply({}, x, rngs=rngs)) for _ in range(3)]
    fresh = np.asarray(H(stream, reps, True).apply({}, x, rngs=rngs))
    ctx.op('nn.jit(make_rng)')
    ctx.check(all(np.array_equal(outs[0], o) for o in outs[1:]) and np.array_equal(outs[0], fresh), 'determinism:jit_keys_change_between_applies',
              lambda: dict(case=desc, differing_rows=[int(r) for r in np.where((outs[0] != outs[1]).any(axis=1))[0]]))
    rows = [r.tobytes() for r in outs[0]]
    ctx.check(len(set(rows)) == len(rows), 'injective:jit_key_reused_within_run', lambda: dict(case=desc, n=len(rows), distinct=len(set(rows))))
    rngs2 = {'params': jax.random.key(i + 1000), 'noise': jax.random.key(2000 + i)}
    o2 = np.asarray(m.apply({}, x, rngs=rngs2))
    ctx.check(not (set(r.tobytes() for r in o2) & set(rows)), 'injective:different_seed_same_key', lambda: dict(case=desc))


_LIFTATTR = {}


def run_lifted_attr_modules(ctx, i, rng):
  """Sub-modules handed to a lifted module as dataclass attributes are lifted TOGETHER with it (several scopes cross the transform):
  every one of them still draws from its own position - no two scopes, and no draw of the enclosing module, share a key."""
  import jax
  import jax.numpy as jnp
  import flax.linen as nn
  tr_name = ['jit', 'remat', 'jit', 'plain', 'vmap', 'remat'][i % 6]
  n_kids = 2 + (i // 4) % 2
  stream = ['dropout', 'params'][(i // 8) % 2]
  draws_per_leaf = 1 + (i // 16) % 2
  uses = 1 + (i // 3) % 2     # the lifted instance is applied once or twice within one apply: the second use continues the counts
  fn_style = tr_name == 'remat' and (i // 6) % 2 == 1   # function-style lift on the enclosing module, followed by a draw of that module
  desc = dict(transform=tr_name, attribute_modules=n_kids, stream=stream, draws_per_leaf=draws_per_leaf, uses=uses, function_style=fn_style)
  with ctx.case('linen.lifted_attr', i, desc, nontrivial=tr_name != 'plain'):
    key = (tr_name, n_kids, stream, draws_per_leaf, uses, fn_style)
    if key not in _LIFTATTR:
      class Leaf(nn.Module):
        @nn.compact
        def __call__(self, x):
          return jnp.stack([jax.random.key_data(self.make_rng(stream)) for _ in range(draws_per_leaf)])

      fields = ['m%d' % k for k in range(n_kids)]

      def call(self, x):
        return jnp.concatenate([getattr(self, f)(x) for f in fields] + [jax.random.key_data(self.make_rng(stream))[None]])

      Outer = type('Outer', (nn.Module,), {'__annotations__': {f: nn.Module for f in fields}, '__call__': nn.compact(call)})
      O = {'jit': nn.jit, 'remat': nn.remat, 'plain': (lambda c: c),
           'vmap': (lambda c: nn.vmap(c, in_axes=None, out_axes=0, axis_size=1, variable_axes={'params': None}, split_rngs={'params': False, 'dropout': False}))}[tr_name](Outer)

      class Top(nn.Module):
        @nn.compact
        def __call__(self, x):
          if fn_style:
            def body(mdl, x):
              return jnp.stack([jax.random.key_data(mdl.make_rng(stream)) for _ in range(draws_per_leaf)])
            parts = [nn.remat(body)(self, x) for _ in range(uses)]
            return jnp.concatenate(parts + [jax.random.key_data(self.make_rng(stream))[None]])
          kids = {f: Leaf(name='kid_%s' % f) for f in fields}
          mod = O(**kids, name='o')
          parts = [mod(x).reshape((-1, 2)) for _ in range(uses)]
          return jnp.concatenate(parts + [jax.random.key_data(self.make_rng(stream))[None]])
      _LIFTATTR[key] = Top
    Top = _LIFTATTR[key]
    rngs = {'params': jax.random.key(i), 'dropout': jax.random.key(500 + i)}
    out = np.asarray(Top().apply({}, jnp.ones(2), rngs=rngs))
    out2 = np.asarray(Top().apply({}, jnp.ones(2), rngs=rngs))
    ctx.op('nn.%s(module with attribute sub-modules)' % tr_name)
    rows = [r.tobytes() for r in out]
    ctx.check(len(set(rows)) == len(rows), 'injective:same_key_at_two_positions:scopes_lifted_together',
              lambda: dict(case=desc, draws=len(rows), distinct=len(set(rows)), keys=out.tolist()))
    ctx.check(np.array_equal(out, out2), 'determinism:lifted_attr_modules', lambda: dict(case=desc))


# ---------------------------------------------------------------------------------------------
# functional core: child scopes pushed inside / outside lifted functions that lift a subset of the streams


def core_program(rng, depth, streams, inside=None):
  """ops: ('draw', stream) | ('push', name, ops) | ('lift', kind, subset, ops). Inside a lift only lifted streams are drawn."""
  ops = []
  avail = list(inside if inside is not None else streams)
  for _ in range(rng.randrange(2, 5)):
    r = rng.random()
    if r < 0.45 or depth >= 3:
      ops.append(('draw', rng.choice(avail)))
    elif r < 0.75:
      ops.append(('push', rng.choice(['c', 'c', 'd']), core_program(rng, depth + 1, streams, inside)))
    elif inside is None:
      subset = tuple(sorted(rng.sample(streams, rng.randrange(1, len(streams) + 1))))
      ops.append(('lift', rng.choice(['vmap_split', 'vmap_bcast', 'remat', 'jit']), subset, core_program(rng, depth + 1, streams, subset)))
    else:
      ops.append(('draw', rng.choice(avail)))
  return ops


def core_exec(scope, ops, plain):
  """Runs the ops on a flax.core Scope; returns a list of (kind, key_data array) in program order."""
  import jax
  import jax.numpy as jnp
  from flax.core import lift
  out = []
  for op in ops:
    if op[0] == 'draw':
      out.append(('draw', jax.random.key_data(scope.make_rng(op[1]))[None]))
    elif op[0] == 'push':
      out.extend(core_exec(scope.push(op[1], reuse=True), op[2], plain))
    else:
      _, kind, subset, sub = op

      def body(s, x, sub=sub):
        return jnp.concatenate([a for _, a in core_exec(s, sub, plain)])

      x = jnp.zeros(())
      if plain and kind != 'vmap_split':
        out.append(('lifted', body(scope, x)))
      elif kind in ('vmap_split', 'vmap_bcast'):
        f = lift.vmap(body, variable_axes={}, split_rngs={n: kind == 'vmap_split' for n in subset}, in_axes=None, out_axes=0, axis_size=2)
        ys = f(scope, x)
        out.append(('lanes', ys) if kind == 'vmap_split' else ('bcast', ys))
      elif kind == 'remat':
        out.append(('lifted', lift.checkpoint(body, variables=True, rngs=list(subset))(scope, x)))
      else:
        # (core lift.jit takes a hashable key as first argument: it identifies the lifted program for the trace and side-effect
        # caches - Linen passes the module fingerprint - and is handed on to the function)
        out.append(('lifted', lift.jit(lambda s, hk, x: body(s, x), variables=True, rngs=list(subset))(scope, ('prog', repr(sub), subset), x)))
  return out


def run_core_scope(ctx, i, rng):
  """flax.core Scopes driven directly (what Linen modules are built on): children pushed by name - first inside a lifted function that
  lifts only some streams, again outside it, or the other way round - always hand out a key; the keys are pairwise distinct, the same
  on a second run, and remat / jit / broadcasting vmap around a sub-program change no key at all."""
  import jax
  import jax.numpy as jnp
  from flax.core import apply
  streams = ['params', 'dropout', 'noise'][:2 + i % 2]
  ops = core_program(rng, 0, streams)
  n_lift = sum(1 for o in _walk_ops(ops) if o[0] == 'lift')
  desc = dict(program=repr(ops), streams=streams)
  with ctx.case('core.scope', i, desc, nontrivial=n_lift >= 1):
    rngs = {n: jax.random.key(7 * i + k) for k, n in enumerate(streams)}

    def go(plain):
      def fn(scope):
        return [(k, a) for k, a in core_exec(scope, ops, plain)]
      return [(k, np.asarray(a)) for k, a in apply(fn)({}, rngs=rngs)]

    a, b, p = go(False), go(False), go(True)
    ctx.op('flax.core.Scope.push/make_rng under lift')
    ctx.check(len(a) == len(b) and all(np.array_equal(x[1], y[1]) for x, y in zip(a, b)), 'determinism:core_scope_second_run', lambda: dict(case=desc))
    rows = []
    for kind, arr in a:
      if kind == 'bcast':
        ctx.check(np.array_equal(arr[0], arr[1]), 'core:broadcast_stream_differs_between_lanes', lambda: dict(case=desc))
        arr = arr[0]
      rows.extend(r.tobytes() for r in arr.reshape((-1, 2)))
    ctx.check(len(set(rows)) == len(rows), 'injective:same_key_at_two_positions:core_scope', lambda: dict(case=desc, draws=len(rows), distinct=len(set(rows))))
    # frame: the draws made OUTSIDE the lifted sub-programs are at the same (path, stream, count) positions whether those sub-programs
    # run lifted or in place (what a lift hands out inside is its own business: lift.jit pre-folds the path, vmap splits)
    for (ka, xa), (kp, xp) in zip(a, p):
      if ka == 'draw':
        ctx.check(np.array_equal(xa, xp), 'frame:lift_changes_key_outside:core_scope', lambda: dict(case=desc))


def _walk_ops(ops):
  for o in ops:
    yield o
    if o[0] in ('push', 'lift'):
      yield from _walk_ops(o[-1])


def run_nnx_transform_rngs(ctx, i, rng):
  """An nnx.Rngs object handed to nnx.scan / nnx.vmap: with the documented split_rngs recipe, or as a broadcast argument
  (in_axes=None). Keys drawn inside and after the transform: the draws of one lane / step and all draws outside are pairwise
  distinct and the stream resumes after the transform without handing out a key again."""
  import jax
  import jax.numpy as jnp
  from flax import nnx
  tr = ['scan', 'vmap'][i % 2]
  how = ['split', 'broadcast'][(i // 2) % 2]
  n_in = 1 + (i // 4) % 2
  n_pre = (i // 8) % 3
  length = 2 + (i // 3) % 2
  desc = dict(transform=tr, rngs=how, draws_inside=n_in, draws_before=n_pre, length=length)
  with ctx.case('nnx.transform_rngs', i, desc, nontrivial=True):
    r = nnx.Rngs(100 + i)
    kd = lambda k: np.asarray(jax.random.key_data(k))
    before = [kd(r.default()) for _ in range(n_pre)]

    def body_keys(rr):
      return jnp.stack([jax.random.key_data(rr.default()) for _ in range(n_in)])

    if tr == 'scan':
      def run(rr):
        ax = 0 if how == 'split' else None
        @nnx.scan(in_axes=(nnx.Carry, ax), out_axes=(nnx.Carry, 0), length=length)
        def f(c, rr):
          return c, body_keys(rr)
        return f(0, rr)[1]
    else:
      def run(rr):
        ax = 0 if how == 'split' else None
        return nnx.vmap(body_keys, in_axes=(ax,), out_axes=0, axis_size=length)(rr)
    if how == 'split':
      with nnx.split_rngs(r, splits=length):
        inside = np.asarray(run(r))
    else:
      inside = np.asarray(run(r))
    after = [kd(r.default()) for _ in range(2)]
    ctx.op('nnx.%s(Rngs %s)' % (tr, how))
    ctx.event('oracle:nnx.no_replay')
    outside = [k.tobytes() for k in before + after]
    lanes = [[k.tobytes() for k in lane] for lane in inside]
    ctx.check(len(set(outside)) == len(outside), 'nnx.no_replay:outside_transform', lambda: dict(case=desc))
    for lane in lanes:
      ctx.check(len(set(lane)) == len(lane), 'nnx.no_replay:within_lane', lambda: dict(case=desc))
    flat = [k for lane in lanes for k in lane]
    if tr == 'scan' or how == 'split':
      # scan steps happen one after the other on ONE stream (eager loop: every step draws a new key); split lanes have own keys
      ctx.check(len(set(flat)) == len(flat), 'nnx.no_replay:broadcast_rngs_same_key_every_step:%s' % tr if how == 'broadcast' else 'nnx.no_replay:split_lanes_share_key',
                lambda: dict(case=desc, draws=len(flat), distinct=len(set(flat))))
    ctx.check(not (set(flat) & set(outside)), 'nnx.no_replay:broadcast_rngs_key_replayed_after:%s' % tr if how == 'broadcast' else 'nnx.no_replay:key_replayed_after_split',
              lambda: dict(case=desc, replayed=len(set(flat) & set(outside))))


def run(ctx):
  log = DrawLog(ctx)
  for i in ctx.indices(48, 'nnx.transform_rngs'):
    run_nnx_transform_rngs(ctx, i, ctx.rng('nnx.transform_rngs', i))
  for i in ctx.indices(60 if ctx.tier == 'quick' else 600, 'core.scope'):
    run_core_scope(ctx, i, ctx.rng('core.scope', i))
  for i in ctx.indices(48 if ctx.tier == 'quick' else 96, 'linen.lifted_attr'):
    run_lifted_attr_modules(ctx, i, ctx.rng('lifted_attr', i))
  for i in ctx.indices(18 if ctx.tier == 'quick' else 120, 'linen.jit'):
    run_jit(ctx, i, ctx.rng('jit', i))
  for i in ctx.indices(18, 'adversarial'):
    run_adversarial(ctx, i, log)
  n = 240 if ctx.tier == 'quick' else 4000
  for i in ctx.indices(n, 'linen'):
    run_linen(ctx, i, ctx.rng('linen', i), log)
  for i in ctx.indices(200 if ctx.tier == 'quick' else 3000, 'nnx'):
    run_nnx(ctx, i, ctx.rng('nnx', i), log)
