"""C07 — lifted vjp / jvp / grad / value_and_grad / custom_vjp equal JAX autodiff of the pure apply function.

Monitor shape: relational oracle against plain JAX autodiff (trusted) of the functionalised program
(variables, inputs) -> module.apply(variables, inputs); counters in the differentiated sub-module observe how often the forward pass
publishes its mutable updates; custom_vjp's backward rule tags its cotangents (x7) so its use is observable."""
import numpy as np

LEVEL = 'exploration'
LEVEL_TEXT = ('Generated differentiable module programs (tanh only: params, Dense, nested children, a float running statistic that is read, '
              'an int counter) are differentiated inside a host module with nn.vjp / nn.jvp / nn.grad / nn.value_and_grad for every choice '
              'of differentiated collections (params, batch_stats, both), has_aux, 1-3 primal inputs of pytree shape and random cotangents / '
              'tangents, and compared with jax.vjp / jax.jvp / jax.grad of the pure apply function; non-selected collections must get no '
              'gradient, counters must advance exactly once per forward pass; nn.custom_vjp must keep the forward value and use the '
              'tagged backward rule only when differentiating.'
              ' Further streams: outer differentiation of the lifted program, custom_vjp input rules on variable-free'
              ' modules, modules that draw random numbers (all transforms and custom_vjp under jit), float collections'
              ' written by the forward pass while differentiated.'
              ' Round e/f: jvp_forms (list primals, restricted variables filter), attr_modules (vjp multi_scope / value_and_grad over modules with attribute modules).'
              ' Round g: plain_lifted_plain (plain, lifted, plain calls on one module instance with nested mutable state), nn.vjp with restricted variables filters (K14).'
              ' Round h: collection_names (differentiated collections whose names contain one another; string / list / tuple filters).')
LEVEL_NOTE = 'JAX autodiff of module.apply is the trusted reference; float32 same-program tolerance.'
TECHNIQUE = 'runtime monitoring: relational oracle against jax.vjp/jvp/grad of the functionalised module program'
RULE = ('case = (transform, inner program, differentiated collections, has_aux, number/pytree shape of primals, cotangent seed). distinct = '
        'distinct descriptor; non-trivial = program has >= 2 parameters or a nested child.')
ASSUMPTIONS = ['jax.vjp / jax.jvp / jax.grad are correct', 'float32 same-program tolerance rtol 1e-5 atol 1e-6 (scaled x10 for second-order chains)']
PLAN = {'quick': dict(workers=8, timeout_s=1500), 'thorough': dict(workers=14, timeout_s=3400)}
MIN_EVENTS = {'quick': {'oracle:vjp': 150, 'oracle:jvp': 60, 'oracle:grad': 60, 'oracle:custom_vjp': 40, 'oracle:published_once': 60},
              'thorough': {'oracle:vjp': 2500, 'oracle:jvp': 1000}}

TOL = dict(rtol=1e-4, atol=1e-5)


def host_classes():
  global _H
  try:
    return _H
  except NameError:
    pass
  import jax
  import jax.numpy as jnp
  import flax.linen as nn
  from vf.gen import linen_prog as LP
  C = LP.classes()

  def make_fn(n_primals, scalar, has_aux):
    """fn(mdl, *primals): the differentiated function; primals are pytrees."""
    def fn(mdl, *ps):
      x = ps[0]
      if n_primals >= 2:
        x = x * ps[1]['scale'] + ps[1]['shift']
      y = mdl(x)
      if n_primals >= 3:
        y = y * ps[2][0] + jnp.sum(ps[2][1])
      out = jnp.sum(jnp.tanh(y) ** 2) if scalar else y
      if has_aux:
        return out, {'aux': jnp.sum(y) * 3.0}
      return out
    return fn

  class Host(nn.Module):
    kind: str
    inner: tuple
    d: int
    n_primals: int = 1
    has_aux: bool = False
    diff_cols: tuple = ('params',)
    empty_tangent_cols: tuple = ()   # collections spelled as {} in variable_tangents: documented to mean a zero tangent

    def core(self):
      NodeC = C['NodeC'] if self.inner[1] == 'compact' else C['NodeS']
      return NodeC(self.inner, name='core')

    @nn.compact
    def __call__(self, primals, ct):
      core = self.core()
      k = self.kind
      if k == 'vjp':
        fn = make_fn(self.n_primals, False, self.has_aux)
        res = nn.vjp(fn, core, *primals, has_aux=self.has_aux, vjp_variables=list(self.diff_cols))
        if self.has_aux:
          y, bwd, aux = res
        else:
          (y, bwd), aux = res, None
        grads = bwd(ct)
        return dict(y=y, var_grad=grads[0], in_grads=tuple(grads[1:]), aux=aux)
      if k in ('grad', 'value_and_grad'):
        fn = make_fn(self.n_primals, True, self.has_aux)
        if k == 'grad':
          g = nn.grad(fn, core, *primals, has_aux=self.has_aux)
          if self.has_aux:
            g, aux = g
            return dict(in_grads=tuple(g), aux=aux)
          return dict(in_grads=tuple(g))
        out, g = nn.value_and_grad(fn, core, *primals, has_aux=self.has_aux)
        if self.has_aux:
          (v, aux) = out
          return dict(y=v, in_grads=tuple(g), aux=aux)
        return dict(y=out, in_grads=tuple(g))
      if k == 'jvp':
        fn = make_fn(self.n_primals, False, False)
        primals_t, vars_t = ct
        vt = {c: vars_t[c] for c in self.diff_cols if c in vars_t}
        if self.empty_tangent_cols:
          # key order as given by the caller: an empty collection first or last
          empties = {c: {} for c in self.empty_tangent_cols}
          vt = {**empties, **vt} if len(self.empty_tangent_cols[0]) % 2 else {**vt, **empties}
        y, y_t = nn.jvp(fn, core, tuple(primals), tuple(primals_t), variable_tangents=vt)
        return dict(y=y, y_t=y_t)
      if k == 'custom_vjp':
        def f(mdl, x):
          return mdl(x)
        def fwd(mdl, x):
          return nn.vjp(f, mdl, x)
        def bwd(vjp_fn, y_t):
          params_t, *inputs_t = vjp_fn(y_t)
          params_t = jax.tree_util.tree_map(lambda g: g * 7.0, params_t)
          return (params_t, *inputs_t)
        tagged = nn.custom_vjp(f, forward_fn=fwd, backward_fn=bwd)
        return dict(y=tagged(core, primals[0]))
      if k == 'custom_vjp_inputs':
        # the user's rule rescales the INPUT cotangent (straight-through / gradient-reversal style rules); the wrapped module may
        # have no variables at all in grad_vars
        def f(mdl, x):
          return mdl(x)
        def fwd(mdl, x):
          return nn.vjp(f, mdl, x)
        def bwd(vjp_fn, y_t):
          params_t, *inputs_t = vjp_fn(y_t)
          return (params_t, *[g * 3.0 for g in inputs_t])
        tagged = nn.custom_vjp(f, forward_fn=fwd, backward_fn=bwd)
        return dict(y=tagged(core, primals[0]))
      if k == 'custom_vjp_used_before':
        # the wrapped module has already been called once in this apply: its child scopes (and their rng counters) exist
        def f(mdl, x):
          return mdl(x)
        def fwd(mdl, x):
          return nn.vjp(f, mdl, x)
        def bwd(vjp_fn, y_t):
          return vjp_fn(y_t)
        first = core(primals[0])
        return dict(y=0.5 * first + nn.custom_vjp(f, forward_fn=fwd, backward_fn=bwd)(core, primals[0]))
      if k == 'plain_used_before':
        return dict(y=0.5 * core(primals[0]) + core(primals[0]))
      if k == 'plain':
        return dict(y=core(primals[0]))
      if k.startswith('plain_fn:'):
        # the differentiated function applied without any lifted transform (reference for modules that draw random numbers)
        _, scalar, aux = k.split(':')
        return dict(y=make_fn(self.n_primals, scalar == '1', aux == '1')(core, *primals))
      raise ValueError(k)

  _H = dict(Host=Host, make_fn=make_fn)
  return _H


def close(a, b, tol=TOL):
  import jax
  la, ta = jax.tree_util.tree_flatten(a)
  lb, tb = jax.tree_util.tree_flatten(b)
  if ta != tb:
    return False
  return all(np.shape(x) == np.shape(y) and np.allclose(np.asarray(x, np.float64), np.asarray(y, np.float64), **tol) for x, y in zip(la, lb))


def gen_inner(rng, d):
  from vf.gen import linen_prog as LP
  opts = dict(keep_dim=True, max_ops=4, cols=['state'], rng_ops=False, observe=False, shared=False, smooth=True, stateful=False,
              styles=['compact', 'compact', 'setup'])
  inner, _ = LP.gen_node(rng, d, rng.randint(0, 2), opts, [3])
  ops = list(inner[2])
  if not any(o[0] in ('param', 'dense') for o in ops):
    ops.append(('param', 'p_extra', 'scale', d))
  # a float statistic that is READ (differentiable second collection) and an int counter (published-once probe)
  ops.insert(rng.randint(0, len(ops)), ('stat', 'batch_stats', 'ra', 0.9, d))
  ops.append(('counter', 'state', 'n_fwd'))
  ops = [o for o in ops if not (o[0] == 'act' and o[1] != 'tanh')]
  return (inner[0], inner[1], tuple(ops))


def make_primals(nr, n, d, b=2):
  import jax.numpy as jnp
  ps = [jnp.asarray(nr.uniform(-1, 1, size=(b, d)).astype(np.float32))]
  if n >= 2:
    ps.append({'scale': jnp.asarray(nr.uniform(0.5, 1.5, size=(d,)).astype(np.float32)), 'shift': jnp.asarray(nr.uniform(-1, 1, size=()).astype(np.float32))})
  if n >= 3:
    ps.append((jnp.asarray(nr.uniform(0.5, 1.5, size=()).astype(np.float32)), jnp.asarray(nr.uniform(-1, 1, size=(2,)).astype(np.float32))))
  return tuple(ps)


def run_case(ctx, i, rng):
  import jax
  import jax.numpy as jnp
  from flax.core import unfreeze
  from vf.gen import linen_prog as LP
  H = host_classes()
  Host, make_fn = H['Host'], H['make_fn']
  kind = ['vjp', 'vjp', 'jvp', 'grad', 'value_and_grad', 'vjp'][i % 6]
  d = rng.randint(1, 3)
  inner = gen_inner(rng, d)
  n_primals = rng.randint(1, 3)
  has_aux = kind != 'jvp' and rng.random() < 0.4
  diff_cols = rng.choice([('params',), ('params',), ('batch_stats',), ('params', 'batch_stats')])
  desc = dict(kind=kind, inner=repr(inner)[:600], d=d, n_primals=n_primals, has_aux=has_aux, diff_cols=diff_cols)
  nontrivial = LP.count_nodes(inner) >= 2 or sum(1 for o in inner[2] if o[0] in ('param', 'dense')) >= 2
  with ctx.case('case', i, desc, nontrivial=nontrivial):
    nr = np.random.default_rng(rng.getrandbits(32))
    primals = make_primals(nr, n_primals, d)
    plain = Host('plain', inner, d)
    V = unfreeze(plain.init({'params': jax.random.key(i)}, primals, None))
    # give the statistic a non-trivial value
    V['batch_stats'] = jax.tree_util.tree_map(lambda a: a + jnp.asarray(nr.uniform(-1, 1, size=np.shape(a)).astype(np.float32)), V['batch_stats'])
    core_mod = LP.make_module(inner)
    sub = {c: V[c]['core'] for c in V}   # the differentiated sub-module's own variables

    def pure(vsel, *ps, scalar, aux):
      """(variables, inputs) -> module.apply(variables, inputs), functionalised; immutable apply (no state updates)."""
      vv = {c: (vsel[c] if c in vsel else sub[c]) for c in sub}
      fn = make_fn(n_primals, scalar, aux)
      class _M:  # adapter: fn expects a callable module
        pass
      out = fn(lambda x: core_mod.apply(vv, x), *ps)
      return out

    empty_cols = ()
    if kind == 'jvp' and rng.random() < 0.5:
      empty_cols = tuple(c for c in ('batch_stats', 'params', 'state') if c not in diff_cols and rng.random() < 0.7)
      desc['empty_tangent_collections'] = empty_cols
    host = Host(kind, inner, d, n_primals, has_aux, diff_cols, empty_cols)
    vsel = {c: sub[c] for c in diff_cols}
    if kind == 'vjp':
      y_ref = pure(vsel, *primals, scalar=False, aux=False)
      ct = jnp.asarray(nr.normal(size=np.shape(y_ref)).astype(np.float32))
      out, upd = host.apply(V, primals, ct, mutable=['state'])
      ctx.op('nn.vjp')
      f = lambda vs, *ps: pure(vs, *ps, scalar=False, aux=has_aux)
      if has_aux:
        y_r, bwd_r, aux_r = jax.vjp(f, vsel, *primals, has_aux=True)
      else:
        (y_r, bwd_r), aux_r = jax.vjp(f, vsel, *primals), None
      g_r = bwd_r(ct)
      ctx.check(close(out['y'], y_r), 'vjp:primal', lambda: dict(case=desc))
      ctx.check(set(out['var_grad']) == set(diff_cols) and close(dict(out['var_grad']), g_r[0]), 'vjp:variable_cotangent',
                lambda: dict(case=desc, got=repr(jax.tree_util.tree_map(np.shape, dict(out['var_grad'])))[:300]))
      ctx.check(close(out['in_grads'], tuple(g_r[1:])), 'vjp:input_cotangent', lambda: dict(case=desc))
      if has_aux:
        ctx.check(close(out['aux'], aux_r), 'vjp:aux', lambda: dict(case=desc))
      _check_published_once(ctx, desc, V, upd, inner)
      _check_float_updates(ctx, desc, host, V, (primals, ct), inner, d, n_primals, primals)
      # the lifted vjp is a JAX function of (variables, inputs) like jax.vjp of apply: differentiate the WHOLE program (primal
      # + input cotangents) w.r.t. every float collection of the sub-module, selected or not, and compare with the reference
      if not has_aux and i % 2 == 0:
        cols0 = {c: sub[c] for c in ('params', 'batch_stats')}

        def host_scalar(cols):
          VV = dict(V)
          for c in cols:
            VV[c] = dict(V[c], core=cols[c])
          o, _ = host.apply(VV, primals, ct, mutable=['state'])
          return jnp.sum(o['y'] * ct) + sum(jnp.sum(g) for g in jax.tree_util.tree_leaves(o['in_grads']))

        def ref_scalar(cols):
          def f2(vs, *ps):
            vv = {c: (vs[c] if c in vs else cols.get(c, sub[c])) for c in sub}
            return make_fn(n_primals, False, False)(lambda xx: core_mod.apply(vv, xx), *ps)
          yy, bw = jax.vjp(f2, {c: cols[c] for c in diff_cols}, *primals)
          gg = bw(ct)
          return jnp.sum(yy * ct) + sum(jnp.sum(g) for g in jax.tree_util.tree_leaves(tuple(gg[1:])))

        g_host = jax.grad(host_scalar)(cols0)
        g_ref = jax.grad(ref_scalar)(cols0)
        ctx.check(close(g_host, g_ref, dict(rtol=1e-3, atol=1e-4)), 'vjp:not_differentiable_like_jax_vjp', lambda: dict(case=desc))
    elif kind in ('grad', 'value_and_grad'):
      out, upd = host.apply(V, primals, None, mutable=['state'])
      ctx.op('nn.' + kind)
      f = lambda *ps: pure({}, *ps, scalar=True, aux=has_aux)
      argnums = tuple(range(n_primals))
      if has_aux:
        (v_r, aux_r), g_r = jax.value_and_grad(f, argnums=argnums, has_aux=True)(*primals)
      else:
        (v_r, g_r), aux_r = jax.value_and_grad(f, argnums=argnums)(*primals), None
      ctx.check(close(out['in_grads'], tuple(g_r)), 'grad:input_gradients', lambda: dict(case=desc))
      if kind == 'value_and_grad':
        ctx.check(close(out['y'], v_r), 'grad:value', lambda: dict(case=desc))
      if has_aux:
        ctx.check(close(out['aux'], aux_r), 'grad:aux', lambda: dict(case=desc))
      _check_published_once(ctx, desc, V, upd, inner)
      _check_float_updates(ctx, desc, host, V, (primals, None), inner, d, n_primals, primals)
    elif kind == 'jvp':
      primals_t = jax.tree_util.tree_map(lambda a: jnp.asarray(nr.normal(size=np.shape(a)).astype(np.float32)), primals)
      vars_t_core = {c: jax.tree_util.tree_map(lambda a: jnp.asarray(nr.normal(size=np.shape(a)).astype(np.float32)), sub[c]) for c in ('params', 'batch_stats')}
      out, upd = host.apply(V, primals, (primals_t, vars_t_core), mutable=['state'])
      ctx.op('nn.jvp')
      f = lambda vs, *ps: pure(vs, *ps, scalar=False, aux=False)
      vt = {c: vars_t_core[c] for c in diff_cols}
      y_r, yt_r = jax.jvp(f, (vsel, *primals), (vt, *primals_t))
      ctx.check(close(out['y'], y_r), 'jvp:primal', lambda: dict(case=desc))
      ctx.check(close(out['y_t'], yt_r), 'jvp:tangent', lambda: dict(case=desc))
      _check_published_once(ctx, desc, V, upd, inner)
      _check_float_updates(ctx, desc, host, V, (primals, (primals_t, vars_t_core)), inner, d, n_primals, primals)


def run_noisy(ctx, i, rng):
  """The differentiated module draws random numbers (make_rng noise, Dropout): the lifted autodiff must use exactly the keys the
  plain function uses - one draw per call site - so that values, aux and gradients equal JAX autodiff of the un-lifted function
  run inside the same host with the same rngs."""
  import jax
  import jax.numpy as jnp
  from flax.core import unfreeze
  H = host_classes()
  Host = H['Host']
  kind = ['value_and_grad', 'grad', 'vjp', 'jvp'][i % 4]
  d = rng.randint(1, 3)
  inner = gen_inner(rng, d)
  ops = list(inner[2])
  for _ in range(rng.randint(1, 2)):
    ops.insert(rng.randint(0, len(ops)), rng.choice([('noise', 'noise'), ('noise', 'other'), ('dropout', 0.5)]))
  inner = (inner[0], inner[1], tuple(ops))
  n_primals = rng.randint(1, 2)
  has_aux = kind != 'jvp' and rng.random() < 0.4
  desc = dict(kind=kind, inner=repr(inner)[:600], d=d, n_primals=n_primals, has_aux=has_aux, noisy=True)
  with ctx.case('noisy', i, desc, nontrivial=True):
    nr = np.random.default_rng(rng.getrandbits(32))
    primals = make_primals(nr, n_primals, d, b=3)
    rngs = {'noise': jax.random.key(1000 + i), 'other': jax.random.key(2000 + i), 'dropout': jax.random.key(3000 + i)}
    V = unfreeze(Host('plain', inner, d).init(dict(rngs, params=jax.random.key(i)), primals, None))
    scalar = kind in ('grad', 'value_and_grad')
    ref_host = Host('plain_fn:%d:%d' % (scalar, has_aux), inner, d, n_primals)

    def ref_fn(*ps):
      o, _ = ref_host.apply(V, ps, None, rngs=rngs, mutable=['state'])
      return o['y']

    host = Host(kind, inner, d, n_primals, has_aux, ('params',))
    if scalar:
      out, _ = host.apply(V, primals, None, rngs=rngs, mutable=['state'])
      ctx.op('nn.%s(noisy module)' % kind)
      argnums = tuple(range(n_primals))
      if has_aux:
        (v_r, aux_r), g_r = jax.value_and_grad(ref_fn, argnums=argnums, has_aux=True)(*primals)
      else:
        (v_r, g_r), aux_r = jax.value_and_grad(ref_fn, argnums=argnums)(*primals), None
      ctx.check(close(out['in_grads'], tuple(g_r)), 'grad:input_gradients:noisy_module', lambda: dict(case=desc))
      if kind == 'value_and_grad':
        ctx.check(close(out['y'], v_r), 'grad:value:noisy_module', lambda: dict(case=desc, got=np.asarray(out['y']).tolist(), want=np.asarray(v_r).tolist()))
      if has_aux:
        ctx.check(close(out['aux'], aux_r), 'grad:aux:noisy_module', lambda: dict(case=desc))
    elif kind == 'vjp':
      y_shape = jax.eval_shape(lambda: ref_fn(*primals))
      y0 = y_shape[0] if has_aux else y_shape
      ct = jnp.asarray(nr.normal(size=y0.shape).astype(np.float32))
      out, _ = host.apply(V, primals, ct, rngs=rngs, mutable=['state'])
      ctx.op('nn.vjp(noisy module)')
      if has_aux:
        y_r, bwd_r, aux_r = jax.vjp(ref_fn, *primals, has_aux=True)
      else:
        (y_r, bwd_r), aux_r = jax.vjp(ref_fn, *primals), None
      ctx.check(close(out['y'], y_r), 'vjp:primal:noisy_module', lambda: dict(case=desc))
      ctx.check(close(out['in_grads'], tuple(bwd_r(ct))), 'vjp:input_cotangent:noisy_module', lambda: dict(case=desc))
      if has_aux:
        ctx.check(close(out['aux'], aux_r), 'vjp:aux:noisy_module', lambda: dict(case=desc))
    else:
      primals_t = jax.tree_util.tree_map(lambda a: jnp.asarray(nr.normal(size=np.shape(a)).astype(np.float32)), primals)
      out, _ = host.apply(V, primals, (primals_t, {}), rngs=rngs, mutable=['state'])
      ctx.op('nn.jvp(noisy module)')
      y_r, yt_r = jax.jvp(ref_fn, primals, primals_t)
      ctx.check(close(out['y'], y_r), 'jvp:primal:noisy_module', lambda: dict(case=desc))
      ctx.check(close(out['y_t'], yt_r), 'jvp:tangent:noisy_module', lambda: dict(case=desc))
    # the same call again gives the same numbers (draws are a function of the call site, not of a hidden counter)
    out2, _ = host.apply(V, primals, ct if kind == 'vjp' else ((primals_t, {}) if kind == 'jvp' else None), rngs=rngs, mutable=['state'])
    ctx.check(close(out2, out), 'noisy_module:not_reproducible', lambda: dict(case=desc))


def run_noisy_custom_vjp(ctx, i, rng):
  """nn.custom_vjp around a module that draws random numbers: the forward value is that of the original function whether or not the
  program is being differentiated and whether or not it is jitted (under jit JAX traces both the primal function and the forward
  rule: both must see the same rng positions)."""
  import jax
  import jax.numpy as jnp
  from flax.core import unfreeze
  H = host_classes()
  Host = H['Host']
  d = rng.randint(1, 3)
  inner = gen_inner(rng, d)
  ops = list(inner[2])
  for _ in range(rng.randint(1, 2)):
    ops.insert(rng.randint(0, len(ops)), rng.choice([('noise', 'noise'), ('noise', 'other'), ('dropout', 0.5)]))
  inner = (inner[0], inner[1], tuple(ops))
  kind = ['custom_vjp', 'custom_vjp_inputs', 'custom_vjp_used_before'][i % 3]
  desc = dict(kind=kind, inner=repr(inner)[:600], d=d, noisy=True)
  with ctx.case('noisy_custom_vjp', i, desc, nontrivial=True):
    nr = np.random.default_rng(rng.getrandbits(32))
    primals = make_primals(nr, 1, d, b=3)
    rngs = {'noise': jax.random.key(1000 + i), 'other': jax.random.key(2000 + i), 'dropout': jax.random.key(3000 + i)}
    V = unfreeze(Host('plain', inner, d).init(dict(rngs, params=jax.random.key(i)), primals, None))
    # (used_before: collections outside grad_vars are closed over by jax.custom_vjp; a counter already advanced by the first call
    # would be a closed-over tracer under jit - a loud JAX restriction, not the subject here - so that variant runs without mutable state)
    mut = False if kind == 'custom_vjp_used_before' else ['state']
    unpack = (lambda o: o['y']) if mut is False else (lambda o: o[0]['y'])
    y_plain = unpack(Host('plain_used_before' if kind == 'custom_vjp_used_before' else 'plain', inner, d).apply(V, primals, None, rngs=rngs, mutable=mut))
    host = Host(kind, inner, d)

    def app(params, x):
      VV = dict(V, params=params)
      return unpack(host.apply(VV, (x,), None, rngs=rngs, mutable=mut))

    x = primals[0]
    forms = {
        'eager': lambda: app(V['params'], x),
        'jit': lambda: jax.jit(app)(V['params'], x),
        'vjp': lambda: jax.vjp(app, V['params'], x)[0],
        'vjp_of_jit': lambda: jax.vjp(jax.jit(app), V['params'], x)[0],
        'jit_of_vjp': lambda: jax.jit(lambda p, xx: jax.vjp(app, p, xx)[0])(V['params'], x),
        'value_and_grad_of_jit': lambda: jax.value_and_grad(lambda p, xx: jnp.sum(jax.jit(app)(p, xx) ** 2) , has_aux=False)(V['params'], x)[0],
    }
    want_sq = jnp.sum(y_plain ** 2)
    for name, fn in forms.items():
      got = fn()
      ctx.op('nn.custom_vjp(noisy module):' + name)
      want = want_sq if name == 'value_and_grad_of_jit' else y_plain
      ctx.check(close(got, want), 'custom_vjp:forward_value_changes_under_differentiation:' + name,
                lambda: dict(case=desc, got=np.asarray(got).ravel()[:6].tolist(), want=np.asarray(want).ravel()[:6].tolist()))


def _check_float_updates(ctx, desc, host, V, call_args, inner, d, n_primals, primals):
  """A FLOAT collection that the forward pass writes (the running statistic) and that may at the same time be differentiated
  (vjp_variables / variable_tangents): with the collection mutable, the lifted call publishes exactly the update the un-lifted
  function makes - once, computed from the old value."""
  import jax
  from flax.core import unfreeze
  H = host_classes()
  ref = H['Host']('plain_fn:0:0', inner, d, n_primals)
  _, want = ref.apply(V, primals, None, mutable=['state', 'batch_stats'])
  try:
    _, got = host.apply(V, *call_args, mutable=['state', 'batch_stats'])
  except Exception as e:  # noqa: BLE001
    ctx.check(False, 'published_once:float_collection:raises', dict(case=desc, error=repr(e)[:300]))
    return
  g, w = unfreeze(got).get('batch_stats', {}), unfreeze(want).get('batch_stats', {})
  same = jax.tree_util.tree_structure(g) == jax.tree_util.tree_structure(w) and all(
      np.allclose(a, b, **TOL) for a, b in zip(jax.tree_util.tree_leaves(g), jax.tree_util.tree_leaves(w)))
  stale = jax.tree_util.tree_structure(g) == jax.tree_util.tree_structure(V['batch_stats']) and all(
      np.array_equal(a, b) for a, b in zip(jax.tree_util.tree_leaves(g), jax.tree_util.tree_leaves(V['batch_stats'])))
  ctx.check(same, 'published_once:float_collection' + (':update_dropped' if stale else ''), lambda: dict(case=desc, diff_cols=desc.get('diff_cols')))


def _check_published_once(ctx, desc, V, upd, inner):
  """Counters of the differentiated sub-module advance by exactly the number of executions of one forward pass."""
  from flax.core import unfreeze
  from vf.gen import linen_prog as LP
  upd = unfreeze(upd)
  old = LP.flat_vars({'state': V.get('state', {})})['state']
  new = LP.flat_vars({'state': upd.get('state', {})})['state']
  ok = set(old) == set(new)
  if ok:
    for p in old:
      if p[-1] == 'n_fwd' and len(p) == 2:
        ok = ok and int(new[p]) == int(old[p]) + 1
  ctx.check(ok, 'published_once:counter', lambda: dict(case=desc, old={str(k): int(v) for k, v in old.items()}, new={str(k): int(v) for k, v in new.items()}))


def run_custom_vjp(ctx, i, rng):
  import jax
  import jax.numpy as jnp
  from flax.core import unfreeze
  H = host_classes()
  Host = H['Host']
  d = rng.randint(1, 3)
  inner = gen_inner(rng, d)
  desc = dict(kind='custom_vjp', inner=repr(inner)[:500], d=d)
  with ctx.case('custom_vjp', i, desc, nontrivial=True):
    nr = np.random.default_rng(rng.getrandbits(32))
    primals = make_primals(nr, 1, d)
    plain, tagged = Host('plain', inner, d), Host('custom_vjp', inner, d)
    V = unfreeze(plain.init({'params': jax.random.key(i)}, primals, None))
    y_p = plain.apply(V, primals, None)['y']
    y_t = tagged.apply(V, primals, None)['y']
    ctx.op('nn.custom_vjp')
    # forward value is that of the original function when not differentiating
    ctx.check(close(y_p, y_t), 'custom_vjp:forward_value', lambda: dict(case=desc))
    loss = lambda mod: (lambda params, x: jnp.sum(mod.apply({**V, 'params': params}, (x,), None)['y'] ** 2))
    gp_p, gx_p = jax.grad(loss(plain), argnums=(0, 1))(V['params'], primals[0])
    gp_t, gx_t = jax.grad(loss(tagged), argnums=(0, 1))(V['params'], primals[0])
    # the user's backward rule (x7 on parameter cotangents) is used when differentiating; input cotangents untouched
    ctx.check(close(gp_t, jax.tree_util.tree_map(lambda g: g * 7.0, gp_p), dict(rtol=1e-4, atol=1e-4)), 'custom_vjp:backward_rule_not_used', lambda: dict(case=desc))
    ctx.check(close(gx_t, gx_p), 'custom_vjp:input_cotangent', lambda: dict(case=desc))
    # forward value under differentiation is still the original one
    v_t = jax.value_and_grad(loss(tagged))(V['params'], primals[0])[0]
    v_p = loss(plain)(V['params'], primals[0])
    ctx.check(close(v_t, v_p), 'custom_vjp:forward_value_under_grad', lambda: dict(case=desc))


def run_custom_vjp_inputs(ctx, i, rng):
  import jax
  import jax.numpy as jnp
  from flax.core import unfreeze
  H = host_classes()
  Host = H['Host']
  d = rng.randint(1, 3)
  variant = ['params', 'only_batch_stats', 'no_variables'][i % 3]
  if variant == 'params':
    inner = gen_inner(rng, d)
  elif variant == 'only_batch_stats':
    inner = ('node', 'compact', (('act', 'tanh'), ('stat', 'batch_stats', 'ra', 0.9, d), ('act', 'tanh')))
  else:
    inner = ('node', 'compact', (('act', 'tanh'), ('nop',), ('act', 'tanh')))
  desc = dict(kind='custom_vjp_inputs', variant=variant, inner=repr(inner)[:300], d=d)
  with ctx.case('custom_vjp_inputs', i, desc, nontrivial=True):
    nr = np.random.default_rng(rng.getrandbits(32))
    primals = make_primals(nr, 1, d)
    plain, tagged = Host('plain', inner, d), Host('custom_vjp_inputs', inner, d)
    V = unfreeze(plain.init({'params': jax.random.key(i)}, primals, None))
    ctx.op('nn.custom_vjp(input rule)')
    ctx.check(close(plain.apply(V, primals, None)['y'], tagged.apply(V, primals, None)['y']), 'custom_vjp:forward_value', lambda: dict(case=desc))
    # an upstream Dense-like map makes the input cotangent matter for upstream gradients as well
    w = jnp.asarray(nr.uniform(-1, 1, size=(d, d)).astype(np.float32))
    loss = lambda mod: (lambda ww, x: jnp.sum(mod.apply(V, (x @ ww,), None)['y'] ** 2))
    gw_p, gx_p = jax.grad(loss(plain), argnums=(0, 1))(w, primals[0])
    gw_t, gx_t = jax.grad(loss(tagged), argnums=(0, 1))(w, primals[0])
    ctx.check(close(gx_t, gx_p * 3.0, dict(rtol=1e-4, atol=1e-5)) and close(gw_t, gw_p * 3.0, dict(rtol=1e-4, atol=1e-5)),
              'custom_vjp:backward_rule_not_used', lambda: dict(case=desc, variant=variant))


def run_jvp_forms(ctx, i, rng):
  """nn.jvp call forms: primals / tangents given as lists ("either a tuple or a list") and a `variables=` filter that lifts
  fewer collections than are differentiated; the result is jax.jvp of the pure apply function in every form."""
  import jax
  import jax.numpy as jnp
  import flax.linen as nn
  as_list = i % 2 == 1
  # (the module reads 'batch_stats', so every filter lifts it; 'params' is lifted as the differentiated collection in any case)
  vfilter = [True, 'batch_stats', ['batch_stats'], True, ('batch_stats',), ['batch_stats', 'params']][(i // 2) % 6]
  two = (i // 12) % 2 == 1
  desc = dict(primals_as_list=as_list, variables=repr(vfilter), two_primals=two)
  with ctx.case('jvp_forms', i, desc, nontrivial=as_list or vfilter is not True):
    class Inner(nn.Module):
      @nn.compact
      def __call__(self, x, z=None):
        y = nn.BatchNorm(use_running_average=True)(nn.Dense(3)(x))
        return y if z is None else y * jnp.tanh(z).sum()

    class Top(nn.Module):
      @nn.compact
      def __call__(self, x, z, xt, zt, pt):
        inner = Inner(name='inner')
        if self.is_initializing():
          return inner(x, z if two else None)
        ps, ts = ((x, z), (xt, zt)) if two else ((x,), (xt,))
        if as_list:
          ps, ts = list(ps), list(ts)
        return nn.jvp(lambda m, *a: m(*a), inner, ps, ts, {'params': pt}, variables=vfilter)

    nr = np.random.default_rng(i)
    x = jnp.asarray(nr.uniform(-1, 1, (4, 2)).astype(np.float32))
    z = jnp.asarray(nr.uniform(-1, 1, (2,)).astype(np.float32))
    xt, zt = jnp.ones_like(x) * 0.5, jnp.ones_like(z) * -0.25
    V = Top().init(jax.random.key(i), x, z, xt, zt, None)
    V = jax.tree_util.tree_map(lambda a: a + jnp.asarray(nr.uniform(0.1, 0.5, a.shape).astype(np.float32)), V)
    pt = jax.tree_util.tree_map(lambda a: jnp.asarray(nr.normal(size=a.shape).astype(np.float32)), V['params']['inner'])
    y, yt = Top().apply(V, x, z, xt, zt, pt)
    ctx.op('nn.jvp(call forms)')
    sub = {c: V[c]['inner'] for c in V}

    def pure(p, *a):
      return Inner().apply({**sub, 'params': p}, *a)
    args, targs = ((x, z), (xt, zt)) if two else ((x,), (xt,))
    y_r, yt_r = jax.jvp(pure, (sub['params'], *args), (pt, *targs))
    ctx.check(close(y, y_r), 'jvp:primal:call_forms', lambda: dict(case=desc))
    ctx.check(close(yt, yt_r), 'jvp:tangent:call_forms', lambda: dict(case=desc))
    # nn.vjp with the same filters: the variable cotangent is a tree like the one jax.vjp of apply returns (plain dicts for plain-dict
    # variables), so that it can be combined with the parameters leaf by leaf
    class TopV(nn.Module):
      @nn.compact
      def __call__(self, x, ct):
        inner = Inner(name='inner')
        yv, bwd = nn.vjp(lambda m, a: m(a), inner, x, variables=vfilter)
        return yv, bwd(ct)
    ct = jnp.ones_like(y_r) * 0.5
    yv, (g_vars, g_x) = TopV().apply(V, x, ct)
    y_r2, bw = jax.vjp(lambda p, a: Inner().apply({**sub, 'params': p}, a), sub['params'], x)
    gp_r, gx_r = bw(ct)
    ctx.op('nn.vjp(variables filter)')
    from flax.core import unfreeze
    ctx.check(close(yv, y_r2) and close(g_x, gx_r) and close(unfreeze(g_vars['params']), gp_r), 'vjp:values:call_forms', lambda: dict(case=desc))
    ctx.check(jax.tree_util.tree_structure(g_vars['params']) == jax.tree_util.tree_structure(gp_r), 'vjp:cotangent_container_type',
              lambda: dict(case=desc, got=str(jax.tree_util.tree_structure(g_vars['params']))[:120], want=str(jax.tree_util.tree_structure(gp_r))[:120]))


def run_attr_modules(ctx, i, rng):
  """The differentiated module holds OTHER modules as dataclass attributes (owned by the enclosing module, handed in by
  reference), declared in an order that is not alphabetical: nn.vjp(multi_scope=True) / nn.value_and_grad lift several scopes
  at once and each attribute must keep computing with its own variables."""
  import jax
  import jax.numpy as jnp
  import flax.linen as nn
  order = [('post', 'body'), ('body', 'post'), ('zeta', 'alpha')][i % 3]      # declaration order of the two attribute fields
  kind = ['vjp_multi', 'value_and_grad'][(i // 3) % 2]   # (nn.jvp rejects such modules with NotImplementedError: not lifted at all)
  d = 2 + (i // 12) % 2
  desc = dict(fields=order, kind=kind, d=d)
  with ctx.case('attr_modules', i, desc, nontrivial=list(order) != sorted(order)):
    class Affine(nn.Module):
      @nn.compact
      def __call__(self, x):
        w = self.param('w', nn.initializers.normal(1.0), x.shape[-1:])
        b = self.param('b', nn.initializers.normal(1.0), x.shape[-1:])
        return x * w + b

    f_last, f_first = order     # the FIRST declared field is applied last

    def chain_call(self, x):
      gain = self.param('gain', nn.initializers.normal(1.0), ())
      return getattr(self, f_last)(jnp.tanh(getattr(self, f_first)(x))) * gain
    Chain = type('Chain', (nn.Module,), {'__annotations__': {f_last: nn.Module, f_first: nn.Module}, '__call__': nn.compact(chain_call)})

    def make_chain():
      return Chain(**{f_last: Affine(name='p'), f_first: Affine(name='q')}, name='chain')

    class Plain(nn.Module):
      @nn.compact
      def __call__(self, x):
        return make_chain()(x)

    class Lifted(nn.Module):
      @nn.compact
      def __call__(self, x, ct):
        chain = make_chain()
        if kind == 'vjp_multi':
          y, bwd = nn.vjp(lambda m, x: m(x), chain, x, multi_scope=True)
          return y, bwd(ct)[-1]
        if kind == 'value_and_grad':
          v, g = nn.value_and_grad(lambda m, x: jnp.sum(m(x) * ct), chain, x)
          return v, g[0] if isinstance(g, tuple) else g
        y, yt = nn.jvp(lambda m, x: m(x), chain, (x,), (ct,), {})
        return y, yt

    nr = np.random.default_rng(i)
    x = jnp.asarray(nr.uniform(-1, 1, (3, d)).astype(np.float32))
    ct = jnp.asarray(nr.uniform(-1, 1, (3, d)).astype(np.float32))
    V = Plain().init(jax.random.key(i), x)
    V = jax.tree_util.tree_map(lambda a: a + jnp.asarray(nr.uniform(0.2, 0.9, a.shape).astype(np.float32)), V)   # p and q clearly different
    got = Lifted().apply(V, x, ct)
    ctx.op('nn.%s(module with attribute modules)' % kind)
    pure = lambda xx: Plain().apply(V, xx)
    if kind == 'vjp_multi':
      y_r, bw = jax.vjp(pure, x)
      want = (y_r, bw(ct)[0])
    elif kind == 'value_and_grad':
      want = jax.value_and_grad(lambda xx: jnp.sum(pure(xx) * ct))(x)
    else:
      want = jax.jvp(pure, (x,), (ct,))
    ctx.check(close(got[0], want[0]), 'attr_modules:primal', lambda: dict(case=desc))
    ctx.check(close(got[1], want[1]), 'attr_modules:input_cotangent_or_tangent', lambda: dict(case=desc))


def run_plain_lifted_plain(ctx, i, rng):
  """One module instance (sub-modules defined in setup, mutable state two levels below it) used plainly, then through a lifted
  autodiff transform, then plainly again within ONE apply: the state updates of the lifted call are published once, where the
  later plain calls see them - outputs and the final collection equal those of the all-plain program."""
  import jax
  import jax.numpy as jnp
  import flax.linen as nn
  prog = ['pLp', 'pLLp', 'Lp', 'pL', 'pLpLp', 'LL'][i % 6]
  lift = ['vjp', 'value_and_grad', 'jvp'][(i // 6) % 3]
  desc = dict(program=prog, lift=lift)
  with ctx.case('plain_lifted_plain', i, desc, nontrivial='p' in prog and 'L' in prog):
    class Norm(nn.Module):
      @nn.compact
      def __call__(self, x):
        n = self.variable('stats', 'count', lambda: jnp.zeros(()))
        if self.is_mutable_collection('stats'):
          n.value = n.value + 1.0
        return x * (1.0 + 0.5 * n.value)

    class Block(nn.Module):
      def setup(self):
        self.dense = nn.Dense(3)
        self.norm = Norm()

      def __call__(self, x):
        return self.norm(jnp.tanh(self.dense(x)))

    class Wrap(nn.Module):
      def setup(self):
        self.inner = Block()

      def __call__(self, x):
        return self.inner(x)

    class Net(nn.Module):
      program: str

      def setup(self):
        # the state sits one or two levels below the module that is lifted
        self.block = Wrap() if (i // 18) % 2 == 0 else Block()

      def __call__(self, x):
        for ch in self.program:
          if ch == 'p':
            x = self.block(x)
          elif lift == 'vjp':
            x = nn.vjp(lambda m, z: m(z), self.block, x)[0]
          elif lift == 'value_and_grad':
            x = x + 0.0 * nn.value_and_grad(lambda m, z: jnp.sum(m(z)), self.block, x)[0]
            x = self.block(x) if False else x     # (value_and_grad returns a scalar: the lifted call only updates the state)
          else:
            x = nn.jvp(lambda m, z: m(z), self.block, (x,), (jnp.ones_like(x),), {})[0]
        return x

    x = jnp.asarray(np.random.default_rng(i).uniform(-1, 1, (2, 3)).astype(np.float32))
    v = Net('p').init(jax.random.key(i), x)
    v = {**v, 'stats': jax.tree_util.tree_map(jnp.zeros_like, v['stats'])}
    y, upd = Net(prog).apply(v, x, mutable=['stats'])
    ctx.op('plain / nn.%s / plain on one module instance' % lift)
    n_calls = len(prog)
    cnt = float(jax.tree_util.tree_leaves(upd['stats'])[0])
    ctx.check(cnt == float(n_calls), 'published_once:state_after_mixed_plain_and_lifted_calls', lambda: dict(case=desc, count=cnt, calls=n_calls))
    if lift != 'value_and_grad':
      y_ref, _ = Net('p' * n_calls).apply(v, x, mutable=['stats'])
      ctx.check(close(y, y_ref), 'published_once:later_plain_call_sees_stale_state', lambda: dict(case=desc))


def run_collection_names(ctx, i, rng):
  """Differentiated collections whose NAMES contain one another ('params' inside 'lora_params', 'p' inside 'params', 'params'
  a prefix of 'params_extra'): `vjp_variables` / `variables` given as a plain string, a list or a tuple select exactly the named
  collections - the cotangent has those keys and the values of jax.vjp w.r.t. exactly those collections, and nn.jvp with
  variable_tangents for one of them equals jax.jvp. (Round h: every earlier stream used the stock names.)"""
  import jax
  import jax.numpy as jnp
  import flax.linen as nn
  from flax.core import unfreeze
  names = ['params', 'lora_params', 'p', 'params_extra']
  sel = [['lora_params'], ['params_extra'], ['params'], ['p'], ['lora_params', 'p'], ['params_extra', 'params']][i % 6]
  form = ['str', 'list', 'tuple'][(i // 6) % 3]
  if form == 'str' and len(sel) > 1:
    form = 'tuple'
  api = ['vjp', 'jvp'][(i // 18) % 2]
  spec = sel[0] if form == 'str' else list(sel) if form == 'list' else tuple(sel)
  desc = dict(selected=sel, form=form, api=api)
  with ctx.case('collection_names', i, desc, nontrivial=True):
    class Inner(nn.Module):
      @nn.compact
      def __call__(self, x):
        ws = [self.variable(c, 'w', lambda k=k: jnp.full((3,), 0.5 + 0.25 * k)).value for k, c in enumerate(names)]
        y = x
        for k, w in enumerate(ws):
          y = jnp.tanh(y * w + 0.1 * k)
        return y

    class Top(nn.Module):
      @nn.compact
      def __call__(self, x, ct, vt):
        inner = Inner(name='inner')
        if self.is_initializing():
          return inner(x)
        if api == 'vjp':
          y, bwd = nn.vjp(lambda m, a: m(a), inner, x, vjp_variables=spec)
          return y, bwd(ct)
        return nn.jvp(lambda m, a: m(a), inner, (x,), (jnp.zeros_like(x),), vt)

    nr = np.random.default_rng(i)
    x = jnp.asarray(nr.uniform(-1, 1, (3,)).astype(np.float32))
    ct = jnp.asarray(nr.uniform(0.5, 1, (3,)).astype(np.float32))
    V = Top().init(jax.random.key(0), x, ct, None)
    V = jax.tree_util.tree_map(lambda a: a + jnp.asarray(nr.uniform(0.0, 0.3, a.shape).astype(np.float32)), V)
    sub = {c: V[c]['inner'] for c in V}
    vt = {c: {'w': jnp.asarray(nr.normal(size=(3,)).astype(np.float32))} for c in sel}

    def pure(dv, a):
      return Inner().apply({**sub, **dv}, a)
    dsel = {c: sub[c] for c in sel}
    out = Top().apply(V, x, ct, vt)
    ctx.op('nn.%s(collection names that contain one another)' % api)
    if api == 'jvp':
      y, yt = out
      y_r, yt_r = jax.jvp(pure, (dsel, x), (vt, jnp.zeros_like(x)))
      ctx.check(close(y, y_r) and close(yt, yt_r), 'collection_names:jvp_values', lambda: dict(case=desc))
      return
    y, (g_vars, g_x) = out
    y_r, bw = jax.vjp(pure, dsel, x)
    gv_r, gx_r = bw(ct)
    g_vars = unfreeze(g_vars)
    ctx.check(sorted(g_vars) == sorted(sel), 'collection_names:cotangent_for_unselected_collection',
              lambda: dict(case=desc, got=sorted(g_vars)))
    ctx.check(close(y, y_r) and close(g_x, gx_r) and all(c in g_vars and close(g_vars[c], gv_r[c]) for c in sel),
              'collection_names:values', lambda: dict(case=desc))


def run(ctx):
  for i in ctx.indices(36, 'collection_names'):
    run_collection_names(ctx, i, ctx.rng('collection_names', i))
  for i in ctx.indices(36 if ctx.tier == 'quick' else 108, 'plain_lifted_plain'):
    run_plain_lifted_plain(ctx, i, ctx.rng('plain_lifted_plain', i))
  for i in ctx.indices(24 if ctx.tier == 'quick' else 72, 'attr_modules'):
    run_attr_modules(ctx, i, ctx.rng('attr_modules', i))
  for i in ctx.indices(24 if ctx.tier == 'quick' else 48, 'jvp_forms'):
    run_jvp_forms(ctx, i, ctx.rng('jvp_forms', i))
  for i in ctx.indices(48 if ctx.tier == 'quick' else 480, 'noisy'):
    run_noisy(ctx, i, ctx.rng('noisy', i))
  for i in ctx.indices(24 if ctx.tier == 'quick' else 240, 'noisy_custom_vjp'):
    run_noisy_custom_vjp(ctx, i, ctx.rng('noisy_custom_vjp', i))
  for i in ctx.indices(15 if ctx.tier == 'quick' else 150, 'custom_vjp_inputs'):
    run_custom_vjp_inputs(ctx, i, ctx.rng('cvi', i))
  for i in ctx.indices(240 if ctx.tier == 'quick' else 3600, 'case'):
    run_case(ctx, i, ctx.rng('case', i))
  for i in ctx.indices(14 if ctx.tier == 'quick' else 200, 'custom_vjp'):
    run_custom_vjp(ctx, i, ctx.rng('cv', i))
