"""C02 — variable tree mirrors the module tree; init, apply and shape-only init agree.

Monitor shapes: independent naming/shape reference (vf/gen/linen_prog.ref_vars) vs the real init tree; relational oracles between the
real entry points (init_with_output vs apply, sub-module standalone vs inside its parent, bind/unbind round trip, eval_shape /
lazy_init / jit(init) vs concrete init); fault-style single edits of the parameter tree (delete / reshape one parameter) that must
raise; a make_rng hook that counts 'params' draws during apply (re-initialisation detector)."""
import numpy as np

LEVEL = 'exploration'
LEVEL_TEXT = ('Generated Linen module programs (compact/setup, depth <= 3, explicit and automatic names incl. names that look like auto names, '
              'sub-modules called several times, one inner module shared by two wrapper children, list and attribute children in setup) '
              'are initialised with the real API and the variable tree is compared with a reference computed from the documented naming '
              'rules; apply(init vars) is compared with init_with_output, every root-level sub-module is applied standalone on its own '
              'subtree and compared with its contribution inside the parent, bind/unbind round-trips, every single-parameter deletion '
              'and reshape must raise, all three name-clash kinds must raise NameInUseError, and eval_shape / lazy_init / jit(init) must '
              'give the same structure, shapes and dtypes as concrete init.'
              ' Further streams: every pair of clashing declaration kinds, re-entrant compact methods, share_scope, one'
              ' instance fed inputs of different widths, setup members clashing with later compact calls, shared'
              ' instances through bind/unbind/clone/copy, compact_name_scope methods of sub-modules.'
              ' Round f: write_first (first access to a mutable collection is put_variable), shared_repeated_parent (K12), sow_perturb_clash (K13).'
              ' Round g: bound_partial_touch (.variables / unbind of a bound sub-module after a partial use).'
              ' Round h: lazy_init_mutable (shape-only init with non-default mutable filters), fallback_rng (init vs apply with a missing rng stream; K16).')
LEVEL_NOTE = ('The reference interpreter in vf/gen/linen_prog.py encodes the documented naming rules and is trusted; RNG-using children are '
              'excluded from the standalone comparison (their keys are position-addressed by design, C09).')
TECHNIQUE = 'runtime monitoring: reference-model (naming/shape interpreter) + relational oracles + single-edit fault enumeration on the real init/apply'
RULE = ('case = program (+ input batch shape); per program all parameter paths (<= 12) are deleted / reshaped one at a time. distinct = '
        'distinct program; non-trivial = >= 2 modules or a re-called/shared sub-module.')
ASSUMPTIONS = ['vf.compat get_opaque_trace_state alias is faithful']
PLAN = {'quick': dict(workers=6, timeout_s=1200), 'thorough': dict(workers=14, timeout_s=3400)}
MIN_EVENTS = {'quick': {'oracle:tree': 250, 'oracle:init_apply_agree': 250, 'oracle:no_reinit': 250, 'oracle:standalone': 35,
                        'oracle:param_edit': 600, 'oracle:clash': 30, 'oracle:shape_only': 200, 'oracle:unbind': 12},
              'thorough': {'oracle:tree': 4000, 'oracle:param_edit': 10000}}


class RngLog:
  def __init__(self, ctx):
    from flax.core import scope
    self.params_draws = 0
    self.active = False
    orig = scope.Scope.make_rng
    log = self

    def make_rng(self_scope, name='params'):
      if log.active and name == 'params':
        log.params_draws += 1
        ctx.event('hook.make_rng_params')
      return orig(self_scope, name)

    scope.Scope.make_rng = make_rng


def exact(a, b):
  import jax
  la, ta = jax.tree_util.tree_flatten(a)
  lb, tb = jax.tree_util.tree_flatten(b)
  return ta == tb and all(np.asarray(x).dtype == np.asarray(y).dtype and np.array_equal(np.asarray(x), np.asarray(y)) for x, y in zip(la, lb))


def close(a, b):
  import jax
  from vf import core
  la, ta = jax.tree_util.tree_flatten(a)
  lb, tb = jax.tree_util.tree_flatten(b)
  return ta == tb and all(np.shape(x) == np.shape(y) and np.allclose(np.asarray(x, np.float64), np.asarray(y, np.float64), **core.TOL_SAME_PROGRAM)
                          for x, y in zip(la, lb))


def struct_of(tree):
  import jax
  leaves, td = jax.tree_util.tree_flatten(tree)
  return td, [(tuple(np.shape(l)), np.dtype(getattr(l, 'dtype', np.asarray(l).dtype)).name) for l in leaves]


def truncated(spec, k):
  node = spec['root']
  return dict(spec, root=(node[0], node[1], tuple(node[2][:k])))


def sub_name_of(spec, k):
  """Name (attribute or auto/explicit name) of the sub-module created by root op k, from the reference naming rules."""
  from vf.gen import linen_prog as LP
  node = spec['root']
  ops = node[2]
  op = ops[k]
  if node[1] == 'setup':
    listed = [i for i, o in enumerate(ops) if o[0] in ('dense', 'child', 'dropout') and i % 2 == 0]
    return 'ms_%d' % listed.index(k) if k % 2 == 0 else 'm%d' % k
  if op[1] is not None:
    return op[1]
  cls = 'Dense' if op[0] == 'dense' else ('NodeC' if op[2][1] == 'compact' else 'NodeS')
  n = 0
  for o in ops[:k]:
    if o[0] == 'shared':
      ocls = 'NodeC' if o[2][1] == 'compact' else 'NodeS'
      if o[1] is None and ocls == cls:
        n += 1
      continue
    if o[0] in ('dense', 'child') and o[1] is None:
      ocls = 'Dense' if o[0] == 'dense' else ('NodeC' if o[2][1] == 'compact' else 'NodeS')
      if ocls == cls:
        n += 1
  return '%s_%d' % (cls, n)


def has_rng(node):
  from vf.gen import linen_prog as LP
  return bool(LP.ops_used(node) & {'noise', 'dropout'})


def run_case(ctx, i, rng, rlog):
  import jax
  import jax.numpy as jnp
  import flax.linen as nn
  from flax import errors
  from flax.core import unfreeze
  from vf.gen import linen_prog as LP

  spec = LP.gen_program(rng, max_nodes=6, depth=3, observe=(i % 3 != 0))
  ops = LP.ops_used(spec['root'])
  nontrivial = LP.count_nodes(spec['root']) >= 2 or bool(ops & {'again', 'shared'})
  desc = dict(program=repr(spec['root'])[:900], d_in=spec['d_in'])
  with ctx.case('case', i, desc, nontrivial=nontrivial):
    m = LP.make_module(spec['root'])
    x = LP.make_input(rng, spec)
    rngs = LP.rng_dict(spec, 1 + i % 5)
    y0, v0 = m.init_with_output(rngs, x)
    ctx.op('init_with_output')
    d = LP.check_tree(spec, v0, x.shape)
    ctx.check(d is None, 'tree:differs_from_reference', lambda: dict(case=desc, diff=d))
    if d is not None:
      return

    # ---- apply consumes exactly what init produced
    rlog.params_draws, rlog.active = 0, True
    y1 = m.apply(v0, x, rngs=rngs)
    y2, upd = m.apply(v0, x, rngs=rngs, mutable=True)
    rlog.active = False
    ctx.op('apply')
    ctx.check(rlog.params_draws == 0, 'no_reinit:params_rng_drawn_during_apply', lambda: dict(case=desc, draws=rlog.params_draws))
    stateless = not (ops & {'counter', 'stat'})
    # init_with_output output == apply output (same rngs). Programs that read mutable state (counter / running statistic) are
    # excluded: init computes its output from the initial state, apply from the state init left behind.
    if stateless:
      ctx.check(exact(y0, y1) and exact(y0, y2), 'init_apply_agree:output', lambda: dict(case=desc, y_init=np.asarray(y0).tolist(), y_apply=np.asarray(y1).tolist()))
    ctx.check(exact(upd.get('params', {}), v0.get('params', {})), 'init_apply_agree:params_changed_by_apply', lambda: dict(case=desc))
    fv0, fu = LP.flat_vars(v0), LP.flat_vars(upd)
    ok = all(set(fu.get(c, {})) == set(fv0[c]) for c in fv0) and set(fu) - set(fv0) <= {'intermediates'}
    ctx.check(ok, 'init_apply_agree:variables_created_or_dropped', lambda: dict(case=desc, init={c: sorted(map(str, fv0[c])) for c in fv0},
                                                                                 apply={c: sorted(map(str, fu[c])) for c in fu}))

    # ---- every root-level sub-module standalone == inside its parent
    root_ops = spec['root'][2]
    if not has_rng(spec['root']):
      for k, op in enumerate(root_ops):
        if op[0] not in ('dense', 'child'):
          continue
        # 'again' calls of this sub-module later on are irrelevant: we cut right after op k
        x_in = LP.make_module(truncated(spec, k)['root']).apply(v0, x) if k > 0 else jnp.asarray(x)
        y_in = LP.make_module(truncated(spec, k + 1)['root']).apply(v0, x)
        name = sub_name_of(spec, k)
        sub_vars = {c: t[name] for c, t in unfreeze(v0).items() if isinstance(t, dict) and name in t}
        child = nn.Dense(op[3]) if op[0] == 'dense' else LP.make_module(op[2])
        y_alone = child.apply(sub_vars, x_in)
        ctx.op('submodule.apply')
        ctx.check(exact(y_in, y_alone), 'standalone:differs_from_inside_parent', lambda: dict(case=desc, op_index=k, name=name))
        # unbind round trip (setup-style parents expose their children as attributes)
        if spec['root'][1] == 'setup':
          bound = m.bind(v0)
          attr = getattr(bound, 'm%d' % k) if k % 2 else bound.ms[[i for i, o in enumerate(root_ops) if o[0] in ('dense', 'child', 'dropout') and i % 2 == 0].index(k)]
          mod_u, vars_u = attr.unbind()
          ctx.op('unbind')
          ctx.check(exact(mod_u.apply(vars_u, x_in), y_in), 'unbind:roundtrip_differs', lambda: dict(case=desc, op_index=k))

    # ---- single-parameter deletions and reshapes must raise, never re-initialise
    pv = unfreeze(v0).get('params', {})
    ppaths = sorted(LP.flat_vars({'params': pv})['params'].keys())
    rng.shuffle(ppaths)
    for p in ppaths[:12]:
      for edit in ('delete', 'reshape'):
        vv = unfreeze(v0)
        cur = vv['params']
        for key in p[:-1]:
          cur[key] = dict(cur[key])
          cur = cur[key]
        if edit == 'delete':
          del cur[p[-1]]
        else:
          leaf = np.asarray(cur[p[-1]])
          cur[p[-1]] = jnp.zeros(leaf.shape + (2,), leaf.dtype) if leaf.ndim < 2 else jnp.zeros((leaf.shape[0] + 1,) + leaf.shape[1:], leaf.dtype)
        try:
          m.apply(vv, x, rngs=rngs)
          raised = None
        except (errors.ScopeParamNotFoundError, errors.ScopeCollectionNotFound) as e:
          raised = ('notfound', e)
        except errors.ScopeParamShapeError as e:
          raised = ('shape', e)
        except Exception as e:  # noqa: BLE001 - any other failure still refuses the tree (e.g. a shape error inside the layer maths)
          raised = ('other', e)
        ctx.op('apply(edited params)')
        if edit == 'delete':
          ctx.check(raised is not None and raised[0] == 'notfound', 'param_edit:missing_param_' + ('accepted' if raised is None else 'wrong_error'),
                    lambda: dict(case=desc, path=p, raised=repr(raised)[:200]))
        else:
          ctx.check(raised is not None, 'param_edit:wrong_shape_accepted', lambda: dict(case=desc, path=p))
          if raised is not None and raised[0] != 'shape':
            ctx.event('param_edit.reshape_other_error')

    # ---- shape-only initialisation
    td0, sh0 = struct_of(v0)
    es = jax.eval_shape(m.init, rngs, x)
    ctx.op('eval_shape(init)')
    ctx.check(struct_of(es) == (td0, sh0), 'shape_only:eval_shape', lambda: dict(case=desc))
    if not (ops & {'stat', 'sow', 'perturb'}):
      # lazy_init documents that variables must not depend on the input *values*; data-dependent state ops are out of its domain
      lz = m.lazy_init(rngs, jax.ShapeDtypeStruct(x.shape, x.dtype))
      ctx.op('lazy_init')
      ctx.check(struct_of(lz) == (td0, sh0), 'shape_only:lazy_init', lambda: dict(case=desc, want=repr(sh0)[:300], got=repr(struct_of(lz)[1])[:300]))
      ctx.check(close(lz, v0), 'shape_only:lazy_init_values', lambda: dict(case=desc))
    if i % 4 == 0:
      jv = jax.jit(m.init)(rngs, x)
      ctx.op('jit(init)')
      ctx.check(struct_of(jv) == (td0, sh0), 'shape_only:jit_init', lambda: dict(case=desc))
      ctx.check(close(jv, v0), 'shape_only:jit_init_values', lambda: dict(case=desc))


def run_clash(ctx, i, rng):
  from flax import errors
  from vf.gen import linen_prog as LP
  kinds = LP.CLASH_KINDS + LP.LEGAL_SAME_NAME
  kind = kinds[i % len(kinds)]
  spec = LP.gen_program(rng, max_nodes=3, depth=1, styles=['compact'], observe=False, rng_ops=False)
  node = spec['root']
  ops = list(node[2])
  ops.insert(rng.randint(0, len(ops)), ('clash', kind))
  # the clash may also sit inside a nested compact child
  spec = dict(spec, root=(node[0], node[1], tuple(ops)))
  desc = dict(kind=kind, program=repr(spec['root'])[:500])
  with ctx.case('clash', i, desc, nontrivial=True):
    m = LP.make_module(spec['root'])
    x = LP.make_input(rng, spec)
    try:
      m.init(LP.rng_dict(spec, 1), x)
      raised = None
    except errors.NameInUseError as e:
      raised = e
    ctx.op('init(name clash)')
    if kind in LP.LEGAL_SAME_NAME:
      ctx.check(raised is None, 'clash:legal_same_name_rejected:' + kind, lambda: dict(case=desc))
    else:
      ctx.check(raised is not None, 'clash:not_rejected:' + kind, lambda: dict(case=desc))


MIXED_SETUP = ['submodule', 'param', 'state_variable']
MIXED_CLASH = ['submodule', 'param', 'state_variable']


def run_mixed_style_clash(ctx, i, rng):
  """A module that declares members in setup() and has a compact __call__, called several times on one instance: a compact-time
  declaration that clashes with a setup-time name must be rejected in whichever call it happens (setup is not re-run, so its
  names must stay reserved across calls)."""
  import jax
  import jax.numpy as jnp
  import flax.linen as nn
  from flax import errors
  s_kind = MIXED_SETUP[i % 3]
  c_kind = MIXED_CLASH[(i // 3) % 3]
  at_call = (i // 9) % 3
  n_calls = at_call + 1 + (i // 27) % 2
  legal = (s_kind, c_kind) in (('param', 'state_variable'), ('state_variable', 'param'))  # same name in two collections is allowed
  desc = dict(setup_member=s_kind, compact_member=c_kind, clash_in_call=at_call, calls=n_calls)
  with ctx.case('mixed_clash', i, desc, nontrivial=True):
    class Inner(nn.Module):
      def setup(self):
        if s_kind == 'submodule':
          self.a = nn.Dense(3)
        elif s_kind == 'param':
          self.pa = self.param('a', nn.initializers.ones, (3,))
        else:
          self.va = self.variable('state', 'a', lambda: jnp.zeros((3,)))

      @nn.compact
      def __call__(self, x, clash):
        y = nn.Dense(3, name='other')(x)
        if s_kind == 'submodule':
          y = y + self.a(x)
        if clash:
          if c_kind == 'submodule':
            y = y + nn.Dense(3, name='a')(x)
          elif c_kind == 'param':
            y = y + self.param('a', nn.initializers.ones, (3,))
          else:
            y = y + self.variable('state', 'a', lambda: jnp.zeros((3,))).value
        return y

    class Outer(nn.Module):
      @nn.compact
      def __call__(self, x):
        inner = Inner()
        y = 0.0
        for k in range(n_calls):
          y = y + inner(x, k == at_call)
        return y

    try:
      Outer().init(jax.random.key(i), jnp.ones((2, 4)))
      raised = None
    except errors.NameInUseError as e:
      raised = e
    ctx.op('init(setup+compact name clash)')
    if legal:
      ctx.check(raised is None, 'clash:legal_same_name_rejected:setup_then_compact', lambda: dict(case=desc))
    else:
      ctx.check(raised is not None, 'clash:not_rejected:setup_name_in_later_compact_call' if at_call else 'clash:not_rejected:setup_then_compact',
                lambda: dict(case=desc))


def run_shared_shape(ctx, i, rng):
  """One module instance whose parameter shape follows its input, used twice inside a single init/apply with inputs of widths
  (w1, w2): when the shapes differ the second use must raise ScopeParamShapeError - in init, jit(init), eval_shape(init) and
  apply alike - even when the stored parameter would broadcast against the second input; when they agree, init and apply agree."""
  import jax
  import jax.numpy as jnp
  import flax.linen as nn
  from flax import errors
  share = ['compact_local', 'setup_member', 'attribute'][i % 3]
  pkind = ['bias', 'scale_col', 'dense'][(i // 3) % 3]
  w1, w2 = [(3, 1), (1, 3), (3, 3), (4, 1), (2, 2), (1, 4), (1, 1), (2, 1)][(i // 9) % 8]
  how = ['init', 'jit_init', 'eval_shape', 'init'][(i // 72) % 4]
  desc = dict(sharing=share, param=pkind, widths=(w1, w2), how=how)
  with ctx.case('shared_shape', i, desc, nontrivial=True):
    class Follow(nn.Module):
      @nn.compact
      def __call__(self, x):
        if pkind == 'bias':
          return x + self.param('b', nn.initializers.normal(1.0), (x.shape[-1],))
        if pkind == 'scale_col':
          return x * self.param('s', nn.initializers.normal(1.0), (x.shape[-1], 1))[:, 0]
        k = self.param('k', nn.initializers.normal(1.0), (x.shape[-1], 2))
        return jnp.sum(x[..., :, None] * k[None], axis=-2) if x.shape[-1] != k.shape[0] else x @ k

    class Parent(nn.Module):
      child: nn.Module = None

      def setup(self):
        if share == 'setup_member':
          self.member = Follow()

      @nn.compact
      def __call__(self, xa, xb):
        f = Follow() if share == 'compact_local' else (self.member if share == 'setup_member' else self.child)
        return jnp.sum(f(xa)) + jnp.sum(f(xb))

    m = Parent(child=Follow() if share == 'attribute' else None)
    xa, xb = jnp.ones((2, w1)), jnp.ones((2, w2)) * 0.5
    pshape = lambda w: {'bias': (w,), 'scale_col': (w, 1), 'dense': (w, 2)}[pkind]  # noqa: E731
    mismatch = pshape(w1) != pshape(w2)
    key = jax.random.key(i)

    def do_init():
      if how == 'jit_init':
        return jax.jit(m.init)(key, xa, xb)
      if how == 'eval_shape':
        return jax.eval_shape(m.init, key, xa, xb)
      return m.init(key, xa, xb)

    v, raised = None, None
    try:
      v = do_init()
    except errors.ScopeParamShapeError as e:
      raised = e
    except (TypeError, ValueError) as e:
      # the forward computation itself may reject the shapes before/after the second param() call: not a verdict either way
      ctx.event('note.shared_shape:forward_rejects:' + type(e).__name__)
      return
    ctx.op('%s(shared instance, widths %s)' % (how, 'differ' if mismatch else 'equal'))
    if mismatch:
      ctx.check(raised is not None, 'init:wrong_shape_not_rejected:shared_instance',
                lambda: dict(case=desc, returned=jax.tree_util.tree_map(lambda a: tuple(np.shape(a)), jax.tree_util.tree_map(lambda a: a, v))))
      if raised is None and how == 'init':
        # what init returned must at least be what apply consumes
        try:
          m.apply(v, xa, xb)
        except errors.ScopeParamShapeError:
          ctx.check(False, 'init_apply_agree:init_accepts_what_apply_rejects', lambda: dict(case=desc))
    else:
      if ctx.check(raised is None, 'init:equal_shapes_rejected:shared_instance', lambda: dict(case=desc, error=repr(raised)[:200])) and how != 'eval_shape':
        y0 = m.init_with_output(key, xa, xb)[0] if how == 'init' else None
        y = m.apply(v, xa, xb)
        ctx.check(y0 is None or bool(jnp.allclose(y, y0)), 'init_apply_agree:output:shared_instance', lambda: dict(case=desc))


def run_shared_unbind(ctx, i, rng):
  """One module instance shared between several outside-built parents (tied weights), pushed through bind / unbind / clone / copy:
  the object that comes back still ties the same sub-modules - init creates the same tree (no variable created, dropped or renamed)
  and apply consumes the original variables."""
  import jax
  import jax.numpy as jnp
  from flax.core import unfreeze
  from vf.props import c01
  C = c01.bound_classes()
  layout = ['two_parents', 'three_parents', 'parent_and_direct', 'nested_parents'][i % 4]
  via = ['unbind', 'clone', 'bind_unbind_twice', 'copy'][(i // 4) % 4]
  desc = dict(layout=layout, via=via)
  with ctx.case('shared_unbind', i, desc, nontrivial=True):
    tied = C['Leaf']()
    if layout == 'two_parents':
      model = C['Node2'](C['Node1'](tied), C['Node1'](tied))
    elif layout == 'three_parents':
      model = C['Node3'](C['Node1'](tied), C['Node1'](tied), C['Node1'](tied))
    elif layout == 'parent_and_direct':
      model = C['Node2'](C['Node1'](tied), tied)
    else:
      model = C['Node2'](C['Node1'](C['Node1'](tied)), C['Node1'](tied))
    x = jnp.asarray(np.random.default_rng(i).uniform(-1, 1, (2, 3)).astype(np.float32))
    key = jax.random.key(i)
    v = unfreeze(model.init(key, x))
    v2 = unfreeze(model.init(jax.random.key(i + 100), x))
    want = model.apply(v2, x, mutable=['counter'])
    if via == 'unbind':
      obj = model.bind(v).unbind()[0]
    elif via == 'clone':
      obj = model.clone()
    elif via == 'copy':
      obj = model.copy()
    else:
      obj = model.bind(v).unbind()[0].bind(v2).unbind()[0]
    ctx.op('shared instance through %s' % via)
    shp = lambda t: jax.tree_util.tree_map(lambda a: tuple(np.shape(a)), t)  # noqa: E731
    try:
      v_obj = unfreeze(obj.init(key, x))
    except Exception as e:  # noqa: BLE001
      ctx.check(False, 'tree:shared_instance_lost:init_raises', dict(case=desc, error=repr(e)[:300]))
      return
    ctx.check(shp(v_obj) == shp(v), 'tree:shared_instance_lost:init_tree', lambda: dict(case=desc, got=shp(v_obj), want=shp(v)))
    try:
      got = obj.apply(v2, x, mutable=['counter'])
    except Exception as e:  # noqa: BLE001
      ctx.check(False, 'init_apply_agree:shared_instance_lost:apply_raises', dict(case=desc, error=repr(e)[:300]))
      return
    ok = jax.tree_util.tree_structure(got) == jax.tree_util.tree_structure(want) and all(
        np.allclose(a, b) for a, b in zip(jax.tree_util.tree_leaves(got), jax.tree_util.tree_leaves(want)))
    ctx.check(ok, 'init_apply_agree:shared_instance_lost:output', lambda: dict(case=desc))


def run_name_scope_methods(ctx, i, rng):
  """Modules with nn.compact_name_scope helper methods, used as SUB-modules (once or several times) of a compact or setup parent: the
  helper's variables sit under <sub-module name>/<method name>, and the sub-module applied on its own sub-tree computes what it
  computes inside the parent."""
  import jax
  import jax.numpy as jnp
  import flax.linen as nn
  from flax.core import unfreeze
  n_inst = 1 + i % 3
  parent_style = ['compact', 'setup'][(i // 3) % 2]
  two_methods = (i // 6) % 2 == 1
  desc = dict(instances=n_inst, parent=parent_style, methods=2 if two_methods else 1)
  with ctx.case('name_scope', i, desc, nontrivial=True):
    class Foo(nn.Module):
      @nn.compact_name_scope
      def up(self, x):
        return nn.Dense(3)(x)

      @nn.compact_name_scope
      def down(self, x):
        return nn.Dense(3)(x) * 0.5

      def __call__(self, x):
        y = self.up(x)
        return self.down(y) if two_methods else y

    if parent_style == 'compact':
      class Par(nn.Module):
        @nn.compact
        def __call__(self, x):
          for _ in range(n_inst):
            x = jnp.tanh(Foo()(x))
          return x
      names = ['Foo_%d' % k for k in range(n_inst)]
    else:
      class Par(nn.Module):
        def setup(self):
          self.blocks = [Foo() for _ in range(n_inst)]

        def __call__(self, x):
          for b in self.blocks:
            x = jnp.tanh(b(x))
          return x
      names = ['blocks_%d' % k for k in range(n_inst)]

    x = jnp.asarray(np.random.default_rng(i).uniform(-1, 1, (2, 3)).astype(np.float32))
    try:
      y0, v = Par().init_with_output(jax.random.key(i), x)
    except Exception as e:  # noqa: BLE001
      ctx.check(False, 'tree:compact_name_scope:init_raises', dict(case=desc, error=repr(e)[:300]))
      return
    v = unfreeze(v)
    ctx.op('init(sub-modules with compact_name_scope methods)')
    meths = ['up', 'down'] if two_methods else ['up']
    want = {n: {m: {'Dense_0': {'bias': (3,), 'kernel': (3, 3)}} for m in meths} for n in names}
    got = jax.tree_util.tree_map(lambda a: tuple(np.shape(a)), v['params'])
    if not ctx.check(got == want, 'tree:compact_name_scope:variables_under_wrong_module', lambda: dict(case=desc, got=got, want=want)):
      return
    ctx.check(bool(jnp.allclose(Par().apply(v, x), y0)), 'init_apply_agree:output:compact_name_scope', lambda: dict(case=desc))
    # each sub-module on its own sub-tree
    h = x
    for n in names:
      h = jnp.tanh(Foo().apply({'params': v['params'][n]}, h))
    ctx.check(bool(jnp.allclose(h, y0, atol=1e-6)), 'subtree:compact_name_scope', lambda: dict(case=desc))


def run_share_scope_clash(ctx, i, rng):
  """nn.share_scope merges two modules into one scope: members of the two sides that carry the same name clash like any two members
  of one module - the call must raise instead of letting two distinct layers share one set of parameters. Clash-free twins pass."""
  import jax
  import jax.numpy as jnp
  import flax.linen as nn
  from flax import errors
  program = ['child_field', 'outside_base_setup', 'outside_base_compact'][i % 3]
  clash = (i // 3) % 2 == 0
  desc = dict(program=program, clash=clash)
  with ctx.case('share_scope_clash', i, desc, nontrivial=True):
    other = 'proj' if clash else 'head'

    class Inner(nn.Module):
      proj: nn.Module

      def __call__(self, x):
        return self.proj(x)

    if program == 'child_field':
      Wrapper = type('Wrapper', (nn.Module,), {
          '__annotations__': {'inner': nn.Module, other: nn.Module},
          'setup': lambda self: nn.share_scope(self, self.inner),
          '__call__': lambda self, x: self.inner(x) + 2.0 * getattr(self, other)(x)})
      model = Wrapper(**{'inner': Inner(nn.Dense(3)), other: nn.Dense(3)})
    else:
      if program == 'outside_base_setup':
        class Base(nn.Module):
          def setup(self):
            self.proj = nn.Dense(3)

          def __call__(self, x):
            return self.proj(x)
      else:
        class Base(nn.Module):
          @nn.compact
          def __call__(self, x):
            return nn.Dense(3, name='proj')(x)

      class Wrap(nn.Module):
        base: nn.Module

        def setup(self):
          setattr(self, other, nn.Dense(3))
          nn.share_scope(self, self.base)

        def __call__(self, x):
          return self.base(x) + 2.0 * getattr(self, other)(x)

      class Model(nn.Module):
        @nn.compact
        def __call__(self, x):
          base = Base()
          h = base(x)
          return Wrap(base)(x) + 0 * h
      model = Model()
    x = jnp.asarray(np.random.default_rng(i).uniform(-1, 1, (2, 3)).astype(np.float32))
    raised, v = None, None
    try:
      v = model.init(jax.random.key(i), x)
    except (errors.NameInUseError, ValueError) as e:
      raised = e
    ctx.op('init(share_scope, %s)' % ('clashing names' if clash else 'distinct names'))
    if clash:
      ctx.check(raised is not None, 'clash:not_rejected:share_scope_members',
                lambda: dict(case=desc, tree=jax.tree_util.tree_map(lambda a: tuple(np.shape(a)), v)))
    else:
      if ctx.check(raised is None, 'clash:legal_same_name_rejected:share_scope_members', lambda: dict(case=desc, error=repr(raised)[:200])):
        n_kernels = sum(1 for p, _ in jax.tree_util.tree_flatten_with_path(v)[0] if 'kernel' in jax.tree_util.keystr(p))
        ctx.check(n_kernels == 2, 'tree:share_scope_members', lambda: dict(case=desc, kernels=n_kernels))


def run_pytree_param(ctx, i, rng):
  """A parameter whose value is a pytree (a dict of arrays returned by the initializer, optionally boxed): apply checks the supplied
  value leaf by leaf - a missing, surplus or renamed leaf is a wrongly-shaped parameter and raises ScopeParamShapeError, the exact
  tree is accepted."""
  import jax
  import jax.numpy as jnp
  import flax.linen as nn
  from flax import errors
  edit = ['exact', 'missing_leaf', 'surplus_leaf', 'renamed_leaf', 'wrong_shape', 'exact_frozen', 'nested_missing'][i % 7]
  boxed = (i // 7) % 2 == 1
  desc = dict(edit=edit, boxed=boxed)
  with ctx.case('pytree_param', i, desc, nontrivial=True):
    def init_fn(key):
      val = {'a': jnp.ones((3,)), 'b': jnp.full((3,), 2.0), 'sub': {'c': jnp.full((1,), 3.0)}}
      return nn.Partitioned(val, names=(None,)) if boxed else val

    class M(nn.Module):
      @nn.compact
      def __call__(self, x):
        p = self.param('p', init_fn)
        return x * p['a'] + p['b'] + p['sub']['c']

    x = jnp.ones((2, 3))
    good = {'a': jnp.ones((3,)), 'b': jnp.full((3,), 2.0), 'sub': {'c': jnp.full((1,), 3.0)}}
    val = dict(good, sub=dict(good['sub']))
    if edit == 'missing_leaf':
      del val['b']
    elif edit == 'surplus_leaf':
      val['zzz'] = jnp.ones((3,))
    elif edit == 'renamed_leaf':
      val['c'] = val.pop('b')
    elif edit == 'wrong_shape':
      val['b'] = jnp.ones((7,))
    elif edit == 'nested_missing':
      val['sub'] = {}
    elif edit == 'exact_frozen':
      from flax.core import freeze
      val = freeze(val)
    stored = nn.Partitioned(val, names=(None,)) if boxed else val
    raised = None
    try:
      y = M().apply({'params': {'p': stored}}, x)
    except errors.ScopeParamShapeError as e:
      raised = e
    except (KeyError, TypeError) as e:
      # the module body tripped over the wrong structure: the check let it through
      raised = None
      ctx.check(False, 'apply:pytree_param_structure_not_checked', dict(case=desc, then=repr(e)[:200]))
      return
    ctx.op('apply(pytree-valued parameter: %s)' % edit)
    if edit.startswith('exact'):
      ctx.check(raised is None, 'apply:exact_pytree_param_rejected', lambda: dict(case=desc, error=repr(raised)[:300]))
    else:
      ctx.check(raised is not None, 'apply:pytree_param_structure_not_checked', lambda: dict(case=desc))


def run_reentrant(ctx, i, rng):
  """Re-entrant compact methods (a subclass calling super().__call__, a method calling self recursively): auto-names keep
  counting in creation order across the re-entrant calls, so every layer gets its own subtree."""
  import jax
  import jax.numpy as jnp
  import flax.linen as nn
  from flax.core import unfreeze
  kind = ['super_chain', 'recursive'][i % 2]
  d0 = rng.randint(1, 3)
  with ctx.case('reentrant', i, dict(kind=kind, i=i), nontrivial=True):
    expected = []   # (din, dout) in creation order
    if kind == 'super_chain':
      n_levels = rng.randint(2, 4)
      levels = [([rng.randint(1, 3) for _ in range(rng.randint(0, 2))], [rng.randint(1, 3) for _ in range(rng.randint(0 if li else 1, 2))]) for li in range(n_levels)]
      cls = None
      for pre, post in levels:   # index 0 = base class
        def make(parent, pre, post, has_super):
          class L(parent):
            @nn.compact
            def __call__(self, x):
              for w in pre:
                x = nn.Dense(w)(x)
              if has_super:
                x = super(L, self).__call__(x)
              for w in post:
                x = nn.Dense(w)(x)
              return x
          return L
        cls = make(cls if cls is not None else nn.Module, tuple(pre), tuple(post), cls is not None)
      def walk(li, d):
        pre, post = levels[li]
        for w in pre:
          expected.append((d, w)); d = w
        if li > 0:
          d = walk(li - 1, d)
        for w in post:
          expected.append((d, w)); d = w
        return d
      d_out = walk(n_levels - 1, d0)
      m = cls()
      desc = dict(levels=levels)
    else:
      depth = rng.randint(1, 3)
      w = d0

      class Rec(nn.Module):
        @nn.compact
        def __call__(self, x, depth=depth):
          x = nn.Dense(w)(x)
          if depth > 0:
            x = self(x, depth - 1)
          return nn.Dense(w)(x)

      for _ in range(2 * (depth + 1)):
        expected.append((w, w))
      m = Rec()
      d_out = w
      desc = dict(depth=depth)
    x = jnp.ones((2, d0))
    y, v = m.init_with_output(jax.random.key(i), x)
    ctx.op('init(re-entrant compact)')
    got = {k: (tuple(np.shape(t['kernel'])), tuple(np.shape(t['bias']))) for k, t in unfreeze(v)['params'].items()}
    want = {'Dense_%d' % k: ((a, b), (b,)) for k, (a, b) in enumerate(expected)}
    ctx.check(got == want, 'tree:reentrant_compact_names', lambda: dict(case=desc, want=want, got=got))
    if got == want:
      ctx.check(exact(m.apply(v, x), y) and np.shape(y) == (2, d_out), 'init_apply_agree:output', lambda: dict(case=desc))
      # distinct layers have distinct initial kernels (no silent weight sharing)
      ks = [np.asarray(t['kernel']).tobytes() for t in unfreeze(v)['params'].values() if np.asarray(t['kernel']).size > 1]
      ctx.check(len(set(ks)) == len(ks), 'tree:reentrant_layers_share_weights', lambda: dict(case=desc))


def run_share_scope(ctx, i, rng):
  """nn.share_scope (both documented directions): wrapper and wrapped module live in ONE subtree, named after the scope that
  is kept; a name used by both sides is a clash."""
  import jax
  import jax.numpy as jnp
  import flax.linen as nn
  from flax import errors
  from flax.core import unfreeze
  din, dout, rank = rng.randint(1, 4), rng.randint(1, 4), rng.randint(1, 2)
  pattern = ['wrap_outer_module', 'wrap_own_child', 'clash'][i % 3]

  class LoRAOuter(nn.Module):
    base: nn.Module
    rank: int
    extra: str = 'A'

    def setup(self):
      nn.share_scope(self, self.base)

    @nn.compact
    def __call__(self, x):
      A = self.param(self.extra, nn.initializers.normal(1.0), (x.shape[-1], self.rank))
      B = self.param('B', nn.initializers.normal(1.0), (self.rank, self.base.features))
      return self.base(x) + x @ A @ B

  class LoRAOwn(nn.Module):
    features: int
    rank: int

    def setup(self):
      self.child = nn.Dense(self.features)
      nn.share_scope(self, self.child)

    @nn.compact
    def __call__(self, x):
      A = self.param('A', nn.initializers.normal(1.0), (x.shape[-1], self.rank))
      B = self.param('B', nn.initializers.normal(1.0), (self.rank, self.features))
      return self.child(x) + x @ A @ B

  class Model(nn.Module):
    pattern: str

    @nn.compact
    def __call__(self, x):
      x = nn.Dense(din, name='pre')(x)
      if self.pattern == 'wrap_own_child':
        return LoRAOwn(dout, rank)(x)
      dense = nn.Dense(dout)
      return LoRAOuter(dense, rank, extra='kernel' if self.pattern == 'clash' else 'A')(x)

  desc = dict(pattern=pattern, din=din, dout=dout, rank=rank)
  with ctx.case('share_scope', i, desc, nontrivial=True):
    x = jnp.ones((2, din))
    m = Model(pattern)
    try:
      y, v = m.init_with_output(jax.random.key(i), x)
      raised = None
    except errors.NameInUseError as e:
      raised = e
    ctx.op('nn.share_scope')
    if pattern == 'clash':
      ctx.check(raised is not None, 'clash:not_rejected:share_scope', lambda: dict(case=desc))
      return
    if not ctx.check(raised is None, 'tree:share_scope_raised', lambda: dict(case=desc, error=repr(raised))):
      return
    key = 'Dense_0' if pattern == 'wrap_outer_module' else 'LoRAOwn_0'
    want = {'pre': {'kernel': (din, din), 'bias': (din,)}, key: {'A': (din, rank), 'B': (rank, dout), 'kernel': (din, dout), 'bias': (dout,)}}
    got = jax.tree_util.tree_map(lambda a: tuple(np.shape(a)), unfreeze(v)['params'])
    ctx.check(got == want, 'tree:share_scope_names', lambda: dict(case=desc, want=want, got=got))
    if got == want:
      ctx.check(exact(m.apply(v, x), y), 'init_apply_agree:output', lambda: dict(case=desc))


def run_write_first(ctx, i, rng):
  """Modules whose FIRST access to a mutable collection in a call is a write (put_variable / assignment through a stored Variable
  handle is a read-then-write; a bare put_variable is not): re-applying init's variables creates, drops and re-initialises nothing -
  the other variables of that module, of its siblings and of its parent keep the supplied values."""
  import jax
  import jax.numpy as jnp
  import flax.linen as nn
  depth = 1 + i % 3                      # nesting depth of the writing module below the root
  who = ['first_child', 'last_child', 'both'][(i // 3) % 3]
  parent_touches_first = (i // 9) % 2 == 1   # the parent reads its own 'state' entry before the children run
  calls = 1 + (i // 18) % 2
  desc = dict(depth=depth, writers=who, parent_reads_first=parent_touches_first, calls_per_apply=calls)
  inits = []
  with ctx.case('write_first', i, desc, nontrivial=True):
    class Leaf(nn.Module):
      writes: bool

      @nn.compact
      def __call__(self, x):
        if self.is_initializing():
          self.variable('state', 'n', lambda: (inits.append('n'), jnp.zeros(()))[1])
          self.variable('state', 'keep', lambda: (inits.append('keep'), jnp.asarray(7.0))[1])
        elif self.writes and self.is_mutable_collection('state'):
          self.put_variable('state', 'n', jnp.sum(x))        # the first access of this scope to 'state' is a write
        k = self.param('k', lambda key: jnp.asarray(2.0))   # (param initialisers are evaluated abstractly at apply for the shape check)
        return x * k + self.get_variable('state', 'keep')

    class Mid(nn.Module):
      level: int

      @nn.compact
      def __call__(self, x):
        own = self.variable('state', 'own', lambda: (inits.append('own'), jnp.asarray(0.5))[1])
        if parent_touches_first:
          x = x + own.value
        if self.level > 1:
          x = Mid(self.level - 1, name='mid')(x)
        else:
          for _ in range(calls):
            x = Leaf(who in ('first_child', 'both'), name='a')(x) if _ == 0 else x
          x = Leaf(who in ('last_child', 'both'), name='b')(x)
        return x + own.value

    top = Mid(depth)
    x0 = jnp.asarray([1.0, 2.0])
    v = top.init(jax.random.key(0), x0)
    # supplied variables differ from what the initialisers produce: a re-initialisation is visible in values
    v = jax.tree_util.tree_map(lambda a: a + 0.25, v)
    n_init = len(inits)
    x1 = jnp.asarray([3.0, -1.0])
    y, upd = top.apply(v, x1, mutable=['state'])
    ctx.op('apply(first access to a mutable collection is put_variable)')
    ctx.check(len(inits) == n_init, 'reapply:initialiser_ran_during_apply', lambda: dict(case=desc, ran=inits[n_init:]))
    flat_v = {k_: np.asarray(a) for k_, a in jax.tree_util.tree_flatten_with_path(v['state'])[0]}
    flat_u = {k_: np.asarray(a) for k_, a in jax.tree_util.tree_flatten_with_path(dict(upd)['state'])[0]}
    ctx.check(set(map(str, flat_v)) == set(map(str, flat_u)), 'reapply:variable_created_or_dropped',
              lambda: dict(case=desc, before=sorted(map(str, flat_v)), after=sorted(map(str, flat_u))))
    changed = [str(k_) for k_ in flat_v if str(k_) in set(map(str, flat_u)) and not str(k_).endswith("key='n'),)") and not str(k_).endswith("key='n'))")
               and not np.array_equal(flat_v[k_], {str(a): b for a, b in flat_u.items()}[str(k_)])]
    ctx.check(not changed, 'reapply:untouched_variable_changed', lambda: dict(case=desc, changed=changed))
    # reference output computed by hand from the supplied values
    keep, kk, own = 7.25, 2.25, 0.75
    h = np.asarray(x1, np.float64)
    for _ in range(depth):
      if parent_touches_first:
        h = h + own
    h = h * kk + keep      # leaf a
    h = h * kk + keep      # leaf b
    for _ in range(depth):
      h = h + own
    ctx.check(np.allclose(np.asarray(y), h, rtol=1e-5, atol=1e-5), 'reapply:output_not_from_supplied_variables',
              lambda: dict(case=desc, got=np.asarray(y).tolist(), want=h.tolist()))


def run_shared_repeated_parent(ctx, i, rng):
  """An outside-built module shared by two wrappers (W(G)(x) + W(G)(x)) inside a compact parent that is itself called more than once:
  the variable tree does not depend on how often the parent is called - G's variables exist once, under the first wrapper.
  Own mechanisms - see known finding C02-sharing-lost-on-repeated-parent-call."""
  import jax
  import jax.numpy as jnp
  import flax.linen as nn
  calls = 1 + i % 3
  order = ['construct_call_construct_call', 'construct_both_then_call'][(i // 3) % 2]
  desc = dict(parent_calls=calls, order=order)
  with ctx.case('shared_repeated_parent', i, desc, nontrivial=calls >= 2):
    G = nn.Dense(3)

    class W(nn.Module):
      inner: nn.Module

      @nn.compact
      def __call__(self, x):
        return self.inner(x)

    class Top(nn.Module):
      @nn.compact
      def __call__(self, x):
        if order == 'construct_call_construct_call':
          return W(G)(x) + W(G)(x)
        a, b = W(G), W(G)
        return a(x) + b(x)

    class Outer(nn.Module):
      @nn.compact
      def __call__(self, x):
        t = Top()
        for _ in range(calls):
          x = t(x)
        return x

    x = jnp.ones((2, 3))
    v1 = Outer().init(jax.random.key(0), x)
    ctx.op('init(parent with a shared outside module, called %d times)' % calls)
    names = sorted(jax.tree_util.tree_map(lambda a: None, v1['params']['Top_0']).keys()) if 'Top_0' in v1['params'] else sorted(v1['params'])
    mech = 'tree:shared_module_duplicated_on_repeated_parent_call' + ('' if order == 'construct_call_construct_call' else ':constructed_first')
    ctx.check(names == ['W_0'], mech, lambda: dict(case=desc, children_of_Top=names))
    # the variables of one call fit every number of calls
    v_single = jax.tree_util.tree_map(lambda a: a, Outer().init(jax.random.key(0), x)) if calls == 1 else None
    if calls >= 2 and names == ['W_0']:
      try:
        Outer().apply(v1, x)
      except Exception as e:  # noqa: BLE001
        ctx.check(False, mech, dict(case=desc, apply_error=repr(e)[:200]))


def run_sow_perturb_clash(ctx, i, rng):
  """Two variables of one collection under one name where the SECOND user is sow() or perturb(): a clash like any other (the reverse
  order is rejected). Own mechanisms - see known finding C02-sow-perturb-overwrite-declared-variable."""
  import jax
  import jax.numpy as jnp
  import flax.linen as nn
  from flax import errors
  kind = ['variable_then_sow', 'variable_then_perturb', 'sow_then_variable', 'sow_twice_same_name'][i % 4]
  desc = dict(kind=kind)
  with ctx.case('sow_perturb_clash', i, desc, nontrivial=True):
    class M(nn.Module):
      @nn.compact
      def __call__(self, x):
        if kind == 'variable_then_sow':
          c = self.variable('stats', 'c', jnp.zeros, ())
          self.sow('stats', 'c', 7.0, reduce_fn=lambda a, b: a + b, init_fn=lambda: 0.0)
          return x + c.value
        if kind == 'variable_then_perturb':
          self.variable('perturbations', 'p', jnp.ones, x.shape)
          return self.perturb('p', x)
        if kind == 'sow_then_variable':
          self.sow('stats', 'c', 7.0, reduce_fn=lambda a, b: a + b, init_fn=lambda: 0.0)
          return x + self.variable('stats', 'c', jnp.zeros, ()).value
        self.sow('stats', 'c', 1.0, reduce_fn=lambda a, b: a + b, init_fn=lambda: 0.0)    # the same sow twice accumulates: legal
        self.sow('stats', 'c', 2.0, reduce_fn=lambda a, b: a + b, init_fn=lambda: 0.0)
        return x
    try:
      out = M().init_with_output(jax.random.key(0), jnp.ones((3,)))
      raised = None
    except errors.NameInUseError as e:
      out, raised = None, e
    ctx.op('init(variable / sow / perturb under one name)')
    if kind == 'sow_twice_same_name':
      ctx.check(raised is None and float(out[1]['stats']['c']) == 3.0, 'clash:legal_same_name_rejected:sow_twice', lambda: dict(case=desc))
    else:
      ctx.check(raised is not None, 'clash:not_rejected:' + kind, lambda: dict(case=desc, variables=repr(None if out is None else out[1])[:200]))


def run_bound_partial_touch(ctx, i, rng):
  """A bound model whose sub-module was used in a way that touched only SOME of its collections (a params-only method, a
  has_variable probe) before `.variables` / `.unbind()` is asked for: the sub-module's variables are complete and the unbound
  sub-module applied on them computes what it computes inside its parent."""
  import jax
  import jax.numpy as jnp
  import flax.linen as nn
  first = ['params_only_method', 'has_variable_params', 'has_variable_stats', 'full_call', 'nothing'][i % 5]
  depth = 1 + (i // 5) % 2
  desc = dict(before=first, depth=depth)
  with ctx.case('bound_partial_touch', i, desc, nontrivial=first not in ('full_call', 'nothing')):
    class Enc(nn.Module):
      def setup(self):
        self.proj = nn.Dense(3)
        self.norm = nn.BatchNorm(use_running_average=True)

      def __call__(self, x):
        return self.norm(self.proj(x))

      def project(self, x):          # touches 'params' only
        return self.proj(x)

    class Stack(nn.Module):
      def setup(self):
        self.encoder = Enc()

      def __call__(self, x):
        return self.encoder(x) * 2.0

    class Model(nn.Module):
      def setup(self):
        self.stack = Stack() if depth == 2 else None
        self.encoder = Enc() if depth == 1 else None

      def __call__(self, x):
        return (self.stack(x) if depth == 2 else self.encoder(x) * 2.0) + 1.0

    x = jnp.asarray(np.random.default_rng(i).uniform(-1, 1, (2, 3)).astype(np.float32))
    v = Model().init(jax.random.key(i), x)
    v = jax.tree_util.tree_map(lambda a: a + 0.25, v)
    bound = Model().bind(v)
    enc = bound.stack.encoder if depth == 2 else bound.encoder
    if first == 'params_only_method':
      enc.project(x)
    elif first == 'has_variable_params':
      enc.has_variable('params', 'proj')
    elif first == 'has_variable_stats':
      enc.norm.has_variable('batch_stats', 'mean')
    elif first == 'full_call':
      enc(x)
    sub_vars = enc.variables
    ctx.op('bound sub-module .variables / .unbind() after a partial use')
    ctx.check(set(sub_vars) == {'params', 'batch_stats'}, 'bind:submodule_variables_incomplete', lambda: dict(case=desc, collections=sorted(sub_vars)))
    um, uv = enc.unbind()
    ctx.check(set(uv) == {'params', 'batch_stats'}, 'bind:submodule_variables_incomplete', lambda: dict(case=desc, unbound_collections=sorted(uv)))
    try:
      y_alone = um.apply(uv, x)
      inside = enc(x)
      ctx.check(close(y_alone, inside), 'bind:unbound_submodule_differs', lambda: dict(case=desc))
    except Exception as e:  # noqa: BLE001
      ctx.check(False, 'bind:unbound_submodule_differs', dict(case=desc, error=repr(e)[:200]))


def run_lazy_init_mutable(ctx, i, rng):
  """lazy_init / eval_shape(init) / jit(init) with a NON-DEFAULT `mutable` on a module whose set of variables depends on what is
  mutable (is_mutable_collection guards, constant sows into a non-default collection): each gives the tree structure, shapes and
  dtypes of the concrete init(..., mutable=<the same filter>) - and the values, since nothing here depends on input values.
  (Round h: the `case` stream calls lazy_init with the default filter only.)"""
  import jax
  import jax.numpy as jnp
  import flax.linen as nn
  from flax.core.scope import DenyList
  fname, mut = [('default', None), ('params', ['params']), ('params+stats', ['params', 'stats']),
                ('deny(intermediates,stats)', DenyList(['intermediates', 'stats'])), ('True', True),
                ('params+probes', ('params', 'probes')), ('deny(probes)', DenyList('probes')), ('str', 'params')][i % 8]
  nested = (i // 8) % 2 == 1
  method = [None, 'alt'][(i // 16) % 2]
  desc = dict(mutable=fname, nested=nested, method=method)
  with ctx.case('lazy_init_mutable', i, desc, nontrivial=mut is not None):
    class Leaf(nn.Module):
      @nn.compact
      def __call__(self, x):
        y = nn.Dense(3, name='d')(x)
        if self.is_mutable_collection('stats'):
          self.variable('stats', 'count', lambda: jnp.zeros((), jnp.int32))
        self.sow('probes', 'tag', jnp.ones((2,), jnp.bfloat16))
        self.sow('intermediates', 'tag', jnp.ones((1,)))
        return y

      @nn.compact
      def alt(self, x):
        if self.is_mutable_collection('stats'):
          self.variable('stats', 'alt_count', lambda: jnp.ones((2,), jnp.int32))
        return nn.Dense(2, name='e')(x) * 2

    class Top(nn.Module):
      @nn.compact
      def __call__(self, x):
        if self.is_mutable_collection('probes'):
          self.variable('probes', 'top', lambda: jnp.zeros((1, 1)))
        return Leaf(name='leaf')(x)

      @nn.compact
      def alt(self, x):
        return Leaf(name='leaf').alt(x)

    m = Top() if nested else Leaf()
    kw = {} if mut is None else {'mutable': mut}
    if method:
      kw['method'] = method
    x = jnp.ones((2, 4))
    key = jax.random.key(i)
    v0 = m.init(key, x, **kw)
    want = struct_of(v0)
    lz = m.lazy_init(key, jax.ShapeDtypeStruct(x.shape, x.dtype), **kw)
    ctx.op('lazy_init(mutable=non-default)')
    ctx.check(struct_of(lz) == want, 'shape_only:lazy_init:mutable_filter',
              lambda: dict(case=desc, want=sorted(v0), got=sorted(lz)))
    ctx.check(struct_of(lz) != want or close(lz, v0), 'shape_only:lazy_init_values:mutable_filter', lambda: dict(case=desc))
    es = jax.eval_shape(lambda k, a: m.init(k, a, **kw), key, x)
    ctx.check(struct_of(es) == want, 'shape_only:eval_shape:mutable_filter', lambda: dict(case=desc, got=sorted(es)))
    jt = jax.jit(lambda k, a: m.init(k, a, **kw))(key, x)
    ctx.check(struct_of(jt) == want and close(jt, v0), 'shape_only:jit_init:mutable_filter', lambda: dict(case=desc, got=sorted(jt)))
    # init_with_output agrees with init on the variables for the same filter
    _, v1 = m.init_with_output(key, x, **kw)
    ctx.check(struct_of(v1) == want and close(v1, v0), 'shape_only:init_with_output:mutable_filter', lambda: dict(case=desc))


def run_fallback_rng(ctx, i, rng):
  """init's output is reproduced by apply with the same inputs and the same rngs when the module draws from an rng stream that
  is not supplied (make_rng falls back to the 'params' key): the draws of one scope, before and after the parameters of that
  scope are created, in compact and setup style."""
  import jax
  import jax.numpy as jnp
  import flax.linen as nn
  n_before = i % 3                      # parameters created by the SAME scope before the draw
  supplied = (i // 3) % 2 == 1          # the stream is supplied explicitly
  in_child = (i // 6) % 2 == 1          # the draw is made by a sub-module that has no parameters of its own
  bare_key = (i // 12) % 2 == 1 and not supplied
  desc = dict(params_before_draw=n_before, stream_supplied=supplied, draw_in_child=in_child, init_with_bare_key=bare_key)
  with ctx.case('fallback_rng', i, desc, nontrivial=True):
    class Draw(nn.Module):
      @nn.compact
      def __call__(self, x):
        return jax.random.normal(self.make_rng('noise'), x.shape)

    class M(nn.Module):
      @nn.compact
      def __call__(self, x):
        ws = [self.param('w%d' % k, nn.initializers.normal(1.0), (3,)) for k in range(n_before)]
        n = Draw(name='draw')(x) if in_child else jax.random.normal(self.make_rng('noise'), x.shape)
        late = self.param('late', nn.initializers.normal(1.0), (3,))
        return x * sum(ws, late) + n

    x = jnp.ones((2, 3))
    key = jax.random.key(40 + i)
    rngs = {'params': key, 'noise': jax.random.key(7)} if supplied else {'params': key}
    y0, v = M().init_with_output(key if bare_key else rngs, x)
    y1 = M().apply(v, x, rngs=rngs)
    ctx.op('init_with_output vs apply (rng stream falls back to params)')
    shares = n_before > 0 and not supplied and not in_child
    ctx.check(close(y0, y1), 'reapply:output:' + ('fallback_stream_shares_params_counter' if shares else 'fallback_rng'),
              lambda: dict(case=desc, max_diff=float(np.abs(np.asarray(y0) - np.asarray(y1)).max())))


def run(ctx):
  for i in ctx.indices(24, 'fallback_rng'):
    run_fallback_rng(ctx, i, ctx.rng('fallback_rng', i))
  for i in ctx.indices(32, 'lazy_init_mutable'):
    run_lazy_init_mutable(ctx, i, ctx.rng('lazy_init_mutable', i))
  for i in ctx.indices(20, 'bound_partial_touch'):
    run_bound_partial_touch(ctx, i, ctx.rng('bound_partial_touch', i))
  for i in ctx.indices(8, 'sow_perturb_clash'):
    run_sow_perturb_clash(ctx, i, ctx.rng('sow_perturb_clash', i))
  for i in ctx.indices(6, 'shared_repeated_parent'):
    run_shared_repeated_parent(ctx, i, ctx.rng('shared_repeated_parent', i))
  for i in ctx.indices(36 if ctx.tier == 'quick' else 72, 'write_first'):
    run_write_first(ctx, i, ctx.rng('write_first', i))
  for i in ctx.indices(12 if ctx.tier == 'quick' else 90, 'share_scope'):
    run_share_scope(ctx, i, ctx.rng('share', i))
  for i in ctx.indices(24 if ctx.tier == 'quick' else 200, 'reentrant'):
    run_reentrant(ctx, i, ctx.rng('reentrant', i))
  for i in ctx.indices(144 if ctx.tier == 'quick' else 288, 'shared_shape'):
    run_shared_shape(ctx, i, ctx.rng('shared_shape', i))
  for i in ctx.indices(14, 'pytree_param'):
    run_pytree_param(ctx, i, ctx.rng('pytree_param', i))
  for i in ctx.indices(12, 'share_scope_clash'):
    run_share_scope_clash(ctx, i, ctx.rng('share_scope_clash', i))
  for i in ctx.indices(12, 'name_scope'):
    run_name_scope_methods(ctx, i, ctx.rng('name_scope', i))
  for i in ctx.indices(32, 'shared_unbind'):
    run_shared_unbind(ctx, i, ctx.rng('shared_unbind', i))
  for i in ctx.indices(54, 'mixed_clash'):
    run_mixed_style_clash(ctx, i, ctx.rng('mixed_clash', i))
  rlog = RngLog(ctx)
  n = 280 if ctx.tier == 'quick' else 4500
  for i in ctx.indices(n, 'case'):
    run_case(ctx, i, ctx.rng('case', i), rlog)
  for i in ctx.indices(64 if ctx.tier == 'quick' else 400, 'clash'):
    run_clash(ctx, i, ctx.rng('clash', i))
