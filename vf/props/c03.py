"""C03 — NNX split/merge round-trips any object graph, preserving sharing and cycles.

Monitor shape: canonical-form isomorphism oracle + reference traversal (vf/gen/nnx_graph.py) on generated object graphs,
operation sequences checked step by step against a shadow graph built from the same spec, invariant hooks on
graph.flatten / graph.unflatten, and a leaked-context check at quiescence."""
import itertools

import numpy as np

LEVEL = 'exploration'
LEVEL_TEXT = ('Generated NNX object graphs (<= 8 nodes quick, <= 40 thorough; Modules of 3 classes, list/tuple/dict containers, 6 Variable '
              'types with metadata, raw arrays, statics, None; Variables shared between nodes, Modules reachable by several paths, '
              'self-references and cycles) are pushed through the real split/merge/state/graphdef/clone/update/pop/iter_graph in random '
              'operation sequences; every result is compared with a canonical-form isomorphism oracle and a reference traversal, the '
              'input graph is snapshotted (canonical form + object identities) around every read-only call, filters partition by first '
              'match and merge is checked under permuted state order. Small scope: all graphs with <= 3 Module nodes, <= 2 Variables '
              'and <= 2 attribute slots per node are enumerated in the thorough tier.'
              ' Graphs also contain namedtuple / OrderedDict containers, numpy-backed values and mutable metadata values;'
              ' states are merged / applied in shuffled insertion orders; metadata and buffers of clones and updated'
              ' graphs are poisoned.'
              ' Round f: a rejected pop leaves the canonical form unchanged (F64).')
LEVEL_NOTE = ('Plain list/tuple/dict containers have value semantics in graph.flatten by design, so identity preservation is demanded for '
              'Modules and Variables only. Dicts with mixed-type keys and cycles passing only through plain containers are not generated.')
TECHNIQUE = 'runtime monitoring: canonical-form isomorphism oracle + shadow graph + flatten/unflatten invariant hooks on the real graph functions'
RULE = ('seeded random specs (node kinds, attribute names incl. l2/l10 ordering traps, aliasing edges with p=0.3, cycles) + operation '
        'sequences of length <= 6 over {split/merge, split with filters, state, clone, update, partial update, pop, iter_graph}; '
        'distinct = distinct spec; non-trivial = >= 2 nodes and >= 1 Variable, or any aliasing.')
ASSUMPTIONS = ['vf.compat JAX aliases are faithful']
PLAN = {'quick': dict(workers=4, timeout_s=900), 'thorough': dict(workers=14, timeout_s=3000)}
MIN_EVENTS = {'quick': {'oracle:roundtrip': 1500, 'oracle:partition': 1200, 'oracle:update': 150, 'oracle:pop': 100, 'oracle:clone': 100,
                        'oracle:state': 300, 'hook.flatten': 1000, 'hook.unflatten': 400, 'aliased_graphs': 100, 'cyclic_graphs': 30},
              'thorough': {'oracle:roundtrip': 8000, 'oracle:pop': 2000, 'hook.flatten': 20000}}

FILTER_MENU = [('type', 'Param'), ('type', 'BatchStat'), ('type', 'MyParam'), ('type', 'Variable'), ('tag', 't1'), ('pc', 'a'), ('pc', 0),
               ('not', ('type', 'Param')), ('any', (('type', 'Cache'), ('tag', 't2'))), ('type', 'Other'), ('type', 'Intermediate')]


def fbuild(d):
  from flax import nnx
  from vf.gen import nnx_graph as G
  C = G.classes()
  k = d[0]
  if k == 'type':
    return nnx.Variable if d[1] == 'Variable' else C[d[1]]
  if k == 'tag':
    return d[1]
  if k == 'pc':
    return nnx.PathContains(d[1])
  if k == 'not':
    return nnx.Not(fbuild(d[1]))
  if k == 'any':
    return nnx.Any(*[fbuild(x) for x in d[1]])
  if k == 'ellipsis':
    return ...
  raise ValueError(d)


def fref(d, path, leaf):
  """Reference predicate on (path, leaf) where leaf is a real Variable / VariableState / raw array."""
  from flax import nnx
  from vf.gen import nnx_graph as G
  C = G.classes()
  k = d[0]
  vtype = getattr(leaf, 'type', None) if not isinstance(leaf, nnx.Variable) else type(leaf)
  if k == 'type':
    t = nnx.Variable if d[1] == 'Variable' else C[d[1]]
    return vtype is not None and issubclass(vtype, t)
  if k == 'tag':
    md = leaf.get_metadata() if hasattr(leaf, 'get_metadata') else {}
    return md.get('tag') == d[1]
  if k == 'pc':
    return d[1] in path
  if k == 'not':
    return not fref(d[1], path, leaf)
  if k == 'any':
    return any(fref(x, path, leaf) for x in d[1])
  if k == 'ellipsis':
    return True
  raise ValueError(d)


def path_independent(d):
  return d[0] in ('type', 'tag', 'ellipsis') or (d[0] in ('not',) and path_independent(d[1])) or \
      (d[0] == 'any' and all(path_independent(x) for x in d[1]))


def install_hooks(ctx):
  """Invariants at hooks: flatten emits strictly increasing paths with one leaf per path; unflatten consumes every leaf."""
  from flax.nnx import graph
  orig_flatten, orig_unflatten = graph.flatten, graph.unflatten

  def flatten(node, /, **kw):
    out = orig_flatten(node, **kw)
    ctx.event('hook.flatten')
    if kw.get('with_paths', True):
      gd, fs = out
      paths, leaves = fs.paths, fs.leaves
      ok = len(paths) == len(leaves)
      try:
        ok = ok and all(paths[i] < paths[i + 1] for i in range(len(paths) - 1))
      except TypeError:
        ok = False
      if not ok:
        ctx.violation('hook.flatten:paths_not_strictly_increasing', dict(paths=repr(paths)[:600]))
    return out

  def unflatten(graphdef, state, /, **kw):
    out = orig_unflatten(graphdef, state, **kw)
    ctx.event('hook.unflatten')
    return out

  graph.flatten = flatten
  graph.unflatten = unflatten


def poison_metadata(x):
  """Mutate in place the metadata of every Variable / VariableState reachable from a product (State, graph): anything the
  API returned must share no mutable metadata with the graph it came from (and vice versa)."""
  from flax import nnx
  from flax.nnx import statelib
  from vf.gen import nnx_graph as G
  n = 0
  if isinstance(x, (nnx.State, dict)):
    for _, leaf in statelib.to_flat_state(x if isinstance(x, nnx.State) else nnx.State(x)):
      if isinstance(leaf, nnx.VariableState):
        leaf.vf_poison = 'POISON'
        n += 1
  elif isinstance(x, nnx.VariableState) or G._is_var(x):
    x.vf_poison = 'POISON'
    n += 1
  else:
    for _, v in G.ref_leaves(x):
      if G._is_var(v):
        v.vf_poison = 'POISON'
        n += 1
  return n


def leaf_eq(a, b):
  """VariableState / raw leaf equality (type, metadata, value bytes)."""
  if hasattr(a, 'type') and hasattr(b, 'type'):
    return a.type is b.type and {k: repr(v) for k, v in a.get_metadata().items()} == {k: repr(v) for k, v in b.get_metadata().items()} \
        and np.array_equal(np.asarray(a.value), np.asarray(b.value))
  if hasattr(a, 'type') or hasattr(b, 'type'):
    return False
  return np.array_equal(np.asarray(a), np.asarray(b))


def check_quiescent(ctx):
  from flax.nnx import graph
  gc = graph.GRAPH_CONTEXT
  ok = not gc.update_context_stacks and not gc.ref_index_stack and not gc.index_ref_stack
  ctx.check(ok, 'context_leak', lambda: dict(update=repr(gc.update_context_stacks)[:200]))


def run_graph(ctx, spec, rng, n_ops):
  from flax import nnx
  from flax.nnx import statelib
  from vf.gen import nnx_graph as G
  import jax
  import jax.numpy as jnp
  b = G.build(spec)
  g = b.root
  c0 = G.canon(g)
  ids0 = G.identities(g)

  def untouched(what):
    c1 = G.canon(g)
    ctx.check(c1 == c0, 'input_modified:' + what, lambda: dict(op=what))
    ctx.check(G.identities(g) == ids0, 'input_identity_changed:' + what, lambda: dict(op=what))

  # ---- state(): every Variable once, first path in sorted order, sorted paths
  ref = G.ref_leaves(g)
  st = nnx.state(g)
  ctx.op('state')
  flat = statelib.to_flat_state(st)
  want_paths = [p for p, _ in ref]
  ok = list(flat.paths) == want_paths
  ctx.check(ok, 'state:paths', lambda: dict(want=want_paths, got=list(flat.paths)))
  if ok:
    good = all(leaf_eq(l, (v.to_state() if G._is_var(v) else v)) for (p, l), (_, v) in zip(flat, ref))
    ctx.check(good, 'state:values', None)
  untouched('state')

  # ---- split / merge round trip
  gd, s = nnx.split(g)
  ctx.op('split')
  untouched('split')
  m = nnx.merge(gd, s)
  ctx.op('merge')
  ctx.check(G.canon(m) == c0, 'roundtrip:not_isomorphic', lambda: dict(spec=G.spec_summary(spec)))
  untouched('merge')
  # metadata aliasing: editing the metadata of what split / state returned must not reach g, and editing the merged graph must
  # not reach the state it was merged from
  ctx.event('metadata_poisoned', poison_metadata(m))
  s_after = nnx.State(jax.tree.map(lambda x: x, s)) if False else s
  ctx.check(all('vf_poison' not in leaf.get_metadata() for _, leaf in statelib.to_flat_state(s) if isinstance(leaf, nnx.VariableState)),
            'aliasing:merged_graph_shares_metadata_with_state', None)
  ctx.event('metadata_poisoned', poison_metadata(s))
  ctx.event('metadata_poisoned', poison_metadata(st))
  untouched('metadata of split/state results edited')
  # the rebuilt graph shares no Module / Variable with the original
  shared = set(G.identities(m).values()) & set(ids0.values())
  ctx.check(not shared, 'roundtrip:shares_objects_with_original', None)
  gd2 = nnx.graphdef(g)
  ctx.op('graphdef')
  ctx.check(gd2 == gd, 'graphdef:differs_from_split', None)
  untouched('graphdef')

  # ---- split with filters: first-match partition; merge in any order
  k = rng.randint(1, 3)
  fds = [rng.choice(FILTER_MENU) for _ in range(k)]
  exhaustive_end = rng.random() < 0.8
  if exhaustive_end:
    fds.append(('ellipsis',))
  filters = [fbuild(d) for d in fds]
  groups = [[] for _ in fds] + [[]]
  for p, v in ref:
    leaf = v.to_state() if G._is_var(v) else v
    for gi, d in enumerate(fds):
      if fref(d, p, leaf):
        groups[gi].append(p)
        break
    else:
      groups[-1].append(p)
  try:
    out = nnx.split(g, *filters)
    raised = None
  except ValueError as e:
    out, raised = None, e
  ctx.op('split(filters)')
  if groups[-1]:
    ctx.check(raised is not None, 'partition:nonexhaustive_accepted', lambda: dict(filters=fds))
  elif ctx.check(raised is None, 'partition:raised', lambda: dict(filters=fds, error=repr(raised))):
    states = out[1:]
    got = [[p for p, _ in statelib.to_flat_state(x)] if isinstance(x, nnx.State) else ([()] if not isinstance(x, nnx.State) and x is not None and not _is_empty(x) else []) for x in states]
    ctx.check(got == groups[:-1], 'partition:wrong_groups', lambda: dict(filters=fds, want=groups[:-1], got=got))
    for perm in ([states, states[::-1]] if len(states) > 1 else [states]):
      mm = nnx.merge(out[0], *perm)
      ctx.check(G.canon(mm) == c0, 'partition:merge_permuted_not_isomorphic', lambda: dict(filters=fds))
    # equal content, different assembly: a State is a mapping - its insertion order must not matter to merge
    if all(isinstance(x, nnx.State) for x in states):
      variants = []
      if len(states) > 1:
        variants.append(('merge_state', (statelib.merge_state(*states[::-1]),)))
        variants.append(('or', (states[-1] | states[0],) + tuple(states[1:-1])))
      flat_all = [kv for x in states for kv in statelib.to_flat_state(x)]
      variants.append(('from_flat_state(reversed)', (statelib.from_flat_state(flat_all[::-1]),)))
      shuffled = list(flat_all)
      rng.shuffle(shuffled)
      variants.append(('from_flat_state(shuffled)', (statelib.from_flat_state(shuffled),)))
      variants.append(('pure nested dict', (_nested_dict(shuffled),)))
      for vname, sts in variants:
        try:
          mm = nnx.merge(out[0], *sts)
          ok = G.canon(mm) == c0
        except Exception as e:  # noqa: BLE001
          ok = False
        ctx.check(ok, 'partition:merge_depends_on_state_insertion_order', lambda: dict(filters=fds, variant=vname))
  untouched('split(filters)')

  # ---- iter_graph: every graph node and Variable exactly once
  visited = [x for _, x in nnx.iter_graph(g)]
  ctx.op('iter_graph')
  mod_ids = [id(x) for x in visited if isinstance(x, nnx.Module)]
  var_ids = {id(x) for x in visited if G._is_var(x)}
  # repeated *nodes* are visited once (documented); Variables are leaves and may be yielded once per reference
  ctx.check(len(mod_ids) == len(set(mod_ids)) and set(mod_ids) | var_ids == set(ids0.values()), 'iter_graph:visit_set',
            lambda: dict(modules=len(mod_ids), variables=len(var_ids), want=len(ids0)))
  untouched('iter_graph')

  # ---- mutating operations, each against a shadow graph built from the same spec
  for step in range(n_ops):
    op = rng.choice(['clone', 'update', 'partial_update', 'pop', 'update_from_merge'])
    b = G.build(spec)
    g = b.root
    sh = G.build(spec)  # shadow
    ids_before = G.identities(g)
    if op == 'clone':
      c = nnx.clone(g)
      ctx.op('clone')
      ctx.check(G.canon(c) == G.canon(sh.root), 'clone:not_isomorphic', None)
      ctx.check(not (set(G.identities(c).values()) & set(ids_before.values())), 'clone:shares_mutable_object', None)
      # mutate the clone: the original must not move
      for _, v in G.ref_leaves(c):
        if G._is_var(v):
          v.value = v.value + 1
          v.vf_poison = 'POISON'
      ctx.check(G.canon(g) == G.canon(sh.root), 'clone:mutation_leaked_to_original', None)
      # numpy-backed leaves are mutable objects too: write into the clone's arrays in place
      c2 = nnx.clone(g)
      n_np = 0
      for _, v in G.ref_leaves(c2):
        a = v.raw_value if G._is_var(v) else v
        if isinstance(a, np.ndarray):
          a += 1000.0
          n_np += 1
      if n_np:
        ctx.check(G.canon(g) == G.canon(sh.root), 'clone:shares_numpy_buffer', lambda: dict(numpy_leaves=n_np))
      # mutable metadata VALUES (a list / dict stored as Variable metadata) must not be shared either
      c3 = nnx.clone(g)
      n_meta = 0
      for _, v in G.ref_leaves(c3):
        if G._is_var(v):
          notes = v.get_metadata().get('notes')
          if isinstance(notes, list):
            notes.append('POISON')
            notes[1]['k'] = 'POISON'
            n_meta += 1
      if n_meta:
        ctx.check(G.canon(g) == G.canon(sh.root), 'clone:shares_mutable_metadata_value', lambda: dict(variables=n_meta))
    elif op in ('update', 'partial_update', 'update_from_merge'):
      st = nnx.state(g)
      if op == 'partial_update':
        d = rng.choice([f for f in FILTER_MENU if path_independent(f)])
        st = nnx.filter_state(st, fbuild(d))
        sel = lambda p, v: fref(d, p, v)
      else:
        sel = lambda p, v: True
      new = jax.tree.map(lambda x: x + 100, st)
      if rng.random() < 0.5:
        # same content, different insertion order (a State is a mapping) / split across several states
        pairs = list(statelib.to_flat_state(new))
        rng.shuffle(pairs)
        if len(pairs) >= 2 and rng.random() < 0.5:
          h = len(pairs) // 2
          nnx.update(g, statelib.from_flat_state(pairs[:h]), statelib.from_flat_state(pairs[h:]))
        else:
          nnx.update(g, statelib.from_flat_state(pairs) if pairs else new)
      else:
        nnx.update(g, new)
      ctx.op('update')
      # shadow: bump the selected leaves directly (Variables in place, raw array attributes by re-binding on their Module)
      for p, v, holder, key in G.ref_leaf_edges(sh.root):
        if not sel(p, v):
          continue
        if G._is_var(v):
          v.value = v.value + 100
        else:
          setattr(holder, key, v + 100)
      ctx.check(G.canon(g) == G.canon(sh.root), 'update:wrong_result', lambda: dict(op=op, spec=G.spec_summary(spec)))
      ctx.check(G.identities(g) == ids_before, 'update:identity_changed', None)
      # the state used for the update stays independent of the graph: editing its metadata afterwards must not reach g
      poison_metadata(new)
      ctx.check(G.canon(g) == G.canon(sh.root), 'aliasing:update_shares_metadata_with_state', lambda: dict(op=op))
      # ... and editing g's metadata must not reach the state
      for _, v in G.ref_leaves(g):
        if G._is_var(v):
          v.vf_poison2 = 'POISON2'
      ctx.check(all('vf_poison2' not in leaf.get_metadata() for _, leaf in statelib.to_flat_state(new) if isinstance(leaf, nnx.VariableState)),
                'aliasing:update_shares_metadata_with_state', lambda: dict(op=op, direction='graph->state'))
    elif op == 'pop':
      cands = [f for f in FILTER_MENU if path_independent(f)]
      fds2 = [rng.choice(cands) for _ in range(rng.randint(1, 2))]
      refl = G.ref_leaves(g)
      # expected: first-match groups over Variables (raw arrays are never popped)
      want = [[] for _ in fds2]
      holders_in_pytree = False
      for p, v in refl:
        if not G._is_var(v):
          continue
        for gi, d in enumerate(fds2):
          if fref(d, p, v):
            want[gi].append(p)
            break
      sel_ids = set()
      for p, v in refl:
        if G._is_var(v) and any(fref(d, p, v) for d in fds2):
          sel_ids.add(id(v))
      for holder, key, v in G.all_refs(g):
        if id(v) in sel_ids and isinstance(holder, (list, tuple, dict)):
          holders_in_pytree = True
      c_before = G.canon(g)
      try:
        popped = nnx.pop(g, *[fbuild(d) for d in fds2])
        raised = None
      except ValueError as e:
        popped, raised = None, e
      ctx.op('pop')
      if holders_in_pytree:
        # a selected Variable held by a plain container: pop must reject (pytree nodes are immutable)
        ctx.check(raised is not None, 'pop:shared_reference_left:in_plain_container', lambda: dict(filters=fds2))
        if raised is not None:
          # a rejected pop has removed nothing (the reference model performs the operation or not at all)
          ctx.check(G.canon(g) == c_before, 'pop:rejected_but_partially_applied', lambda: dict(filters=fds2, error=repr(raised)[:120]))
      elif ctx.check(raised is None, 'pop:raised', lambda: dict(filters=fds2, error=repr(raised))):
        popped = popped if isinstance(popped, tuple) else (popped,)
        got = [[p for p, _ in statelib.to_flat_state(s)] for s in popped]
        ctx.check(got == want, 'pop:wrong_selection', lambda: dict(filters=fds2, want=want, got=got))
        # afterwards no selected Variable is reachable any more, everything else is untouched
        left = [(p, v) for p, v in G.ref_leaves(g) if G._is_var(v)]
        still = [p for p, v in left if id(v) in sel_ids]
        ctx.check(not still, 'pop:shared_reference_left',
                  lambda: dict(filters=fds2, still=still, spec=G.spec_summary(spec)))
        # shadow: delete every reference to a selected variable
        sel_idx = {j for j, v in enumerate(b.var_objs) if id(v) in sel_ids}
        for holder, key, v in G.all_refs(sh.root):
          if any(v is sh.var_objs[j] for j in sel_idx):
            delattr(holder, key)
        if not still:
          ctx.check(G.canon(g) == G.canon(sh.root), 'pop:collateral_change', lambda: dict(filters=fds2))
  check_quiescent(ctx)


def _nested_dict(pairs):
  out = {}
  for path, v in pairs:
    cur = out
    for k in path[:-1]:
      cur = cur.setdefault(k, {})
    cur[path[-1]] = v
  return out


def _is_empty(x):
  try:
    return len(x) == 0
  except TypeError:
    return False


def _bump_arrays(root):
  """Shadow of update() for raw array attributes of Modules (+100). Arrays inside plain containers cannot be set (immutable
  pytree nodes) - generator keeps arrays out of plain containers when update ops run."""
  from vf.gen import nnx_graph as G
  import jax
  seen = set()

  def go(x):
    if G._is_var(x):
      return
    if G._is_graph_node(x):
      if id(x) in seen:
        return
      seen.add(id(x))
      for k, v in list(vars(x).items()):
        if isinstance(v, (jax.Array, np.ndarray)):
          setattr(x, k, v + 100)
    ch = G._children(x)
    if ch:
      for _, v in ch:
        go(v)

  go(root)


def arrays_in_pytrees(spec):
  return any(n['kind'] != 'module' and any(r[0] == 'arr' for _, r in n['attrs']) for n in spec['nodes'])


def small_scope_specs():
  """All graphs with <= 3 Module nodes, <= 2 Variables, <= 2 attribute slots per node (canonical dedup by spec key)."""
  out = []
  for n_nodes in (1, 2, 3):
    for n_vars in (0, 1, 2):
      targets = [('node', i) for i in range(n_nodes)] + [('var', j) for j in range(n_vars)] + [None]
      slots = n_nodes * 2
      for assign in itertools.product(targets, repeat=slots):
        nodes = [{'kind': 'module', 'cls': 'A', 'attrs': []} for _ in range(n_nodes)]
        for s, t in enumerate(assign):
          if t is not None:
            nodes[s // 2]['attrs'].append((['a', 'b'][s % 2], t))
        spec = {'nodes': nodes, 'vars': [{'type': ['Param', 'BatchStat'][j], 'seed': j + 1, 'shape': (2,), 'meta': {}} for j in range(n_vars)]}
        # every node and var reachable from the root
        if _reachable(spec):
          out.append(spec)
  return out


def _reachable(spec):
  seen_n, seen_v, stack = {0}, set(), [0]
  while stack:
    i = stack.pop()
    for _, r in spec['nodes'][i]['attrs']:
      if r[0] == 'node' and r[1] not in seen_n:
        seen_n.add(r[1])
        stack.append(r[1])
      elif r[0] == 'var':
        seen_v.add(r[1])
  return len(seen_n) == len(spec['nodes']) and len(seen_v) == len(spec['vars'])


def run_clone_values(ctx, i, rng):
  """clone on Variables whose VALUE is a container: the clone's value has the same container types (tuple, namedtuple, OrderedDict,
  list, dict) and shares no numpy buffer with the original, at any nesting depth."""
  import collections
  import jax.numpy as jnp
  from flax import nnx
  kind = ['tuple_of_np', 'ordered_dict', 'list_of_dict', 'namedtuple', 'nested'][i % 5]
  with ctx.case('clone_values', i, dict(value=kind), nontrivial=True):
    NT = collections.namedtuple('NT', ['w', 'b'])

    def mkval():
      a, b = np.arange(3.0) + i, np.ones((2,)) * i
      return {'tuple_of_np': (a, b), 'ordered_dict': collections.OrderedDict([('z', a), ('a', b)]), 'list_of_dict': [{'k': a}, b],
              'namedtuple': NT(a, b), 'nested': {'t': (a, [b, {'q': a.copy()}])}}[kind]

    class Box(nnx.Module):
      pass

    m = Box()
    m.v = nnx.Variable(mkval())
    m.p = nnx.Param(jnp.ones(2))
    c = nnx.clone(m)
    ctx.op('clone(container-valued Variable)')

    def shape_of(x):
      if isinstance(x, dict):
        return (type(x).__name__, tuple((k, shape_of(v)) for k, v in x.items()))
      if isinstance(x, (list, tuple)):
        return (type(x).__name__, tuple(shape_of(v) for v in x))
      return ('leaf', np.asarray(x).tolist())

    ctx.check(shape_of(c.v.value) == shape_of(mkval()), 'clone:not_isomorphic:container_value', lambda: dict(kind=kind, got=repr(shape_of(c.v.value))[:300]))

    def bump(x):
      n = 0
      if isinstance(x, dict):
        for v in x.values():
          n += bump(v)
      elif isinstance(x, (list, tuple)):
        for v in x:
          n += bump(v)
      elif isinstance(x, np.ndarray):
        x += 1000.0
        n += 1
      return n

    n = bump(c.v.value)
    ctx.check(n >= 1 and shape_of(m.v.value) == shape_of(mkval()), 'clone:shares_numpy_buffer:container_value', lambda: dict(kind=kind, original_now=repr(shape_of(m.v.value))[:300]))


def _get_twice(variable, value):
  return value * 2.0


def _set_plus(variable, value):
  return value + 0.25


def run_hooked(ctx, i, rng):
  """Variables with value hooks (on_get_value / on_set_value metadata, or a subclass overriding them): split, state, clone, pop and
  update(g, state(g)) move the STORED value (raw_value) and the metadata unchanged - a hook is applied when user code reads or
  writes .value, never by the graph operations themselves."""
  import jax.numpy as jnp
  from flax import nnx
  kind = ['get_meta', 'set_meta', 'both_meta', 'subclass'][i % 4]
  shared = (i // 4) % 2 == 1
  desc = dict(hooks=kind, shared=shared)
  with ctx.case('hooked', i, desc, nontrivial=True):
    class Hooked(nnx.Param):
      def on_get_value(self, value):
        return value * 3.0

    class Box(nnx.Module):
      pass

    def build():
      g = Box()
      g.inner = Box()
      raw = jnp.asarray([1.0, -2.0]) + i
      if kind == 'subclass':
        v = Hooked(raw)
      else:
        md = {}
        if kind in ('get_meta', 'both_meta'):
          md['on_get_value'] = _get_twice
        if kind in ('set_meta', 'both_meta'):
          md['on_set_value'] = _set_plus
        v = nnx.Param(raw, **md)
      g.inner.w = v
      if shared:
        g.alias = v
      g.plain = nnx.BatchStat(jnp.asarray([5.0]))
      return g, v

    def raw_of(var):
      return np.asarray(var.raw_value)

    g, v = build()
    raw0 = raw_of(v).copy()
    val0 = np.asarray(v.value)
    same = lambda a, b: a.shape == b.shape and np.array_equal(a, b)  # noqa: E731
    # split / merge
    gd, st = nnx.split(g)
    m = nnx.merge(gd, st)
    ctx.op('split/merge(hooked Variable)')
    ctx.check(same(raw_of(m.inner.w), raw0) and same(raw_of(v), raw0), 'roundtrip:hooked_value_changed', lambda: dict(case=desc, got=raw_of(m.inner.w).tolist(), want=raw0.tolist()))
    ctx.check(same(np.asarray(m.inner.w.value), val0), 'roundtrip:hooked_read_differs', lambda: dict(case=desc))
    if shared:
      ctx.check(m.alias is m.inner.w, 'roundtrip:sharing_lost:hooked', lambda: dict(case=desc))
    # clone
    c = nnx.clone(g)
    ctx.op('clone(hooked Variable)')
    ctx.check(same(raw_of(c.inner.w), raw0), 'clone:hooked_value_changed', lambda: dict(case=desc, got=raw_of(c.inner.w).tolist(), want=raw0.tolist()))
    # update with its own state is the identity on stored values
    nnx.update(g, nnx.state(g))
    ctx.op('update(g, state(g)) with hooked Variable')
    ctx.check(same(raw_of(v), raw0), 'update:hooked_value_changed', lambda: dict(case=desc, got=raw_of(v).tolist(), want=raw0.tolist()))
    # repeated round trips do not compound
    g2 = g
    for _ in range(3):
      g2 = nnx.merge(*nnx.split(g2))
    ctx.check(same(raw_of(g2.inner.w), raw0), 'roundtrip:hooked_value_changed', lambda: dict(case=desc, repeated=3, got=raw_of(g2.inner.w).tolist()))
    # pop hands the stored value out
    g3, v3 = build()
    popped = nnx.pop(g3, nnx.Param)
    ctx.op('pop(hooked Variable)')
    leaf = [x for _, x in nnx.to_flat_state(popped)][0]   # listed under its first path ('alias' sorts before 'inner')
    ctx.check(same(np.asarray(leaf.value), raw0), 'pop:hooked_value_changed', lambda: dict(case=desc, got=np.asarray(leaf.value).tolist(), want=raw0.tolist()))


def run(ctx):
  from vf.gen import nnx_graph as G
  install_hooks(ctx)
  for i in ctx.indices(10, 'clone_values'):
    run_clone_values(ctx, i, ctx.rng('clone_values', i))
  for i in ctx.indices(16, 'hooked'):
    run_hooked(ctx, i, ctx.rng('hooked', i))
  n = 1500 if ctx.tier == 'quick' else 9000
  for i in ctx.indices(n, 'graph'):
    rng = ctx.rng('graph', i)
    big = ctx.tier == 'thorough' and i % 10 == 0
    spec = G.gen_spec(rng, max_nodes=40 if big else 8, max_vars=12 if big else 6, p_alias=rng.choice([0.0, 0.3, 0.3, 0.6]),
                      generic_pytrees=True, numpy_values=True)
    if arrays_in_pytrees(spec):
      for nd in spec['nodes']:
        if nd['kind'] != 'module':
          nd['attrs'] = [(k, r) for k, r in nd['attrs'] if r[0] != 'arr']
      G._fix_dict_keys(spec)
    summ = G.spec_summary(spec)
    nontrivial = (summ['nodes'] >= 2 and summ['vars'] >= 1) or summ['shared_nodes'] or summ['shared_vars']
    if summ['shared_nodes'] or summ['shared_vars']:
      ctx.event('aliased_graphs')
    if any(r[0] == 'node' and r[1] <= idx for idx, nd in enumerate(spec['nodes']) for _, r in nd['attrs']):
      ctx.event('cyclic_graphs')
    with ctx.case('graph', i, dict(summary=summ, key=G.spec_key(spec)[:400]), nontrivial=bool(nontrivial)):
      run_graph(ctx, spec, rng, n_ops=rng.randint(2, 6))

  # bare Variable root and plain pytrees of modules
  for i in ctx.indices(12, 'roots'):
    with ctx.case('roots', i, dict(kind=['variable', 'list_of_modules', 'dict_shared'][i % 3], i=i), nontrivial=True):
      run_roots(ctx, i)

  if ctx.tier == 'thorough':
    specs = small_scope_specs()
    for i, spec in ctx.items(specs, 'smallscope'):
      with ctx.case('smallscope', i, dict(key=G.spec_key(spec)[:300]), nontrivial=len(spec['nodes']) > 1):
        run_graph(ctx, spec, ctx.rng('small', i), n_ops=2)
    ctx.exhaustive['graphs<=3modules,<=2vars,<=2slots'] = True


def run_roots(ctx, i):
  from flax import nnx
  import jax.numpy as jnp
  from vf.gen import nnx_graph as G
  C = G.classes()
  kind = i % 3
  if kind == 0:
    v = C['Param'](jnp.arange(3.0) + i, tag='t1')
    gd, st = nnx.split(v)
    ctx.op('split(Variable)')
    m = nnx.merge(gd, st)
    ctx.check(type(m) is type(v) and m is not v and np.array_equal(m.value, v.value) and m.get_metadata() == v.get_metadata(), 'roundtrip:variable_root', None)
  else:
    a, b2 = C['A'](), C['B']()
    shared = C['Param'](jnp.ones(2) * i)
    a.w, b2.w, b2.peer = shared, shared, a
    root = [a, b2, a] if kind == 1 else {'x': a, 'y': {'z': b2, 'again': a}}
    c0 = G.canon(root)
    gd, st = nnx.split(root)
    ctx.op('split(pytree root)')
    m = nnx.merge(gd, st)
    ctx.check(G.canon(m) == c0 and G.canon(root) == c0, 'roundtrip:pytree_root', None)
    first = m[0] if kind == 1 else m['x']
    again = m[2] if kind == 1 else m['y']['again']
    ctx.check(first is again, 'roundtrip:pytree_root_sharing_lost', None)
