"""C01 — Linen init/apply are pure functions with an explicit mutability contract.

Monitor shapes: (1) snapshot contract around init / init_with_output / apply / core.init / core.apply (module object, variables,
rng keys, arguments: bytes + container identities before == after); (2) write-event hook on Scope.put_variable: every write goes to
a collection the case's `mutable` admits (6-line reference predicate, independent of in_filter) and into a dict that is not
reachable from the caller's input; (3) post-call poisoning of every container of the returned variables + repeated calls compared
bit-exactly; (4) leaked-scope probe; (5) differential runs with observation features switched on/off."""
import numpy as np

LEVEL = 'exploration'
LEVEL_TEXT = ('Generated Linen module programs (compact and setup style, nesting depth <= 3, shared and re-called sub-modules, params, '
              'counters, running statistics, sow, perturb, noise, dropout, deliberate writes to immutable collections, leaked scopes) x '
              '10 `mutable` filter forms (False/True/name/list/()/DenyList/nested DenyList) x variables as dict / FrozenDict / mixed x '
              'flax_return_frozendict x typed and legacy uint32 keys x 1-4 repeated calls x methods, each executed on the real '
              'Module.init/apply and flax.core.init/apply under a snapshot contract, a write-event monitor on Scope.put_variable, '
              'post-call poisoning of the returned trees and observation-on/off differentials.'
              ' Further streams: collection names that contain one another, caller-supplied empty placeholder'
              ' collections, init/apply on bound / unbound / re-wrapped module objects with attribute sub-modules,'
              ' variables whose value is a caller-owned dict, sow names that coincide with variable names.'
              ' Round f: dict-subclass (OrderedDict / defaultdict) values in the dict-valued variable stream.'
              " Round g: capture_denylist (capture_intermediates with a DenyList naming 'intermediates' and other collections)."
              ' Round h: perturb_dtypes (perturb on non-float32 values and pytrees with a fresh perturbation collection; K15 negative zero).')
LEVEL_NOTE = ('Array leaves are immutable JAX arrays and are shared between input and output by design (not flagged). User code reaching '
              'into module.variables and mutating it is outside the property.')
TECHNIQUE = 'runtime monitoring: snapshot contract + write-event log vs reference mutability predicate + poisoning/aliasing probe on the real init/apply'
RULE = ('case = (program, mutable filter, variable representation, config flag, rng kind, repeat count); programs from vf/gen/linen_prog.py. '
        'distinct = distinct (program, filter, representation); non-trivial = program has >= 2 modules or >= 1 mutable-state op.')
ASSUMPTIONS = ['vf.compat get_opaque_trace_state alias is faithful']
PLAN = {'quick': dict(workers=6, timeout_s=1200), 'thorough': dict(workers=14, timeout_s=3400)}
MIN_EVENTS = {'quick': {'oracle:input_unchanged': 1000, 'oracle:returned_collections': 300, 'oracle:deterministic': 300,
                        'hook.put_variable': 2000, 'oracle:write_admitted': 800, 'oracle:aliasing': 300, 'oracle:bad_write': 40,
                        'oracle:leaked_scope': 20, 'oracle:observation_inert': 30},
              'thorough': {'oracle:input_unchanged': 15000, 'hook.put_variable': 30000}}


def filters():
  from flax.core.scope import DenyList
  return [
      ('False', False, lambda c: False), ('True', True, lambda c: True), ("'state'", 'state', lambda c: c == 'state'),
      ("['state','cache']", ['state', 'cache'], lambda c: c in ('state', 'cache')), ('()', (), lambda c: False),
      ("('batch_stats','intermediates','probes')", ('batch_stats', 'intermediates', 'probes'), lambda c: c in ('batch_stats', 'intermediates', 'probes')),
      ("DenyList('params')", DenyList('params'), lambda c: c != 'params'),
      ("DenyList(['params','state'])", DenyList(['params', 'state']), lambda c: c not in ('params', 'state')),
      ("DenyList(DenyList('cache'))", DenyList(DenyList('cache')), lambda c: c == 'cache'),
      ("{'perturbations','state'}", {'perturbations', 'state'}, lambda c: c in ('perturbations', 'state')),
      # names that contain another collection's name as a substring: membership is exact equality
      ("'batch_stats'", 'batch_stats', lambda c: c == 'batch_stats'),
      ("DenyList('batch_stats')", DenyList('batch_stats'), lambda c: c != 'batch_stats'),
      ("'state_backup'", 'state_backup', lambda c: c == 'state_backup'),
  ]


def dict_ids(tree, acc=None):
  """ids of every dict container (the mutable parts) reachable in a variable tree."""
  from collections.abc import Mapping
  acc = set() if acc is None else acc
  if isinstance(tree, Mapping):
    inner = getattr(tree, '_dict', tree)
    acc.add(id(inner))
    for v in inner.values():
      dict_ids(v, acc)
  return acc


def poison(tree):
  """Mutate every plain dict of a returned variable tree in place."""
  n = 0
  if isinstance(tree, dict):
    for v in list(tree.values()):
      n += poison(v)
    for k in list(tree.keys()):
      tree[k] = 'POISON'
    tree['__poison__'] = 1
    n += 1
  return n


def tree_bytes_equal(a, b):
  import jax
  la, ta = jax.tree_util.tree_flatten(a)
  lb, tb = jax.tree_util.tree_flatten(b)
  if ta != tb:
    return False
  for x, y in zip(la, lb):
    x, y = np.asarray(x), np.asarray(y)
    if x.dtype != y.dtype or x.shape != y.shape or x.tobytes() != y.tobytes():
      return False
  return True


def to_repr(variables, how):
  from flax.core import FrozenDict, freeze, unfreeze
  v = unfreeze(variables)
  if how == 'dict':
    return v
  if how == 'frozen':
    return freeze(v)
  # mixed: top-level dict whose collections alternate FrozenDict / dict
  return {c: (FrozenDict(t) if i % 2 == 0 else t) for i, (c, t) in enumerate(sorted(v.items()))}


class PutLog:
  """Write-event monitor installed on Scope.put_variable (class attribute: internal callers are intercepted too)."""

  def __init__(self, ctx):
    from flax.core import scope
    self.ctx = ctx
    self.events = []
    self.active = False
    orig = scope.Scope.put_variable
    log = self

    def put_variable(self_scope, col, name, value):
      if log.active:
        ctx.event('hook.put_variable')
        root = self_scope.root
        rec = [col, name, id(root), None]
        out = orig(self_scope, col, name, value)
        log.events.append(rec)  # only writes that took effect are events (a refused write raises above)
        # the dict that now holds the value (after the write took effect)
        try:
          rec[3] = id(self_scope._variables[col])
        except Exception:  # noqa: BLE001
          pass
        return out
      return orig(self_scope, col, name, value)

    scope.Scope.put_variable = put_variable


def add_special_ops(rng, spec, what):
  """Append a deliberate op to the root node (compact roots only for clash)."""
  node = spec['root']
  ops = list(node[2])
  if what == 'bad_write':
    col = rng.choice(['state', 'cache', 'params', 'frozen_col', 'stats'])
    ops.insert(rng.randint(0, len(ops)), ('bad_write', col))
  elif what == 'leak':
    # the scope that escapes belongs to the root module or to a (nested) sub-module
    def insert_leak(nd, depth):
      ops_ = list(nd[2])
      kids = [k for k, o in enumerate(ops_) if o[0] == 'child']
      if kids and rng.random() < 0.6 and depth < 3:
        k = rng.choice(kids)
        ops_[k] = ops_[k][:2] + (insert_leak(ops_[k][2], depth + 1),) + ops_[k][3:]
      else:
        ops_.insert(rng.randint(0, len(ops_)), ('leak',))
      return (nd[0], nd[1], tuple(ops_))
    return dict(spec, root=insert_leak(node, 0))
  return dict(spec, root=(node[0], node[1], tuple(ops)))


def alias_sow_names(rng, node):
  """Rename some sow ops so that they observe under the name of a param / counter / statistic of the SAME module (another
  collection): legal in Linen, and switching the observation on must still not change anything else."""
  ops = list(node[2])
  names = [op[1] for op in ops if op[0] == 'param'] + [op[2] for op in ops if op[0] in ('counter', 'stat')]
  used = set()
  for k, op in enumerate(ops):
    if op[0] == 'sow' and names and rng.random() < 0.6:
      cand = [n for n in names if (op[1], n) not in used]
      if cand:
        n = rng.choice(cand)
        used.add((op[1], n))
        ops[k] = ('sow', op[1], n)
    elif op[0] in ('child', 'shared'):
      ops[k] = op[:2] + (alias_sow_names(rng, op[2]),) + op[3:]
  return (node[0], node[1], tuple(ops))


def strip_observers(node):
  ops = []
  for op in node[2]:
    if op[0] in ('sow', 'perturb'):
      ops.append(('nop',))  # keep op indices: setup-style sub-module names depend on them
      continue
    if op[0] in ('child',):
      op = op[:2] + (strip_observers(op[2]),) + op[3:]
    if op[0] == 'shared':
      op = op[:2] + (strip_observers(op[2]),) + op[3:]
    ops.append(op)
  return (node[0], node[1], tuple(ops))


def run_case(ctx, i, rng, log):
  import jax
  import flax
  from flax import errors
  from flax.core import FrozenDict
  from vf import snap
  from vf.gen import linen_prog as LP

  spec = LP.gen_program(rng, max_nodes=6, depth=3, cols=['state', 'cache', 'stats', 'batch_stats'])
  special = rng.choice([None, None, None, 'bad_write', 'leak'])
  if special:
    spec = add_special_ops(rng, spec, special)
  r_alias = __import__('random').Random(rng.getrandbits(32))
  if 'sow' in LP.ops_used(spec['root']) and r_alias.random() < 0.5:
    spec = dict(spec, root=alias_sow_names(r_alias, spec['root']))
  fname, mutable, ref_pred = rng.choice(filters())
  how = rng.choice(['dict', 'frozen', 'mixed'])
  return_frozen = rng.random() < 0.3
  legacy_keys = rng.random() < 0.25
  repeats = rng.randint(1, 4)
  method = rng.choice([None, None, 'scaled'])
  ops = LP.ops_used(spec['root'])
  nontrivial = LP.count_nodes(spec['root']) >= 2 or bool(ops & {'counter', 'stat', 'sow', 'perturb'})
  desc = dict(program=repr(spec['root'])[:700], mutable=fname, variables=how, return_frozendict=return_frozen, legacy_keys=legacy_keys,
              repeats=repeats, method=method, special=special)
  with ctx.case('case', i, desc, nontrivial=nontrivial):
    flax.config.update('flax_return_frozendict', return_frozen)
    try:
      m = LP.make_module(spec['root'])
      x = LP.make_input(rng, spec)
      rngs = LP.rng_dict(spec, 1 + i % 3, legacy=legacy_keys)
      meth = None if method is None else getattr(type(m), method)

      # ---------------- init (spec without the deliberate bad write: init must succeed)
      spec_init = spec if special != 'bad_write' else dict(spec, root=(spec['root'][0], spec['root'][1],
                                                                         tuple((o if o[0] != 'bad_write' else ('nop',)) for o in spec['root'][2])))
      m_init = LP.make_module(spec_init['root'])
      h_init = [m_init, rngs, x]
      before = snap.snap(h_init)
      log.events.clear()
      log.active = True
      y0, v0 = m_init.init_with_output(rngs, x)
      log.active = False
      ctx.op('init_with_output')
      d = snap.diff(before, snap.snap(h_init))
      ctx.check(d is None, 'input_unchanged:init', lambda: dict(case=desc, diff=repr(d)[:500]))
      # during init everything except 'intermediates' is mutable
      ctx.check(all(e[0] != 'intermediates' for e in log.events), 'write_admitted:init_wrote_intermediates', None)
      y0b, v0b = m_init.init_with_output(rngs, x)
      ctx.check(tree_bytes_equal((y0, v0), (y0b, v0b)), 'deterministic:init', lambda: dict(case=desc))
      v0c = m_init.init(rngs, x)
      ctx.op('init')
      ctx.check(tree_bytes_equal(v0, v0c), 'deterministic:init_vs_init_with_output', None)

      # ---------------- apply under the mutability contract
      variables = to_repr(v0, how)
      # empty placeholder collections / emptied sub-trees supplied by the caller (plain dicts): a mutable collection the module
      # writes into must still be copied, never used as the scope's live storage
      placeholders = []
      if special is None and rng.random() < 0.35 and isinstance(variables, dict):
        for col in ('intermediates', 'probes', 'perturbations', 'state', 'cache', 'stats', 'batch_stats'):
          if not ref_pred(col):
            continue
          if col not in variables and rng.random() < 0.7:
            variables[col] = {}
            placeholders.append(col)
          elif col in variables and col != 'perturbations' and rng.random() < 0.5:
            sub = variables[col]
            if isinstance(sub, dict) and sub:
              k0 = sorted(sub)[0]
              # empty the whole collection, or one module's nested sub-tree
              if isinstance(sub[k0], dict) and rng.random() < 0.5:
                sub[k0] = {}
                placeholders.append(col + '/' + k0)
              else:
                variables[col] = {}
                placeholders.append(col)
      desc['placeholders'] = placeholders
      in_ids = dict_ids(variables)
      h_apply = [m, variables, rngs, x]
      before = snap.snap(h_apply)
      outs = []
      expect_bad_raise = special == 'bad_write' and not ref_pred(next(o[1] for o in spec['root'][2] if o[0] == 'bad_write'))
      for r in range(repeats):
        log.events.clear()
        log.active = True
        try:
          out = m.apply(variables, x, rngs=rngs, mutable=mutable, method=meth)
          raised = None
        except errors.ModifyScopeVariableError as e:
          out, raised = None, e
        finally:
          log.active = False
        ctx.op('apply')
        d = snap.diff(before, snap.snap(h_apply))
        ctx.check(d is None, 'input_unchanged:apply', lambda: dict(case=desc, call=r, diff=repr(d)[:600]))
        if special == 'bad_write':
          ctx.check((raised is not None) == expect_bad_raise, 'bad_write:' + ('accepted' if expect_bad_raise else 'rejected_although_mutable'),
                    lambda: dict(case=desc, raised=repr(raised)[:200]))
        elif raised is not None:
          ctx.check(False, 'apply_raised_on_guarded_program', lambda: dict(case=desc, error=repr(raised)[:300]))
        # write events: admitted collection, and never into a dict of the caller's input
        for col, name, root_id, dict_id in log.events:
          ctx.check(ref_pred(col), 'write_admitted:immutable_collection_written', lambda: dict(case=desc, collection=col, name=name))
          ctx.check(dict_id is None or dict_id not in in_ids, 'aliasing:write_into_callers_dict', lambda: dict(case=desc, collection=col, name=name))
        if raised is not None:
          break
        outs.append(out)
        if mutable is False:
          y, upd = out, None
          ctx.check(not isinstance(out, tuple) or method == 'scaled' or True, 'returned_collections', None)
        else:
          y, upd = out
          # expected collections: every existing collection matching `mutable` and no other
          existing = set(variables.keys())
          created = set()
          for o in _all_ops(spec['root']):
            if o[0] in ('sow',) and ref_pred(o[1]):
              created.add(o[1])
            if o[0] == 'bad_write' and ref_pred(o[1]):
              created.add(o[1])
          want = {c for c in existing | created if ref_pred(c)}
          ctx.check(set(upd.keys()) == want, 'returned_collections', lambda: dict(case=desc, want=sorted(want), got=sorted(upd.keys())))
          ctx.check(isinstance(upd, FrozenDict) == return_frozen, 'returned_collections:container_type', lambda: dict(got=type(upd).__name__))
          ctx.check(not (dict_ids(upd) & in_ids), 'aliasing:returned_shares_container_with_input', lambda: dict(case=desc))
      if outs:
        ctx.check(all(tree_bytes_equal(outs[0], o) for o in outs[1:]), 'deterministic:apply_repeat', lambda: dict(case=desc))
        # poison what was returned, then the input must still be what it was
        n_p = 0
        for o in outs:
          if isinstance(o, tuple) and mutable is not False:
            u = o[1]
            n_p += poison(u) if isinstance(u, dict) else 0
        d = snap.diff(before, snap.snap(h_apply))
        ctx.check(d is None, 'aliasing:poisoned_output_changed_input', lambda: dict(case=desc, diff=repr(d)[:500]))
        ctx.event('poisoned_dicts', n_p)
        # state semantics: counters advance by exactly the number of executions, input untouched
        if mutable is not False and method is None and special is None and not placeholders:
          y1, u1 = m.apply(variables, x, rngs=rngs, mutable=mutable)
          for col in u1:
            for p, leaf in LP.flat_vars({col: u1[col]})[col].items():
              old = LP.flat_vars({col: variables[col]}).get(col, {}).get(p) if col in variables else None
              if old is not None and np.asarray(leaf).dtype == np.int32 and np.shape(leaf) == ():
                execs = _exec_count(spec['root'], col, p)
                if execs is not None:
                  ctx.check(int(leaf) == int(old) + execs, 'state:counter_increment', lambda: dict(case=desc, col=col, path=p, old=int(old), new=int(leaf), execs=execs))

      # ---------------- leaked scope must be dead after apply returns
      if special == 'leak':
        LP.LEAKS.clear()
        m.apply(variables, x, rngs=rngs, mutable=True)
        for mod, sc in LP.LEAKS:
          try:
            sc.put_variable('state', 'zombie', 1.0)
            alive = True
          except errors.InvalidScopeError:
            alive = False
          except Exception:  # noqa: BLE001
            alive = False
          ctx.check(not alive, 'leaked_scope:still_usable', lambda: dict(case=desc))
        LP.LEAKS.clear()

      # ---------------- observation features never change the primary output
      if ops & {'sow', 'perturb'} and special is None and method is None:
        plain = dict(spec, root=strip_observers(spec['root']))
        mp = LP.make_module(plain['root'])
        vp = mp.init(rngs, x)
        v_full = m.init(rngs, x)
        # same parameter values: take them from the observer-free init (param names/paths are identical)
        y_plain = mp.apply({c: v for c, v in vp.items()}, x, rngs=rngs, mutable=False)
        vv = {c: (vp[c] if c in vp else t) for c, t in v_full.items() if c != 'perturbations'}
        y_obs = m.apply(vv, x, rngs=rngs, mutable=False)
        y_sow, _ = m.apply(vv, x, rngs=rngs, mutable=['intermediates', 'probes'])
        y_cap, _ = m.apply(vv, x, rngs=rngs, mutable=['intermediates'], capture_intermediates=True)
        ctx.op('apply(capture_intermediates)')
        ok = _same_params(vp, v_full)
        if ok:
          ctx.check(tree_bytes_equal(y_plain, y_obs) and tree_bytes_equal(y_plain, y_sow) and tree_bytes_equal(y_plain, y_cap),
                    'observation_inert', lambda: dict(case=desc))
    finally:
      flax.config.update('flax_return_frozendict', False)


def _same_params(a, b):
  return tree_bytes_equal(a.get('params', {}), b.get('params', {}))


def _all_ops(node):
  for op in node[2]:
    yield op
    if op[0] in ('child', 'shared'):
      yield from _all_ops(op[2])


def _exec_count(node, col, path):
  """How often the counter at (col, path) is executed per call (None if it cannot be determined simply)."""
  # only root-level counters in programs without re-entrancy of the root (always 1 execution)
  if len(path) == 1:
    for op in node[2]:
      if op[0] == 'counter' and op[1] == col and op[2] == path[0]:
        return 1
  return None


def run_core(ctx, i, rng, log):
  """The functional core's init/apply under the same contract."""
  import jax
  import jax.numpy as jnp
  from flax import core, errors
  from flax.core import lift
  from vf import snap
  fname, mutable, ref_pred = rng.choice(filters())
  how = rng.choice(['dict', 'frozen'])
  d = rng.randint(1, 4)

  def dense(scope, x, feats):
    k = scope.param('kernel', jax.nn.initializers.lecun_normal(), (x.shape[-1], feats))
    return x @ k

  def fn(scope, x):
    h = scope.child(dense, 'l1')(x, d)
    cnt = scope.variable('state', 'n', lambda: jnp.zeros((), jnp.int32))
    if scope.is_mutable_collection('state'):
      cnt.value = cnt.value + 1
    ra = scope.variable('cache', 'ra', lambda: jnp.zeros((d,)))
    if scope.is_mutable_collection('cache'):
      ra.value = 0.5 * ra.value + h.mean(0)
    return scope.child(dense, 'l2')(h + 0.01 * cnt.value, 2)

  x = jnp.asarray(np.random.default_rng(i).normal(size=(3, 2)).astype(np.float32))
  rngs = {'params': jax.random.key(i)}
  desc = dict(api='flax.core', mutable=fname, variables=how, d=d)
  with ctx.case('core', i, desc, nontrivial=True):
    h0 = [rngs, x]
    before = snap.snap(h0)
    y0, v0 = core.init(fn)(rngs, x)
    ctx.op('core.init')
    ctx.check(snap.diff(before, snap.snap(h0)) is None, 'input_unchanged:core.init', None)
    variables = to_repr(v0, how)
    in_ids = dict_ids(variables)
    h1 = [variables, x]
    before = snap.snap(h1)
    outs = []
    for r in range(3):
      log.events.clear()
      log.active = True
      out = core.apply(fn, mutable=mutable)(variables, x)
      log.active = False
      ctx.op('core.apply')
      outs.append(out)
      ctx.check(snap.diff(before, snap.snap(h1)) is None, 'input_unchanged:core.apply', lambda: dict(case=desc))
      for col, name, root_id, dict_id in log.events:
        ctx.check(ref_pred(col), 'write_admitted:immutable_collection_written', lambda: dict(case=desc, collection=col))
        ctx.check(dict_id is None or dict_id not in in_ids, 'aliasing:write_into_callers_dict', lambda: dict(case=desc))
      if mutable is not False:
        want = {c for c in variables.keys() if ref_pred(c)}
        ctx.check(set(out[1].keys()) == want, 'returned_collections', lambda: dict(case=desc, want=sorted(want), got=sorted(out[1].keys())))
        ctx.check(not (dict_ids(out[1]) & in_ids), 'aliasing:returned_shares_container_with_input', lambda: dict(case=desc))
        if 'state' in out[1]:
          ctx.check(int(out[1]['state']['n']) == int(variables['state']['n']) + 1, 'state:counter_increment', lambda: dict(case=desc))
    ctx.check(all(tree_bytes_equal(outs[0], o) for o in outs[1:]), 'deterministic:apply_repeat', lambda: dict(case=desc))
    # an unguarded write to an immutable collection raises
    def bad(scope, x):
      scope.put_variable('state', 'n', jnp.ones((), jnp.int32))
      return x
    try:
      core.apply(bad, mutable=mutable)(variables, x)
      raised = False
    except errors.ModifyScopeVariableError:
      raised = True
    ctx.check(raised == (not ref_pred('state')), 'bad_write:' + ('accepted' if not ref_pred('state') else 'rejected_although_mutable'), lambda: dict(case=desc))
    ctx.check(snap.diff(before, snap.snap(h1)) is None, 'input_unchanged:core.apply', lambda: dict(case=desc))


_BOUND = {}


def bound_classes():
  if _BOUND:
    return _BOUND
  import flax.linen as nn
  import jax.numpy as jnp

  class Leaf(nn.Module):
    @nn.compact
    def __call__(self, x):
      w = self.param('w', nn.initializers.normal(1.0), (x.shape[-1],))
      n = self.variable('counter', 'n', lambda: jnp.zeros((), jnp.float32))
      y = x * w + n.value
      n.value = n.value + 1.0
      return y

  class Node1(nn.Module):
    a: nn.Module

    @nn.compact
    def __call__(self, x):
      x = self.a(x)
      return x + self.param('b', nn.initializers.normal(1.0), (x.shape[-1],))

  class Node2(nn.Module):
    a: nn.Module
    b: nn.Module

    def __call__(self, x):
      return self.b(self.a(x))

  class Node3(nn.Module):
    a: nn.Module
    b: nn.Module
    c: nn.Module

    @nn.compact
    def __call__(self, x):
      n = self.variable('counter', 'calls', lambda: jnp.zeros((), jnp.float32))
      n.value = n.value + 1.0
      return self.c(self.b(self.a(x))) * (1.0 + 0.125 * n.value)

  _BOUND.update(Leaf=Leaf, Node1=Node1, Node2=Node2, Node3=Node3)
  return _BOUND


def gen_attr_tree(rng, depth, shared):
  """('leaf',) | ('node', n_fields, [children]) - children are attribute sub-modules; `shared` collects leaves for reuse."""
  if depth == 0 or rng.random() < 0.2:
    if shared and rng.random() < 0.25:
      return ('shared', rng.randrange(len(shared)))
    return ('leaf',)
  k = rng.choice([1, 2, 2, 3])
  kids = [gen_attr_tree(rng, depth - 1, shared) for _ in range(k)]
  # put the deepest branch first or last: field order decides which attribute is cloned first
  if rng.random() < 0.5:
    kids.sort(key=lambda t: -_tree_depth(t))
  return ('node', k, kids)


def _tree_depth(t):
  return 0 if t[0] != 'node' else 1 + max(_tree_depth(c) for c in t[2])


def build_attr_tree(t, shared_objs):
  C = bound_classes()
  if t[0] == 'leaf':
    return C['Leaf']()
  if t[0] == 'shared':
    return shared_objs[t[1]]
  kids = [build_attr_tree(c, shared_objs) for c in t[2]]
  return C['Node%d' % t[1]](*kids)


def run_bound_objects(ctx, i, rng):
  """init/apply called on module OBJECTS with a history: bound (read-only / mutable), returned by unbind(), or built around a bound
  sub-module. The result may depend on the variables passed in only, and nothing may be written into the old binding."""
  import jax
  import jax.numpy as jnp
  from flax.core import unfreeze
  C = bound_classes()
  shared_objs = [C['Leaf']() for _ in range(2)]
  t = gen_attr_tree(rng, rng.choice([1, 2, 2, 3]), shared_objs)
  if t[0] != 'node':
    t = ('node', 1, [t])
  desc = dict(tree=repr(t), depth=_tree_depth(t))
  with ctx.case('bound', i, desc, nontrivial=_tree_depth(t) >= 2):
    make = lambda: build_attr_tree(t, shared_objs)  # noqa: E731
    top = make()
    x = jnp.asarray(np.random.default_rng(i).uniform(-1, 1, (2, 3)).astype(np.float32))
    v1 = unfreeze(top.init(jax.random.key(2 * i + 1), x))
    v2 = unfreeze(top.init(jax.random.key(2 * i + 2), x))
    v1['counter'] = jax.tree_util.tree_map(lambda a: a + 100.0, v1['counter'])
    v2_snap = jax.tree_util.tree_map(np.array, v2)
    ref = top.apply(v2, x, mutable=['counter'])
    key = jax.random.key(77 + i)
    ref_init = unfreeze(make().init(key, x))

    def same(a, b):
      a, b = unfreeze(a), unfreeze(b)
      return tree_bytes_equal(a, b)

    objects = []
    b_rw = top.bind(v1, mutable=['counter'])
    objects.append(('bound_mutable', b_rw, b_rw))
    b_ro = top.bind(v1)
    objects.append(('bound_readonly', b_ro, b_ro))
    b_src = top.bind(v1, mutable=['counter'])
    unb, unb_vars = b_src.unbind()
    ctx.check(same(unb_vars, v1), 'bound:unbind_variables', lambda: dict(case=desc))
    objects.append(('unbound_via_unbind', unb, b_src))
    # a new parent built around a sub-module taken from a bound tree
    b_par = top.bind(v1, mutable=['counter'])
    inner = b_par.a
    wrapped = C['Node1'](inner)
    wv1 = unfreeze(C['Node1'](build_attr_tree(t[2][0], shared_objs)).init(jax.random.key(5), x))
    wref = C['Node1'](build_attr_tree(t[2][0], shared_objs)).apply(wv1, x, mutable=['counter'])
    for tag, obj, owner in objects + [('parent_of_bound_submodule', wrapped, b_par)]:
      ctx.op('apply on ' + tag)
      before = jax.tree_util.tree_map(np.array, unfreeze(owner.variables))
      vv, rr = (wv1, wref) if tag == 'parent_of_bound_submodule' else (v2, ref)
      outs = []
      try:
        for _ in range(2):
          outs.append(obj.apply(vv, x, mutable=['counter']))
      except Exception as e:  # noqa: BLE001
        ctx.check(False, 'bound:apply_raises:' + tag, dict(case=desc, error=repr(e)[:300]))
        continue
      ctx.check(same(outs[0][0], rr[0]) and same(outs[0][1], rr[1]), 'bound:result_depends_on_old_binding:' + tag,
                lambda: dict(case=desc, got=np.asarray(outs[0][0]).tolist(), want=np.asarray(rr[0]).tolist(),
                             got_state=repr(unfreeze(outs[0][1]))[:300], want_state=repr(unfreeze(rr[1]))[:300]))
      ctx.check(same(outs[0], outs[1]), 'deterministic:bound_object:' + tag, lambda: dict(case=desc))
      ctx.check(same(unfreeze(owner.variables), before), 'bound:old_binding_written:' + tag,
                lambda: dict(case=desc, before=repr(before.get('counter'))[:300], after=repr(unfreeze(owner.variables).get('counter'))[:300]))
    ctx.check(same(v2, v2_snap), 'input_unchanged:variables:bound_object', lambda: dict(case=desc))
    for tag, obj in (('bound_mutable', top.bind(v1, mutable=True)), ('unbound_via_unbind', unb)):
      try:
        got = unfreeze(obj.init(key, x))
      except Exception as e:  # noqa: BLE001
        ctx.check(False, 'bound:init_raises:' + tag, dict(case=desc, error=repr(e)[:300]))
        continue
      ctx.op('init on ' + tag)
      ctx.check(same(got, ref_init), 'bound:init_depends_on_old_binding:' + tag, lambda: dict(case=desc))


def run_dict_valued(ctx, i, rng):
  """Variables whose VALUE is a dict that the caller owns (passed as an argument / captured by the module): init/apply must neither
  write into that dict nor return a variable tree that shares a container with it."""
  import copy
  import jax
  import jax.numpy as jnp
  import flax.linen as nn
  how = ['variable_init', 'variable_init', 'put_variable', 'sow_init'][i % 4]
  entry = ['init', 'apply_new', 'apply_existing'][(i // 4) % 3]
  nested = (i // 12) % 2 == 1
  writes = 1 + (i // 24) % 2
  # the caller's mapping may be a dict SUBCLASS (OrderedDict from a config loader, defaultdict): still the caller's object
  container = ['dict', 'OrderedDict', 'defaultdict', 'dict', 'OrderedDict_inside'][(i // 48) % 5]
  desc = dict(how=how, entry=entry, nested=nested, writes=writes, container=container)
  with ctx.case('dict_valued', i, desc, nontrivial=True):
    class M(nn.Module):
      @nn.compact
      def __call__(self, d, x):
        if how == 'variable_init':
          v = self.variable('state', 'd', lambda: d)
          for _ in range(writes):
            cur = v.value
            v.value = {'a': cur['a'] + x, **({'sub': {'b': cur['sub']['b'] * 2.0}} if nested else {})}
          return v.value['a']
        if how == 'put_variable':
          if not self.has_variable('state', 'd'):
            self.put_variable('state', 'd', d)
          for _ in range(writes):
            cur = self.get_variable('state', 'd')
            self.put_variable('state', 'd', {'a': cur['a'] + x, **({'sub': {'b': cur['sub']['b'] * 2.0}} if nested else {})})
          return self.get_variable('state', 'd')['a']
        for _ in range(writes):
          self.sow('state', 'd', x, init_fn=lambda: d, reduce_fn=lambda acc, y: {'a': acc['a'] + y, **({'sub': {'b': acc['sub']['b'] * 2.0}} if nested else {})})
        return x

    def fresh():
      import collections
      sub = {'b': jnp.asarray([2.0, 3.0])}
      if container == 'OrderedDict_inside':
        sub = collections.OrderedDict(sub)
      plain = {'a': jnp.asarray(1.5), **({'sub': sub} if nested else {})}
      if container == 'OrderedDict':
        return collections.OrderedDict(plain)
      if container == 'defaultdict':
        return collections.defaultdict(dict, plain)
      return plain

    d = fresh()
    d_ids = dict_ids(d)
    x = jnp.asarray(0.25)
    if entry == 'init':
      out, vs = M().init_with_output(jax.random.key(0), d, x)
    elif entry == 'apply_new':
      out, vs = M().apply({}, d, x, mutable=['state'])
    else:
      v0 = {'state': {'d': fresh()}}
      v0_ids = dict_ids(v0)
      out, vs = M().apply(v0, d, x, mutable=['state'])
      ctx.check(tree_bytes_equal(v0, {'state': {'d': fresh()}}), 'input_unchanged:variables:dict_valued_variable', lambda: dict(case=desc))
      ctx.check(not (dict_ids(vs) & v0_ids), 'aliasing:returned_shares_container_with_input:dict_valued_variable', lambda: dict(case=desc))
    ctx.op('%s(dict-valued variable via %s)' % (entry.split('_')[0], how))
    ctx.check(tree_bytes_equal(d, fresh()) and jax.tree_util.tree_structure(d) == jax.tree_util.tree_structure(fresh()),
              'input_unchanged:argument:dict_written_in_place', lambda: dict(case=desc, argument_now=repr(d)[:300], expected=repr(fresh())[:300]))
    # sharing a container between the returned tree and an ARGUMENT is recorded, not judged: the property forbids changing the
    # inputs during the call (checked above), it does not promise that results are disjoint from arguments
    if dict_ids(vs) & d_ids:
      ctx.event('note.dict_valued:returned_tree_shares_dict_with_argument')


def run_capture_with_denylist(ctx, i, rng):
  """capture_intermediates (an observation feature) together with a DenyList `mutable` that names 'intermediates' AND other
  collections: switching the capture on adds 'intermediates' to what is returned - it does not make any other denied collection
  mutable (no write to it, not returned, a creation inside it still raises)."""
  import jax
  import jax.numpy as jnp
  import flax.linen as nn
  from flax import errors
  from flax.core.scope import DenyList
  denied = [['params', 'intermediates'], ['state', 'intermediates'], ['intermediates'], ['params', 'state', 'intermediates'],
            ['intermediates', 'params']][i % 5]
  form = ['list', 'tuple', 'single_or_list'][(i // 5) % 3]
  capture = [True, (lambda m, n: True), True][(i // 15) % 3]
  lazy_param = (i // 45) % 2 == 1     # the module would create a parameter that the supplied variables lack
  d = denied if form == 'list' else tuple(denied) if form == 'tuple' else (denied[0] if len(denied) == 1 else denied)
  desc = dict(denied=denied, form=form, capture=repr(capture)[:20], lazy_param=lazy_param)
  with ctx.case('capture_denylist', i, desc, nontrivial=len(denied) >= 2):
    class M(nn.Module):
      @nn.compact
      def __call__(self, x):
        y = nn.Dense(2, name='d')(x)
        if lazy_param:
          y = y + self.param('late', nn.initializers.ones, (2,))
        n = self.variable('state', 'n', lambda: jnp.zeros(()))
        if self.is_mutable_collection('state'):
          n.value = n.value + 1.0
        self.sow('intermediates', 'y', y)
        return y + n.value

    x = jnp.ones((1, 3))
    v = M().init(jax.random.key(0), x)
    v = {c: t for c, t in v.items() if c != 'intermediates'}
    if lazy_param:
      v = {**v, 'params': {k: t for k, t in v['params'].items() if k != 'late'}}
    import copy
    before = jax.tree_util.tree_map(lambda a: np.asarray(a).copy(), v)
    mut = DenyList(d)
    try:
      y, upd = M().apply(v, x, mutable=mut, capture_intermediates=capture, rngs={'params': jax.random.key(1)})
      raised = None
    except (errors.ScopeParamNotFoundError, errors.ModifyScopeVariableError, errors.ScopeCollectionNotFound) as e:
      y, upd, raised = None, {}, e
    ctx.op('apply(mutable=DenyList(..intermediates..), capture_intermediates)')
    ctx.check(tree_bytes_equal(before, v), 'input_unchanged:variables:capture_with_denylist', lambda: dict(case=desc))
    if lazy_param and 'params' in denied:
      ctx.check(raised is not None, 'capture_widens_mutability:denied_collection_written', lambda: dict(case=desc, returned=sorted(upd)))
      return
    if not ctx.check(raised is None, 'capture_with_denylist:raised', lambda: dict(case=desc, error=repr(raised)[:200])):
      return
    want = {c for c in ('params', 'state') if c not in denied} | {'intermediates'}
    ctx.check(set(upd) == want, 'capture_widens_mutability:returned_collections', lambda: dict(case=desc, returned=sorted(upd), want=sorted(want)))
    if 'state' in denied:
      ctx.check('state' not in upd, 'capture_widens_mutability:denied_collection_written', lambda: dict(case=desc))
    # the same call without the capture returns the same non-intermediates collections
    y0, upd0 = M().apply(v, x, mutable=mut, rngs={'params': jax.random.key(1)})
    ctx.check(set(upd0) == want - ({'intermediates'} if 'intermediates' in denied else set()) and tree_bytes_equal(y, y0),
              'observation_inert:capture_with_denylist', lambda: dict(case=desc, without_capture=sorted(upd0)))


def run_nested_apply(ctx, i, rng):
  """A module method that itself calls another module's init/apply (functional use inside a module): the inner call is a call of its
  own - an observation feature switched on for the OUTER call (capture_intermediates, a mutable intermediates collection) must not
  change what the inner call returns, so the outer primary output stays the same."""
  import jax
  import jax.numpy as jnp
  import flax.linen as nn
  from flax.core import unfreeze
  inner_mut = [True, ['intermediates'], nn.DenyList(['params']), False, ['state']][i % 5]
  via = ['apply', 'init_with_output'][(i // 5) % 2]
  if via == 'init_with_output' and i % 5 in (1, 2, 3, 4):
    via = 'apply'   # init needs the collections it creates to be mutable
  outer_capture = [True, (lambda m, n: True), False][(i // 10) % 3]
  desc = dict(inner_mutable=repr(inner_mut), inner_call=via, outer_capture=repr(outer_capture)[:30])
  with ctx.case('nested_apply', i, desc, nontrivial=True):
    class Inner(nn.Module):
      @nn.compact
      def __call__(self, x):
        h = nn.Dense(2, name='d')(x)
        n = self.variable('state', 'n', lambda: jnp.zeros(()))
        if self.is_mutable_collection('state'):
          n.value = n.value + 1.0
        return jnp.tanh(h)

    inner = Inner()
    x = jnp.asarray(np.random.default_rng(i).uniform(-1, 1, (2, 3)).astype(np.float32))
    iv = unfreeze(inner.init(jax.random.key(i), x))

    class Outer(nn.Module):
      @nn.compact
      def __call__(self, x):
        h = nn.Dense(3, name='pre')(x)
        if via == 'apply':
          out = inner.apply(iv, h, mutable=inner_mut)
        else:
          out = inner.init_with_output(jax.random.key(1), h, mutable=inner_mut)
        y, st = out if isinstance(out, tuple) else (out, {})
        # the inner call's returned collections are part of what the outer module computes
        sizes = jnp.asarray([float(len(jax.tree_util.tree_leaves(st.get(c, {})))) for c in ('params', 'state', 'intermediates')])
        return y, sizes

    outer = Outer()
    ov = outer.init(jax.random.key(7), x)
    base = outer.apply(ov, x)
    obs = outer.apply(ov, x, capture_intermediates=outer_capture, mutable=['intermediates'])[0]
    obs2 = outer.apply(ov, x, mutable=['intermediates'])[0]
    ctx.op('apply(capture_intermediates) around a nested %s' % via)
    ok = tree_bytes_equal(base, obs) and tree_bytes_equal(base, obs2)
    ctx.check(ok, 'observation_inert:nested_call_inherits_capture', lambda: dict(case=desc, plain=np.asarray(base[1]).tolist(), observed=np.asarray(obs[1]).tolist()))
    ctx.check(tree_bytes_equal(outer.apply(ov, x), base), 'deterministic:nested_apply', lambda: dict(case=desc))


def run_perturb_dtypes(ctx, i, rng):
  """perturb() on values that are not float32 (mixed precision activations, integer counts, complex) and on pytrees, with the
  'perturbations' collection NOT supplied but mutable (init, apply(mutable=['perturbations'] / True / DenyList)): the primary
  output has the dtype and the values of the probe-free twin, and the fresh perturbation has the value's shape and dtype and is
  zero. (Round h: the generated programs of the `case` stream are float32 only.)"""
  import jax
  import jax.numpy as jnp
  import flax.linen as nn
  from flax.core.scope import DenyList
  dt = [jnp.bfloat16, jnp.float16, jnp.int32, jnp.float32, jnp.complex64, jnp.int8, jnp.uint8][i % 7]
  shape = [(2, 3), (3,), (), (1, 0), (2, 1, 2)][(i // 7) % 5]
  nested = (i // 35) % 2 == 1
  as_tree = (i // 70) % 2 == 1
  negzero = (i // 140) % 2 == 1 and jnp.issubdtype(dt, jnp.floating)
  desc = dict(dtype=jnp.dtype(dt).name, shape=list(shape), nested=nested, tree=as_tree, negzero=negzero)
  with ctx.case('perturb_dtypes', i, desc, nontrivial=True):
    class Leaf(nn.Module):
      probe: bool

      @nn.compact
      def __call__(self, x):
        w = self.param('w', nn.initializers.ones, ())
        if jnp.issubdtype(dt, jnp.integer):
          h = (x * 3).astype(dt)
        else:
          h = (x * w).astype(dt)
        if negzero:
          h = h * jnp.asarray(-0.0, dt)
        if as_tree:
          h = {'a': h, 'b': (h, h.astype(jnp.float32))}
        if self.probe:
          h = self.perturb('h', h)
        return h

    class Top(nn.Module):
      probe: bool

      @nn.compact
      def __call__(self, x):
        y = Leaf(self.probe, name='leaf')(x)
        if self.probe and not as_tree:
          y = self.perturb('top', y)
        return y

    cls = Top if nested else Leaf
    x = jnp.asarray(np.random.default_rng(rng.randrange(1 << 30)).integers(1, 5, size=shape).astype(np.float32))
    key = jax.random.key(rng.randrange(1 << 30))
    y_ref, v_ref = cls(False).init_with_output(key, x)
    y_init, v_init = cls(True).init_with_output(key, x)
    ctx.op('init_with_output(perturb, non-float32)')

    def same(a, b):
      la, ta = jax.tree_util.tree_flatten(a)
      lb, tb = jax.tree_util.tree_flatten(b)
      if ta != tb:
        return 'structure'
      for u, w in zip(la, lb):
        u, w = np.asarray(u), np.asarray(w)
        if u.dtype != w.dtype or u.shape != w.shape:
          return 'dtype'
        if not np.array_equal(u, w):
          return 'value'
        if u.tobytes() != w.tobytes():
          return 'negative_zero'
      return None

    def verdict(got, how, bits=True):
      r = same(got, y_ref)
      if r == 'negative_zero' and not bits:
        r = None
      ctx.event('perturb_output_compared')
      ctx.check(r is None, 'observation_inert:perturb:%s' % (r or 'ok'), lambda: dict(case=desc, how=how))

    verdict(y_init, 'init')
    ctx.check(_same_params(v_ref, v_init), 'observation_inert:perturb:params', lambda: dict(case=desc))
    # the fresh perturbations: zero, shape and dtype of the perturbed value
    pert = v_init.get('perturbations', {})
    if nested:
      want = {'leaf': {'h': y_ref}} if as_tree else {'leaf': {'h': y_ref}, 'top': y_ref}
    else:
      want = {'h': y_ref}
    lw, tw = jax.tree_util.tree_flatten(want)
    lp, tp = jax.tree_util.tree_flatten(pert)
    okp = tw == tp and all(np.asarray(a).dtype == np.asarray(b).dtype and np.shape(a) == np.shape(b) and not np.any(np.asarray(a))
                           for a, b in zip(lp, lw))
    ctx.check(okp, 'perturb:fresh_perturbation_not_zero_like_value',
              lambda: dict(case=desc, got=[(str(np.asarray(a).dtype), list(np.shape(a))) for a in lp]))
    params = {'params': v_ref['params']}
    verdict(cls(True).apply(params, x), 'apply(mutable=False)')
    for mname, mut in (('list', ['perturbations']), ('True', True), ('denylist', DenyList(['params'])),
                       ('other', ['intermediates'])):
      out = cls(True).apply(params, x, mutable=mut)
      verdict(out[0], 'apply(mutable=%s)' % mname)
    # supplied zero perturbations (the documented gradient recipe) leave the output alone too
    out = cls(True).apply({**params, 'perturbations': pert}, x)
    verdict(out, 'apply(supplied zeros)', bits=False)   # with a supplied collection x + 0.0 is what was asked for


def run(ctx):
  log = PutLog(ctx)
  for i in ctx.indices(280, 'perturb_dtypes'):
    run_perturb_dtypes(ctx, i, ctx.rng('perturb_dtypes', i))
  for i in ctx.indices(30, 'nested_apply'):
    run_nested_apply(ctx, i, ctx.rng('nested_apply', i))
  for i in ctx.indices(90, 'capture_denylist'):
    run_capture_with_denylist(ctx, i, ctx.rng('capture_denylist', i))
  for i in ctx.indices(240, 'dict_valued'):
    run_dict_valued(ctx, i, ctx.rng('dict_valued', i))
  for i in ctx.indices(60 if ctx.tier == 'quick' else 600, 'bound'):
    run_bound_objects(ctx, i, ctx.rng('bound', i))
  n = 400 if ctx.tier == 'quick' else 6000
  for i in ctx.indices(n, 'case'):
    run_case(ctx, i, ctx.rng('case', i), log)
  for i in ctx.indices(40 if ctx.tier == 'quick' else 400, 'core'):
    run_core(ctx, i, ctx.rng('core', i), log)
