"""C04 — NNX transforms keep Python reference semantics: same result and state as eager.

Monitor shape: eager-vs-transformed differential on *mutation programs*. Each case builds the argument graphs twice from the same
spec, runs the program eagerly on one copy and under the transform on the other, and compares canonical forms (isomorphism
oracle of vf/gen/nnx_graph.py), returned values, and object identities of every caller object that survives."""
import numpy as np

LEVEL = 'exploration'
LEVEL_TEXT = ('Generated mutation programs (<= 6 ops: Variable updates with cross-argument data flow, add/delete/re-bind attributes, new '
              'sub-modules aliasing existing Variables, static attribute edits, returning values / graph nodes) over generated argument '
              'graphs (shared Variables, shared Modules, cycles, the same object passed twice or a sub-object of another argument) are run '
              'eagerly and under nnx.jit / remat / cached_partial(jit) (structural + value programs, call histories of 1-3 calls with '
              'caller-side structural edits between calls and trace counting) and under cond / switch / while_loop / fori_loop (value '
              'programs vs Python control flow; structural edits must be rejected). Compared: canonical form of every argument, return '
              'value, identity of surviving caller objects.'
              ' Arguments also include bare Variables and dicts of Variables in first / last position, objects detached'
              ' and returned inside new objects, and objects detached for good (known finding K3).'
              ' Round f: raw_array_attr (K11), cached_partial_plain_fn (context leak), generic_pytree_attr (NamedTuple / OrderedDict / registered dataclass attributes under all transforms).'
              ' Round g: long_list_attr (list / tuple / int-keyed dict attributes with more than ten entries under all transforms).')
LEVEL_NOTE = ('Needs the jit/remat JAX compat aliases. Variables all have shape (2,) so value expressions are jit-compatible; '
              'pmap/shard_map are outside the property.')
TECHNIQUE = 'runtime monitoring: eager-vs-transformed differential on generated mutation programs with canonical-form and identity oracles'
RULE = ('case = (transform, argument graph specs, aliasing pattern, program, call history). Programs are generated against a scratch copy '
        'so every path is valid when executed. distinct = distinct (transform, spec, program); non-trivial = program has >= 2 ops or any '
        'structural op or aliased arguments.')
ASSUMPTIONS = ['vf.compat jax.jit / jax.checkpoint kwarg aliases are faithful', 'float32 same-program tolerance rtol 1e-5 atol 1e-6']
PLAN = {'quick': dict(workers=6, timeout_s=1200), 'thorough': dict(workers=14, timeout_s=3400)}
MIN_EVENTS = {'quick': {'oracle:state': 500, 'oracle:identity': 400, 'oracle:return': 400, 'jit_traces': 150, 'structural_programs': 100,
                        'aliased_argument_cases': 10, 'oracle:rejects': 6},
              'thorough': {'oracle:state': 3000, 'jit_traces': 800}}


# ---------------------------------------------------------------------------------------------
# helpers over real graphs


def modules_by_path(root):
  """[(path, module)] first-visit DFS in sorted order (modules only)."""
  from flax import nnx
  from vf.gen import nnx_graph as G
  seen, out = set(), []

  def go(x, path):
    if isinstance(x, nnx.Module):
      if id(x) in seen:
        return
      seen.add(id(x))
      out.append((path, x))
    ch = G._children(x)
    if ch is None or G._is_var(x):
      return
    for k, v in ch:
      go(v, path + (k,))

  go(root, ())
  return out


def nnx_objects(root):
  """[(path, object)] for every Module and Variable reachable from root (first visit)."""
  from vf.gen import nnx_graph as G
  seen, out = set(), []

  def go(x, path):
    if G._is_var(x) or G._is_graph_node(x):
      if id(x) in seen:
        return
      seen.add(id(x))
      out.append((path, x))
      if G._is_var(x):
        return
    ch = G._children(x)
    if ch is None:
      return
    for k, v in ch:
      go(v, path + (k,))

  go(root, ())
  return out


def get_path(root, path):
  x = root
  for k in path:
    x = getattr(x, k) if isinstance(k, str) and not isinstance(x, dict) else x[k]
  return x


def var_paths(root):
  from vf.gen import nnx_graph as G
  return [p for p, v in G.ref_leaves(root) if G._is_var(v)]


# ---------------------------------------------------------------------------------------------
# programs


def gen_program(rng, specs, alias, n_ops, structural, ret_kind):
  """Generate ops against scratch copies of the argument graphs; returns a list of explicit-path ops."""
  from vf.gen import nnx_graph as G
  import jax.numpy as jnp
  args = build_args(specs, alias)
  prog = []
  x = jnp.ones(2)
  fresh = [0]
  for _ in range(n_ops):
    vps = [(ai, p) for ai, a in enumerate(args) for p in var_paths(a)]
    mps = [(ai, p) for ai, a in enumerate(args) for p, _ in modules_by_path(a)]
    kinds = ['inc', 'inc', 'copy'] if vps else []
    if structural:
      kinds += ['add_var', 'new_module', 'set_static', 'rebind_var', 'rebind_mod', 'del_attr']
    if not kinds:
      kinds = ['add_var'] if structural else []
    if not kinds:
      break
    kind = rng.choice(kinds)
    c = float(rng.randint(1, 5))
    op = None
    if kind == 'inc' and vps:
      op = ('inc',) + rng.choice(vps) + (c,)
    elif kind == 'copy' and len(vps) >= 1:
      op = ('copy',) + rng.choice(vps) + rng.choice(vps) + (c,)
    elif kind == 'add_var':
      ai, p = rng.choice(mps)
      fresh[0] += 1
      op = ('add_var', ai, p, 'n%d' % fresh[0], rng.choice(['Param', 'BatchStat', 'Other']), c)
    elif kind == 'new_module':
      ai, p = rng.choice(mps)
      fresh[0] += 1
      alias_var = rng.choice(vps) if vps and rng.random() < 0.5 else None
      op = ('new_module', ai, p, 'm%d' % fresh[0], c, alias_var)
    elif kind == 'set_static':
      ai, p = rng.choice(mps)
      op = ('set_static', ai, p, 's_attr', rng.choice([1, 2, 'relu']))
    elif kind == 'rebind_var' and vps:
      ai, p = rng.choice(mps)
      fresh[0] += 1
      op = ('rebind', ai, p, 'r%d' % fresh[0]) + rng.choice(vps)
    elif kind == 'rebind_mod':
      ai, p = rng.choice(mps)
      fresh[0] += 1
      op = ('rebind', ai, p, 'r%d' % fresh[0]) + rng.choice(mps)
    elif kind == 'del_attr':
      cands = []
      for ai, p in mps:
        node = get_path(args[ai], p)
        for k, v in G._children(node):
          if G._is_var(v) or _is_module(v):
            cands.append((ai, p, k))
      if cands:
        op = ('del_attr',) + rng.choice(cands)
    if op is None:
      continue
    try:
      apply_op(op, args, x)
    except Exception:  # noqa: BLE001 - op not applicable on the current structure
      continue
    prog.append(op)
  # return expression
  if ret_kind == 'wrap':
    # return an object that existed before the call inside a NEW object, after detaching it from the arguments and updating it
    mps0 = [(ai, p) for ai, a in enumerate(build_args(specs, alias)) for p, _ in modules_by_path(a) if len(p) >= 1]
    if mps0:
      ai, p = rng.choice(mps0)
      det = ('del_attr', ai, p[:-1], p[-1])
      try:
        apply_op(det, args, x)
        prog.append(det)
      except Exception:  # noqa: BLE001 - already gone / not applicable: the object is returned anyway
        pass
      return prog, ('wrap', ai, p)
    ret_kind = 'scalar'
  if ret_kind == 'node':
    mps = [(ai, p) for ai, a in enumerate(args) for p, _ in modules_by_path(a)]
    ret = ('node',) + rng.choice(mps)
  elif ret_kind == 'both':
    mps = [(ai, p) for ai, a in enumerate(args) for p, _ in modules_by_path(a)]
    ret = ('both',) + rng.choice(mps)
  else:
    ret = ('scalar',)
  return prog, ret


def _is_module(x):
  from flax import nnx
  return isinstance(x, nnx.Module)


def apply_op(op, args, x):
  from vf.gen import nnx_graph as G
  C = G.classes()
  k = op[0]
  if k == 'inc':
    _, ai, p, c = op
    v = get_path(args[ai], p)
    v.value = v.value * 0.5 + x + c
  elif k == 'copy':
    _, ai, p, aj, q, c = op
    v, w = get_path(args[ai], p), get_path(args[aj], q)
    v.value = w.value * 0.25 + c
  elif k == 'add_var':
    _, ai, p, name, tname, c = op
    setattr(get_path(args[ai], p), name, C[tname](x * c))
  elif k == 'new_module':
    _, ai, p, name, c, alias_var = op
    m = C['B']()
    m.w = C['Param'](x + c)
    if alias_var is not None:
      m.shared = get_path(args[alias_var[0]], alias_var[1])
    setattr(get_path(args[ai], p), name, m)
  elif k == 'set_static':
    _, ai, p, name, val = op
    setattr(get_path(args[ai], p), name, val)
  elif k == 'rebind':
    _, ai, p, name, aj, q = op
    setattr(get_path(args[ai], p), name, get_path(args[aj], q))
  elif k == 'del_attr':
    _, ai, p, name = op
    delattr(get_path(args[ai], p), name)
  else:
    raise ValueError(op)


def run_program(prog, ret, args, x):
  """The function under test: plain Python over the real objects. Returns (scalar, node-or-None)."""
  import jax.numpy as jnp
  from vf.gen import nnx_graph as G
  captured = None
  if ret[0] == 'wrap':
    try:
      captured = get_path(args[ret[1]], ret[2])
    except (AttributeError, KeyError, IndexError, TypeError):
      captured = None
  for op in prog:
    apply_op(op, args, x)
  if ret[0] == 'wrap' and captured is not None:
    for _, v in G.ref_leaves(captured):
      if G._is_var(v):
        v.value = v.value + 1.0 + x
    box = G.classes()['B']()
    box.child = captured
    return box
  total = jnp.sum(x)
  w = 1.0
  for a in args:
    for p, v in G.ref_leaves(a):
      if G._is_var(v):
        total = total + jnp.sum(v.value) * w * v.get_metadata().get('gain', 1.0)
        w += 0.5
  if ret[0] in ('scalar', 'wrap'):
    return total
  node = get_path(args[ret[1]], ret[2])
  if ret[0] == 'node':
    return node
  return total, node


# ---------------------------------------------------------------------------------------------
# argument graphs


def gen_specs(rng):
  from vf.gen import nnx_graph as G
  n_args = rng.choice([1, 1, 2])
  specs = []
  for _ in range(n_args):
    s = G.gen_spec(rng, max_nodes=rng.randint(1, 5), max_vars=3, p_alias=rng.choice([0.0, 0.3, 0.5]), allow_pytrees=False,
                   allow_arrays=False, allow_static=True)
    for v in s['vars']:
      v['shape'] = (2,)
      v['meta'] = {k: val for k, val in v['meta'].items() if k == 'tag'}
      if rng.random() < 0.4:
        v['meta']['gain'] = rng.choice([0.5, 2.0, 3.0])   # numeric metadata that the function READS (static under jit)
    specs.append(s)
  # *_first: the first positional argument is not a Module but a bare Variable / a dict of Variables (standalone, or - 'shared' -
  # also reachable from the next argument)
  alias = rng.choice(['none', 'none', 'none', 'same_twice', 'sub_object', 'var_first', 'shared_var_first', 'dict_first', 'var_last', 'dict_last'])
  return specs, alias


def build_args(specs, alias):
  """Returns list of root objects. alias: 'same_twice' passes arg0 again; 'sub_object' passes a sub-module of arg0."""
  from vf.gen import nnx_graph as G
  roots = [G.build(s).root for s in specs]
  if alias == 'same_twice':
    roots.append(roots[0])
  elif alias == 'sub_object':
    mps = modules_by_path(roots[0])
    roots.append(mps[-1][1])
  elif alias in ('var_first', 'shared_var_first', 'dict_first', 'var_last', 'dict_last'):
    import jax.numpy as jnp
    C = G.classes()
    own = [v for _, v in G.ref_leaves(roots[0]) if G._is_var(v)]
    if alias in ('var_first', 'var_last') or (alias == 'shared_var_first' and not own):
      first = C['Param'](jnp.asarray([3.0, -4.0]))
    elif alias == 'shared_var_first':
      first = own[-1]
    else:
      first = {'b': C['Param'](jnp.asarray([3.0, -4.0])), 'a': C['BatchStat'](jnp.asarray([0.5, 0.25]))}
    if alias.endswith('_last'):
      roots.append(first)
    else:
      roots.insert(0, first)
  return roots


def first_module(args):
  return next(a for a in args if _is_module(a))


def arg_ids(args):
  """Object identity bookkeeping: {id(obj)} of Modules and Variables of all args, with first path."""
  from vf.gen import nnx_graph as G
  out = {}
  for ai, a in enumerate(args):
    for p, i in G.identities(a).items():
      out.setdefault(i, (ai, p))
  return out


def correspondence(args_e, args_t):
  """Map id(eager object) -> transformed-side object for the *original* objects (same build order => same first paths)."""
  from vf.gen import nnx_graph as G
  m = {}
  keep = []  # strong references: ids of original objects must not be reused by objects created later
  for a_e, a_t in zip(args_e, args_t):
    ie, it = G.identities(a_e), G.identities(a_t)
    keep.append(([x for _, x in nnx_objects(a_e)], [x for _, x in nnx_objects(a_t)]))
    for p, i in ie.items():
      if p in it:
        m.setdefault(i, it[p])
  m['__keepalive__'] = keep
  return m


def check_same_outcome(ctx, tag, args_e, args_t, corr, out_e, out_t, desc, check_identity=True):
  """State, identity and return-value agreement between the eager run and the transformed run."""
  from vf.gen import nnx_graph as G
  from vf import core
  ok_state = True
  for ai, (a_e, a_t) in enumerate(zip(args_e, args_t)):
    ce, ct = G.canon(a_e), G.canon(a_t)
    if not _canon_close(ce, ct):
      ok_state = False
      ctx.check(False, 'state:' + tag, lambda: dict(case=desc, arg=ai, eager=repr(ce)[:700], transformed=repr(ct)[:700]))
      break
  if ok_state:
    ctx.check(True, 'state:' + tag)
  # identity: wherever the eager graph holds an ORIGINAL object, the transformed graph must hold the corresponding caller object
  ok_id = True
  for a_e, a_t in (zip(args_e, args_t) if check_identity else ()):
    ie, it = G.identities(a_e), G.identities(a_t)
    for p, i in ie.items():
      if i in corr and it.get(p) is not None and it[p] != corr[i]:
        ok_id = False
        ctx.check(False, 'identity:caller_object_replaced:' + tag, lambda: dict(case=desc, path=p))
        break
    if not ok_id:
      break
  if ok_id:
    ctx.check(True, 'identity:' + tag)
  # cross-argument aliasing preserved: objects shared between args in the eager run are shared in the transformed run
  def shared_pairs(args):
    seen = {}
    pairs = set()
    for ai, a in enumerate(args):
      for p, i in G.identities(a).items():
        if i in seen and seen[i][0] != ai:
          pairs.add((seen[i], (ai, p)))
        seen.setdefault(i, (ai, p))
    return pairs
  ctx.check(not check_identity or shared_pairs(args_e) == shared_pairs(args_t), 'identity:cross_argument_aliasing:' + tag,
            lambda: dict(case=desc, eager=sorted(map(repr, shared_pairs(args_e)))[:6], transformed=sorted(map(repr, shared_pairs(args_t)))[:6]))
  # return value
  def split_out(o):
    if isinstance(o, tuple):
      return o[0], o[1]
    if _is_module(o):
      return None, o
    return o, None
  se, ne = split_out(out_e)
  st, nt = split_out(out_t)
  ok = True
  if se is not None:
    ok = st is not None and np.allclose(np.asarray(se), np.asarray(st), **core.TOL_SAME_PROGRAM)
  ctx.check(ok, 'return:value:' + tag, lambda: dict(case=desc, eager=repr(se), transformed=repr(st)))
  if ne is not None and nt is not None and check_identity and not tag.startswith('cached_partial'):
    # every ORIGINAL object reachable from the returned value is the caller's own object on the transformed side as well
    ie, it = G.identities(ne), G.identities(nt)
    bad = [p for p, i in ie.items() if i in corr and it.get(p) != corr[i]]
    ctx.check(not bad, 'return:original_object_returned_as_copy:' + tag, lambda: dict(case=desc, paths=bad[:4]))
  # the caller's original objects (also those detached from the arguments during the call) carry the same values on both sides
  # (an object that the function detached and that is reachable neither from an argument nor from the returned value is judged
  # under its own mechanism: the transforms propagate state through the argument graph at exit, see known finding C04-detached)
  reach = set()
  for a_e in args_e:
    reach.update(G.identities(a_e).values())
  if ne is not None:
    reach.update(G.identities(ne).values())
  for (objs_e, objs_t) in corr.get('__keepalive__', []):
    ok = ok_detached = True
    for oe, ot in zip(objs_e, objs_t):
      if G._is_var(oe) and G._is_var(ot):
        same = np.allclose(np.asarray(oe.value), np.asarray(ot.value), **core.TOL_SAME_PROGRAM)
        if id(oe) in reach:
          ok = ok and same
        else:
          # an original object that the function detached from every argument and did not return: the caller may still hold it
          ok_detached = ok_detached and same
    if not ok:
      ctx.check(False, 'state:caller_original_object_stale:' + tag, lambda: dict(case=desc))
      break
    if not ok_detached:
      ctx.check(False, 'state:detached_object_update_lost:' + tag.split(':')[0], lambda: dict(case=desc))
      break
  else:
    ctx.check(True, 'state:originals')
  if ne is not None:
    # the returned node is the caller's own object when it is one of the argument objects
    where_e = [(ai, p) for ai, a in enumerate(args_e) for p, i in G.identities(a).items() if i == id(ne)]
    if where_e and not tag.startswith('cached_partial'):
      # (cached_partial documents that cached graph nodes are cloned and only share the caller's Variables)
      ai, p = where_e[0]
      it = G.identities(args_t[ai])
      ctx.check(nt is not None and it.get(p) == id(nt), 'return:node_is_a_copy:' + tag, lambda: dict(case=desc, path=p))
    ctx.check(nt is not None and _canon_close(G.canon(ne), G.canon(nt)), 'return:node_differs:' + tag, lambda: dict(case=desc))


def _canon_close(a, b):
  """Canonical forms equal up to float tolerance on array bytes."""
  from vf import core
  if type(a) is not type(b):
    return False
  if isinstance(a, tuple):
    if len(a) == 3 and isinstance(a[0], str) and isinstance(a[2], bytes) and isinstance(b[2], bytes) and a[0] == b[0] and a[1] == b[1]:
      if a[2] == b[2]:
        return True
      try:
        x, y = np.frombuffer(a[2], dtype=a[0]), np.frombuffer(b[2], dtype=b[0])
        return x.shape == y.shape and np.allclose(x, y, **core.TOL_SAME_PROGRAM)
      except (TypeError, ValueError):
        return False
    return len(a) == len(b) and all(_canon_close(x, y) for x, y in zip(a, b))
  return a == b


# ---------------------------------------------------------------------------------------------
# transform drivers


def case_jit_like(ctx, rng, kind, desc_base):
  """jit / remat / cached_partial with structural or value programs and call histories."""
  from flax import nnx
  import jax.numpy as jnp
  specs, alias = gen_specs(rng)
  if kind == 'cached_partial' and alias in ('var_first', 'shared_var_first', 'dict_first'):
    # cached_partial caches graph nodes ("cached_args: ... containing the graph nodes to cache"); a bare Variable / a dict of Variables
    # is passed as one of the remaining (non-cached) arguments instead
    alias = 'dict_last' if alias == 'dict_first' else 'var_last'
  # cached_partial documents that the final structure of graph nodes must be the same after each call: value-only programs there
  structural = rng.random() < 0.7 and kind != 'cached_partial'
  ret_kind = rng.choice(['scalar', 'scalar', 'node', 'both', 'wrap'] if structural else ['scalar', 'scalar', 'node', 'both'])
  prog, ret = gen_program(rng, specs, alias, rng.randint(1, 6), structural, ret_kind)
  n_calls = rng.choice([1, 1, 2, 3]) if kind != 'remat' else 1
  desc = dict(desc_base, alias=alias, program=prog, ret=ret, calls=n_calls, structural=structural)
  if structural:
    ctx.event('structural_programs')
  if alias != 'none':
    ctx.event('aliased_argument_cases')
  args_e, args_t = build_args(specs, alias), build_args(specs, alias)
  corr = correspondence(args_e, args_t)
  traces = [0]

  def f(*a):
    *gs, x = a
    traces[0] += 1
    return run_program(prog, ret, list(gs), x)

  if kind == 'jit':
    tf = nnx.jit(f)
    call_t = lambda x: tf(*args_t, x)
  elif kind == 'remat':
    tf = nnx.remat(f)
    call_t = lambda x: tf(*args_t, x)
  else:  # cached_partial(jit)
    n_cached = 1 if alias in ('none', 'var_last', 'dict_last') else len(args_t)
    tf = nnx.cached_partial(nnx.jit(f), *args_t[:n_cached])
    rest = args_t[n_cached:]
    call_t = lambda x: tf(*rest, x)
  for call in range(n_calls):
    x = jnp.asarray([1.0 + call, -2.0])
    # a structural program applied twice may be invalid (e.g. delete an attribute twice): eager decides
    try:
      out_e = run_program(prog, ret, args_e, x)
      eager_err = None
    except Exception as e:  # noqa: BLE001
      out_e, eager_err = None, e
    t_before = traces[0]
    try:
      out_t = call_t(x)
      t_err = None
    except Exception as e:  # noqa: BLE001
      out_t, t_err = None, e
    ctx.op('nnx.' + kind)
    ctx.event('jit_traces', traces[0] - t_before)
    tag = kind if call == 0 else kind + ':call%d' % (call + 1)
    d = dict(desc, call=call)
    if eager_err is not None:
      ctx.check(t_err is not None, 'rejects:eager_fails_but_transform_succeeds:' + kind, lambda: dict(case=d, eager_error=repr(eager_err)[:200]))
      return
    if t_err is not None:
      if kind == 'cached_partial' and structural:
        # documented: the final structure of cached graph nodes must be unchanged, otherwise an error is raised
        ctx.check(True, 'rejects:cached_partial_structure_change')
        ctx.event('cached_partial_rejection:' + type(t_err).__name__)
        return
      ctx.check(False, 'transform_raised:' + tag, lambda: dict(case=d, error=repr(t_err)[:600]))
      return
    # cached_partial documents that cached graph nodes are cloned (only their Variables are the caller's): a structural program
    # that re-binds a cached node elsewhere legitimately binds the clone, so Module identity is not demanded there
    check_same_outcome(ctx, tag, args_e, args_t, corr, out_e, out_t, d, check_identity=not (kind == 'cached_partial' and structural))
    # caller-side structural edit between calls (forces a retrace that must see the new structure)
    if call + 1 < n_calls and rng.random() < 0.5 and kind == 'jit':
      C = __import__('vf.gen.nnx_graph', fromlist=['x']).classes()
      for args in (args_e, args_t):
        setattr(first_module(args), 'caller_added_%d' % call, C['Param'](jnp.asarray([7.0, 8.0])))
      ctx.event('caller_side_edits')
    elif call + 1 < n_calls and kind == 'jit':  # (cached_partial caches the graph definition, metadata included, by contract)
      # caller-side METADATA edit between calls: structure, shapes and dtypes stay the same, the function's result does not
      from vf.gen import nnx_graph as G2
      edited = 0
      for args in (args_e, args_t):
        for a in args:
          for _, v in G2.ref_leaves(a):
            if G2._is_var(v) and 'gain' in v.get_metadata():
              v.gain = v.get_metadata()['gain'] + 1.0
              edited += 1
      if edited:
        ctx.event('caller_side_metadata_edits')


def _same_objects(r, a):
  """Graph nodes and Variables keep their identity; plain containers have value semantics (same keys, same member objects)."""
  if isinstance(a, dict):
    return isinstance(r, dict) and set(r) == set(a) and all(_same_objects(r[k], a[k]) for k in a)  # jax sorts dict keys
  if isinstance(a, (list, tuple)):
    return type(r) is type(a) and len(r) == len(a) and all(_same_objects(x, y) for x, y in zip(r, a))
  return r is a


def case_control_flow(ctx, rng, kind, desc_base):
  from flax import nnx
  import jax.numpy as jnp
  specs, alias = gen_specs(rng)
  if kind in ('while_loop', 'fori_loop') and alias not in ('none', 'var_first', 'dict_first', 'var_last', 'dict_last'):
    alias = 'none'
  desc = dict(desc_base, alias=alias)
  x = jnp.asarray([0.5, -1.0])
  args_e, args_t = build_args(specs, alias), build_args(specs, alias)
  corr = correspondence(args_e, args_t)
  if not any(var_paths(a) for a in args_e):
    from vf import core
    raise core.CaseSkip('no variables')
  if alias != 'none':
    ctx.event('aliased_argument_cases')
  progs = [gen_program(rng, specs, alias, rng.randint(1, 4), False, 'scalar') for _ in range(3)]
  if kind == 'cond':
    pred = rng.random() < 0.5
    desc.update(pred=pred, programs=[p for p, _ in progs[:2]])
    out_e = run_program(progs[0][0] if pred else progs[1][0], ('scalar',), args_e, x)
    tb = lambda *a: run_program(progs[0][0], ('scalar',), list(a[:-1]), a[-1])
    fb = lambda *a: run_program(progs[1][0], ('scalar',), list(a[:-1]), a[-1])
    out_t = nnx.cond(jnp.asarray(pred), tb, fb, *args_t, x)
  elif kind == 'switch':
    idx = rng.randrange(3)
    desc.update(index=idx, programs=[p for p, _ in progs])
    out_e = run_program(progs[idx][0], ('scalar',), args_e, x)
    branches = [(lambda *a, _p=p: run_program(_p, ('scalar',), list(a[:-1]), a[-1])) for p, _ in progs]
    out_t = nnx.switch(jnp.asarray(idx), branches, *args_t, x)
  elif kind == 'while_loop':
    trips = rng.randint(0, 3)
    desc.update(trips=trips, program=progs[0][0])
    out_e = None
    cnt = trips
    while cnt > 0:
      run_program(progs[0][0], ('scalar',), args_e, x)
      cnt -= 1

    def body(val):
      *gs, c, xx = val
      run_program(progs[0][0], ('scalar',), list(gs), xx)
      return (*gs, c - 1, xx)

    res = nnx.while_loop(lambda val: val[-2] > 0, body, (*args_t, jnp.asarray(trips), x))
    # the loop returns the caller's objects
    for a, r in zip(args_t, res[:len(args_t)]):
      ctx.check(_same_objects(r, a), 'identity:loop_result_is_a_copy:' + kind, lambda: dict(case=desc))
    out_t = None
  else:  # fori_loop
    lo, n = rng.randint(0, 2), rng.randint(0, 3)
    unroll = rng.choice([None, 1, 2, True]) if n > 0 else None
    desc.update(lower=lo, upper=lo + n, unroll=unroll, program=progs[0][0])
    for i in range(lo, lo + n):
      run_program(progs[0][0], ('scalar',), args_e, x + i)

    def body(i, val):
      *gs, xx = val
      run_program(progs[0][0], ('scalar',), list(gs), xx + i)
      return (*gs, xx)

    res = nnx.fori_loop(lo, lo + n, body, (*args_t, x), unroll=unroll)
    for a, r in zip(args_t, res[:len(args_t)]):
      ctx.check(_same_objects(r, a), 'identity:loop_result_is_a_copy:' + kind, lambda: dict(case=desc))
    out_e = out_t = None
  ctx.op('nnx.' + kind)
  check_same_outcome(ctx, kind, args_e, args_t, corr, out_e if out_e is not None else 0.0, out_t if out_t is not None else 0.0, desc)


def case_rejections(ctx, rng, kind, desc_base):
  """Structure changes inside loop bodies / inconsistent branches must be rejected with an error, never silently mis-handled."""
  from flax import nnx
  import jax.numpy as jnp
  from vf.gen import nnx_graph as G
  C = G.classes()
  m = C['A']()
  m.w = C['Param'](jnp.ones(2))
  x = jnp.ones(2)
  if kind == 'while_loop':
    def body(val):
      mm, c = val
      mm.extra = C['Param'](jnp.zeros(2))
      return mm, c - 1
    call = lambda: nnx.while_loop(lambda v: v[1] > 0, body, (m, jnp.asarray(2)))
  elif kind == 'fori_loop':
    def body(i, mm):
      mm.extra = C['Param'](jnp.zeros(2))
      return mm
    call = lambda: nnx.fori_loop(0, 2, body, m)
  else:  # cond with one branch changing structure
    def tb(mm):
      mm.extra = C['Param'](jnp.zeros(2))
      return jnp.sum(mm.w.value)
    fb = lambda mm: jnp.sum(mm.w.value)
    call = lambda: nnx.cond(jnp.asarray(True), tb, fb, m)
  try:
    call()
    raised = None
  except Exception as e:  # noqa: BLE001
    raised = e
  ctx.op('nnx.%s(structure change)' % kind)
  ctx.check(raised is not None, 'rejects:structure_change_accepted:' + kind, lambda: dict(case=desc_base, state=repr(G.canon(m))[:300]))


def case_raw_array_attr(ctx, i, kind):
  """Modules that hold a raw jax array as a plain attribute (no Variable) next to their Variables: the function reads the array,
  updates a Variable with it and re-binds the attribute; the caller's objects end up as after the eager run."""
  import jax.numpy as jnp
  from flax import nnx

  class M(nnx.Module):
    def __init__(self, k):
      self.w = nnx.Param(jnp.asarray([1.0, 2.0]) * (k + 1))
      self.buf = jnp.asarray([0.5, -1.0])
      self.sub = Sub(k)

  class Sub(nnx.Module):
    def __init__(self, k):
      self.b = nnx.BatchStat(jnp.zeros(2))
      self.offset = jnp.full((2,), float(k))

  rebind = (i // 3) % 2 == 1

  def f(m, x):
    m.w.value = m.w.value + m.buf * x
    m.sub.b.value = m.sub.b.value + m.sub.offset
    if rebind:
      m.buf = m.buf * 2.0
    return m.w.value.sum() + m.sub.offset.sum()

  desc = dict(transform=kind, rebind_array_attribute=rebind, calls=1 + i % 2)
  with ctx.case('raw_array_attr', i, desc, nontrivial=True):
    me, mt = M(i), M(i)
    x = jnp.asarray(2.0)
    if kind == 'jit':
      g = lambda m, x: nnx.jit(f)(m, x)
    elif kind == 'remat':
      g = lambda m, x: nnx.remat(f)(m, x)
    else:
      cp_holder = {}

      def g(m, x):
        if 'fn' not in cp_holder:
          cp_holder['fn'] = nnx.cached_partial(nnx.jit(f), m)
        return cp_holder['fn'](x)
    for c in range(desc['calls']):
      oe = f(me, x)
      try:
        ot = g(mt, x)
      except Exception as e:  # noqa: BLE001
        ctx.check(False, 'raw_array_attr:%s_raises' % kind, dict(case=desc, call=c, error=repr(e)[:300]))
        return
      ctx.op('nnx.%s(module with raw array attribute)' % kind)
      same = lambda a, b: bool(np.allclose(np.asarray(a), np.asarray(b)))  # noqa: E731
      ctx.check(same(oe, ot), 'raw_array_attr:output', lambda: dict(case=desc, call=c))
      ctx.check(same(me.w.value, mt.w.value) and same(me.sub.b.value, mt.sub.b.value), 'raw_array_attr:variable_values', lambda: dict(case=desc, call=c))
      ctx.check(same(me.buf, mt.buf) and same(me.sub.offset, mt.sub.offset), 'raw_array_attr:attribute_value',
                lambda: dict(case=desc, call=c, eager=np.asarray(me.buf).tolist(), transformed=np.asarray(mt.buf).tolist()))


def case_cached_partial_plain_fn(ctx, i):
  """cached_partial around a function that is not an NNX transform is rejected - and the rejection leaves nothing behind: the next,
  unrelated nnx.jit call in the same thread behaves like its eager run."""
  import jax.numpy as jnp
  from flax import nnx
  from flax.nnx import graph

  class M(nnx.Module):
    def __init__(self, k):
      self.w = nnx.Param(jnp.asarray([1.0, 2.0]) + k)

  with ctx.case('cached_partial_plain_fn', i, dict(i=i), nontrivial=True):
    a = M(0)
    raised = False
    try:
      if i % 2 == 0:
        nnx.cached_partial(lambda m, x: x, a)(1.0)          # no transform consumes the cache
      else:
        def boom(m, x):
          raise KeyError('user error before any transform runs')
        nnx.cached_partial(boom, a)(1.0)
    except (ValueError, KeyError):
      raised = True
    ctx.op('nnx.cached_partial(plain function)')
    ctx.check(raised, 'cached_partial_plain_fn:accepted', None)
    ctx.check(graph.GRAPH_CONTEXT.tmp_static_cache is None, 'context_leak:static_cache_left_installed', dict(i=i))
    # an unrelated call afterwards
    def f(m, x):
      m.w.value = m.w.value * x
      m.extra = nnx.Param(x + 1.0)
      return m.w.value.sum()
    # ... on the very module the rejected cached_partial was given, and on a fresh one
    be, bt = M(0), a
    if i >= 4:
      be, bt = M(3), M(3)
    oe = f(be, jnp.asarray(2.0))
    try:
      ot = nnx.jit(f)(bt, jnp.asarray(2.0))
      ok = bool(np.allclose(oe, ot)) and bool(np.allclose(be.w.value, bt.w.value)) and hasattr(bt, 'extra')
      err = None
    except Exception as e:  # noqa: BLE001
      ok, err = False, repr(e)[:300]
    ctx.check(ok, 'context_leak:next_call_affected', dict(i=i, error=err))
    graph.GRAPH_CONTEXT.tmp_static_cache = None   # do not let a leak reach the other streams of this worker


def case_generic_pytree_attr(ctx, i, kind):
  """Module attributes that are generic JAX pytrees holding Variables - a NamedTuple, an OrderedDict, a registered dataclass - with
  their fields NOT in alphabetical order: the function reads and updates individual fields; the caller's Variables end up as after
  the eager run (no field is confused with another)."""
  import collections
  import dataclasses
  import jax
  import jax.numpy as jnp
  from flax import nnx
  global _GP
  try:
    _GP
  except NameError:
    Affine = collections.namedtuple('Affine', ['scale', 'bias'])          # 'scale' > 'bias'

    @jax.tree_util.register_dataclass
    @dataclasses.dataclass
    class Pair:
      second: object
      first: object
    _GP = dict(Affine=Affine, Pair=Pair)
  Affine, Pair = _GP['Affine'], _GP['Pair']
  cont = ['namedtuple', 'odict', 'dataclass', 'namedtuple_sorted'][(i // 7) % 4]
  calls = 1 + (i // 28) % 2

  class M(nnx.Module):
    def __init__(self):
      a, b = nnx.Param(jnp.asarray([1.0, 2.0])), nnx.Param(jnp.asarray([10.0, 20.0]))
      if cont == 'namedtuple':
        self.c = Affine(scale=a, bias=b)
      elif cont == 'odict':
        self.c = collections.OrderedDict([('zeta', a), ('alpha', b)])
      elif cont == 'dataclass':
        self.c = Pair(second=a, first=b)
      else:
        self.c = collections.namedtuple('Sorted', ['alpha', 'beta'])(alpha=a, beta=b)   # control: alphabetical fields

  def fields(m):
    c = m.c
    if cont == 'odict':
      return c['zeta'], c['alpha']
    return tuple(c)[:2] if cont != 'dataclass' else (c.second, c.first)

  def f(m, x):
    a, b = fields(m)
    a.value = a.value * 2.0 + x        # only the FIRST declared field is scaled
    b.value = b.value - 1.0
    return a.value.sum() - b.value.sum()

  desc = dict(transform=kind, container=cont, calls=calls)
  with ctx.case('generic_pytree_attr', i, desc, nontrivial=cont != 'namedtuple_sorted'):
    me, mt = M(), M()
    x = jnp.asarray(0.5)
    if kind == 'jit':
      g = nnx.jit(f)
    elif kind == 'remat':
      g = nnx.remat(f)
    elif kind == 'cond':
      g = lambda m, x: nnx.cond(x > 0, f, lambda m, x: jnp.zeros(()), m, x)
    elif kind == 'switch':
      g = lambda m, x: nnx.switch(jnp.asarray(1), [lambda m, x: jnp.zeros(()), f], m, x)
    elif kind == 'fori_loop':
      def g(m, x):
        nnx.fori_loop(0, 1, lambda j, mx: (f(mx[0], mx[1]), mx)[1], (m, x))
        return None
    elif kind == 'while_loop':
      def g(m, x):
        nnx.while_loop(lambda c: c[2] < 1, lambda c: (f(c[0], c[1]), (c[0], c[1], c[2] + 1))[1], (m, x, jnp.asarray(0)))
        return None
    else:
      holder = {}
      def g(m, x):
        if 'fn' not in holder:
          holder['fn'] = nnx.cached_partial(nnx.jit(f), m)
        return holder['fn'](x)
    same = lambda p, q: bool(np.allclose(np.asarray(p), np.asarray(q)))  # noqa: E731
    for c in range(calls):
      oe = f(me, x)
      ot = g(mt, x)
      ctx.op('nnx.%s(module with a %s attribute)' % (kind, cont))
      if ot is not None:
        ctx.check(same(oe, ot), 'generic_pytree_attr:output', lambda: dict(case=desc, call=c, eager=float(oe), transformed=float(ot)))
      ae, be = fields(me)
      at, bt = fields(mt)
      ctx.check(same(ae.value, at.value) and same(be.value, bt.value), 'generic_pytree_attr:fields_confused',
                lambda: dict(case=desc, call=c, eager=[np.asarray(ae.value).tolist(), np.asarray(be.value).tolist()],
                             transformed=[np.asarray(at.value).tolist(), np.asarray(bt.value).tolist()]))


def case_long_list_attr(ctx, i, kind):
  """A list / tuple / int-keyed dict attribute with MANY entries (more than ten: the string forms of the positions no longer sort
  like the positions): every entry keeps its own value under every transform, also for a function that only reads."""
  import jax.numpy as jnp
  from flax import nnx
  n = [3, 11, 12, 25][(i // 6) % 4]
  cont = ['list', 'tuple', 'int_dict'][(i // 24) % 3]
  read_only = (i // 72) % 2 == 1

  class M(nnx.Module):
    def __init__(self):
      ps = [nnx.Param(jnp.asarray(float(k + 1))) for k in range(n)]
      self.ws = ps if cont == 'list' else tuple(ps) if cont == 'tuple' else {k: p for k, p in enumerate(ps)}

  def f(m, x):
    tot = jnp.zeros(())
    for k in range(n):
      w = m.ws[k]
      if not read_only:
        w.value = w.value + x * (k + 1)
      tot = tot + w.value * (k + 1)
    return tot

  desc = dict(transform=kind, entries=n, container=cont, read_only=read_only)
  with ctx.case('long_list_attr', i, desc, nontrivial=n > 10):
    me, mt = M(), M()
    x = jnp.asarray(0.5)
    if kind == 'jit':
      g = nnx.jit(f)
    elif kind == 'remat':
      g = nnx.remat(f)
    elif kind == 'cond':
      g = lambda m, x: nnx.cond(x > 0, f, lambda m, x: jnp.zeros(()), m, x)
    elif kind == 'switch':
      g = lambda m, x: nnx.switch(jnp.asarray(1), [lambda m, x: jnp.zeros(()), f], m, x)
    elif kind == 'fori_loop':
      def g(m, x):
        nnx.fori_loop(0, 1, lambda j, mx: (f(mx[0], mx[1]), mx)[1], (m, x))
        return None
    else:
      def g(m, x):
        nnx.while_loop(lambda c: c[2] < 1, lambda c: (f(c[0], c[1]), (c[0], c[1], c[2] + 1))[1], (m, x, jnp.asarray(0)))
        return None
    oe, ot = f(me, x), g(mt, x)
    ctx.op('nnx.%s(module with a %d-entry %s attribute)' % (kind, n, cont))
    if ot is not None:
      ctx.check(bool(np.allclose(np.asarray(oe), np.asarray(ot))), 'long_list_attr:output', lambda: dict(case=desc, eager=float(oe), transformed=float(ot)))
    ve = [float(me.ws[k].value) for k in range(n)]
    vt = [float(mt.ws[k].value) for k in range(n)]
    ctx.check(np.allclose(ve, vt), 'long_list_attr:entries_permuted', lambda: dict(case=desc, eager=ve, transformed=vt))


def run(ctx):
  from flax.nnx import graph
  for i, kind in ctx.items(['jit', 'remat', 'cond', 'switch', 'fori_loop', 'while_loop'] * 24, 'long_list_attr'):
    case_long_list_attr(ctx, i, kind)
  for i, kind in ctx.items(['jit', 'remat', 'cond', 'switch', 'fori_loop', 'while_loop', 'cached_partial'] * 8, 'generic_pytree_attr'):
    case_generic_pytree_attr(ctx, i, kind)
  for i in ctx.indices(6, 'cached_partial_plain_fn'):
    case_cached_partial_plain_fn(ctx, i)
  for i, kind in ctx.items(['jit', 'remat', 'cached_partial'] * 4, 'raw_array_attr'):
    case_raw_array_attr(ctx, i, kind)
  n = 1000 if ctx.tier == 'quick' else 8000
  kinds = ['jit', 'jit', 'jit', 'remat', 'cached_partial', 'cond', 'switch', 'while_loop', 'fori_loop', 'jit']
  for i in ctx.indices(n, 'case'):
    rng = ctx.rng('case', i)
    kind = kinds[i % len(kinds)]
    base = dict(transform=kind, i=i)
    with ctx.case('case', i, base, nontrivial=True):
      if kind in ('jit', 'remat', 'cached_partial'):
        case_jit_like(ctx, rng, kind, base)
      else:
        case_control_flow(ctx, rng, kind, base)
      gc = graph.GRAPH_CONTEXT
      ctx.check(not gc.update_context_stacks and not gc.ref_index_stack and not gc.index_ref_stack and gc.tmp_static_cache is None, 'context_leak', None)
  for i, kind in ctx.items(['while_loop', 'fori_loop', 'cond'] * 2, 'reject'):
    with ctx.case('reject', i, dict(transform=kind, i=i), nontrivial=True):
      case_rejections(ctx, ctx.rng('reject', i), kind, dict(transform=kind))
