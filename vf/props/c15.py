"""C15 — FrozenDict and struct dataclasses are immutable values and faithful pytrees.

Monitor shape: icontract class invariant on the real FrozenDict ("contents equal the snapshot taken when the harness
registered the instance", evaluated after every public method, including calls flax makes internally) + history driver with an
aliasing probe (after each API call every mutable dict reachable from the returned value and from the source is poisoned in
place, then all live FrozenDicts are re-checked against their golden copies); relational oracles for struct dataclasses."""
import dataclasses
import itertools
import pickle

import numpy as np

LEVEL = 'exploration'
LEVEL_TEXT = ('Seeded histories (length <= 8, thorough <= 12) of every public FrozenDict API (construct/freeze from dicts at any '
              'nesting, from FrozenDicts, unfreeze, copy, pop, indexing, items/values/keys, pretty_repr, pytree flatten/unflatten/'
              'tree_map, pickle, hash/eq under permuted insertion order, rejected mutators) interleaved with in-place poisoning of the '
              'source dicts and of everything the API returned; an icontract invariant on the real class plus an end-of-step sweep '
              'compare every live FrozenDict with its golden copy. Small-scope: all nested dict shapes with <= 4 keys. struct: '
              'generated field layouts (1-5 fields x static masks x defaults x inheritance) through setattr/replace/tree_util/jit '
              'trace counting/vmap/grad.'
              ' Further streams: struct.field metadata dicts shared between fields, Mapping-typed copy arguments, dicts'
              ' nested inside list / tuple values (known finding K4).'
              ' Round e/f: pytree_protocol (K10), replace() with empty / several-field updates and frozen=False snapshots.'
              ' Round g: dict subclasses nested in the sources.')
LEVEL_NOTE = ('Non-dict leaves (lists, arrays) are opaque to FrozenDict by design and are never mutated by the probe; '
              'tree_unflatten(__unsafe_skip_copy__) on caller-supplied dict children is outside the listed APIs.')
TECHNIQUE = 'runtime monitoring: icontract class invariant + history driver with aliasing (poison) probe; relational oracles for struct pytrees'
RULE = ('history = sequence of (op, operand index, args) over a pool of live FrozenDicts, generated from seed; nested dict shapes '
        'enumerated exhaustively up to 4 keys for the construct/poison/unfreeze core. distinct = distinct (shape, op sequence); '
        'non-trivial = at least one nested dict and >= 3 ops. struct: (n_fields, static mask, defaults mask, inheritance depth).')
ASSUMPTIONS = ['icontract evaluates invariants after public methods of the decorated class', 'vf.compat JAX aliases are faithful']
PLAN = {'quick': dict(workers=3, timeout_s=900), 'thorough': dict(workers=12, timeout_s=3000)}
MIN_EVENTS = {'quick': {'invariant_evaluations': 2000, 'oracle:golden': 2000, 'oracle:struct.frozen': 50, 'oracle:struct.retrace': 30,
                        'poisoned_dicts': 500},
              'thorough': {'invariant_evaluations': 40000, 'oracle:golden': 40000}}


class InvariantBroken(Exception):
  pass


# ---------------------------------------------------------------------------------------------
# golden copies


def golden(x):
  """Independent deep copy through the public API only."""
  from collections.abc import Mapping
  if isinstance(x, Mapping):
    return {k: golden(x[k]) for k in x}
  if isinstance(x, np.ndarray):
    return ('arr', x.dtype.str, x.shape, x.tobytes())
  if isinstance(x, (list, tuple)):
    return (type(x).__name__, tuple(golden(v) for v in x))  # opaque leaf: compared by value
  return x


def gen_source(rng, depth, counter):
  """Nested plain dict, optionally with FrozenDict sub-trees; returns (obj, has_nested)."""
  from flax.core import FrozenDict
  n = rng.randint(0, 3) if depth > 0 else rng.randint(1, 3)
  d = {}
  for k in rng.sample(['a', 'b', 'c', 'k1', 'z', '0', 'a/b'], n):
    r = rng.random()
    counter[0] += 1
    if depth > 0 and r < 0.45:
      sub = gen_source(rng, depth - 1, counter)
      r2 = rng.random()
      if r2 < 0.25:
        d[k] = FrozenDict(sub)
      elif r2 < 0.40:
        # a dict SUBCLASS from the caller (config loaders hand out OrderedDict / defaultdict): a mutable nested dict like any other
        import collections
        d[k] = collections.OrderedDict(sub) if r2 < 0.33 else collections.defaultdict(dict, sub)
      else:
        d[k] = sub
    elif r < 0.6:
      d[k] = counter[0]
    elif r < 0.7:
      d[k] = 's%d' % counter[0]
    elif r < 0.8:
      d[k] = (counter[0], 'tup')
    elif r < 0.9:
      d[k] = np.arange(counter[0] % 3 + 1)
    else:
      d[k] = rng.choice([[counter[0]], [counter[0], [counter[0] + 1]], ([counter[0]], 'in-tuple')])
  return d


def poison(ctx, x, _seen=None):
  """Mutate in place every plain dict reachable from x (through dicts, lists, tuples). Never touches list/array contents."""
  from flax.core import FrozenDict
  if _seen is None:
    _seen = set()
  if id(x) in _seen:
    return
  _seen.add(id(x))
  if isinstance(x, FrozenDict):
    return
  if isinstance(x, dict):
    for v in list(x.values()):
      poison(ctx, v, _seen)
    for k in list(x.keys()):
      x[k] = 'POISON'
    x['__poison__'] = True
    ctx.event('poisoned_dicts')
  elif isinstance(x, (list, tuple)):
    for v in x:
      if isinstance(v, (dict, list, tuple)):
        poison(ctx, v, _seen)


def poison_lists(x, _seen=None):
  """Mutate in place every list reachable from x (used only on results of unfreeze, a documented deep copy)."""
  if _seen is None:
    _seen = set()
  if id(x) in _seen:
    return
  _seen.add(id(x))
  if isinstance(x, dict):
    for v in list(x.values()):
      poison_lists(v, _seen)
  elif isinstance(x, list):
    for v in list(x):
      poison_lists(v, _seen)
    x.append('POISON')
  elif isinstance(x, tuple):
    for v in x:
      poison_lists(v, _seen)


class Pool:
  def __init__(self, ctx):
    self.ctx = ctx
    self.live = []      # (fd, golden, hashable)
    self.registry = {}  # id(fd) -> index (strong refs in self.live keep ids unique)

  def add(self, fd):
    g = golden(fd)
    try:
      h = hash(fd)
    except TypeError:
      h = None
    self.live.append((fd, g, h))
    self.registry[id(fd)] = len(self.live) - 1
    return fd

  def sweep(self, when):
    for fd, g, h in self.live:
      now = golden(fd)
      ok = _geq(now, g)
      self.ctx.check(ok, 'golden:contents_changed', lambda: dict(when=when, was=repr(g)[:300], now=repr(now)[:300]))
      if h is not None:
        # _hash is cached; recompute through a fresh equal instance
        from flax.core import FrozenDict
        self.ctx.check(hash(FrozenDict(fd.unfreeze())) == h and hash(fd) == h, 'golden:hash_changed', lambda: dict(when=when))


def _geq(a, b):
  if isinstance(a, dict) and isinstance(b, dict):
    return set(a.keys()) == set(b.keys()) and len(a) == len(b) and all(_geq(a[k], b[k]) for k in a)
  if isinstance(a, dict) or isinstance(b, dict):
    return False
  return type(a) is type(b) and a == b


def install_invariant(ctx, pool_ref):
  """icontract class invariant on the real FrozenDict; only harness-registered instances are compared."""
  import icontract
  from flax.core import frozen_dict

  def contents_unchanged(self):
    ctx.event('invariant_evaluations')
    pool = pool_ref[0]
    if pool is None:
      return True
    idx = pool.registry.get(id(self))
    if idx is None or pool.live[idx][0] is not self:
      return True
    ctx.event('invariant_evaluations_registered')
    return _geq(golden(self), pool.live[idx][1])

  icontract.invariant(contents_unchanged, error=InvariantBroken)(frozen_dict.FrozenDict)


# ---------------------------------------------------------------------------------------------
# FrozenDict histories


def run_history(ctx, rng, n_ops, pool_ref):
  import jax
  from flax.core import FrozenDict, frozen_dict as fdm
  from flax import core as fcore
  pool = Pool(ctx)
  pool_ref[0] = pool
  counter = [0]
  ops_done = []

  def new_from_source(via):
    src = gen_source(rng, rng.randint(1, 3), counter)
    form = rng.random()
    kw = {}
    if via == 'ctor' and form < 0.35:
      # dict()-style constructor forms: positional mapping (plain or frozen) plus keyword entries, or keywords only
      kw = {k: v for k, v in gen_source(rng, rng.randint(1, 2), counter).items() if k.isidentifier()}
      pos = src if form < 0.12 else (FrozenDict(src) if form < 0.27 else None)
      fd = FrozenDict(**kw) if pos is None else FrozenDict(pos, **kw)
    else:
      fd = FrozenDict(src) if via == 'ctor' else fcore.freeze(src)
    pool.add(fd)
    poison(ctx, src)  # mutate the source at every nesting level
    poison(ctx, kw)
    return fd

  new_from_source('ctor')
  for step in range(n_ops):
    op = rng.choice(['ctor', 'freeze', 'from_fd', 'unfreeze', 'unfreeze_fn', 'copy', 'copy_fn', 'pop', 'pop_fn', 'getitem', 'iterate',
                     'repr', 'pytree', 'pickle', 'mutators', 'eq_hash', 'nested_in_dict'])
    fd = rng.choice(pool.live)[0]
    ops_done.append(op)
    ctx.op('FrozenDict.' + op)
    try:
      if op in ('ctor', 'freeze'):
        new_from_source(op)
      elif op == 'from_fd':
        pool.add(FrozenDict(fd))
      elif op == 'nested_in_dict':
        src = {'outer': fd, 'plain': {'x': {'y': 1}}}
        new = pool.add(FrozenDict(src))
        poison(ctx, src)
      elif op in ('unfreeze', 'unfreeze_fn'):
        u = fd.unfreeze() if op == 'unfreeze' else fcore.unfreeze(fd)
        ctx.check(isinstance(u, dict) and _geq(golden(u), golden(fd)), 'api:unfreeze_differs', None)
        # unfreeze documents a deep, mutable copy: list leaves of the result may be mutated freely as well
        poison_lists(u)
        poison(ctx, u)
      elif op in ('copy', 'copy_fn'):
        add = gen_source(rng, rng.randint(0, 2), counter)
        inner_src = add
        r_kind = rng.random()
        if r_kind < 0.3:
          add = FrozenDict(add)
        elif r_kind < 0.55:
          # copy() is typed `Mapping`: read-only views and other Mapping classes around a plain (nested) dict the caller still owns
          import collections
          import types
          add = rng.choice([types.MappingProxyType, lambda d_: collections.ChainMap(d_), collections.UserDict, collections.OrderedDict])(add)
        want = dict(golden(fd))
        want.update(golden(add))
        new = fd.copy(add) if op == 'copy' else fdm.copy(fd, add)
        ctx.check(isinstance(new, FrozenDict) and _geq(golden(new), want), 'api:copy_wrong', lambda: dict(want=repr(want)[:200], got=repr(golden(new))[:200]))
        pool.add(new)
        poison(ctx, add)
        poison(ctx, inner_src)   # the dict behind a view / wrapper
      elif op in ('pop', 'pop_fn'):
        if len(fd):
          k = rng.choice(list(fd.keys()))
          new, val = fd.pop(k) if op == 'pop' else fdm.pop(fd, k)
          want = {kk: v for kk, v in golden(fd).items() if kk != k}
          ctx.check(isinstance(new, FrozenDict) and _geq(golden(new), want) and _geq(golden(val), golden(fd)[k]), 'api:pop_wrong', None)
          pool.add(new)
          if isinstance(val, FrozenDict):
            pool.add(val)
          poison(ctx, val)
      elif op == 'getitem':
        for k in list(fd.keys()):
          v = fd[k]
          ctx.check(not isinstance(v, dict), 'api:getitem_returned_plain_dict', lambda: dict(key=repr(k)))
          poison(ctx, v)
      elif op == 'iterate':
        for k, v in fd.items():
          ctx.check(not isinstance(v, dict), 'api:items_returned_plain_dict', None)
          poison(ctx, v)
        for v in fd.values():
          poison(ctx, v)
        list(fd.keys()); len(fd); iter(fd)
      elif op == 'repr':
        r = fd.pretty_repr()
        r2 = fdm.pretty_repr(fd)
        ctx.check(r == r2 == repr(fd) and r.startswith('FrozenDict('), 'api:repr', None)
      elif op == 'pytree':
        has_opaque = _has_kind(fd, list)
        if not has_opaque:
          leaves, td = jax.tree_util.tree_flatten(fd)
          back = jax.tree_util.tree_unflatten(td, leaves)
          ctx.check(isinstance(back, FrozenDict) and _geq(_sorted_g(golden(back)), _sorted_g(golden(fd))), 'pytree:roundtrip', None)
          m = jax.tree_util.tree_map(lambda x: x, fd)
          ctx.check(isinstance(m, FrozenDict) and _geq(_sorted_g(golden(m)), _sorted_g(golden(fd))), 'pytree:tree_map', None)
          pool.add(back)
          pool.add(m)
      elif op == 'pickle':
        back = pickle.loads(pickle.dumps(fd))
        ctx.check(isinstance(back, FrozenDict) and _geq(_sorted_g(golden(back)), _sorted_g(_relist(golden(fd), back))), 'pickle:roundtrip', None)
      elif op == 'mutators':
        for name, fn in (('setitem', lambda: fd.__setitem__('a', 1)), ('delitem', lambda: fd.__delitem__('a')),
                         ('setattr', lambda: setattr(fd, 'newattr', 1)), ('update', lambda: fd.update({'q': 1})),
                         ('clear', lambda: fd.clear()), ('setdefault', lambda: fd.setdefault('q', 1)),
                         ('popitem', lambda: fd.popitem())):
          try:
            fn()
            raised = False
          except (ValueError, TypeError, AttributeError, KeyError):
            raised = True
          ctx.check(raised, 'api:mutator_accepted:' + name, None)
      elif op == 'eq_hash':
        u = fd.unfreeze()
        if not _has_kind(fd, (np.ndarray, list)):
          perm = _permute(u, rng)
          other = FrozenDict(perm)
          ctx.check(other == fd and fd == other and hash(other) == hash(fd), 'eq_hash:order_dependent', lambda: dict(a=repr(fd)[:200], b=repr(other)[:200]))
          # a changed leaf makes them unequal
          if len(u):
            k = rng.choice(list(u.keys()))
            u2 = dict(u); u2[k] = 'different'
            ctx.check(FrozenDict(u2) != fd, 'eq_hash:unequal_contents_equal', None)
    except InvariantBroken as e:
      ctx.violation('invariant:contents_changed_by_method', dict(op=op, error=str(e)[:300]))
    try:
      pool.sweep('after %s (step %d)' % (op, step))
    except InvariantBroken as e:
      ctx.violation('invariant:contents_changed_by_method', dict(op=op, error=str(e)[:300], when='sweep'))
  pool_ref[0] = None
  return ops_done


def _has_kind(fd, kinds):
  from collections.abc import Mapping
  def walk(x):
    if isinstance(x, Mapping):
      return any(walk(x[k]) for k in x)
    if isinstance(x, kinds):
      return True
    if isinstance(x, (list, tuple)):
      return any(walk(v) for v in x)
    return False
  return walk(fd)


def _sorted_g(g):
  if isinstance(g, dict):
    return {k: _sorted_g(g[k]) for k in sorted(g, key=repr)}
  return g


def _relist(g, back):
  """pickle copies list leaves: compare them by value instead of identity."""
  from collections.abc import Mapping
  if isinstance(g, dict):
    return {k: _relist(g[k], back[k]) for k in g}
  return g


def _permute(d, rng):
  if not isinstance(d, dict):
    return d
  ks = list(d.keys())
  rng.shuffle(ks)
  return {k: _permute(d[k], rng) for k in ks}


def small_scope(ctx, pool_ref):
  """All nested dict shapes with <= 4 keys in total: construct, poison source, unfreeze+poison, index+poison, re-check."""
  from flax.core import FrozenDict

  def shapes(nkeys):
    # a shape is a tuple of children; each child is None (leaf) or a shape
    if nkeys == 0:
      return [()]
    out = []
    for first_sub in range(0, nkeys):  # keys used inside the first child
      for rest in shapes(nkeys - 1 - first_sub):
        for sub in ([None] if first_sub == 0 else []) + [s for s in shapes(first_sub)]:
          out.append((sub,) + rest)
    return out

  def build(shape, c):
    d = {}
    for i, ch in enumerate(shape):
      c[0] += 1
      d['k%d' % i] = c[0] if ch is None else build(ch, c)
    return d

  all_shapes = [s for n in range(1, 5) for s in shapes(n)]
  for i, sh in ctx.items(all_shapes, 'smallscope'):
    with ctx.case('smallscope', i, sh, nontrivial=any(c is not None for c in sh)):
      pool = Pool(ctx)
      pool_ref[0] = pool
      src = build(sh, [0])
      fd = pool.add(FrozenDict(src))
      poison(ctx, src)
      pool.sweep('source poisoned')
      u = fd.unfreeze()
      poison(ctx, u)
      pool.sweep('unfreeze poisoned')
      for k in fd:
        poison(ctx, fd[k])
      for k, v in fd.items():
        poison(ctx, v)
      pool.sweep('indexing poisoned')
      new, val = fd.pop('k0')
      pool.add(new)
      poison(ctx, val)
      c2 = pool.add(fd.copy({'extra': {'n': {'m': 1}}}))
      pool.sweep('pop/copy')
      pool_ref[0] = None
  ctx.exhaustive['frozendict.shapes<=4keys'] = True


# ---------------------------------------------------------------------------------------------
# struct dataclasses


def run_dict_in_sequence(ctx, i, rng):
  """A dict nested inside a list / tuple VALUE of the source: it is a mutable nested dict like any other, so the FrozenDict must
  neither share it with the source nor hand it out raw. Kept in its own stream (own mechanisms) - see known finding C15-dict-in-sequence."""
  from flax.core import FrozenDict, freeze, unfreeze
  kind = ['list', 'tuple', 'list_in_dict', 'tuple_of_list'][i % 4]
  via = ['FrozenDict', 'freeze'][(i // 4) % 2]
  depth = (i // 8) % 2
  desc = dict(container=kind, via=via, depth=depth)
  with ctx.case('dict_in_sequence', i, desc, nontrivial=True):
    def mk():
      inner = {'b': 1, 'c': {'d': 2}}
      seq = {'list': [inner, 7], 'tuple': (inner, 7), 'list_in_dict': [inner], 'tuple_of_list': ([inner],)}[kind]
      src = {'a': seq, 'k': 0}
      if kind == 'list_in_dict':
        src = {'a': {'x': seq}, 'k': 0}
      for _ in range(depth):
        src = {'outer': src}
      return src, inner

    def reach(obj):
      for _ in range(depth):
        obj = obj['outer']
      a = obj['a']
      if kind == 'list_in_dict':
        a = a['x']
      if kind == 'tuple_of_list':
        a = a[0]
      return a[0]

    src, inner = mk()
    fd = FrozenDict(src) if via == 'FrozenDict' else freeze(src)
    g0 = golden(fd)
    ctx.op('FrozenDict(dict inside %s)' % kind)
    # 1. mutate the source's inner dict
    inner['b'] = 'CHANGED'
    inner['c']['d'] = 'CHANGED'
    ctx.check(golden(fd) == g0, 'aliasing:dict_inside_sequence:shared_with_source', lambda: dict(case=desc, now=repr(golden(fd))[:200]))
    # 2. mutate what indexing returns
    src, inner = mk()
    fd = FrozenDict(src) if via == 'FrozenDict' else freeze(src)
    g0 = golden(fd)
    got = reach(fd)
    try:
      got['b'] = 'CHANGED'
    except Exception:  # noqa: BLE001 - an immutable view is fine
      pass
    ctx.check(golden(fd) == g0, 'aliasing:dict_inside_sequence:indexing_returns_internal_dict', lambda: dict(case=desc, returned_type=type(got).__name__))
    # 3. unfreeze gives an independent copy
    src, inner = mk()
    fd = FrozenDict(src) if via == 'FrozenDict' else freeze(src)
    g0 = golden(fd)
    u = unfreeze(fd)
    reach(u)['b'] = 'CHANGED'
    ctx.check(golden(fd) == g0, 'aliasing:dict_inside_sequence:unfreeze_shares', lambda: dict(case=desc))


def make_struct(layout):
  """layout: (n_fields, static_mask, default_mask, inherit) -> class, field names, static names."""
  from flax import struct
  n, smask, dmask, inherit = layout[:4]
  # metadata passed to struct.field: 0 none, 1 a literal dict per field, 2 ONE dict object reused by every field (a module-level
  # DOC = {...} constant) - the pytree_node flag of one field must not leak into another through it
  meta_mode = layout[4] if len(layout) > 4 else 0
  shared_meta = {'doc': 'shared'}
  meta = lambda: {} if meta_mode == 0 else (dict(metadata={'doc': 'own'}) if meta_mode == 1 else dict(metadata=shared_meta))  # noqa: E731
  ann, ns, statics = {}, {}, []
  # fields without defaults must precede fields with defaults
  order = sorted(range(n), key=lambda i: (dmask >> i) & 1)
  names = []
  for i in order:
    name = 'f%d' % i
    names.append(name)
    static = (smask >> i) & 1
    has_default = (dmask >> i) & 1
    ann[name] = object
    if static:
      statics.append(name)
      ns[name] = struct.field(pytree_node=False, default='d%d' % i, **meta()) if has_default else struct.field(pytree_node=False, **meta())
    elif has_default:
      ns[name] = struct.field(default=float(i), **meta())
    elif meta_mode:
      ns[name] = struct.field(**meta())
  ns['__annotations__'] = ann
  if inherit == 0:
    cls = struct.dataclass(type('S', (), ns))
  else:
    cls = type('P', (struct.PyTreeNode,), ns)
    for lvl in range(inherit - 1):
      extra = 'e%d' % lvl
      cls = type('P%d' % lvl, (cls,), {'__annotations__': {extra: object}, extra: struct.field(default=float(100 + lvl), **meta())})
      names.append(extra)
  return cls, names, statics


def run_struct(ctx, i, layout, rng):
  import jax
  import jax.numpy as jnp
  cls, names, statics = make_struct(layout)
  data_names = [n for n in names if n not in statics]
  vals = {}
  for n in names:
    vals[n] = ('static-%s' % n) if n in statics else jnp.asarray(float(rng.randint(1, 9)))
  inst = cls(**vals)
  ctx.op('struct.construct')
  # frozen
  for n in names[:2] + ['brand_new']:
    try:
      setattr(inst, n, 1)
      ok = False
    except dataclasses.FrozenInstanceError:
      ok = True
    except AttributeError:
      ok = n == 'brand_new'
    ctx.check(ok, 'struct.frozen', lambda: dict(field=n, layout=layout))
  try:
    delattr(inst, names[0]); ok = False
  except (dataclasses.FrozenInstanceError, AttributeError):
    ok = True
  ctx.check(ok, 'struct.frozen', dict(op='delattr'))
  # replace
  for n in names:
    newv = 'replaced' if n in statics else jnp.asarray(42.0)
    r = inst.replace(**{n: newv})
    ctx.op('struct.replace')
    ok = type(r) is cls and r is not inst and getattr(r, n) is newv
    ok = ok and all(getattr(r, m) is getattr(inst, m) for m in names if m != n)
    ok = ok and all(getattr(inst, m) is vals[m] for m in names)
    ctx.check(ok, 'struct.replace', lambda: dict(field=n, layout=layout))
  # replace() with no / several named fields: always a NEW instance, every unnamed field carried over
  for sub in ([], names[:2], names):
    upd = {n: ('replaced' if n in statics else jnp.asarray(43.0)) for n in sub}
    r = inst.replace(**upd)
    ok = type(r) is cls and r is not inst and all(getattr(r, m) is (upd[m] if m in upd else getattr(inst, m)) for m in names)
    ctx.check(ok, 'struct.replace:field_subset', lambda: dict(fields=sub, layout=layout, same_object=r is inst))
  if len(layout) <= 4 and layout[3] == 0:
    # the non-default frozen=False spelling: a snapshot taken with replace() must not follow later in-place assignments
    from flax import struct
    live_cls = struct.dataclass(type('Live', (), {'__annotations__': {'count': object, 'tag': object}, 'tag': struct.field(pytree_node=False, default='t')}), frozen=False)
    live = live_cls(count=0)
    snaps = []
    for k in range(3):
      snaps.append(live.replace())
      live.count = live.count + 1
    ctx.op('struct.replace(frozen=False)')
    ctx.check([s_.count for s_ in snaps] == [0, 1, 2] and live.count == 3, 'struct.replace:snapshot_aliases_original',
              lambda: dict(snapshots=[s_.count for s_ in snaps]))
  # leaves are exactly the data fields, in declaration order
  leaves, td = jax.tree_util.tree_flatten(inst)
  want = [vals[n] for n in [f.name for f in dataclasses.fields(cls)] if n not in statics]
  ctx.check(len(leaves) == len(want) and all(a is b for a, b in zip(leaves, want)), 'struct.leaves', lambda: dict(layout=layout, n=len(leaves)))
  back = jax.tree_util.tree_unflatten(td, leaves)
  ctx.check(type(back) is cls and all(getattr(back, n) is vals[n] or getattr(back, n) == vals[n] for n in names), 'struct.unflatten', None)
  # static fields live in the treedef
  if statics:
    other = inst.replace(**{statics[0]: 'other'})
    ctx.check(jax.tree_util.tree_structure(other) != td, 'struct.static_not_in_treedef', None)
  if data_names:
    other = inst.replace(**{data_names[0]: jnp.asarray(7.0)})
    ctx.check(jax.tree_util.tree_structure(other) == td, 'struct.data_in_treedef', None)
  # tree_map / jit / vmap / grad reconstruct the class with the same static fields
  def same_static(x):
    return type(x) is cls and all(getattr(x, s) == vals[s] for s in statics)
  m = jax.tree_util.tree_map(lambda x: x + 1, inst)
  ctx.check(same_static(m) and all(float(getattr(m, n)) == float(vals[n]) + 1 for n in data_names), 'struct.tree_map', None)
  traces = [0]

  @jax.jit
  def f(s):
    traces[0] += 1
    return jax.tree_util.tree_map(lambda x: x * 2, s)

  out = f(inst)
  ctx.op('struct.jit')
  ctx.check(same_static(out) and all(float(getattr(out, n)) == 2 * float(vals[n]) for n in data_names), 'struct.jit', None)
  t0 = traces[0]
  if data_names:
    f(inst.replace(**{data_names[0]: jnp.asarray(99.0)}))
    ctx.check(traces[0] == t0, 'struct.retrace:data_field_forced_retrace', lambda: dict(traces=traces[0], before=t0))
  if statics:
    t1 = traces[0]
    f(inst.replace(**{statics[-1]: 'changed'}))
    ctx.check(traces[0] == t1 + 1, 'struct.retrace:static_change_not_retraced', lambda: dict(traces=traces[0], before=t1))
  if data_names:
    batched = jax.tree_util.tree_map(lambda x: jnp.stack([x, x + 1, x + 2]), inst)
    v = jax.vmap(lambda s: jax.tree_util.tree_map(lambda x: x * 3, s))(batched)
    ctx.op('struct.vmap')
    ctx.check(same_static(v) and all(np.allclose(np.asarray(getattr(v, n)), 3 * (float(vals[n]) + np.arange(3))) for n in data_names), 'struct.vmap', None)
    g = jax.grad(lambda s: sum(jnp.sum(x ** 2) for x in jax.tree_util.tree_leaves(s)))(inst)
    ctx.op('struct.grad')
    ctx.check(same_static(g) and all(np.allclose(float(getattr(g, n)), 2 * float(vals[n])) for n in data_names), 'struct.grad', None)


def run_pytree_protocol(ctx, i, rng):
  """The pytree protocol as a way in: tree functions with is_leaf hand out the children a FrozenDict flattens to, and tree_map /
  tree_unflatten build a FrozenDict from values the caller still holds. Neither may make a FrozenDict change afterwards.
  Own stream and mechanisms - see known finding C15-pytree-protocol-aliasing."""
  import jax
  from flax.core import FrozenDict, freeze
  depth = 1 + i % 3
  via = ['FrozenDict', 'freeze'][(i // 3) % 2]
  desc = dict(depth=depth, via=via)
  with ctx.case('pytree_protocol', i, desc, nontrivial=True):
    def mk():
      src = {'w': 1, 'sub': {'x': 2}}
      for k in range(depth - 1):
        src = {'p%d' % k: src, 'n': k}
      return FrozenDict(src) if via == 'FrozenDict' else freeze(src)
    # 1. what flatten hands to is_leaf / returns as leaves
    fd = mk()
    g0 = golden(fd)
    h0 = hash(fd)
    leaves = jax.tree_util.tree_leaves(fd, is_leaf=lambda x: isinstance(x, dict))
    ctx.op('tree_leaves(FrozenDict, is_leaf=dict)')
    poison(ctx, leaves)
    ctx.check(golden(fd) == g0 and hash(FrozenDict(fd.unfreeze())) == h0, 'pytree_protocol:flatten_hands_out_internal_dict',
              lambda: dict(case=desc, now=repr(golden(fd))[:200]))
    # 2. a FrozenDict built by tree_map from a dict the caller keeps
    fd = mk()
    shared = {'lr': 0.1, 'opt': {'b1': 0.9}}
    built = jax.tree_util.tree_map(lambda _: shared, fd)
    ctx.op('tree_map(-> dict, FrozenDict)')
    g0 = golden(built)
    h0 = hash(built)
    shared['lr'] = 'CHANGED'
    shared['opt']['b1'] = 'CHANGED'
    ctx.check(golden(built) == g0, 'pytree_protocol:unflatten_shares_leaf_dict', lambda: dict(case=desc, now=repr(golden(built))[:200]))
    ctx.check(hash(built) == h0 == hash(FrozenDict(built.unfreeze())), 'pytree_protocol:unflatten_shares_leaf_dict', lambda: dict(case=desc, what='hash of an equal value differs'))
    # control: fresh dicts per leaf, nobody else holds them
    built2 = jax.tree_util.tree_map(lambda v: {'v': v}, mk())
    ctx.check(isinstance(built2, FrozenDict) and isinstance(built2['w' if depth == 1 else 'n'], FrozenDict), 'pytree:tree_map_dict_leaves_not_frozen_on_read', lambda: dict(case=desc))


def run(ctx):
  pool_ref = [None]
  install_invariant(ctx, pool_ref)
  n_hist = 700 if ctx.tier == 'quick' else 8000
  max_ops = 8 if ctx.tier == 'quick' else 12
  for i in ctx.indices(n_hist, 'history'):
    rng = ctx.rng('history', i)
    n_ops = rng.randint(3, max_ops)
    preview = ctx.rng('history', i)
    with ctx.case('history', i, dict(seed_index=i, n_ops=n_ops), nontrivial=True):
      ops = run_history(ctx, rng, n_ops, pool_ref)
      ctx.distinct.add(repr(ops))
  small_scope(ctx, pool_ref)
  for i in ctx.indices(16, 'dict_in_sequence'):
    run_dict_in_sequence(ctx, i, ctx.rng('dict_in_sequence', i))
  for i in ctx.indices(12, 'pytree_protocol'):
    run_pytree_protocol(ctx, i, ctx.rng('pytree_protocol', i))

  layouts = []
  for n in range(1, 6):
    for smask in range(2 ** n):
      for dmask in ([0, 2 ** n - 1, smask] if ctx.tier == 'quick' else range(2 ** n)):
        for inherit in (0, 1, 3):
          layouts.append((n, smask, dmask, inherit))
  layouts = sorted(set(layouts))
  if ctx.tier == 'quick':
    r = ctx.rng('layouts')
    layouts = r.sample(layouts, 60)
  # the same layouts again with metadata handed to struct.field (own dict per field / one shared dict object)
  mixed = [l for l in layouts if l[0] >= 2 and 0 < l[1] < 2 ** l[0] - 1]
  layouts = layouts + [l + (1 + k % 2,) for k, l in enumerate(mixed[: 40 if ctx.tier == 'quick' else len(mixed)])] \
      + [l + (2,) for l in mixed[: 20 if ctx.tier == 'quick' else 0]]
  for i, lay in ctx.items(layouts, 'struct'):
    with ctx.case('struct', i, lay, nontrivial=lay[0] >= 2):
      run_struct(ctx, i, lay, ctx.rng('struct', i))
