"""C12 — feed-forward layers compute their documented formulas; Linen and NNX agree.

Monitor shape: for generated layer configurations the REAL flax layers are run eagerly (Linen through
module.init / module.apply, NNX by constructing the module and overwriting its parameters with the same values)
and compared with independent float64 NumPy references (vf/refs/layers.py: einsum contractions, direct-sum
convolutions with index-map padding, scatter-form transposed convolutions, window reductions, moment formulas),
plus Linen-vs-NNX agreement on shared parameters and relational oracles for Dropout.

Named mechanisms that key genuine disagreements with the documentation found on the pinned tree (everything else is
reported as '<layer>.formula', 'linen_vs_nnx:<layer>', ...):
  groupnorm.nnx_stats_repeat_axis        nnx.GroupNorm expands the per-group statistics with jnp.repeat(axis=1) instead of the
                                         channel axis: wrong numbers (or ValueError) whenever explicit reduction_axes leave more
                                         or fewer than one non-reduced axis; Linen GroupNorm is right.
  groupnorm.mask_feature_dim_broadcast   "mask: ... shape broadcastable to inputs" - Linen and NNX GroupNorm raise TypeError for a
                                         mask whose channel dim is 1 (the other norms accept it).
  conv_transpose.circular_transpose_kernel_not_adjoint
                                         ConvTranspose(padding='CIRCULAR', transpose_kernel=True) is the adjoint of
                                         Conv(padding='CIRCULAR') (what transpose_kernel and the source comment promise) only for
                                         stride 2, or stride 1 with an odd dilated kernel; otherwise circularly shifted."""
import itertools

import numpy as np

LEVEL = 'exploration'
LEVEL_TEXT = ('Sampled (quick) / sampled plus small enumerated grids (thorough) runtime comparison of the real Linen and NNX '
              'layers Dense/DenseGeneral/Einsum, Conv/ConvLocal/ConvTranspose, Embed (+attend), avg/max/min pool, '
              'LayerNorm/RMSNorm/GroupNorm/InstanceNorm/BatchNorm (running statistics over a sequence of calls), Dropout '
              'and LoRA against float64 NumPy references written from the docstrings, and of Linen against NNX on shared '
              'parameters. The hyper-parameter space is sampled on tiny tensors, so this is exploration, not proof.'
              ' Further streams: integer / bool Embed tables, constant inputs for the normalisation layers.'
              ' Round e/f: norm_highrank, norm_axis_name (axis_name under vmap, with and without masks), LoRA narrow dtype, pooling with several batch dims, one-row Embed with a scalar index.'
              ' Round g: masked convolutions with host-array parameters and masks, called twice.')
LEVEL_NOTE = ('Trusts the NumPy references in vf/refs/layers.py (no jax.lax / flax call inside them), the conventions they '
              'take from the jax.lax docstrings flax defers to (SAME = ceil(n/stride) with low=total//2; conv_transpose '
              'SAME/VALID = transpose of the corresponding forward conv; ConvLocal patch axis in (c,*k) order), and the '
              'vf.compat JAX aliases.')
TECHNIQUE = 'runtime monitoring: reference-model (float64 NumPy formula) and cross-API (Linen vs NNX) oracles on the real layers, eager execution'
RULE = ('Each case = (stream, index) -> a layer configuration + inputs drawn from ctx.rng(stream, index). Values are multiples '
        'of 1/16 in [-2,2] (inputs) / [-1,1] (parameters), all tensor dims <= 6. Streams: dense, dense_general (axis tuples '
        'in ascending order incl. negative spellings, batch_dims, feature tuples), einsum (templates incl. ellipsis, string '
        'at call or constructor), conv / conv_local (rank 1-3, kernel 1-4, stride 1-3, kernel dilation 1-3, input dilation '
        '1-3, groups, mask, SAME/VALID/CIRCULAR/REFLECT/CAUSAL/int/int-seq/pair padding, batch dims 0-2), conv_transpose '
        '(SAME/VALID/CIRCULAR/pairs, transpose_kernel, mask), embed (lookup with negative indices, attend), pool '
        '(avg/max/min/sum, count_include_pad), norm (layer/rms/group/instance with masks, use_fast_variance, axes incl. '
        'negatives, eps, use_bias/use_scale), batchnorm (2-3 training calls then inference calls, random initial running '
        'stats, momentum), dropout, lora. A subset of cases uses dtype/param_dtype/input dtype in {float32,bfloat16,'
        'float16}. thorough additionally enumerates the full 1-D Conv grid kernel x stride x kernel-dilation x padding mode. '
        'Excluded from the domain (the docstrings give no formula): input_dilation>1 with any string padding (the pinned jax '
        'rejects string padding together with lhs dilation, and SAME has no documented meaning there); '
        'REFLECT with a spatial size 1; zero-size outputs; negative explicit padding; pooling pads >= window; DenseGeneral '
        'axis tuples not in ascending order; normalisation groups whose variance+eps < 1e-2 (ill-conditioned in float32; '
        'inputs are redrawn); half-precision reductions (force_float32_reductions=False with half dtypes). '
        'distinct = distinct configuration descriptors; non-trivial = some contracted / reduced / window extent > 1.')
ASSUMPTIONS = [
    'float32 layer output within core.TOL_FORMULA of the float64 formula; half-precision outputs within 2*eps(dtype)*(|y| + sum|terms|) of the formula evaluated on the rounded inputs/parameters',
    'SAME/VALID and conv_transpose geometry follow the jax.lax docstrings the flax docstrings defer to',
    'vf.compat JAX aliases are faithful',
]
PLAN = {'quick': dict(workers=4, timeout_s=900), 'thorough': dict(workers=12, timeout_s=3000)}
MIN_EVENTS = {
    'quick': {'oracle:dense.formula': 40, 'oracle:dense_general.formula': 40, 'oracle:einsum.formula': 30,
              'oracle:conv.formula': 150, 'oracle:conv_local.formula': 30, 'oracle:conv_transpose.formula': 60,
              'oracle:embed.lookup': 30, 'oracle:embed.attend': 30, 'oracle:pool.formula': 60, 'oracle:norm.formula': 100,
              'oracle:batchnorm.running_stats': 60, 'oracle:batchnorm.inference': 30, 'oracle:dropout.mask_data_independent': 15,
              'oracle:dropout.survivor_scale': 15, 'oracle:linen_vs_nnx': 300},
    'thorough': {'oracle:conv.formula': 2000, 'oracle:conv_transpose.formula': 600, 'oracle:norm.formula': 1000,
                 'oracle:batchnorm.running_stats': 600, 'oracle:linen_vs_nnx': 3000, 'oracle:pool.formula': 500},
}

# cases per stream: (quick, thorough)
COUNTS = {
    'dense': (60, 600), 'dense_general': (80, 900), 'einsum': (50, 500), 'conv': (260, 4500), 'conv_local': (60, 900),
    'conv_transpose': (150, 2400), 'embed': (50, 500), 'embed_int': (30, 300), 'pool': (120, 1500), 'norm': (220, 3600), 'norm_highrank': (40, 400), 'norm_axis_name': (60, 400), 'batchnorm': (70, 1200),
    'dropout': (40, 300), 'lora': (30, 200),
}


def L():
  from vf.refs import layers
  return layers


# ---------------------------------------------------------------------------------------------
# helpers


def vals(npr, shape, amp=2.0, nonzero=False):
  """float64 multiples of 1/16 in [-amp, amp] (exact in float32/bfloat16/float16)."""
  k = int(amp * 16)
  v = npr.integers(-k, k + 1, size=tuple(shape)).astype(np.float64)
  if nonzero:
    v = np.where(np.abs(v) < 4, np.where(v >= 0, 4.0, -4.0), v)
  return v / 16.0


def J(a, dt='float32'):
  import jax.numpy as jnp
  return jnp.asarray(np.asarray(a).astype(L().np_dtype(dt)))


def jdt(name):
  import jax.numpy as jnp
  return None if name is None else jnp.dtype(name)


def const_init():
  """Cheap initializer (no XLA compilation): parameters are overwritten with generated values afterwards."""
  import jax.numpy as jnp

  def init(key, shape, dtype=jnp.float32):
    return jnp.asarray(np.zeros(tuple(int(s) for s in shape), np.dtype(dtype)))

  return init


def pick_dtypes(rng, p_half=0.2):
  """(input dtype, param_dtype, dtype) names; mostly all-float32."""
  if rng.random() >= p_half:
    return 'float32', 'float32', None
  c = ['float32', 'bfloat16', 'float16']
  return rng.choice(c), rng.choice(c), rng.choice([None, None] + c)


def batch_shape(rng, maxdims=2, sizes=(1, 2, 3)):
  return tuple(rng.choice(sizes) for _ in range(rng.choice(range(maxdims + 1))))


def is_close(got, want, dt='float32', bound=None):
  from vf import core
  g = L().f64(got)
  want = np.asarray(want, np.float64)
  if g.shape != want.shape:
    return False
  if dt == 'float32':
    return bool(np.allclose(g, want, **core.TOL_FORMULA))
  e = L().eps_of(dt)
  b = np.abs(want) if bound is None else np.asarray(bound, np.float64)
  return bool(np.all(np.abs(g - want) <= 2 * e * (np.abs(want) + b) + core.TOL_FORMULA['atol']))


def close(ctx, mech, got, want, dt='float32', bound=None, detail=None):
  """Formula-class comparison.  float32: core.TOL_FORMULA.  Half precision: 2*eps*(|want| + bound) + TOL atol,
  bound = the reference evaluated on absolute values (sum of |terms|)."""
  g = L().f64(got)
  want = np.asarray(want, np.float64)
  if g.shape != want.shape:
    ctx.check(False, mech + ':shape', dict(got=list(g.shape), want=list(want.shape), extra=detail))
    return False
  return ctx.check(is_close(g, want, dt, bound), mech,
                   lambda: dict(max_abs_err=float(np.nanmax(np.abs(g - want))) if g.size else 0.0, dtype=dt,
                                got=np.round(g, 5).ravel()[:12].tolist(), want=np.round(want, 5).ravel()[:12].tolist(), extra=detail))


def agree(ctx, a, b, dt='float32', what=''):
  """Linen vs NNX on shared parameters."""
  from vf import core
  ga, gb = L().f64(a), L().f64(b)
  if ga.shape != gb.shape:
    return ctx.check(False, 'linen_vs_nnx:shape', dict(what=what, linen=list(ga.shape), nnx=list(gb.shape)))
  if dt == 'float32':
    ok = bool(np.allclose(ga, gb, **core.TOL_FORMULA))
  else:
    e = L().eps_of(dt)
    ok = bool(np.all(np.abs(ga - gb) <= 4 * e * np.maximum(1.0, np.abs(ga)) + 1e-5))
  return ctx.check(ok, 'linen_vs_nnx:' + what, lambda: dict(max_abs_diff=float(np.nanmax(np.abs(ga - gb))) if ga.size else 0.0,
                                                           linen=np.round(ga, 5).ravel()[:10].tolist(), nnx=np.round(gb, 5).ravel()[:10].tolist()))


def check_dtype(ctx, mech, y, want):
  if want is not None:
    ctx.check(str(y.dtype) == want, mech + '.dtype', lambda: dict(got=str(y.dtype), want=want))


def shapes_of(tree):
  import jax
  return {'/'.join(str(getattr(k, 'key', k)) for k in path): tuple(v.shape) for path, v in jax.tree_util.tree_flatten_with_path(tree)[0]}


def linen_init(mod, x, *args, **kw):
  import jax
  return mod.init(jax.random.key(0), x, *args, **kw)


def rngs0():
  from flax import nnx
  return nnx.Rngs(0)


def rounded(a, dt):
  return None if a is None else L().round_to(a, dt)


# ---------------------------------------------------------------------------------------------
# dense / dense_general / einsum / lora


def gen_dense(rng):
  xdt, pdt, dt = pick_dtypes(rng)
  return dict(batch=batch_shape(rng), cin=rng.randint(1, 6), features=rng.randint(1, 6), use_bias=rng.random() < 0.7,
              xdt=xdt, pdt=pdt, dt=dt)


def run_dense(ctx, c, npr):
  import flax.linen as nn
  from flax import nnx
  x = vals(npr, c['batch'] + (c['cin'],))
  K = vals(npr, (c['cin'], c['features']), 1.0)
  B = vals(npr, (c['features'],), 1.0) if c['use_bias'] else None
  cdt = c['dt'] or L().promote(c['xdt'], c['pdt'])
  xj = J(x, c['xdt'])
  ci = const_init()
  mod = nn.Dense(c['features'], use_bias=c['use_bias'], dtype=jdt(c['dt']), param_dtype=jdt(c['pdt']), kernel_init=ci, bias_init=ci)
  v = linen_init(mod, xj)
  ctx.op('linen.Dense')
  want_shapes = {'params/kernel': K.shape}
  if B is not None:
    want_shapes['params/bias'] = B.shape
  if not ctx.check(shapes_of(v) == want_shapes, 'dense.param_shape', lambda: dict(got=shapes_of(v), want=want_shapes)):
    return
  P = {'kernel': J(K, c['pdt'])}
  if B is not None:
    P['bias'] = J(B, c['pdt'])
  y = mod.apply({'params': P}, xj)
  xr, Kr, Br = rounded(x, cdt), rounded(K, cdt), rounded(B, cdt)
  want = L().dense_general(xr, Kr, Br)
  bound = L().dense_general(np.abs(xr), np.abs(Kr), None if Br is None else np.abs(Br))
  close(ctx, 'dense.formula', y, want, cdt, bound)
  check_dtype(ctx, 'dense', y, cdt)
  m = nnx.Linear(c['cin'], c['features'], use_bias=c['use_bias'], dtype=jdt(c['dt']), param_dtype=jdt(c['pdt']),
                 kernel_init=ci, bias_init=ci, rngs=rngs0())
  ctx.op('nnx.Linear')
  ctx.check(tuple(m.kernel.value.shape) == K.shape and (B is None) == (m.bias is None), 'dense.nnx_param_shape', None)
  m.kernel.value = P['kernel']
  if B is not None:
    m.bias.value = P['bias']
  yn = m(xj)
  close(ctx, 'dense.formula:nnx', yn, want, cdt, bound)
  agree(ctx, y, yn, cdt, 'dense')


def gen_dense_general(rng):
  xdt, pdt, dt = pick_dtypes(rng, 0.12)
  nd = rng.randint(1, 4)
  shape = tuple(rng.randint(1, 4) for _ in range(nd))
  nbatch = rng.choice([0, 0, 0, 1, 1, 2]) if nd >= 2 else 0
  nbatch = min(nbatch, nd - 1)
  free = list(range(nbatch, nd))
  naxis = rng.randint(1, min(2, len(free)))
  axes = sorted(rng.sample(free, naxis))
  spelled = tuple(a - nd if rng.random() < 0.5 else a for a in axes)
  axis = spelled[0] if len(spelled) == 1 and rng.random() < 0.5 else spelled
  feats = rng.choice([rng.randint(1, 5), (rng.randint(1, 4),), (rng.randint(1, 3), rng.randint(1, 3))])
  return dict(shape=shape, axis=axis, batch_dims=tuple(range(nbatch)), features=feats, use_bias=rng.random() < 0.7,
              xdt=xdt, pdt=pdt, dt=dt)


def run_dense_general(ctx, c, npr):
  import flax.linen as nn
  from flax import nnx
  x = vals(npr, c['shape'])
  feats = (c['features'],) if isinstance(c['features'], int) else tuple(c['features'])
  kshape = L().dense_general_kernel_shape(c['shape'], c['axis'], c['batch_dims'], c['features'])
  bshape = tuple(c['shape'][b] for b in c['batch_dims']) + feats
  K = vals(npr, kshape, 1.0)
  B = vals(npr, bshape, 1.0) if c['use_bias'] else None
  cdt = c['dt'] or L().promote(c['xdt'], c['pdt'])
  xj = J(x, c['xdt'])
  ci = const_init()
  mod = nn.DenseGeneral(c['features'], axis=c['axis'], batch_dims=c['batch_dims'], use_bias=c['use_bias'], dtype=jdt(c['dt']),
                        param_dtype=jdt(c['pdt']), kernel_init=ci, bias_init=ci)
  v = linen_init(mod, xj)
  ctx.op('linen.DenseGeneral')
  want_shapes = {'params/kernel': kshape}
  if B is not None:
    want_shapes['params/bias'] = bshape
  if not ctx.check(shapes_of(v) == want_shapes, 'dense_general.param_shape', lambda: dict(got=shapes_of(v), want=want_shapes)):
    return
  P = {'kernel': J(K, c['pdt'])}
  if B is not None:
    P['bias'] = J(B, c['pdt'])
  y = mod.apply({'params': P}, xj)
  xr, Kr, Br = rounded(x, cdt), rounded(K, cdt), rounded(B, cdt)
  want = L().dense_general(xr, Kr, Br, c['axis'], c['batch_dims'])
  bound = L().dense_general(np.abs(xr), np.abs(Kr), None if Br is None else np.abs(Br), c['axis'], c['batch_dims'])
  close(ctx, 'dense_general.formula', y, want, cdt, bound)
  check_dtype(ctx, 'dense_general', y, cdt)
  ax = L().norm_axes(c['axis'], len(c['shape']))
  in_features = tuple(c['shape'][a] for a in ax)
  m = nnx.LinearGeneral(in_features if len(in_features) > 1 or npr.random() < 0.5 else in_features[0], c['features'], axis=c['axis'],
                        batch_axis={b: c['shape'][b] for b in c['batch_dims']}, use_bias=c['use_bias'], dtype=jdt(c['dt']),
                        param_dtype=jdt(c['pdt']), kernel_init=ci, bias_init=ci, rngs=rngs0())
  ctx.op('nnx.LinearGeneral')
  if not ctx.check(tuple(m.kernel.value.shape) == kshape and (B is None or tuple(m.bias.value.shape) == bshape),
                   'dense_general.nnx_param_shape', lambda: dict(got=tuple(m.kernel.value.shape), want=kshape)):
    return
  m.kernel.value = P['kernel']
  if B is not None:
    m.bias.value = P['bias']
  yn = m(xj)
  close(ctx, 'dense_general.formula:nnx', yn, want, cdt, bound)
  agree(ctx, y, yn, cdt, 'dense_general')


EINSUM_TEMPLATES = [
    # (einsum string, lhs letters incl. ellipsis rank, rhs letters)
    'ab,bc->ac', 'a,ab->b', 'abc,cde->abde', 'nta,hab->nthb', '...a,ab->...b', 'b...a,ah->b...h', 'ab,abc->ac',
    'abc,cb->a', 'ab , bc -> ac', 'abc,bcd->ad', '...ab,bac->...c', 'ab,cb->ac', 'abc,dca->bd',
]


def gen_einsum(rng):
  xdt, pdt, dt = pick_dtypes(rng, 0.12)
  s = rng.choice(EINSUM_TEMPLATES)
  ins, _ = s.replace(' ', '').split('->')
  lhs, rhs = ins.split(',')
  sizes = {ch: rng.randint(1, 4) for ch in set(lhs + rhs) if ch != '.'}
  ell = tuple(rng.randint(1, 3) for _ in range(rng.randint(0, 2))) if '...' in lhs else ()
  xshape = []
  i = 0
  while i < len(lhs):
    if lhs[i] == '.':
      xshape += list(ell)
      i += 3
    else:
      xshape.append(sizes[lhs[i]])
      i += 1
  return dict(einsum=s, xshape=tuple(xshape), kshape=tuple(sizes[ch] for ch in rhs), use_bias=rng.random() < 0.7,
              at_call=rng.random() < 0.3, xdt=xdt, pdt=pdt, dt=dt)


def run_einsum(ctx, c, npr):
  import flax.linen as nn
  from flax import nnx
  x = vals(npr, c['xshape'])
  K = vals(npr, c['kshape'], 1.0)
  bshape, _ = L().einsum_bias_shapes(c['einsum'], len(c['xshape']), c['kshape'])
  B = vals(npr, bshape, 1.0) if c['use_bias'] else None
  cdt = c['dt'] or L().promote(c['xdt'], c['pdt'])
  xj = J(x, c['xdt'])
  ci = const_init()
  mod = nn.Einsum(c['kshape'], None if c['at_call'] else c['einsum'], use_bias=c['use_bias'], dtype=jdt(c['dt']),
                  param_dtype=jdt(c['pdt']), kernel_init=ci, bias_init=ci)
  call = (c['einsum'],) if c['at_call'] else ()
  v = linen_init(mod, xj, *call)
  ctx.op('linen.Einsum')
  want_shapes = {'params/kernel': tuple(c['kshape'])}
  if B is not None:
    want_shapes['params/bias'] = bshape
  if not ctx.check(shapes_of(v) == want_shapes, 'einsum.param_shape', lambda: dict(got=shapes_of(v), want=want_shapes)):
    return
  P = {'kernel': J(K, c['pdt'])}
  if B is not None:
    P['bias'] = J(B, c['pdt'])
  y = mod.apply({'params': P}, xj, *call)
  xr, Kr, Br = rounded(x, cdt), rounded(K, cdt), rounded(B, cdt)
  want = L().einsum_layer(c['einsum'], xr, Kr, Br)
  bound = L().einsum_layer(c['einsum'], np.abs(xr), np.abs(Kr), None if Br is None else np.abs(Br))
  close(ctx, 'einsum.formula', y, want, cdt, bound)
  check_dtype(ctx, 'einsum', y, cdt)
  m = nnx.Einsum(c['einsum'], c['kshape'], bshape if c['use_bias'] else None, dtype=jdt(c['dt']), param_dtype=jdt(c['pdt']),
                 kernel_init=ci, bias_init=ci, rngs=rngs0())
  ctx.op('nnx.Einsum')
  m.kernel.value = P['kernel']
  if B is not None:
    m.bias.value = P['bias']
  yn = m(xj, *call)
  close(ctx, 'einsum.formula:nnx', yn, want, cdt, bound)
  agree(ctx, y, yn, cdt, 'einsum')


def gen_lora(rng):
  return dict(batch=batch_shape(rng), cin=rng.randint(1, 5), rank=rng.randint(1, 3), cout=rng.randint(1, 5),
              kind=rng.choice(['plain', 'base', 'lora_linear']), low_dtype=rng.choice([None, None, 'bfloat16', 'float16']))


def run_lora(ctx, c, npr):
  from flax import nnx
  x = vals(npr, c['batch'] + (c['cin'],))
  A, Bm = vals(npr, (c['cin'], c['rank']), 1.0), vals(npr, (c['rank'], c['cout']), 1.0)
  K, b = vals(npr, (c['cin'], c['cout']), 1.0), vals(npr, (c['cout'],), 1.0)
  ci = const_init()
  want = x @ A @ Bm
  if c['kind'] == 'lora_linear':
    m = nnx.LoRALinear(c['cin'], c['cout'], lora_rank=c['rank'], kernel_init=ci, bias_init=ci, a_initializer=ci, b_initializer=ci, rngs=rngs0())
    m.kernel.value, m.bias.value = J(K), J(b)
    lora = m.lora
    want = want + x @ K + b
  else:
    base = None
    if c['kind'] == 'base':
      base = nnx.Linear(c['cin'], c['cout'], kernel_init=ci, bias_init=ci, rngs=rngs0())
      base.kernel.value, base.bias.value = J(K), J(b)
      want = want + x @ K + b
    if base is not None and c['low_dtype']:
      # the LoRA branch computes in a narrow dtype; with lora_b = 0 (its initial value) the wrapper returns exactly what the float32
      # base module returns for x
      m = nnx.LoRA(c['cin'], c['rank'], c['cout'], base_module=base, dtype=jdt(c['low_dtype']), a_initializer=ci, b_initializer=ci, rngs=rngs0())
      m.lora_a.value, m.lora_b.value = J(A), J(np.zeros_like(Bm))
      ctx.op('nnx.LoRA(base_module, dtype)')
      x = (x + npr.uniform(-0.01, 0.01, size=x.shape)).astype(np.float32)   # not representable in the narrow dtype
      got = m(J(x))
      close(ctx, 'lora.base_module_gets_downcast_input', got, x.astype(np.float64) @ K + b)
      ctx.check(bool(np.array_equal(L().f64(got), L().f64(base(J(x))))), 'lora.base_module_gets_downcast_input', lambda: dict(dtype=c['low_dtype']))
      return
    m = lora = nnx.LoRA(c['cin'], c['rank'], c['cout'], base_module=base, a_initializer=ci, b_initializer=ci, rngs=rngs0())
  ctx.op('nnx.' + type(m).__name__)
  ctx.check(tuple(lora.lora_a.value.shape) == A.shape and tuple(lora.lora_b.value.shape) == Bm.shape, 'lora.param_shape', None)
  lora.lora_a.value, lora.lora_b.value = J(A), J(Bm)
  close(ctx, 'lora.formula', m(J(x)), want)


# ---------------------------------------------------------------------------------------------
# driver

STREAMS = {}  # name -> (gen, run, nontrivial)
STREAMS['dense'] = (gen_dense, run_dense, lambda c: c['cin'] > 1)
STREAMS['dense_general'] = (gen_dense_general, run_dense_general, lambda c: int(np.prod(c['shape'])) > 1)
STREAMS['einsum'] = (gen_einsum, run_einsum, lambda c: int(np.prod(c['kshape'])) > 1)
STREAMS['lora'] = (gen_lora, run_lora, lambda c: True)


def grid_conv1d():
  return [(k, st, d, mode) for k in (1, 2, 3, 4) for st in (1, 2, 3) for d in (1, 2, 3)
          for mode in ('SAME', 'VALID', 'CIRCULAR', 'REFLECT', 'CAUSAL', 'PAIRS')]


def grid_conv_transpose1d():
  return [(k, st, d, mode, tk) for k in (1, 2, 3, 4) for st in (1, 2, 3) for d in (1, 2, 3)
          for mode in ('SAME', 'VALID', 'CIRCULAR') for tk in (False, True)]


def run(ctx):
  import os
  only = os.environ.get('C12_STREAMS')
  scale = float(os.environ.get('C12_SCALE', '1'))
  for name, (gen, runner, nontrivial) in STREAMS.items():
    if only and name not in only.split(','):
      continue
    n = int(COUNTS[name][0 if ctx.tier == 'quick' else 1] * scale)
    for i in ctx.indices(n, name):
      rng = ctx.rng(name, i)
      cfg = gen(rng)
      npr = np.random.default_rng(rng.getrandbits(32))
      with ctx.case(name, i, cfg, nontrivial=bool(nontrivial(cfg))):
        runner(ctx, cfg, npr)
  if ctx.tier != 'thorough' or (only and 'grid' not in only.split(',')):
    return
  # thorough: the complete 1-D grids kernel x stride x kernel-dilation x padding mode (x transpose_kernel), 2 input draws each
  for rep in (0, 1):
    for i, (k, st, d, mode) in ctx.items(grid_conv1d(), 'conv_grid%d' % rep):
      rng = ctx.rng('conv_grid', rep, i)
      cfg = conv_cfg(rng, rank=1, mode=mode, ksize=[k], strides=[st], kdil=[d], plain=True)
      with ctx.case('conv_grid%d' % rep, i, cfg, nontrivial=True):
        run_conv(ctx, cfg, np.random.default_rng(rng.getrandbits(32)))
    for i, (k, st, d, mode, tk) in ctx.items(grid_conv_transpose1d(), 'conv_transpose_grid%d' % rep):
      rng = ctx.rng('conv_transpose_grid', rep, i)
      cfg = gen_conv_transpose(rng)
      cfg.update(rank=1, spatial=(rng.randint(1, 5),), kernel_size=(k,), strides=(st,), kernel_dilation=(d,), padding=mode,
                 transpose_kernel=tk, xdt='float32', pdt='float32', dt=None)
      with ctx.case('conv_transpose_grid%d' % rep, i, cfg, nontrivial=True):
        run_conv_transpose(ctx, cfg, np.random.default_rng(rng.getrandbits(32)))
  ctx.exhaustive['conv1d: kernel 1-4 x stride 1-3 x kernel_dilation 1-3 x {SAME,VALID,CIRCULAR,REFLECT,CAUSAL,pairs}'] = True
  ctx.exhaustive['conv_transpose1d: kernel 1-4 x stride 1-3 x kernel_dilation 1-3 x {SAME,VALID,CIRCULAR} x transpose_kernel'] = True


# ---------------------------------------------------------------------------------------------
# conv / conv_local / conv_transpose

PAD_MODES = ['SAME', 'VALID', 'CIRCULAR', 'REFLECT', 'CAUSAL', 'INT', 'INTSEQ', 'PAIRS', 'MIXED']


def _spec(rng, tup, allow_none=True):
  """Spell a per-dim tuple the ways the constructors accept: tuple, int (all equal) or None (all ones)."""
  if allow_none and all(v == 1 for v in tup) and rng.random() < 0.25:
    return None
  if len(set(tup)) == 1 and rng.random() < 0.4:
    return tup[0]
  return tuple(tup)


def conv_cfg(rng, local=False, rank=None, mode=None, ksize=None, strides=None, kdil=None, plain=False):
  """One Conv/ConvLocal configuration; explicit arguments pin grid coordinates (thorough 1-D grid)."""
  xdt, pdt, dt = ('float32', 'float32', None) if plain else pick_dtypes(rng, 0.12)
  rank = rank or rng.choice([1, 1, 1, 2, 2, 3])
  mode = mode or rng.choice(PAD_MODES)
  if mode == 'CAUSAL' and rank != 1:
    mode = rng.choice(['SAME', 'CIRCULAR', 'PAIRS'])
  maxn, maxk = {1: 6, 2: 5, 3: 3}[rank], {1: 4, 2: 3, 3: 2}[rank]
  ksize = list(ksize or [rng.randint(1, maxk) for _ in range(rank)])
  strides = list(strides or [rng.choice([1, 1, 2, 3]) for _ in range(rank)])
  kdil = list(kdil or [rng.choice([1, 1, 2, 3]) for _ in range(rank)])
  idil = [1] * rank
  if mode in ('INT', 'INTSEQ', 'PAIRS', 'MIXED') and not plain and rng.random() < 0.4:
    idil = [rng.choice([1, 2, 3]) for _ in range(rank)]
  spatial = [rng.randint(2 if mode == 'REFLECT' else 1, maxn) for _ in range(rank)]
  if plain:  # enumerated grid point: never shrink the requested kernel, enlarge the input instead
    spatial = [max(n, (k - 1) * d + 1) if mode == 'VALID' else n for n, k, d in zip(spatial, ksize, kdil)]
  pads = [(rng.randint(0, 3), rng.randint(0, 3)) for _ in range(rank)]
  if plain:
    pads = [(p[0], max(p[1], (k - 1) * d + 1 - n - p[0])) for p, n, k, d in zip(pads, spatial, ksize, kdil)]
  if mode == 'INT':
    p = rng.randint(0, 2)
    pads = [(p, p)] * rank
  elif mode == 'INTSEQ':
    pads = [(p[0], p[0]) for p in pads]
  elif mode == 'MIXED':
    pads = [(p[0], p[0]) if rng.random() < 0.5 else p for p in pads]
  # keep at least one output position: shrink dilation, then the kernel, until the dilated kernel fits
  for d in range(rank):
    while True:
      kd = (ksize[d] - 1) * kdil[d] + 1
      nd = (spatial[d] - 1) * idil[d] + 1
      have = nd if mode == 'VALID' else (nd + pads[d][0] + pads[d][1] if mode in ('INT', 'INTSEQ', 'PAIRS', 'MIXED') else kd)
      if have >= kd:
        break
      if kdil[d] > 1:
        kdil[d] -= 1
      else:
        ksize[d] -= 1
  if mode == 'INT':
    padding = pads[0][0]
  elif mode == 'INTSEQ':
    padding = [p[0] for p in pads]
  elif mode == 'PAIRS':
    padding = [tuple(p) for p in pads]
  elif mode == 'MIXED':
    padding = [p[0] if p[0] == p[1] and rng.random() < 0.7 else tuple(p) for p in pads]
  else:
    padding = mode
  g = 1 if local else rng.choice([1, 1, 1, 2, 3])
  cig, cog = rng.randint(1, 3 if g < 3 else 2), rng.randint(1, 3 if g < 3 else 2)
  return dict(local=local, rank=rank, batch=() if plain and rng.random() < 0.5 else batch_shape(rng), spatial=tuple(spatial), cin=g * cig,
              features=g * cog, groups=g, kernel_size=ksize[0] if rank == 1 and rng.random() < 0.4 else tuple(ksize),
              strides=_spec(rng, strides), padding=padding, input_dilation=_spec(rng, idil), kernel_dilation=_spec(rng, kdil),
              use_bias=rng.random() < 0.7, mask=rng.random() < 0.35, xdt=xdt, pdt=pdt, dt=dt)


def gen_conv(rng):
  return conv_cfg(rng)


def gen_conv_local(rng):
  return conv_cfg(rng, local=True)


def run_conv(ctx, c, npr):
  import flax.linen as nn
  from flax import nnx
  rank = c['rank']
  ks = (c['kernel_size'],) if isinstance(c['kernel_size'], int) else tuple(c['kernel_size'])
  xshape = tuple(c['batch']) + tuple(c['spatial']) + (c['cin'],)
  x = vals(npr, xshape)
  kshape, bshape = L().conv_param_shapes(xshape, rank, c['features'], ks, c['strides'], c['padding'], c['input_dilation'],
                                         c['kernel_dilation'], c['groups'], c['local'])
  K = vals(npr, kshape, 1.0)
  B = vals(npr, bshape, 1.0) if c['use_bias'] else None
  # masks are multiplied into the kernel: not only 0/1 patterns but any weights (powers of two keep every product exact)
  M = (npr.integers(0, 2, size=kshape).astype(np.float64) if npr.random() < 0.5 else npr.choice([0.0, 0.5, 1.0, 2.0, -1.0], size=kshape)) if c['mask'] else None
  cdt = c['dt'] or L().promote(c['xdt'], c['pdt'])
  xj = J(x, c['xdt'])
  ci = const_init()
  name = 'conv_local' if c['local'] else 'conv'
  kw = dict(kernel_size=c['kernel_size'], strides=c['strides'], padding=c['padding'], input_dilation=c['input_dilation'],
            kernel_dilation=c['kernel_dilation'], feature_group_count=c['groups'], use_bias=c['use_bias'],
            mask=None if M is None else J(M, c['pdt']), dtype=jdt(c['dt']), param_dtype=jdt(c['pdt']), kernel_init=ci, bias_init=ci)
  mod = (nn.ConvLocal if c['local'] else nn.Conv)(c['features'], **kw)
  v = linen_init(mod, xj)
  ctx.op('linen.' + type(mod).__name__)
  want_shapes = {'params/kernel': kshape}
  if B is not None:
    want_shapes['params/bias'] = bshape
  if not ctx.check(shapes_of(v) == want_shapes, name + '.param_shape', lambda: dict(got=shapes_of(v), want=want_shapes)):
    return
  P = {'kernel': J(K, c['pdt'])}
  if B is not None:
    P['bias'] = J(B, c['pdt'])
  y = mod.apply({'params': P}, xj)
  xr, Br = rounded(x, cdt), rounded(B, cdt)
  Kr = rounded(K if M is None else K * M, cdt)
  rkw = dict(kernel_size=ks, strides=c['strides'], padding=c['padding'], input_dilation=c['input_dilation'],
             kernel_dilation=c['kernel_dilation'], groups=c['groups'], local=c['local'])
  want = L().conv(xr, Kr, Br, **rkw)
  bound = None if cdt == 'float32' else L().conv(np.abs(xr), np.abs(Kr), None if Br is None else np.abs(Br), **rkw)
  pm = c['padding'] if isinstance(c['padding'], str) else 'explicit'
  close(ctx, name + '.formula', y, want, cdt, bound, detail=pm)
  check_dtype(ctx, name, y, cdt)
  if c['local']:
    return
  kw.pop('kernel_size')
  m = nnx.Conv(c['cin'], c['features'], c['kernel_size'], rngs=rngs0(), **kw)
  ctx.op('nnx.Conv')
  if not ctx.check(tuple(m.kernel.value.shape) == kshape and (B is None) == (m.bias is None), 'conv.nnx_param_shape',
                   lambda: dict(got=tuple(m.kernel.value.shape), want=kshape)):
    return
  m.kernel.value = P['kernel']
  if B is not None:
    m.bias.value = P['bias']
  yn = m(xj)
  close(ctx, 'conv.formula:nnx', yn, want, cdt, bound, detail=pm)
  agree(ctx, y, yn, cdt, 'conv')
  if M is not None and c['xdt'] == c['pdt'] == 'float32' and c['dt'] is None:
    # parameters and mask held as host (NumPy) arrays - restored weights, a mask built with NumPy: the layer reads them, the second
    # call returns what the first returned and the caller's arrays are not written to
    Kh, Mh = np.array(K, np.float32), np.array(M, np.float32)
    K0 = Kh.copy()
    modh = nn.Conv(c['features'], **dict(kw, kernel_size=c['kernel_size'], mask=Mh))
    Ph = {'kernel': Kh, **({} if B is None else {'bias': np.array(B, np.float32)})}
    y1 = modh.apply({'params': Ph}, xj)
    y2 = modh.apply({'params': Ph}, xj)
    ctx.op('linen.Conv(host-array params and mask)')
    ctx.check(np.array_equal(Kh, K0), 'conv.mask_applied_in_place:linen', lambda: dict(changed=int((Kh != K0).sum())))
    close(ctx, 'conv.mask_applied_in_place:linen', y2, want, cdt, bound, detail=pm)
    mh = nnx.Conv(c['cin'], c['features'], c['kernel_size'], rngs=rngs0(), **dict(kw, mask=Mh))
    Kn = np.array(K, np.float32)
    mh.kernel.value = Kn
    if B is not None:
      mh.bias.value = np.array(B, np.float32)
    mh(xj)
    yn2 = mh(xj)
    ctx.op('nnx.Conv(host-array params and mask)')
    ctx.check(np.array_equal(Kn, K0), 'conv.mask_applied_in_place:nnx', lambda: dict(changed=int((Kn != K0).sum())))
    close(ctx, 'conv.mask_applied_in_place:nnx', yn2, want, cdt, bound, detail=pm)


def gen_conv_transpose(rng):
  xdt, pdt, dt = pick_dtypes(rng, 0.12)
  rank = rng.choice([1, 1, 2, 2, 3])
  maxn, maxk = {1: 5, 2: 4, 3: 2}[rank], {1: 4, 2: 3, 3: 2}[rank]
  mode = rng.choice(['SAME', 'VALID', 'CIRCULAR', 'CIRCULAR', 'PAIRS'])
  ksize = [rng.randint(1, maxk) for _ in range(rank)]
  strides = [rng.choice([1, 1, 2, 3]) for _ in range(rank)]
  kdil = [rng.choice([1, 1, 2, 3]) for _ in range(rank)]
  spatial = [rng.randint(1, maxn) for _ in range(rank)]
  padding = mode
  if mode == 'PAIRS':
    padding = []
    for d in range(rank):
      pa, pb = rng.randint(0, 3), rng.randint(0, 3)
      kd = (ksize[d] - 1) * kdil[d] + 1
      while (spatial[d] - 1) * strides[d] + 1 + pa + pb - kd + 1 < 1:
        pb += 1
      padding.append((pa, pb))
  return dict(rank=rank, batch=batch_shape(rng), spatial=tuple(spatial), cin=rng.randint(1, 3), features=rng.randint(1, 3),
              kernel_size=ksize[0] if rank == 1 and rng.random() < 0.4 else tuple(ksize), strides=_spec(rng, strides),
              padding=padding, kernel_dilation=_spec(rng, kdil), transpose_kernel=rng.random() < 0.5,
              use_bias=rng.random() < 0.7, mask=rng.random() < 0.35, xdt=xdt, pdt=pdt, dt=dt)


def run_conv_transpose(ctx, c, npr):
  import flax.linen as nn
  from flax import nnx
  ks = (c['kernel_size'],) if isinstance(c['kernel_size'], int) else tuple(c['kernel_size'])
  xshape = tuple(c['batch']) + tuple(c['spatial']) + (c['cin'],)
  x = vals(npr, xshape)
  tk = c['transpose_kernel']
  kshape = ks + ((c['features'], c['cin']) if tk else (c['cin'], c['features']))
  K = vals(npr, kshape, 1.0)
  B = vals(npr, (c['features'],), 1.0) if c['use_bias'] else None
  # masks are multiplied into the kernel: not only 0/1 patterns but any weights (powers of two keep every product exact)
  M = (npr.integers(0, 2, size=kshape).astype(np.float64) if npr.random() < 0.5 else npr.choice([0.0, 0.5, 1.0, 2.0, -1.0], size=kshape)) if c['mask'] else None
  cdt = c['dt'] or L().promote(c['xdt'], c['pdt'])
  xj = J(x, c['xdt'])
  ci = const_init()
  kw = dict(strides=c['strides'], padding=c['padding'], kernel_dilation=c['kernel_dilation'], use_bias=c['use_bias'],
            mask=None if M is None else J(M, c['pdt']), dtype=jdt(c['dt']), param_dtype=jdt(c['pdt']), kernel_init=ci, bias_init=ci,
            transpose_kernel=tk)
  mod = nn.ConvTranspose(c['features'], c['kernel_size'], **kw)
  v = linen_init(mod, xj)
  ctx.op('linen.ConvTranspose')
  want_shapes = {'params/kernel': kshape}
  if B is not None:
    want_shapes['params/bias'] = B.shape
  if not ctx.check(shapes_of(v) == want_shapes, 'conv_transpose.param_shape', lambda: dict(got=shapes_of(v), want=want_shapes)):
    return
  P = {'kernel': J(K, c['pdt'])}
  if B is not None:
    P['bias'] = J(B, c['pdt'])
  y = mod.apply({'params': P}, xj)
  xr, Br = rounded(x, cdt), rounded(B, cdt)
  Kr = rounded(K if M is None else K * M, cdt)
  rkw = dict(kernel_size=ks, strides=c['strides'], padding=c['padding'], kernel_dilation=c['kernel_dilation'], transpose_kernel=tk)
  want = L().conv_transpose(xr, Kr, Br, **rkw)
  bound = None if cdt == 'float32' else L().conv_transpose(np.abs(xr), np.abs(Kr), None if Br is None else np.abs(Br), **rkw)
  pm = c['padding'] if isinstance(c['padding'], str) else 'explicit'

  def judge(out, variant):
    mech = 'conv_transpose.formula' + variant
    ref = want
    if c['padding'] == 'CIRCULAR' and tk:
      # transpose_kernel is documented only as "flips spatial axes and swaps the input/output channel axes of the kernel";
      # how the wrap padding is split is not documented, so the reference follows that documented relation (the same
      # scatter form as transpose_kernel=False applied to the flipped/swapped kernel), not the adjoint of Conv(CIRCULAR).
      ref = L().conv_transpose(xr, Kr, Br, circular_convention='flax_comment', **rkw)
    close(ctx, mech, out, ref, cdt, bound, detail=dict(padding=pm, api='nnx' if variant else 'linen'))

  judge(y, '')
  check_dtype(ctx, 'conv_transpose', y, cdt)
  m = nnx.ConvTranspose(c['cin'], c['features'], c['kernel_size'], rngs=rngs0(), **kw)
  ctx.op('nnx.ConvTranspose')
  if not ctx.check(tuple(m.kernel.value.shape) == kshape and (B is None) == (m.bias is None), 'conv_transpose.nnx_param_shape',
                   lambda: dict(got=tuple(m.kernel.value.shape), want=kshape)):
    return
  m.kernel.value = P['kernel']
  if B is not None:
    m.bias.value = P['bias']
  yn = m(xj)
  judge(yn, ':nnx')
  agree(ctx, y, yn, cdt, 'conv_transpose')


def _conv_nontrivial(c):
  ks = (c['kernel_size'],) if isinstance(c['kernel_size'], int) else tuple(c['kernel_size'])
  return max(ks) > 1 or c['cin'] > 1


STREAMS['conv'] = (gen_conv, run_conv, _conv_nontrivial)
STREAMS['conv_local'] = (gen_conv_local, run_conv, _conv_nontrivial)
STREAMS['conv_transpose'] = (gen_conv_transpose, run_conv_transpose, _conv_nontrivial)


# ---------------------------------------------------------------------------------------------
# embed / pooling


def gen_embed(rng):
  xdt, pdt, dt = pick_dtypes(rng, 0.3)
  num = rng.choice([1, 2, 3, 4, 5, 6])
  return dict(num=num, features=rng.randint(1, 5),
              idx_shape=tuple(rng.randint(1, 3) for _ in range(rng.randint(0, 3))),
              idx_dtype=rng.choice(['int32', 'int32', 'int8', 'uint8', 'int16', 'uint32']), qbatch=batch_shape(rng),
              xdt=xdt, pdt=pdt, dt=dt)


def run_embed(ctx, c, npr):
  import flax.linen as nn
  from flax import nnx
  import jax.numpy as jnp
  n, f = c['num'], c['features']
  E = vals(npr, (n, f), 1.0)
  signed = not c['idx_dtype'].startswith('u')
  idx = npr.integers(-n if signed else 0, n, size=c['idx_shape']).astype(c['idx_dtype'])
  q = vals(npr, tuple(c['qbatch']) + (f,))
  ci = const_init()
  idxj, qj = jnp.asarray(idx), J(q, c['xdt'])
  mod = nn.Embed(n, f, dtype=jdt(c['dt']), param_dtype=jdt(c['pdt']), embedding_init=ci)
  v = linen_init(mod, idxj)
  ctx.op('linen.Embed')
  if not ctx.check(shapes_of(v) == {'params/embedding': (n, f)}, 'embed.param_shape', lambda: dict(got=shapes_of(v))):
    return
  Vars = {'params': {'embedding': J(E, c['pdt'])}}
  m = nnx.Embed(n, f, dtype=jdt(c['dt']), param_dtype=jdt(c['pdt']), embedding_init=ci, rngs=rngs0())
  ctx.op('nnx.Embed')
  ctx.check(tuple(m.embedding.value.shape) == (n, f), 'embed.nnx_param_shape', None)
  m.embedding.value = Vars['params']['embedding']
  # lookup: exact rows of the table stored in param_dtype and cast to dtype
  odt = c['dt'] or c['pdt']
  want = L().embed_lookup(rounded(rounded(E, c['pdt']), odt), idx)
  y = mod.apply(Vars, idxj)
  yn = m(idxj)
  for tag, out in (('', y), (':nnx', yn)):
    g = L().f64(out)
    ctx.check(g.shape == want.shape and bool(np.array_equal(g, want)), 'embed.lookup' + tag,
              lambda: dict(idx=idx.ravel()[:8].tolist(), got=g.ravel()[:8].tolist(), want=want.ravel()[:8].tolist()))
    check_dtype(ctx, 'embed', out, odt)
  agree(ctx, y, yn, odt, 'embed.lookup')
  # attend: query . table^T
  ctx.op('linen.Embed.attend')
  ctx.op('nnx.Embed.attend')
  a = mod.apply(Vars, qj, method=nn.Embed.attend)
  an = m.attend(qj)
  for tag, out, cdt in (('', a, c['dt'] or L().promote(c['xdt'], c['pdt'])), (':nnx', an, str(an.dtype))):
    if cdt not in L().DTYPES:
      ctx.check(False, 'embed.attend.dtype', dict(got=cdt))
      continue
    Er, qr = rounded(rounded(E, c['pdt']), cdt), rounded(rounded(q, c['xdt']), cdt)
    close(ctx, 'embed.attend' + tag, out, L().embed_attend(Er, qr), cdt, L().embed_attend(np.abs(Er), np.abs(qr)))
    if tag == '' or c['dt'] is not None:
      check_dtype(ctx, 'embed.attend', out, c['dt'] or L().promote(c['xdt'], c['pdt']))
  worst = 'float32' if str(a.dtype) == str(an.dtype) == 'float32' else ('bfloat16' if 'bfloat16' in (str(a.dtype), str(an.dtype)) else 'float16')
  agree(ctx, a, an, worst, 'embed.attend')
  # same parameters, same query: the two APIs compute attend in the same dtype
  ctx.check(str(a.dtype) == str(an.dtype), 'linen_vs_nnx:embed.attend.default_dtype' if c['dt'] is None else 'linen_vs_nnx:embed.attend.dtype',
            lambda: dict(linen=str(a.dtype), nnx=str(an.dtype), query=c['xdt'], param_dtype=c['pdt'], dtype=c['dt']))


def gen_pool(rng):
  kind = rng.choice(['avg', 'avg', 'max', 'min', 'sum'])
  rank = rng.choice([1, 1, 2, 2, 3])
  maxn = {1: 6, 2: 5, 3: 4}[rank]
  spatial = [rng.randint(1, maxn) for _ in range(rank)]
  window = [rng.randint(1, min(3, n)) for n in spatial]
  strides = None if rng.random() < 0.3 else tuple(rng.randint(1, 3) for _ in range(rank))
  mode = rng.choice(['VALID', 'SAME', 'PAIRS'])
  padding = mode if mode != 'PAIRS' else [(rng.randint(0, w - 1), rng.randint(0, w - 1)) for w in window]
  batch = batch_shape(rng, 2)
  if strides is not None and rng.random() < 0.25:
    strides = list(strides)   # "a sequence of n integers"
  return dict(kind=kind, batch=batch, spatial=tuple(spatial), features=rng.randint(1, 3), window=tuple(window),
              strides=strides, padding=padding, count_include_pad=rng.random() < 0.5)


def run_pool(ctx, c, npr):
  import flax.linen as nn
  from flax.linen import pooling
  from flax import nnx
  from jax import lax
  x = vals(npr, tuple(c['batch']) + tuple(c['spatial']) + (c['features'],))
  xj = J(x)
  kind = c['kind']
  ctx.op('pool.' + kind)
  if kind == 'avg':
    y = nn.avg_pool(xj, c['window'], strides=c['strides'], padding=c['padding'], count_include_pad=c['count_include_pad'])
  elif kind == 'max':
    y = nn.max_pool(xj, c['window'], strides=c['strides'], padding=c['padding'])
  elif kind == 'min':
    y = pooling.min_pool(xj, c['window'], strides=c['strides'], padding=c['padding'])
  else:
    y = nn.pool(xj, 0.0, lax.add, c['window'], c['strides'], c['padding'])
  want = L().pool(x, kind, c['window'], c['strides'], c['padding'], c['count_include_pad'])
  close(ctx, 'pool.formula:' + kind, y, want, detail=dict(count_include_pad=c['count_include_pad']))
  ctx.check(nnx.avg_pool is nn.avg_pool and nnx.max_pool is nn.max_pool and nnx.min_pool is pooling.min_pool, 'linen_vs_nnx:pool_is_shared', None)


def gen_embed_int(rng):
  return dict(num=rng.choice([2, 3, 5]), features=rng.randint(1, 4), pdt=rng.choice(['int32', 'int32', 'int8', 'uint8', 'int16', 'bool']),
              idx_shape=tuple(rng.randint(1, 3) for _ in range(rng.randint(0, 2))), big=rng.random() < 0.6)


def run_embed_int(ctx, c, npr):
  """Embed is a table lookup for every param_dtype: an integer / bool table with dtype=None comes back row by row, exactly (values
  beyond 2**24 do not survive a detour through float32) and in the table's own dtype."""
  import flax.linen as nn
  from flax import nnx
  import jax.numpy as jnp
  n, f, pdt = c['num'], c['features'], c['pdt']
  info = None if pdt == 'bool' else np.iinfo(pdt)
  if pdt == 'bool':
    E = npr.integers(0, 2, size=(n, f)).astype(bool)
  else:
    E = npr.integers(max(info.min, -100), min(info.max, 100), size=(n, f)).astype(pdt)
    if c['big'] and pdt == 'int32':
      specials = np.asarray([16777217, -16777217, 2 ** 31 - 1, -2 ** 31 + 1, 33554435], np.int32)
      E.reshape(-1)[: min(E.size, len(specials))] = specials[: min(E.size, len(specials))]
  idx = npr.integers(0, n, size=c['idx_shape']).astype(np.int32)
  ci = const_init()
  mod = nn.Embed(n, f, dtype=None, param_dtype=jnp.dtype(pdt), embedding_init=ci)
  m = nnx.Embed(n, f, dtype=None, param_dtype=jnp.dtype(pdt), embedding_init=ci, rngs=rngs0())
  m.embedding.value = jnp.asarray(E)
  ctx.op('linen.Embed[int table]')
  ctx.op('nnx.Embed[int table]')
  want = E[idx]
  for tag, out in (('', mod.apply({'params': {'embedding': jnp.asarray(E)}}, jnp.asarray(idx))), (':nnx', m(jnp.asarray(idx)))):
    g = np.asarray(out)
    ctx.check(g.shape == want.shape and bool(np.array_equal(g.astype(np.int64), want.astype(np.int64))), 'embed.lookup:integer_table' + tag,
              lambda: dict(param_dtype=pdt, got=g.ravel()[:6].tolist(), want=want.ravel()[:6].tolist(), got_dtype=str(g.dtype)))
    ctx.check(str(g.dtype) == pdt, 'embed.dtype:integer_table' + tag, lambda: dict(got=str(g.dtype), want=pdt))


STREAMS['embed_int'] = (gen_embed_int, run_embed_int, lambda c: True)
STREAMS['embed'] = (gen_embed, run_embed, lambda c: c['num'] > 1)
STREAMS['pool'] = (gen_pool, run_pool, lambda c: max(c['window']) > 1)


# ---------------------------------------------------------------------------------------------
# LayerNorm / RMSNorm / GroupNorm / InstanceNorm

EPSILONS = [1e-6, 1e-5, 1e-3, 1e-2, 0.1, 0.5]


def _spell(rng, axes, nd, allow_int=True):
  sp = tuple(a - nd if rng.random() < 0.5 else a for a in axes)
  if len(sp) == 1 and allow_int and rng.random() < 0.5:
    return sp[0]
  return sp if rng.random() < 0.7 else list(sp)


def gen_norm(rng):
  kind = rng.choice(['layer', 'layer', 'rms', 'group', 'group', 'instance'])
  xdt, pdt, dt = pick_dtypes(rng, 0.15)
  c = dict(kind=kind, eps=rng.choice(EPSILONS), use_scale=rng.random() < 0.75, use_bias=kind != 'rms' and rng.random() < 0.75,
           fast=rng.random() < 0.5, mask=rng.choice([None, None, 'full', 'bcast']), f32red=True, xdt=xdt, pdt=pdt, dt=dt)
  if xdt == pdt == 'float32' and dt is None and rng.random() < 0.15:
    c['f32red'] = False  # Linen-only flag; a no-op for float32, exercised for its code path
  if kind in ('layer', 'rms'):
    nd = rng.randint(1, 4)
    shape = [rng.randint(1, 4) for _ in range(nd)]
    red = sorted(rng.sample(range(nd), rng.randint(1, nd))) if rng.random() < 0.7 else [nd - 1]
    if int(np.prod([shape[a] for a in red])) < 2:
      shape[red[-1]] = rng.randint(2, 4)
    feat = [nd - 1] if rng.random() < 0.7 else sorted(rng.sample(range(nd), rng.randint(1, min(2, nd))))
    c.update(shape=tuple(shape), reduction_axes=_spell(rng, red, nd), feature_axes=_spell(rng, feat, nd))
  elif kind == 'group':
    nd = rng.randint(2, 4)
    g, gs = rng.randint(1, 3), rng.randint(1, 3)
    shape = [rng.randint(1, 3) for _ in range(nd - 1)] + [g * gs]
    how = rng.choice(['default', 'default', 'all', 'partial', 'with_batch'])
    if how == 'default':
      red = None
    elif how == 'all':
      red = list(range(1, nd))
    elif how == 'partial':
      mid = list(range(1, nd - 1))
      red = sorted(rng.sample(mid, rng.randint(0, max(0, len(mid) - 1)))) + [nd - 1]
    else:
      red = list(range(0, nd))
    cnt = gs * int(np.prod([shape[a] for a in (range(1, nd - 1) if red is None else red[:-1])]))
    if cnt < 2:
      gs = 2
      shape[-1] = g * gs
    by_size = rng.random() < 0.4
    c.update(shape=tuple(shape), num_groups=None if by_size else g, group_size=gs if by_size else None,
             reduction_axes=None if red is None else _spell(rng, red, nd, allow_int=True))
    if c['mask'] == 'bcast' and rng.random() < 0.3:
      c['mask'] = 'bcast_features'
  else:
    nd = rng.randint(3, 4)
    shape = [rng.randint(1, 3) for _ in range(nd)]
    feat = [nd - 1] if rng.random() < 0.7 else sorted(rng.sample(range(1, nd), rng.randint(1, 2)))
    if len(feat) == nd - 1:
      feat = [nd - 1]
    redax = [a for a in range(1, nd) if a not in feat]
    if int(np.prod([shape[a] for a in redax])) < 2:
      shape[redax[0]] = rng.randint(2, 3)
    c.update(shape=tuple(shape), feature_axes=_spell(rng, feat, nd))
  return c


def _norm_ref(c, x, S, B, mask):
  kind, nd = c['kind'], len(c['shape'])
  if kind in ('layer', 'rms'):
    return L().layer_norm(x, c['reduction_axes'], c['feature_axes'], c['eps'], S, B, mask, use_mean=kind == 'layer')
  if kind == 'instance':
    ra, fa = L().instance_norm_axes(nd, c['feature_axes'])
    return L().layer_norm(x, ra, fa, c['eps'], S, B, mask)
  g = c['num_groups'] if c['num_groups'] is not None else c['shape'][-1] // c['group_size']
  return L().group_norm(x, g, c['reduction_axes'], c['eps'], S, B, mask)


def draw_conditioned(c, npr, stats_fn, shape, want_mask, tries=25):
  """Inputs (and mask) such that every normalisation group has >= 1 valid element and var + eps >= 1e-2."""
  from vf import core
  for _ in range(tries):
    x = vals(npr, shape)
    mask = None
    if want_mask:
      mshape = list(shape)
      if want_mask in ('bcast', 'bcast_features'):
        for a in range(len(mshape) - (1 if want_mask == 'bcast' and c.get('kind') == 'group' else 0)):
          if npr.random() < 0.4:
            mshape[a] = 1
        if want_mask == 'bcast_features':
          mshape[-1] = 1
      mask = npr.random(size=mshape) < 0.7
    mean, var, cnt = stats_fn(x, mask)
    if np.all(cnt >= 1) and np.all(var + c['eps'] >= 1e-2):
      return x, mask
  raise core.CaseSkip('ill-conditioned normalisation group')


def run_norm(ctx, c, npr):
  import flax.linen as nn
  from flax import nnx
  import jax.numpy as jnp
  kind, shape, nd = c['kind'], tuple(c['shape']), len(c['shape'])
  fa = (nd - 1,) if kind == 'group' else L().norm_axes(c['feature_axes'], nd)
  fshape = tuple(shape[a] for a in fa)
  x, mask = draw_conditioned(c, npr, lambda xx, mm: _norm_ref(c, xx, None, None, mm)[1], shape, c['mask'])
  S = vals(npr, fshape, 1.0, nonzero=True) if c['use_scale'] else None
  B = vals(npr, fshape, 1.0) if c['use_bias'] else None
  has_p = S is not None or B is not None
  odt = c['dt'] or (L().promote(c['xdt'], c['pdt']) if has_p else c['xdt'])
  want, _ = _norm_ref(c, x, S, B, mask)
  xj = J(x, c['xdt'])
  mj = None if mask is None else jnp.asarray(mask)
  ci = const_init()
  common = dict(epsilon=c['eps'], dtype=jdt(c['dt']), param_dtype=jdt(c['pdt']), use_scale=c['use_scale'], scale_init=ci,
                use_fast_variance=c['fast'])
  if kind != 'rms':
    common.update(use_bias=c['use_bias'], bias_init=ci)
  lk = dict(common, force_float32_reductions=c['f32red'])
  if kind == 'layer':
    mod = nn.LayerNorm(reduction_axes=c['reduction_axes'], feature_axes=c['feature_axes'], **lk)
  elif kind == 'rms':
    mod = nn.RMSNorm(reduction_axes=c['reduction_axes'], feature_axes=c['feature_axes'], **lk)
  elif kind == 'group':
    mod = nn.GroupNorm(num_groups=c['num_groups'], group_size=c['group_size'], reduction_axes=c['reduction_axes'], **lk)
  else:
    mod = nn.InstanceNorm(feature_axes=c['feature_axes'], **lk)
  ctx.op('linen.' + type(mod).__name__)
  v = linen_init(mod, xj)
  want_shapes = {}
  if S is not None:
    want_shapes['params/scale'] = fshape
  if B is not None:
    want_shapes['params/bias'] = fshape
  if not ctx.check(shapes_of(v) == want_shapes, 'norm.param_shape', lambda: dict(got=shapes_of(v), want=want_shapes)):
    return
  P = {}
  if S is not None:
    P['scale'] = J(S, c['pdt'])
  if B is not None:
    P['bias'] = J(B, c['pdt'])
  Vars = {'params': P} if P else {}
  mkw = {} if mj is None else dict(mask=mj)
  feature_bcast = c['mask'] == 'bcast_features' and shape[-1] > 1
  y = None
  if feature_bcast:
    # docstring: "mask: Binary array of shape broadcastable to inputs tensor"
    try:
      y = mod.apply(Vars, xj, **mkw)
      close(ctx, 'groupnorm.mask_feature_dim_broadcast', y, want, odt)
    except TypeError as e:
      ctx.check(False, 'groupnorm.mask_feature_dim_broadcast', dict(raised=repr(e)[:200]))
  else:
    y = mod.apply(Vars, xj, **mkw)
    close(ctx, 'norm.formula:' + kind, y, want, odt, detail=dict(mask=c['mask'], fast=c['fast']))
    check_dtype(ctx, 'norm', y, odt)
  # "Clips negative variances to zero which can happen due to roundoff errors. This avoids downstream NaNs": a large,
  # nearly constant input makes E[x^2]-E[x]^2 pure float32 round-off of either sign
  big = None
  if c['fast'] and kind != 'rms' and c['xdt'] == 'float32' and not feature_bcast:
    big = J(3000.7 + npr.integers(0, 3, size=shape) * 0.00025)
    ctx.check(bool(np.all(np.isfinite(L().f64(mod.apply(Vars, big, **mkw))))), 'norm.constant_input_not_finite', dict(kind=kind, eps=c['eps']))
  # NNX
  if kind == 'instance' or len(fa) != 1:
    return  # no nnx.InstanceNorm; NNX norms own a single (num_features,) feature axis
  nk = dict(common, rngs=rngs0())
  if kind == 'layer':
    m = nnx.LayerNorm(fshape[0], reduction_axes=c['reduction_axes'], feature_axes=c['feature_axes'], **nk)
  elif kind == 'rms':
    m = nnx.RMSNorm(fshape[0], reduction_axes=c['reduction_axes'], feature_axes=c['feature_axes'], **nk)
  else:
    m = nnx.GroupNorm(fshape[0], num_groups=c['num_groups'], group_size=c['group_size'], reduction_axes=c['reduction_axes'], **nk)
  ctx.op('nnx.' + type(m).__name__)
  if S is not None:
    m.scale.value = P['scale']
  if B is not None:
    m.bias.value = P['bias']
  mech = 'norm.formula:' + kind + '.nnx'
  if kind == 'group':
    ra = tuple(range(1, nd)) if c['reduction_axes'] is None else L().norm_axes(c['reduction_axes'], nd)
    if nd - len(ra) != 1:
      mech = 'groupnorm.nnx_stats_repeat_axis'  # group statistics have to be expanded along the channel axis
    if feature_bcast:
      mech = 'groupnorm.mask_feature_dim_broadcast'  # same finding as on the Linen side
  if mech.startswith('groupnorm.'):
    try:
      yn = m(xj, **mkw)
    except Exception as e:  # noqa: BLE001 - attributed to the named mechanism
      ctx.check(False, mech, dict(api='nnx', raised=repr(e)[:200]))
      return
  else:
    yn = m(xj, **mkw)
  if close(ctx, mech, yn, want, odt, detail=dict(mask=c['mask'], fast=c['fast'])) and y is not None:
    agree(ctx, y, yn, odt, 'norm.' + kind)
    if big is not None:
      ctx.check(bool(np.all(np.isfinite(L().f64(m(big, **mkw))))), 'norm.constant_input_not_finite:nnx', dict(kind=kind, eps=c['eps']))
  if not mech.startswith('norm.'):
    ctx.event('oracle:norm.formula')


STREAMS['norm'] = (gen_norm, run_norm, lambda c: int(np.prod(c['shape'])) > 2)


def gen_norm_axis_name(rng):
  """Normalisation layers constructed with axis_name=... and called under jax.vmap(axis_name=...): the statistics are those of the
  slices combined over the named axis (what pmean of equally sized slices gives), for the stacked-moments path and the single-array
  path (RMSNorm, use_fast_variance=False) alike, in both APIs."""
  kind = rng.choice(['layer', 'rms', 'group', 'batch', 'layer', 'rms'])
  return dict(kind=kind, api=rng.choice(['linen', 'nnx']), fast=rng.random() < 0.5, B=rng.randint(2, 3), n=rng.randint(2, 3),
              f=rng.choice([2, 4]), eps=rng.choice([1e-3, 1e-2, 0.1]), mask=rng.choice([None, None, None, 'equal_counts', 'unequal_counts']))


def run_norm_axis_name(ctx, c, npr):
  import jax
  import jax.numpy as jnp
  import flax.linen as nn
  from flax import nnx
  kind, B, n, f = c['kind'], c['B'], c['n'], c['f']
  x = (vals(npr, (B, n, f)) + np.arange(B).reshape(B, 1, 1) * 1.5).astype(np.float32)   # slices with clearly different statistics
  S = vals(npr, (f,), 1.0, nonzero=True)
  Bs = None if kind == 'rms' else vals(npr, (f,), 1.0)
  mask = None
  if c['mask'] and kind != 'rms':
    mask = np.ones((B, n, f), bool)
    if c['mask'] == 'equal_counts':
      mask[:, 0, 0] = False                     # every slice loses the same number of positions
    else:
      mask[0, :n - 1, 0] = False                # slice 0 loses n-1 positions, the other slices none
  xj, mj = J(x), None if mask is None else jnp.asarray(mask)
  # reference: one array, the mapped axis joins the reduction axes
  if kind in ('layer', 'rms'):
    want, _ = L().layer_norm(x, (0, 2), (2,), c['eps'], S, Bs, mask, use_mean=kind == 'layer')
  elif kind == 'group':
    want, _ = L().group_norm(x, 2 if f % 2 == 0 else 1, (0, 1, 2), c['eps'], S, Bs, mask)
  else:
    want, _ = L().layer_norm(x, (0, 1), (2,), c['eps'], S, Bs, mask)
  ci = const_init()
  common = dict(epsilon=c['eps'], use_fast_variance=c['fast'], axis_name='b')
  ctx.op('%s.%s(axis_name) under vmap' % (c['api'], kind))
  mkw = lambda m: {} if m is None else dict(mask=m)  # noqa: E731
  if c['api'] == 'linen':
    if kind == 'layer':
      mod = nn.LayerNorm(**common)
    elif kind == 'rms':
      mod = nn.RMSNorm(**common)
    elif kind == 'group':
      mod = nn.GroupNorm(num_groups=2 if f % 2 == 0 else 1, reduction_axes=(0, 1), **common)
    else:
      mod = nn.BatchNorm(use_running_average=False, momentum=0.9, **common)
    P = {'scale': J(S)}
    if Bs is not None:
      P['bias'] = J(Bs)
    V = {'params': P}
    if kind == 'batch':
      V['batch_stats'] = {'mean': jnp.zeros((f,)), 'var': jnp.ones((f,))}

    def one(xs, ms):
      out = mod.apply(V, xs, **mkw(ms), **({'mutable': ['batch_stats']} if kind == 'batch' else {}))
      return out[0] if kind == 'batch' else out
    y = jax.vmap(one, axis_name='b')(xj, mj) if mj is not None else jax.vmap(lambda xs: one(xs, None), axis_name='b')(xj)
  else:
    if kind == 'layer':
      m = nnx.LayerNorm(f, rngs=rngs0(), **common)
    elif kind == 'rms':
      m = nnx.RMSNorm(f, rngs=rngs0(), **common)
    elif kind == 'group':
      m = nnx.GroupNorm(f, num_groups=2 if f % 2 == 0 else 1, reduction_axes=(0, 1), rngs=rngs0(), **common)
    else:
      m = nnx.BatchNorm(f, use_running_average=False, momentum=0.9, rngs=rngs0(), **common)
    m.scale.value = J(S)
    if Bs is not None:
      m.bias.value = J(Bs)
    gd, st = nnx.split(m)

    def one(xs, ms):
      return nnx.merge(gd, st)(xs, **mkw(ms))
    y = jax.vmap(one, axis_name='b')(xj, mj) if mj is not None else jax.vmap(lambda xs: one(xs, None), axis_name='b')(xj)
  mech = 'norm.axis_name:%s' % kind + ('' if c['mask'] != 'unequal_counts' or mask is None else ':masked_slices_with_unequal_counts')
  close(ctx, mech, y, want, detail=dict(api=c['api'], fast=c['fast'], mask=c['mask']))


STREAMS['norm_axis_name'] = (gen_norm_axis_name, run_norm_axis_name, lambda c: True)


def gen_norm_highrank(rng):
  """Inputs of rank 9-11 (mostly size-1 dimensions): axis indices >= 8, where the iteration order of a Python set of ints is no
  longer the sorted order."""
  kind = rng.choice(['layer', 'layer', 'rms', 'group'])
  c = dict(kind=kind, eps=rng.choice(EPSILONS), use_scale=True, use_bias=kind != 'rms', fast=rng.random() < 0.5, mask=rng.choice([None, None, 'full']),
           f32red=True, xdt='float32', pdt='float32', dt=None)
  nd = rng.randint(9, 11)
  shape = [1] * nd
  hi = rng.randint(8, nd - 1)
  lo = rng.randint(0, 7)
  if kind == 'group':
    g, gs = rng.randint(1, 2), rng.randint(2, 3)
    shape[-1] = g * gs
    lo = rng.randint(1, 7)
    shape[lo] = rng.randint(2, 3)
    red = sorted({lo, nd - 1} | ({rng.randint(1, nd - 2)} if rng.random() < 0.5 else set()))
    c.update(shape=tuple(shape), num_groups=g, group_size=None, reduction_axes=_spell(rng, red, nd, allow_int=False))
  else:
    shape[hi], shape[lo] = rng.randint(2, 3), rng.randint(2, 4)
    two_feat = rng.random() < 0.5
    feat = sorted([lo, hi]) if two_feat else [hi]
    red = sorted({lo, hi} | ({rng.randint(0, nd - 1)} if rng.random() < 0.4 else set()))
    if rng.random() < 0.5:
      red = list(reversed(red))
      feat = list(reversed(feat))
    c.update(shape=tuple(shape), reduction_axes=_spell(rng, red, nd, allow_int=False), feature_axes=_spell(rng, feat, nd, allow_int=False))
  return c


STREAMS['norm_highrank'] = (gen_norm_highrank, run_norm, lambda c: True)


# ---------------------------------------------------------------------------------------------
# BatchNorm: running statistics over a sequence of training calls, then inference


def gen_batchnorm(rng):
  xdt, pdt, dt = pick_dtypes(rng, 0.12)
  nd = rng.randint(2, 4)
  shape = [rng.randint(1, 4) for _ in range(nd)]
  feat = [nd - 1] if rng.random() < 0.6 else [rng.randrange(nd)]
  if nd >= 3 and rng.random() < 0.15:
    feat = sorted(rng.sample(range(nd), 2))  # Linen accepts several feature axes
  red = [a for a in range(nd) if a not in feat]
  if int(np.prod([shape[a] for a in red])) < 2:
    shape[red[0]] = rng.randint(2, 4)
  return dict(shape=tuple(shape), axis=_spell(rng, feat, nd), momentum=rng.choice([0.9, 0.99, 0.25, 0.75, 0.0, 0.6]),
              eps=rng.choice(EPSILONS), use_scale=rng.random() < 0.75, use_bias=rng.random() < 0.75, fast=rng.random() < 0.5,
              mask=rng.choice([None, None, 'full', 'bcast']), steps=rng.randint(2, 3), flag_at=rng.choice(['call', 'ctor']),
              xdt=xdt, pdt=pdt, dt=dt)


def run_batchnorm(ctx, c, npr):
  import flax.linen as nn
  from flax import nnx
  import jax.numpy as jnp
  shape, nd = tuple(c['shape']), len(c['shape'])
  ra, fa = L().batch_norm_axes(nd, c['axis'])
  fshape = tuple(shape[a] for a in fa)
  mom, eps = c['momentum'], c['eps']
  S = vals(npr, fshape, 1.0, nonzero=True) if c['use_scale'] else None
  B = vals(npr, fshape, 1.0) if c['use_bias'] else None
  odt = c['dt'] or (L().promote(c['xdt'], c['pdt']) if (S is not None or B is not None) else c['xdt'])
  mean_run = vals(npr, fshape, 1.0)
  var_run = (npr.integers(4, 33, size=fshape) / 16.0).astype(np.float64)
  ci = const_init()
  at_call = c['flag_at'] == 'call'
  kw = dict(axis=c['axis'], momentum=mom, epsilon=eps, dtype=jdt(c['dt']), param_dtype=jdt(c['pdt']), use_bias=c['use_bias'],
            use_scale=c['use_scale'], bias_init=ci, scale_init=ci, use_fast_variance=c['fast'])
  train = nn.BatchNorm(use_running_average=None if at_call else False, **kw)
  infer = nn.BatchNorm(use_running_average=None if at_call else True, **kw)
  tkw = dict(use_running_average=False) if at_call else {}
  ikw = dict(use_running_average=True) if at_call else {}
  x0 = J(vals(npr, shape), c['xdt'])
  v = train.init(__import__('jax').random.key(0), x0, **tkw)
  ctx.op('linen.BatchNorm')
  want_shapes = {'batch_stats/mean': fshape, 'batch_stats/var': fshape}
  if S is not None:
    want_shapes['params/scale'] = fshape
  if B is not None:
    want_shapes['params/bias'] = fshape
  if not ctx.check(shapes_of(v) == want_shapes, 'batchnorm.param_shape', lambda: dict(got=shapes_of(v), want=want_shapes)):
    return
  ctx.check(bool(np.all(L().f64(v['batch_stats']['mean']) == 0) and np.all(L().f64(v['batch_stats']['var']) == 1)),
            'batchnorm.initial_stats', None)
  P = {}
  if S is not None:
    P['scale'] = J(S, c['pdt'])
  if B is not None:
    P['bias'] = J(B, c['pdt'])
  stats = {'mean': J(mean_run), 'var': J(var_run)}
  single = len(fa) == 1
  m = None
  if single:
    m = nnx.BatchNorm(fshape[0], use_running_average=False, rngs=rngs0(), **kw)
    ctx.op('nnx.BatchNorm')
    ctx.check(bool(np.all(L().f64(m.mean.value) == 0) and np.all(L().f64(m.var.value) == 1)), 'batchnorm.initial_stats:nnx', None)
    if S is not None:
      m.scale.value = P['scale']
    if B is not None:
      m.bias.value = P['bias']
    m.mean.value, m.var.value = stats['mean'], stats['var']

  def variables():
    return dict({'params': P} if P else {}, batch_stats=stats)

  def squeeze(a):
    return a.reshape(fshape)

  for t in range(c['steps']):
    x, mask = draw_conditioned(c, npr, lambda xx, mm: L().moments(xx, ra, mm), shape, c['mask'])
    bmean, bvar, _ = L().moments(x, ra, mask)
    want = L().affine((x - bmean) / np.sqrt(bvar + eps), S, B, fa)
    mean_run = mom * mean_run + (1 - mom) * squeeze(bmean)
    var_run = mom * var_run + (1 - mom) * squeeze(bvar)
    xj = J(x, c['xdt'])
    mkw = {} if mask is None else dict(mask=jnp.asarray(mask))
    y, upd = train.apply(variables(), xj, mutable=['batch_stats'], **tkw, **mkw)
    stats = dict(upd['batch_stats'])
    close(ctx, 'batchnorm.formula', y, want, odt, detail=dict(step=t, mask=c['mask']))
    close(ctx, 'batchnorm.running_stats:mean', stats['mean'], mean_run, detail=dict(step=t, momentum=mom))
    close(ctx, 'batchnorm.running_stats:var', stats['var'], var_run, detail=dict(step=t, momentum=mom))
    if m is not None:
      yn = m(xj, **tkw, **mkw)
      close(ctx, 'batchnorm.formula:nnx', yn, want, odt, detail=dict(step=t))
      close(ctx, 'batchnorm.running_stats:mean.nnx', m.mean.value, mean_run, detail=dict(step=t, momentum=mom))
      close(ctx, 'batchnorm.running_stats:var.nnx', m.var.value, var_run, detail=dict(step=t, momentum=mom))
      agree(ctx, y, yn, odt, 'batchnorm.train')
      agree(ctx, stats['mean'], m.mean.value, 'float32', 'batchnorm.mean')
      agree(ctx, stats['var'], m.var.value, 'float32', 'batchnorm.var')
  check_dtype(ctx, 'batchnorm', y, odt)
  # inference: running statistics used unchanged
  x = vals(npr, shape)
  xj = J(x, c['xdt'])
  bshape = [1] * nd
  for a in fa:
    bshape[a] = shape[a]
  want = L().affine((x - mean_run.reshape(bshape)) / np.sqrt(var_run.reshape(bshape) + eps), S, B, fa)
  y = infer.apply(variables(), xj, **ikw)
  close(ctx, 'batchnorm.inference', y, want, odt)
  y2, upd = infer.apply(variables(), xj, mutable=['batch_stats'], **ikw)
  same = all(np.array_equal(np.asarray(upd['batch_stats'][k]), np.asarray(stats[k])) for k in ('mean', 'var')) if 'batch_stats' in upd else True
  ctx.check(same and bool(np.array_equal(np.asarray(y), np.asarray(y2))), 'batchnorm.inference_mutated_stats', None)
  if m is not None:
    before = (np.asarray(m.mean.value).copy(), np.asarray(m.var.value).copy())
    if at_call:
      yn = m(xj, use_running_average=True)
    else:
      m.eval()
      yn = m(xj)
    close(ctx, 'batchnorm.inference:nnx', yn, want, odt)
    ctx.check(np.array_equal(before[0], np.asarray(m.mean.value)) and np.array_equal(before[1], np.asarray(m.var.value)),
              'batchnorm.inference_mutated_stats:nnx', None)
    agree(ctx, y, yn, odt, 'batchnorm.inference')


STREAMS['batchnorm'] = (gen_batchnorm, run_batchnorm, lambda c: True)


# ---------------------------------------------------------------------------------------------
# Dropout


def gen_dropout(rng):
  nd = rng.randint(1, 3)
  shape = tuple(rng.randint(2, 6) for _ in range(nd))
  bd = ()
  if rng.random() < 0.45:
    bd = tuple(sorted(rng.sample(range(nd), rng.randint(1, nd))))
    bd = tuple(a - nd if rng.random() < 0.3 else a for a in bd)
  return dict(shape=shape, rate=rng.choice([0.0, 1.0, 0.1, 0.25, 0.5, 0.75, 0.9, 0.25, 0.75]), broadcast_dims=bd,
              deterministic=rng.random() < 0.2, flag_at=rng.choice(['call', 'ctor']), key=rng.randrange(1 << 30),
              xdt=rng.choice(['float32', 'float32', 'float32', 'bfloat16']))


def run_dropout(ctx, c, npr):
  import flax.linen as nn
  from flax import nnx
  import jax
  shape, rate, det = tuple(c['shape']), c['rate'], c['deterministic']
  x1 = vals(npr, shape, nonzero=True)
  x2 = -vals(npr, shape, nonzero=True) * 0.5
  x1j, x2j = J(x1, c['xdt']), J(x2, c['xdt'])
  key = jax.random.key(c['key'])
  at_call = c['flag_at'] == 'call'
  mod = nn.Dropout(rate, broadcast_dims=c['broadcast_dims'], deterministic=None if at_call else det)
  ckw = dict(deterministic=det) if at_call else {}
  ctx.op('linen.Dropout')
  ctx.op('nnx.Dropout')

  def lin(xj, k=key):
    return mod.apply({}, xj, rngs={'dropout': k}, **ckw)

  def new_nnx():
    d = nnx.Dropout(rate, broadcast_dims=c['broadcast_dims'], deterministic=False if at_call else det, rngs=nnx.Rngs(dropout=c['key']))
    return d

  def nx(xj):
    return new_nnx()(xj, **ckw)

  tol = 'float32' if c['xdt'] == 'float32' else c['xdt']
  for tag, f in (('', lin), (':nnx', nx)):
    y1 = f(x1j)
    if det or rate == 0.0:
      ctx.check(y1.dtype == x1j.dtype and bool(np.array_equal(np.asarray(y1), np.asarray(x1j))), 'dropout.identity' + tag,
                dict(rate=rate, deterministic=det))
      continue
    if rate == 1.0:
      ctx.check(tuple(y1.shape) == shape and bool(np.all(L().f64(y1) == 0)), 'dropout.rate_one_is_zero' + tag, None)
      continue
    y2 = f(x2j)
    g1, g2 = L().f64(y1), L().f64(y2)
    z1, z2 = g1 == 0, g2 == 0
    ctx.check(bool(np.array_equal(z1, z2)), 'dropout.mask_data_independent' + tag, lambda: dict(z1=z1.astype(int).ravel()[:16].tolist(), z2=z2.astype(int).ravel()[:16].tolist()))
    ctx.check(bool(np.array_equal(L().f64(f(x1j)), g1)), 'dropout.mask_key_determined' + tag, None)
    for g, xx in ((g1, x1), (g2, x2)):
      keep = g != 0
      want = np.where(keep, xx / (1.0 - rate), 0.0)
      close(ctx, 'dropout.survivor_scale' + tag, g, want, tol, detail=dict(rate=rate))
    ok = True
    for a in c['broadcast_dims']:
      ok = ok and bool(np.all(z1 == np.take(z1, [0], axis=a)))
    ctx.check(ok, 'dropout.broadcast_dims' + tag, lambda: dict(dims=c['broadcast_dims'], zeros=z1.astype(int).tolist()))
  if det or rate in (0.0, 1.0):
    return
  # Linen and NNX draw the same mask from the same key
  k = nnx.Rngs(dropout=c['key']).dropout()
  yl = mod.apply({}, x1j, rng=k, **ckw)
  agree(ctx, yl, nx(x1j), tol, 'dropout.same_key')
  # rate is the drop probability: keep fraction of a 64x64 tensor within 6 sigma of 1-rate
  big = J(np.ones((64, 64)))
  for tag, out in (('', nn.Dropout(rate, deterministic=False).apply({}, big, rng=key)),
                   (':nnx', nnx.Dropout(rate, rngs=nnx.Rngs(dropout=c['key']))(big))):
    frac = float(np.mean(L().f64(out) != 0))
    sigma = (rate * (1 - rate) / 4096.0) ** 0.5
    ctx.check(abs(frac - (1 - rate)) <= 6 * sigma, 'dropout.keep_probability' + tag, dict(rate=rate, kept_fraction=frac))


STREAMS['dropout'] = (gen_dropout, run_dropout, lambda c: 0.0 < c['rate'] < 1.0 and not c['deterministic'])
