"""C16 — flatten/unflatten of nested dicts and NNX State conversions are mutual inverses; State set laws.

Monitor shape: algebraic (inverse / set-law) oracles with an independent path enumerator, plus an invariant
hook on every FlatState constructed while the workload runs (keys strictly increasing, equal lengths)."""
import itertools

import numpy as np

LEVEL = 'exploration'
LEVEL_TEXT = ('Bounded-exhaustive runtime check: every ordered tree shape with <= 6 nodes (8 thorough) x key labelings x '
              'FrozenDict placements x keep_empty_nodes x separators x is_leaf predicates is pushed through the real '
              'flatten_dict/unflatten_dict/path_aware_map and nnx flatten_mapping/unflatten_mapping/flatten_to_sequence and '
              'compared with inverse laws and an independent leaf-path enumerator; NNX States built from the same shapes '
              '(and from real module graphs) are pushed through to_flat_state/from_flat_state/to_pure_dict/'
              'replace_by_pure_dict/split/filter/merge/|/- for all pairs of sub-states, with a sortedness invariant hooked '
              'on FlatState construction.'
              ' Split / filter are also checked for FIRST-match membership against an independent reading of the filters;'
              ' States contain string keys that look like integers.'
              ' Round e/f: copied empty_node marker between flatten and unflatten, state.plain_leaves (pure-dict round trip with str / dataclass / Enum leaves).')
LEVEL_NOTE = ('Trusts the reference path enumerator and prune_empty in vf/props/c16.py; is_leaf true at the root and '
              'separators occurring in keys are outside the property domain and not generated.')
TECHNIQUE = 'runtime monitoring: inverse-law and set-law oracles + FlatState sortedness invariant hook on the real functions'
RULE = ('all ordered rooted tree shapes with <= N nodes (N=6 quick, 8 thorough); each shape is labelled with keys from '
        "{a,b,c,'',ab,'b.c'} under 6 (quick) / 12 (thorough) seeded labelings, inner dicts optionally FrozenDict; every "
        'combination of keep_empty_nodes x sep in {None,/,.,::} x is_leaf in {None, depth>=1, depth>=2, key==b}. '
        'State part: same shapes with str/int keys and VariableState/array leaves; all ordered pairs of sub-states drawn '
        'from <= 6 path subsets. distinct = distinct (labelled tree, options); non-trivial = tree has >= 2 nodes.')
ASSUMPTIONS = ['keys are strings (ints allowed in NNX States at whole levels); separators do not occur in keys',
               'vf.compat JAX aliases are faithful']
PLAN = {'quick': dict(workers=2, timeout_s=900), 'thorough': dict(workers=12, timeout_s=3000)}
MIN_EVENTS = {'quick': {'oracle:dict.roundtrip': 3000, 'oracle:nnx.mapping.roundtrip': 1000, 'oracle:state.flat_roundtrip': 200,
                        'oracle:state.diff': 200, 'oracle:state.merge': 200, 'flatstate_constructed': 500},
              'thorough': {'oracle:dict.roundtrip': 30000, 'oracle:state.diff': 2000}}


# ---------------------------------------------------------------------------------------------
# tree shapes


def shapes(n):
  """All ordered rooted trees with exactly n nodes, as nested tuples of children."""
  if n == 1:
    return [()]
  out = []
  for parts in _compositions(n - 1):
    for kids in itertools.product(*[shapes(p) for p in parts]):
      out.append(tuple(kids))
  return out


def _compositions(n):
  if n == 0:
    yield ()
    return
  for first in range(1, n + 1):
    for rest in _compositions(n - first):
      yield (first,) + rest


KEYS = ['a', 'b', 'c', '', 'ab', 'b.c', 'zz', 'B']


def label(shape, rng, frozen_p, leaf_counter, allow_dot=True, leaf_is_dict_p=0.35):
  """shape -> nested dict. Childless nodes become leaves (unique ints / arrays / None) or empty dicts."""
  from flax.core import FrozenDict
  if shape == ():
    if rng.random() < leaf_is_dict_p:
      return {}
    leaf_counter[0] += 1
    k = leaf_counter[0]
    r = rng.random()
    if r < 0.7:
      return k
    if r < 0.85:
      return np.full((2,), k, np.int32)
    return ('tuple-leaf', k)
  keys = [k for k in KEYS if allow_dot or '.' not in k]
  ks = rng.sample(keys, len(shape)) if len(shape) <= len(keys) else None
  d = {k: label(child, rng, frozen_p, leaf_counter, allow_dot, leaf_is_dict_p) for k, child in zip(ks, shape)}
  if rng.random() < frozen_p:
    return FrozenDict(d)
  return d


def is_map(x):
  from collections.abc import Mapping
  return isinstance(x, Mapping)


def norm(x):
  """Mapping types are erased (unflatten always builds dicts); leaves compared by identity-or-equality."""
  if is_map(x):
    return {k: norm(v) for k, v in x.items()}
  return x


def same(a, b):
  if is_map(a) or is_map(b):
    if not (is_map(a) and is_map(b)) or list(a.keys()) != list(b.keys()) and set(a.keys()) != set(b.keys()):
      return False
    return all(same(a[k], b[k]) for k in a)
  if a is b:
    return True
  if isinstance(a, np.ndarray) or isinstance(b, np.ndarray):
    return type(a) is type(b) and a.dtype == b.dtype and np.array_equal(a, b)
  return type(a) is type(b) and a == b


def ident(a, b):
  """Leaf travelled unchanged: identity, except that a FrozenDict re-wraps its inner dicts on every access."""
  return a is b or (is_map(a) and is_map(b) and same(norm(a), norm(b)))


def ref_leaves(x, is_leaf=None, prefix=()):
  """Independent enumerator: list of (path, leaf, is_empty_dict) in insertion order."""
  if not is_map(x) or (prefix != () and is_leaf is not None and is_leaf(prefix, x)):
    return [(prefix, x, False)]
  if len(x) == 0:
    return [(prefix, x, True)]
  out = []
  for k, v in x.items():
    out += ref_leaves(v, is_leaf, prefix + (k,))
  return out


def prune_empty(x, is_leaf=None, prefix=()):
  """Remove empty sub-dicts recursively (what flatten without keep_empty_nodes cannot represent)."""
  if not is_map(x) or (prefix != () and is_leaf is not None and is_leaf(prefix, x)):
    return x
  out = {}
  for k, v in x.items():
    pv = prune_empty(v, is_leaf, prefix + (k,))
    if is_map(pv) and len(pv) == 0 and not (is_leaf is not None and is_leaf(prefix + (k,), v) and is_map(v) and False):
      # an empty mapping survives only if is_leaf declared it a leaf
      if is_leaf is not None and is_map(v) and is_leaf(prefix + (k,), v):
        out[k] = v
      continue
    out[k] = pv
  return out


IS_LEAFS = {
    'none': None,
    'depth>=1': lambda p, x: len(p) >= 1,
    'depth>=2': lambda p, x: len(p) >= 2,
    'key==b': lambda p, x: len(p) >= 1 and p[-1] == 'b',
}
SEPS = [None, '/', '.', '::']


def check_dict_apis(ctx, tree, has_dot_keys):
  from flax import traverse_util as tu
  from flax.nnx import traversals as tr
  for keep, sep, (lname, is_leaf) in itertools.product([False, True], SEPS, IS_LEAFS.items()):
    if sep == '.' and has_dot_keys:
      continue
    # guard wrapper: root is outside the domain of is_leaf
    il = None if is_leaf is None else (lambda p, x, f=is_leaf: p != () and f(p, x))
    leaves = ref_leaves(tree, il)
    if leaves and leaves[0][0] == ():
      leaves = []  # root itself is an empty dict
    for api, flat_fn, unflat_fn, sentinel in (
        ('dict', tu.flatten_dict, tu.unflatten_dict, tu.empty_node),
        ('nnx.mapping', lambda x, **k: tr.flatten_mapping(x, **k), lambda x, sep=None: tr.unflatten_mapping(x, sep=sep), tr.empty_node)):
      flat = flat_fn(tree, keep_empty_nodes=keep, is_leaf=il, sep=sep)
      ctx.op(api + '.flatten')
      want_paths = [p for p, v, empty in leaves if keep or not empty]
      want_keys = [p if sep is None else sep.join(p) for p in want_paths]
      ctx.check(list(flat.keys()) == want_keys, api + '.keys',
                lambda: dict(tree=repr(tree), keep=keep, sep=sep, is_leaf=lname, want=want_keys, got=list(flat.keys())))
      # leaf values travel unchanged (identity), empty nodes become the sentinel
      ok = True
      for (p, v, empty), key in zip([l for l in leaves if keep or not l[2]], want_keys):
        if key in flat:
          ok = ok and ((flat[key] is sentinel) if empty else ident(flat[key], v))
      ctx.check(ok, api + '.values', lambda: dict(tree=repr(tree), keep=keep, sep=sep, is_leaf=lname))
      back = unflat_fn(flat, sep=sep)
      ctx.op(api + '.unflatten')
      want = norm(tree) if keep else norm(prune_empty(tree, il))
      ctx.check(same(back, want), api + '.roundtrip',
                lambda: dict(tree=repr(tree), keep=keep, sep=sep, is_leaf=lname, got=repr(back), want=repr(want)))
      if keep and any(v is sentinel for v in flat.values()):
        # empty_node is a struct.dataclass "to be compatible with JAX": a flat dict that went through a pytree map, a copy or a
        # pickle round trip holds an equal, new marker object and still unflattens to the same tree
        import copy
        import pickle
        import jax
        for how, tf in (('tree_map', lambda v: jax.tree_util.tree_map(lambda x: x, v)), ('deepcopy', copy.deepcopy),
                        ('pickle', lambda v: pickle.loads(pickle.dumps(v)))):
          flat2 = {k: (tf(v) if v is sentinel else v) for k, v in flat.items()}
          back2 = unflat_fn(flat2, sep=sep)
          ctx.check(same(back2, want), api + '.roundtrip:empty_node_marker_copied',
                    lambda: dict(tree=repr(tree), sep=sep, is_leaf=lname, how=how, got=repr(back2), want=repr(want)))
      # sep form == join of tuple form
      if sep is not None:
        flat_t = flat_fn(tree, keep_empty_nodes=keep, is_leaf=il, sep=None)
        ctx.check([sep.join(k) for k in flat_t] == list(flat.keys()) and all(ident(a, b) for a, b in zip(flat_t.values(), flat.values())),
                  api + '.sep_vs_tuple', lambda: dict(tree=repr(tree), sep=sep))
    if sep is None and not keep:
      seq = tr.flatten_to_sequence(tree, is_leaf=il)
      ctx.op('flatten_to_sequence')
      want_seq = [(p, v) for p, v, empty in leaves if not empty]
      ctx.check(len(seq) == len(want_seq) and all(a[0] == b[0] and ident(a[1], b[1]) for a, b in zip(seq, want_seq)),
                'nnx.sequence', lambda: dict(tree=repr(tree), is_leaf=lname, got=repr(seq)))

  # path_aware_map: every leaf once, with its full path, structure preserved
  visits = []

  def f(path, v):
    visits.append((path, v))
    return ('mapped', path)

  out = tu.path_aware_map(f, tree)
  ctx.op('path_aware_map')
  leaves = [l for l in ref_leaves(tree) if l[0] != ()]
  want_visits = [(p, v) for p, v, empty in leaves if not empty]
  ok = len(visits) == len(want_visits) and all(a[0] == b[0] and ident(a[1], b[1]) for a, b in zip(visits, want_visits))
  ctx.check(ok, 'dict.path_aware_map_visits', lambda: dict(tree=repr(tree), visits=repr(visits)))

  def expect(x, prefix=()):
    if not is_map(x):
      return ('mapped', prefix)
    return {k: expect(v, prefix + (k,)) for k, v in x.items()}

  ctx.check(same(out, expect(tree)), 'dict.path_aware_map_structure', lambda: dict(tree=repr(tree), got=repr(out)))


# ---------------------------------------------------------------------------------------------
# NNX State


def make_state_tree(shape, rng, counter, depth=0):
  """Nested dict with str keys or (whole level) int keys, VariableState / array leaves. No empty dicts."""
  from flax import nnx
  import jax.numpy as jnp
  if shape == ():
    counter[0] += 1
    k = counter[0]
    r = rng.random()
    if r < 0.45:
      return nnx.VariableState(type=nnx.Param, value=jnp.asarray(float(k)))
    if r < 0.75:
      return nnx.VariableState(type=nnx.BatchStat, value=jnp.full((2,), float(k)), tag='t%d' % (k % 2))
    return jnp.asarray(k)
  r0 = rng.random()
  if r0 < 0.3:
    ks = rng.sample([0, 1, 2, 10, 3], len(shape)) if len(shape) <= 5 else list(range(len(shape)))
  elif r0 < 0.42 and len(shape) <= 5:
    # genuine STRING keys that look like integers (dict attributes keyed '0', '1', ...): they are not list indices
    ks = rng.sample(['0', '1', '10', '1_0', '007'], len(shape))
  else:
    ks = rng.sample(['a', 'b', 'c', 'l10', 'l2', 'B', '_x', 'zz'], len(shape))
  return {k: make_state_tree(c, rng, counter, depth + 1) for k, c in zip(ks, shape)}


def leaf_eq(a, b):
  if a is b:
    return True
  if type(a) is not type(b):
    return False
  if hasattr(a, 'type') and hasattr(a, 'get_metadata'):
    return a.type is b.type and a.get_metadata() == b.get_metadata() and np.array_equal(a.value, b.value)
  return np.array_equal(a, b)


def state_paths(tree, prefix=()):
  if not is_map(tree):
    return [(prefix, tree)]
  out = []
  for k, v in tree.items():
    out += state_paths(v, prefix + (k,))
  return out


def flat_of(state):
  from flax.nnx import statelib
  return list(statelib.to_flat_state(state))


def check_flat_equals(ctx, mech, state, want, extra=None):
  """state (real State) must contain exactly the (path -> leaf) pairs in `want` (dict path->leaf)."""
  got = flat_of(state)
  ok = [p for p, _ in got] == sorted(want) and all(leaf_eq(v, want[p]) for p, v in got)
  ctx.check(ok, mech, lambda: dict(want=sorted(map(repr, want)), got=[repr(p) for p, _ in got], extra=extra))
  return ok


def check_state_apis(ctx, tree, rng):
  from flax import nnx
  from flax.nnx import statelib
  import jax

  paths = state_paths(tree)
  want_all = {p: v for p, v in paths}
  state = nnx.State(tree)
  flat = statelib.to_flat_state(state)
  ctx.op('to_flat_state')
  sp = sorted(want_all)
  ctx.check(list(flat.paths) == sp and all(v is want_all[p] for p, v in flat) and len(flat.leaves) == len(sp),
            'state.to_flat', lambda: dict(want=sp, got=list(flat.paths)))
  back = statelib.from_flat_state(flat)
  ctx.op('from_flat_state')
  ctx.check(same_state(back, tree), 'state.flat_roundtrip', lambda: dict(tree=repr(tree)[:400], got=repr(back)[:400]))
  back2 = flat.to_nested_state()
  ctx.check(same_state(back2, tree), 'state.flat_roundtrip', lambda: dict(api='to_nested_state'))
  back3 = statelib.from_flat_state({p: v for p, v in flat})
  ctx.check(same_state(back3, tree), 'state.flat_roundtrip', lambda: dict(api='from mapping'))

  # pure dict
  pure = statelib.to_pure_dict(state)
  ctx.op('to_pure_dict')
  pl = state_paths(pure)
  ok = sorted(p for p, _ in pl) == sp and all(np.array_equal(v, getattr(want_all[p], 'value', want_all[p])) for p, v in pl)
  ctx.check(ok, 'state.pure_dict', lambda: dict(want=sp, got=sorted(p for p, _ in pl)))
  # replace_by_pure_dict with perturbed values and stringified int keys
  import jax.numpy as jnp

  def perturbed(x, strkeys):
    if is_map(x):
      return {(str(k) if strkeys else k): perturbed(v, strkeys) for k, v in x.items()}
    return jnp.asarray(x) + 1000

  for strkeys in (False, True):
    st2 = nnx.State(jax.tree.map(lambda x: x, tree))  # fresh containers, same leaves (VariableState is a pytree)
    statelib.replace_by_pure_dict(st2, perturbed(pure, strkeys))
    ctx.op('replace_by_pure_dict')
    got = flat_of(st2)
    ok = [p for p, _ in got] == sp
    for p, v in got:
      w = want_all[p]
      if hasattr(w, 'type') and hasattr(w, 'get_metadata'):
        ok = ok and v.type is w.type and v.get_metadata() == w.get_metadata() and np.array_equal(v.value, w.value + 1000)
      else:
        ok = ok and np.array_equal(v, w + 1000)
    ctx.check(ok, 'state.replace_by_pure_dict', lambda: dict(strkeys=strkeys, tree=repr(tree)[:300]))
  # originals untouched by replace (it was applied to a copy)
  ctx.check(all(v is want_all[p] for p, v in statelib.to_flat_state(state)), 'state.input_mutated', None)

  # pytree round trip of State and FlatState
  leaves, treedef = jax.tree_util.tree_flatten(state)
  rt = jax.tree_util.tree_unflatten(treedef, leaves)
  ctx.check(isinstance(rt, nnx.State) and same_state(rt, tree, by_value=True), 'state.pytree_roundtrip', None)
  fl, ftd = jax.tree_util.tree_flatten(flat)
  frt = jax.tree_util.tree_unflatten(ftd, fl)
  ctx.check(isinstance(frt, statelib.FlatState) and list(frt.paths) == sp, 'state.flat_pytree_roundtrip', None)

  # set laws over sub-states
  subsets = [sp, [], sp[::2], sp[1::2], sp[: max(1, len(sp) // 2)], rng.sample(sp, max(1, len(sp) // 2)), sp[-1:]]
  subs = []
  for si, ss in enumerate(subsets):
    variant = si % 2
    d = {}
    ss = list(ss)
    if si % 3 == 2:
      rng.shuffle(ss)  # a State is a mapping: its insertion order must never matter to the set laws
    elif si % 3 == 1:
      ss = ss[::-1]
    for p in ss:
      v = want_all[p]
      if variant and hasattr(v, 'replace'):
        v = v.replace(v.value + 50)  # overlapping paths with different values: "later wins" is observable
      d[p] = v
    subs.append((d, statelib.from_flat_state(d) if d else nnx.State({})))
  for (da, sa), (db, sb) in itertools.product(subs, repeat=2):
    want_merge = dict(da)
    want_merge.update(db)
    for api, fn in (('merge_state', lambda: statelib.merge_state(sa, sb)), ('or', lambda: sa | sb)):
      m = fn()
      ctx.op('State.' + api)
      check_flat_equals(ctx, 'state.merge', m, want_merge, extra=api)
    want_diff = {p: v for p, v in da.items() if p not in db}
    for api, fn in (('diff', lambda: statelib.diff(sa, sb)), ('sub', lambda: _quiet(lambda: sa - sb))):
      ctx.op('State.' + api)
      try:
        dres = fn()
      except Exception as e:  # noqa: BLE001
        ctx.check(False, 'state.diff:raises', dict(api=api, error=repr(e), a=sorted(map(repr, da)), b=sorted(map(repr, db))))
        continue
      check_flat_equals(ctx, 'state.diff', dres, want_diff, extra=api)
    # operands untouched
    ctx.check(dict(flat_of(sa)).keys() == da.keys() and dict(flat_of(sb)).keys() == db.keys(), 'state.input_mutated', None)
  # 3-way merge, later wins
  (d0, s0), (d1, s1), (d2, s2) = subs[2], subs[3], subs[5]
  w = dict(d0); w.update(d1); w.update(d2)
  check_flat_equals(ctx, 'state.merge', statelib.merge_state(s0, s1, s2), w, extra='3-way')

  # split is a partition whose merge is the identity; filter is a subset
  def Not(f):
    n = nnx.Not(f)
    object.__setattr__(n, '_vf_inner', f) if hasattr(n, '__dataclass_fields__') else setattr(n, '_vf_inner', f)
    return n

  filt_sets = [(nnx.Param, ...), (nnx.BatchStat, nnx.Param, ...), ('t0', nnx.PathContains('a'), ...),
               (Not(nnx.Param), ...), (nnx.PathContains(0), nnx.PathContains('b'), ...), (...,),
               (Not(nnx.PathContains('a')), ...), (Not('t0'), ...), (nnx.Param, Not('t0'), ...),
               (Not(nnx.PathContains('b')), nnx.BatchStat, ...), ('t1', nnx.Param, ...), (Not('t1'), Not(nnx.Param), ...)]

  def ref_match(f, path, v):
    # independent reading of the filter forms used above
    if f is ...:
      return True
    if isinstance(f, str):
      return hasattr(v, 'get_metadata') and v.get_metadata().get('tag') == f
    if isinstance(f, type):
      return hasattr(v, 'type') and issubclass(v.type, f)
    if isinstance(f, nnx.PathContains):
      return f.key in path
    if isinstance(f, nnx.Not):
      return not ref_match(f._vf_inner, path, v)
    raise ValueError(f)

  for fs in filt_sets:
    parts = statelib.split_state(state, *fs)
    parts = parts if isinstance(parts, tuple) else (parts,)
    ctx.op('split_state')
    allp = [p for s in parts for p, _ in flat_of(s)]
    ctx.check(sorted(allp) == sp and len(set(allp)) == len(allp), 'state.split_partition', lambda: dict(filters=repr(fs)))
    # ... by FIRST match
    want_groups = [[] for _ in fs]
    for pth in sp:
      for gi, f in enumerate(fs):
        if ref_match(f, pth, want_all[pth]):
          want_groups[gi].append(pth)
          break
    got_groups = [sorted(p for p, _ in flat_of(s_)) for s_ in parts]
    ctx.check(got_groups == [sorted(g) for g in want_groups], 'state.split_first_match',
              lambda: dict(filters=repr(fs), want=[g[:6] for g in want_groups], got=[g[:6] for g in got_groups]))
    for order in (parts, parts[::-1]):
      check_flat_equals(ctx, 'state.merge_of_split', statelib.merge_state(*order), want_all, extra=repr(fs))
    sub = statelib.filter_state(state, *fs[:-1]) if len(fs) > 1 else statelib.filter_state(state, fs[0])
    sub = sub if isinstance(sub, tuple) else (sub,)
    ctx.op('filter_state')
    for s_real, s_split in zip(sub, parts):
      ctx.check([p for p, _ in flat_of(s_real)] == [p for p, _ in flat_of(s_split)], 'state.filter_subset', lambda: dict(filters=repr(fs)))


def _quiet(fn):
  import warnings
  with warnings.catch_warnings():
    warnings.simplefilter('ignore')
    return fn()


def same_state(state, tree, by_value=False):
  got = state_paths(state.raw_mapping if hasattr(state, 'raw_mapping') else state)
  want = state_paths(tree)
  if sorted(p for p, _ in got) != sorted(p for p, _ in want):
    return False
  w = dict(want)
  return all((leaf_eq(v, w[p]) if by_value else v is w[p]) for p, v in got)


def install_flatstate_hook(ctx):
  """Invariant at a hook: every FlatState constructed while the workload runs has strictly increasing keys."""
  from flax.nnx import statelib
  FS = statelib.FlatState
  orig_init = FS.__init__
  orig_fskv = FS.from_sorted_keys_values

  def verify(fs, how):
    ctx.event('flatstate_constructed')
    keys = fs._keys
    ok = len(keys) == len(fs._values)
    try:
      ok = ok and all(keys[i] < keys[i + 1] for i in range(len(keys) - 1))
    except TypeError:
      ok = False
    if not ok:
      ctx.violation('flatstate.unsorted', dict(how=how, keys=repr(keys)[:500]))

  def __init__(self, items, /, *, sort):
    orig_init(self, items, sort=sort)
    verify(self, 'init(sort=%s)' % sort)

  def from_sorted_keys_values(keys, values, /):
    fs = orig_fskv(keys, values)
    verify(fs, 'from_sorted_keys_values')
    return fs

  FS.__init__ = __init__
  FS.from_sorted_keys_values = staticmethod(from_sorted_keys_values)


def real_graph_states(ctx):
  """States obtained from nnx.state of real modules go through the same laws."""
  from flax import nnx
  import jax.numpy as jnp

  class M(nnx.Module):
    def __init__(self, rngs):
      self.lin = nnx.Linear(2, 3, rngs=rngs)
      self.bn = nnx.BatchNorm(3, rngs=rngs)
      self.l10 = nnx.Linear(3, 1, rngs=rngs)
      self.l2 = nnx.Linear(3, 1, rngs=rngs)
      self.blocks = [nnx.Linear(1, 1, rngs=rngs) for _ in range(11)]
      self.shared = self.lin
      self.arr = jnp.ones(2)

  m = M(nnx.Rngs(0))
  return [('real-graph', nnx.state(m).raw_mapping)]


def run_plain_leaves(ctx, i):
  """States whose leaves are not arrays / VariableStates but ordinary Python values that happen to have a `.replace` or `.value`
  attribute of their own (str, bytes, a struct dataclass, an Enum member, a namedtuple): the pure-dict round trip is lossless for
  them as well."""
  import collections
  import enum
  import jax.numpy as jnp
  from flax import nnx, struct
  from flax.nnx import statelib

  @struct.dataclass
  class Cfg:
    lr: float = 0.1

  class Mode(enum.Enum):
    TRAIN = 'train'
  Pt = collections.namedtuple('Pt', ['x', 'value'])
  leaf = [('str', 'hello'), ('bytes', b'ab'), ('struct_dataclass', Cfg(0.3)), ('enum', Mode.TRAIN), ('namedtuple', Pt(1, 2)), ('int', 7)][i % 6]
  desc = dict(leaf_kind=leaf[0])
  with ctx.case('state.plain_leaves', i, desc, nontrivial=True):
    st = nnx.State({'a': leaf[1], 'sub': {'w': nnx.VariableState(type=nnx.Param, value=jnp.asarray(2.0)), 'k': leaf[1]}})
    try:
      pure = statelib.to_pure_dict(st)
      statelib.replace_by_pure_dict(st, pure)
      flat = dict(statelib.to_flat_state(st))
      ok = flat[('a',)] == leaf[1] and flat[('sub', 'k')] == leaf[1] and isinstance(flat[('sub', 'w')], nnx.VariableState) and float(flat[('sub', 'w')].value) == 2.0
      ctx.check(ok, 'state.pure_dict_roundtrip:plain_leaf', lambda: dict(case=desc, got=repr(flat)[:300]))
    except Exception as e:  # noqa: BLE001
      ctx.check(False, 'state.pure_dict_roundtrip:plain_leaf', dict(case=desc, error=repr(e)[:300]))
    ctx.op('to_pure_dict / replace_by_pure_dict (plain Python leaves)')


def run(ctx):
  for i in ctx.indices(6, 'state.plain_leaves'):
    run_plain_leaves(ctx, i)
  n_max = 6 if ctx.tier == 'quick' else 8
  labelings = 6 if ctx.tier == 'quick' else 12
  install_flatstate_hook(ctx)

  cases = []
  for n in range(1, n_max + 1):
    for sh in shapes(n):
      if sh == ():
        continue
      for lab in range(labelings):
        cases.append((n, sh, lab))
  for i, (n, sh, lab) in ctx.items(cases, 'dict'):
    rng = ctx.rng('dict', i)
    frozen_p = [0.0, 0.4, 1.0, 0.2][lab % 4]
    rng.random()
    tree = label(sh, rng, frozen_p, [0])
    if not is_map(tree):
      tree = {'a': tree}
    has_dot = any('.' in k for p, _, _ in ref_leaves(tree) for k in p)
    with ctx.case('dict', i, dict(nodes=n, shape=sh, labeling=lab, tree=repr(norm(tree))[:300]), nontrivial=n >= 2):
      check_dict_apis(ctx, tree, has_dot)
  ctx.exhaustive['dict.shapes<=%d' % n_max] = True

  scases = [(n, sh, lab) for n in range(2, n_max + 1) for sh in shapes(n) for lab in range(max(1, labelings // 2))]
  for i, (n, sh, lab) in ctx.items(scases, 'state'):
    rng = ctx.rng('state', i)
    tree = make_state_tree(sh, rng, [0])
    with ctx.case('state', i, dict(nodes=n, shape=sh, labeling=lab, paths=[repr(p) for p, _ in state_paths(tree)][:12]), nontrivial=True):
      check_state_apis(ctx, tree, rng)
  # a - b for two INDEPENDENT states: their structures may disagree (a leaf in one where the other has a sub-state); the law is
  # stated on paths: a - b keeps exactly the leaf paths of a that are not leaf paths of b
  from flax import nnx
  from flax.nnx import statelib
  pool = [make_state_tree(sh, ctx.rng('state.pair.tree', k), [0]) for k, (n, sh, lab) in enumerate(scases[:: max(1, len(scases) // 24)])]
  pairs = [(a, b) for a in range(len(pool)) for b in range(len(pool)) if a != b]
  for i, (ia, ib) in ctx.items(pairs, 'state.pair'):
    ta, tb = pool[ia], pool[ib]
    if not (is_map(ta) and is_map(tb)):
      continue
    pa, pb = dict(state_paths(ta)), dict(state_paths(tb))
    # same key kind on every level is required for flattening (int and str keys cannot be sorted together)
    kinds = {type(k) for p in list(pa) + list(pb) for k in p[:1]}
    if len(kinds) > 1:
      continue
    disagree = any(q[:len(p)] == p and len(q) > len(p) for p in pa for q in pb) or any(q[:len(p)] == p and len(q) > len(p) for p in pb for q in pa)
    with ctx.case('state.pair', i, dict(a=[repr(p) for p in pa][:8], b=[repr(p) for p in pb][:8], structures_disagree=disagree), nontrivial=True):
      sa, sb = nnx.State(ta), nnx.State(tb)
      want = {p: v for p, v in pa.items() if p not in pb}
      for api, fn in (('diff', lambda: statelib.diff(sa, sb)), ('sub', lambda: _quiet(lambda: sa - sb))):
        ctx.op('State.' + api)
        try:
          got = fn()
        except TypeError as e:
          ctx.event('note.state.pair:unsortable_keys')   # mixed key kinds deeper down
          break
        check_flat_equals(ctx, 'state.diff:independent_states', got, want, extra=api)
  for i, (name, tree) in ctx.items(real_graph_states(ctx), 'state.real'):
    with ctx.case('state.real', i, name):
      check_state_apis(ctx, _plain(tree), ctx.rng('real'))


def _plain(x):
  if is_map(x):
    return {k: _plain(v) for k, v in x.items()}
  return x
