"""C14 — filters form a Boolean algebra; grouping by filters is a first-match partition.

Monitor shape: semantic membership oracle (independent 10-line evaluator) run against the real
flax.core.scope filter functions and the real flax.nnx filterlib / split functions, bounded-exhaustively."""
import itertools

import numpy as np

LEVEL = 'exploration'
LEVEL_TEXT = ('Bounded-exhaustive runtime check: every Linen filter form up to nesting depth 2 (quick) / 3 (thorough), all '
              'ordered pairs x 3 operators x 4 names, all filter lists up to length 3, and NNX filter expressions up to the '
              'same depth (plus list/tuple members nested inside Any/All/Not) through all eight split/filter entry points, each compared with an independent membership oracle. '
              'Filters are finite/co-finite sets, so small scope is decisive for the algebra; exploration is the honest level.'
              ' Round f: nnx.pop on a model with tied Variables, nnx.variables among the partition APIs.'
              ' Round g: a type filter naming the class of the leaf object (nnx.VariableState), misplaced catch-all filters in nnx.pop.')
LEVEL_NOTE = 'Trusts the 10-line reference evaluators in vf/props/c14.py and the JAX compat aliases (vf/compat.py).'
TECHNIQUE = 'runtime monitoring: semantic membership oracle over bounded-exhaustive filter forms on the real filter functions'
RULE = ('Linen: every filter form of nesting depth <= D (D=2 quick, 4 thorough) over names {a,b,ab} (ab contains the others as substrings) '
        '(True, False, str, (), tuple/list/set/frozenset of <=2 names, DenyList(.)), all ordered pairs x '
        '{union,intersect,subtract} x 4 names (3 mentioned + 1 fresh), is_filter_empty of every form and every '
        'op result, all filter lists of length <=3 for group_collections. NNX: filter expressions of depth <= D '
        'over 4 Variable types (one a subclass), 2 tags, path predicates, Any/All/Not/.../True/False/None/nested '
        'sequences, evaluated on every leaf of a fixed 12-Variable graph; all filter tuples of length<=3 (sampled '
        'at depth 3) through nnx.split / nnx.state / split_state / filter_state / State.split / State.filter / '
        'FlatState.split / FlatState.filter. distinct = distinct (form) descriptors; non-trivial = at least one '
        'operand is not a bare bool.')
ASSUMPTIONS = [
    'filters are finite or co-finite name sets, so behaviour on the 3 mentioned names + 1 fresh name decides them',
    'vf.compat JAX aliases (get_opaque_trace_state) are faithful',
]
PLAN = {'quick': dict(workers=2, timeout_s=900), 'thorough': dict(workers=12, timeout_s=3000)}
MIN_EVENTS = {'quick': {'oracle:linen.op': 2000, 'oracle:linen.empty': 50, 'oracle:linen.group': 300,
                        'oracle:nnx.pred': 2000, 'oracle:nnx.partition': 500},
              'thorough': {'oracle:linen.op': 15000, 'oracle:nnx.partition': 2000}}

# 'ab' contains 'a' and 'b' as substrings, 'zz_fresh' is mentioned by no filter: membership is exact string equality
NAMES = ['a', 'b', 'ab', 'zz_fresh']


# ------------------------------------------------------------------------------------------
# Linen filters: syntax trees -> (real filter object, reference membership)


def linen_forms(depth, wide=False):
  """Yields descriptor tuples; descriptors are turned into real objects by build()."""
  base = [('bool', True), ('bool', False), ('str', 'a'), ('str', 'b'), ('tuple', ()), ('tuple', ('a',)),
          ('tuple', ('a', 'b')), ('list', ('b', 'ab')), ('set', ('a',)), ('frozenset', ('a', 'ab')), ('list', ()), ('str', 'ab')]
  if wide:
    base += [('tuple', ('b', 'ab')), ('list', ('a', 'b', 'ab')), ('frozenset', ()), ('set', ('b', 'ab')), ('tuple', ('ab',))]
  forms = list(base)
  prev = list(base)
  for _ in range(depth):
    cur = [('deny', f) for f in prev]
    forms += cur
    prev = cur
  return forms


def build(desc):
  from flax.core.scope import DenyList
  kind, arg = desc
  if kind == 'bool':
    return arg
  if kind == 'str':
    return arg
  if kind == 'tuple':
    return tuple(arg)
  if kind == 'list':
    return list(arg)
  if kind == 'set':
    return set(arg)
  if kind == 'frozenset':
    return frozenset(arg)
  if kind == 'deny':
    return DenyList(build(arg))
  raise ValueError(desc)


def ref_in(desc, name):
  kind, arg = desc
  if kind == 'bool':
    return arg
  if kind == 'str':
    return name == arg
  if kind in ('tuple', 'list', 'set', 'frozenset'):
    return name in arg
  if kind == 'deny':
    return not ref_in(arg, name)
  raise ValueError(desc)


def real_members(scope, f):
  return tuple(bool(scope.in_filter(f, n)) for n in NAMES)


def run_linen(ctx, depth):
  from flax.core import scope
  forms = linen_forms(depth, wide=ctx.tier == 'thorough')
  ops = [('union', scope.union_filters, lambda x, y: x or y),
         ('intersect', scope.intersect_filters, lambda x, y: x and y),
         ('subtract', scope.subtract_filters, lambda x, y: x and not y)]

  # membership + emptiness of every form
  for i, d in ctx.items(forms, 'linen.form'):
    with ctx.case('linen.form', i, d, nontrivial=d[0] != 'bool'):
      f = build(d)
      want = tuple(ref_in(d, n) for n in NAMES)
      got = real_members(scope, f)
      ctx.check(got == want, 'linen.in_filter', lambda: dict(want=want, got=got))
      ctx.op('in_filter')
      emp = scope.is_filter_empty(f)
      ctx.op('is_filter_empty')
      ctx.check(bool(emp) == (not any(want)), _empty_mech(d),
                lambda: dict(filter=repr(f), is_filter_empty=emp, members=dict(zip(NAMES, want))))
      ctx.event('oracle:linen.empty', 0)

  pairs = list(itertools.product(range(len(forms)), repeat=2))
  for i, (ia, ib) in ctx.items(pairs, 'linen.pair'):
    da, db = forms[ia], forms[ib]
    with ctx.case('linen.pair', i, (da, db), nontrivial=not (da[0] == 'bool' and db[0] == 'bool')):
      for opname, fn, sem in ops:
        a, b = build(da), build(db)
        r = fn(a, b)
        ctx.op(opname + '_filters')
        # filters are values: an operation reads its operands, a caller that keeps using the same filter object (a `mutable` set
        # passed to every apply) must find it denoting what it denoted before
        ma, mb = real_members(scope, a), real_members(scope, b)
        ctx.check(ma == tuple(ref_in(da, n) for n in NAMES) and mb == tuple(ref_in(db, n) for n in NAMES), 'linen.op:operand_changed',
                  lambda: dict(op=opname, a_built_as=repr(build(da)), a_now=repr(a), b_built_as=repr(build(db)), b_now=repr(b)))
        want = tuple(sem(ref_in(da, n), ref_in(db, n)) for n in NAMES)
        got = real_members(scope, r)
        ctx.check(got == want, 'linen.op:' + opname,
                  lambda: dict(op=opname, a=repr(a), b=repr(b), result=repr(r), want=want, got=got))
        emp = scope.is_filter_empty(r)
        ctx.check(bool(emp) == (not any(want)), 'linen.empty_of_result' if not _is_nested_deny_obj(r) else 'linen.empty:nested_denylist',
                  lambda: dict(op=opname, a=repr(a), b=repr(b), result=repr(r), is_filter_empty=emp, members=want))
  ctx.exhaustive['linen.pairs_depth_%d' % depth] = True

  # group_collections: first-match partition, over all filter lists of length <= 3 (reduced form set for len 3)
  small = [f for f in forms if _depth(f) <= min(depth, 2)]
  lists = [()] + [(x,) for x in forms] + list(itertools.product(small, repeat=2))
  red = [f for f in small if f in (('bool', True), ('bool', False), ('str', 'a'), ('tuple', ('a', 'b')), ('list', ('b', 'ab')), ('str', 'ab'),
                                   ('deny', ('str', 'a')), ('deny', ('str', 'ab')), ('deny', ('tuple', ('a', 'b'))), ('deny', ('deny', ('str', 'b'))),
                                   ('deny', ('bool', False)), ('set', ('a',)))]
  lists += list(itertools.product(red, repeat=3))
  col_sets = [NAMES, ['a', 'zz_fresh'], ['ab', 'b'], []]
  for i, fl in ctx.items(lists, 'linen.group'):
    with ctx.case('linen.group', i, fl, nontrivial=len(fl) >= 1):
      cols = col_sets[i % len(col_sets)]
      xs = {c: {'v': np.full((2,), k, np.float32), 'sub': {'w': np.array(k)}} for k, c in enumerate(cols)}
      groups = scope.group_collections(xs, [build(d) for d in fl])
      ctx.op('group_collections')
      ok = len(groups) == len(fl)
      placed = {}
      for gi, g in enumerate(groups):
        for c in g:
          placed.setdefault(c, []).append(gi)
      for c in cols:
        first = next((k for k, d in enumerate(fl) if ref_in(d, c)), None)
        if first is None:
          ok = ok and c not in placed
        else:
          ok = ok and placed.get(c) == [first]
          if ok:
            g = groups[first][c]
            ok = ok and np.array_equal(g['v'], xs[c]['v']) and np.array_equal(g['sub']['w'], xs[c]['sub']['w'])
      ok = ok and set(placed) <= set(cols)
      ctx.check(ok, 'linen.group', lambda: dict(filters=[repr(build(d)) for d in fl], cols=cols,
                                                 groups=[sorted(g) for g in groups]))


def _depth(d):
  return 1 + _depth(d[1]) if d[0] == 'deny' else 0


def _is_nested_deny(d):
  return d[0] == 'deny' and d[1][0] == 'deny'


def _is_nested_deny_obj(f):
  from flax.core.scope import DenyList
  return isinstance(f, DenyList) and isinstance(f.deny, DenyList)


def _empty_mech(d):
  return 'linen.empty:nested_denylist' if _is_nested_deny(d) else 'linen.empty'


# ------------------------------------------------------------------------------------------
# NNX filters


def nnx_universe():
  """A real module graph whose Variables span types x tags x path keys."""
  from flax import nnx
  import jax.numpy as jnp

  class MyParam(nnx.Param):
    pass

  class Other(nnx.Variable):
    pass

  class Node(nnx.Module):
    pass

  types = dict(Param=nnx.Param, MyParam=MyParam, BatchStat=nnx.BatchStat, Other=Other)
  root = Node()
  root.k1 = Node()
  root.k2 = Node()
  root.k1.k2 = Node()
  root.items = [Node(), Node()]
  holders = [('root', root), ('k1', root.k1), ('k2', root.k2), ('k1k2', root.k1.k2), ('i0', root.items[0]), ('i1', root.items[1])]
  n = 0
  for hi, (hname, h) in enumerate(holders):
    for tname, t in list(types.items())[hi % 2::2] if hi >= 2 else types.items():
      tag = [None, 't1', 't2'][n % 3]
      kw = {} if tag is None else dict(tag=tag)
      setattr(h, 'v%d_%s' % (n, tname.lower()), t(jnp.asarray(float(n)), **kw))
      n += 1
  root.k2.k1 = nnx.Param(jnp.asarray(100.0), tag='t1')
  root.raw = jnp.asarray(7.0)  # raw array attribute: a state leaf without type/tag
  return nnx, root, types


def nnx_atoms(types):
  atoms = [('type', 'Param'), ('type', 'MyParam'), ('type', 'BatchStat'), ('type', 'Other'), ('type', 'Variable'),
           ('tag', 't1'), ('tag', 't2'), ('pc', 'k1'), ('pc', 'k2'), ('pc', 1), ('bool', True), ('bool', False),
           ('ellipsis',), ('none',), ('lambda_even',), ('pathin', (('k1', 'k2', 'v9_batchstat'), ('raw',)))]
  return atoms


def nnx_exprs(types, depth, rng=None, cap=None):
  atoms = nnx_atoms(types)
  lvl = list(atoms)
  allx = list(atoms)
  for _ in range(depth - 1):
    nxt = []
    for x in lvl:
      nxt.append(('not', x))
    pool = lvl if len(lvl) <= 20 else (rng.sample(lvl, 20) if rng else lvl[:20])
    for x, y in itertools.product(pool, atoms[:10]):
      nxt.append(('any', (x, y)))
      nxt.append(('all', (x, y)))
      nxt.append(('seq', (x, y)))
    nxt.append(('seq', ()))
    nxt.append(('any', ()))
    nxt.append(('all', ()))
    for x in pool[:8]:
      nxt.append(('lst', (x, ('tag', 't1'), ('type', 'BatchStat'))))
    if cap and len(nxt) > cap:
      nxt = rng.sample(nxt, cap)
    allx += nxt
    lvl = nxt
  # sequences nested inside combinators: a list/tuple member of All/Any/Not is itself a disjunction (seeded change C14-b)
  small = [('type', 'Param'), ('type', 'BatchStat'), ('tag', 't1'), ('tag', 't2'), ('pc', 'k1'), ('type', 'Other')]
  for x in atoms[:10]:
    for a, b in itertools.combinations(small, 2):
      for kind in ('seq', 'lst'):
        allx.append(('all', (x, (kind, (a, b)))))
        allx.append(('all', ((kind, (a, b)), x)))
        allx.append(('any', (x, (kind, (a, b)))))
    allx.append(('all', (x, ('seq', ()))))
    allx.append(('all', (x, ('lst', ()))))
    allx.append(('any', (x, ('seq', ()))))
    allx.append(('all', (x, ('seq', (x,)))))
    allx.append(('not', ('seq', (x, ('tag', 't1')))))
    allx.append(('seq', (('seq', (x, ('tag', 't2'))), ('type', 'Other'))))
    allx.append(('all', (('seq', (x, ('tag', 't1'))), ('seq', (('type', 'Param'), ('pc', 'k2'))))))
    allx.append(('all', (x, ('not', ('seq', (('tag', 't1'), ('pc', 'k2')))))))
    allx.append(('all', (x, ('seq', (('all', (('type', 'Param'), ('tag', 't1'))), ('type', 'BatchStat'))))))
  return allx


def nnx_build(nnx, types, d):
  k = d[0]
  if k == 'type':
    return nnx.Variable if d[1] == 'Variable' else types[d[1]]
  if k == 'tag':
    return d[1]
  if k == 'pc':
    return nnx.PathContains(d[1])
  if k == 'bool':
    return d[1]
  if k == 'ellipsis':
    return ...
  if k == 'none':
    return None
  if k == 'lambda_even':
    return lambda path, x: len(path) % 2 == 0
  if k == 'pathin':
    from flax.nnx import filterlib
    return filterlib.PathIn(*d[1])
  if k == 'not':
    return nnx.Not(nnx_build(nnx, types, d[1]))
  if k == 'any':
    return nnx.Any(*[nnx_build(nnx, types, x) for x in d[1]])
  if k == 'all':
    return nnx.All(*[nnx_build(nnx, types, x) for x in d[1]])
  if k == 'seq':
    return tuple(nnx_build(nnx, types, x) for x in d[1])
  if k == 'lst':
    return [nnx_build(nnx, types, x) for x in d[1]]
  raise ValueError(d)


def nnx_ref(nnx, types, d, path, vtype, tag):
  """vtype: the Variable class of the leaf or None for a raw array; tag: metadata tag or None."""
  k = d[0]
  if k == 'type':
    t = nnx.Variable if d[1] == 'Variable' else types[d[1]]
    return vtype is not None and issubclass(vtype, t)
  if k == 'tag':
    return tag is not None and tag == d[1]
  if k == 'pc':
    return d[1] in path
  if k == 'bool':
    return d[1]
  if k == 'ellipsis':
    return True
  if k == 'none':
    return False
  if k == 'lambda_even':
    return len(path) % 2 == 0
  if k == 'pathin':
    return tuple(path) in d[1]
  if k == 'not':
    return not nnx_ref(nnx, types, d[1], path, vtype, tag)
  if k in ('any', 'seq', 'lst'):
    return any(nnx_ref(nnx, types, x, path, vtype, tag) for x in d[1])
  if k == 'all':
    return all(nnx_ref(nnx, types, x, path, vtype, tag) for x in d[1])
  raise ValueError(d)


def _is_everything(d):
  return d in (('ellipsis',), ('bool', True))


def run_nnx(ctx, depth):
  from flax.nnx import filterlib, statelib
  nnx, root, types = nnx_universe()
  rng = ctx.rng('nnx.exprs')
  exprs = nnx_exprs(types, depth, rng, cap=None if depth <= 2 else 1500)

  # leaves as (path, Variable, VariableState) - evaluated in both representations
  leaves = []
  for path, v in nnx.iter_graph(root):
    if isinstance(v, nnx.Variable):
      leaves.append((path, v, v.to_state(), type(v), v.get_metadata().get('tag') if hasattr(v, 'get_metadata') else getattr(v, 'tag', None)))
  full = nnx.state(root)
  flat = statelib.to_flat_state(full)
  raw_paths = [p for p, x in flat if not isinstance(x, nnx.VariableState)]
  for p in raw_paths:
    leaves.append((p, None, dict(flat)[p], None, None))
  assert len(leaves) >= 12, len(leaves)
  ctx.extra['nnx_leaves'] = len(leaves)

  # a type filter names any class: nnx.VariableState itself separates the variable states of a State from its raw array leaves
  with ctx.case('nnx.pred', 900000, dict(filter='nnx.VariableState'), nontrivial=True):
    pred_vs = filterlib.to_predicate(nnx.VariableState)
    ctx.op('to_predicate')
    for path, var, vstate, vtype, tag in leaves:
      is_vs = isinstance(vstate, nnx.VariableState)
      ctx.check(bool(pred_vs(path, vstate)) == is_vs, 'nnx.pred:class_of_the_leaf_object', lambda: dict(path=path, leaf=repr(vstate)[:100], want=is_vs))
    var_paths = sorted((tuple(p) for p, _, vs, _, _ in leaves if isinstance(vs, nnx.VariableState)), key=repr)
    for name, call in (('nnx.state', lambda: nnx.state(root, nnx.VariableState)), ('nnx.split', lambda: nnx.split(root, nnx.VariableState, ...)[1]),
                       ('split_state', lambda: nnx.split_state(full, nnx.VariableState, ...)[0]), ('Not', lambda: nnx.split_state(full, nnx.Not(nnx.VariableState), ...)[1])):
      got_paths = sorted((tuple(p) for p, _ in statelib.to_flat_state(call())), key=repr)
      ctx.op(name)
      ctx.check(got_paths == var_paths, 'nnx.partition:class_of_the_leaf_object', lambda: dict(api=name, got=len(got_paths), want=len(var_paths)))

  for i, d in ctx.items(exprs, 'nnx.pred'):
    with ctx.case('nnx.pred', i, d, nontrivial=d[0] not in ('bool', 'none', 'ellipsis')):
      pred = filterlib.to_predicate(nnx_build(nnx, types, d))
      ctx.op('to_predicate')
      for path, var, vstate, vtype, tag in leaves:
        want = nnx_ref(nnx, types, d, path, vtype, tag)
        got_s = bool(pred(path, vstate))
        ctx.check(got_s == want, 'nnx.pred', lambda: dict(path=path, leaf=repr(vstate)[:120], want=want, got=got_s, on='VariableState'))
        if var is not None:
          got_v = bool(pred(path, var))
          ctx.check(got_v == want, 'nnx.pred', lambda: dict(path=path, leaf=repr(var)[:120], want=want, got=got_v, on='Variable'))

  # partitions
  base = [e for e in exprs if e[0] in ('type', 'tag', 'pc', 'bool', 'ellipsis', 'none', 'pathin', 'lambda_even')]
  tuples = [(x,) for x in exprs[:400]] + list(itertools.product(base, repeat=2))
  r2 = ctx.rng('nnx.tuples')
  n3 = 600 if ctx.tier == 'quick' else 6000
  for _ in range(n3):
    k = r2.choice([2, 3, 3, 4])
    tuples.append(tuple(r2.choice(exprs) for _ in range(k - 1)) + (r2.choice([('ellipsis',), ('bool', True), r2.choice(exprs)]),))
  flat_all = list(flat)
  all_paths = [p for p, _ in flat_all]
  meta = {tuple(p): (vt, tg) for p, _, _, vt, tg in leaves}

  def expected_groups(ft):
    groups = [[] for _ in ft] + [[]]
    for p in all_paths:
      vt, tg = meta[tuple(p)]
      for k, d in enumerate(ft):
        if nnx_ref(nnx, types, d, p, vt, tg):
          groups[k].append(tuple(p))
          break
      else:
        groups[-1].append(tuple(p))
    return groups

  def paths_of(state):
    if isinstance(state, statelib.FlatState):
      return [tuple(p) for p, _ in state]
    return [tuple(p) for p, _ in statelib.to_flat_state(state)]

  def as_tuple(x):
    return x if isinstance(x, tuple) else (x,)

  for i, ft in ctx.items(tuples, 'nnx.split'):
    with ctx.case('nnx.split', i, ft, nontrivial=len(ft) >= 2 or ft[0][0] not in ('bool', 'none', 'ellipsis')):
      filters = [nnx_build(nnx, types, d) for d in ft]
      exp = expected_groups(ft)
      # '...'/True before a non-everything filter must be rejected
      bad_order = any(_is_everything(d) and not all(_is_everything(e) for e in ft[k + 1:]) for k, d in enumerate(ft[:-1]))
      exhaustive = not exp[-1]
      apis = [
          ('split_state', lambda: as_tuple(nnx.split_state(full, *filters)), True),
          ('State.split', lambda: as_tuple(full.split(*filters)), True),
          ('nnx.split', lambda: nnx.split(root, *filters)[1:], True),
          ('FlatState.split', lambda: as_tuple(flat.split(*filters)), True),
          ('filter_state', lambda: as_tuple(nnx.filter_state(full, *filters)), False),
          ('State.filter', lambda: as_tuple(full.filter(*filters)), False),
          ('nnx.state', lambda: as_tuple(nnx.state(root, *filters)), False),
          ('FlatState.filter', lambda: as_tuple(flat.filter(*filters)), False),
          # "similar to state but returns the Variable objects": one group per filter, Variables only
          ('nnx.variables', lambda: as_tuple(nnx.variables(root, *filters)), False),
      ]
      for name, call, must_exhaust in apis:
        ctx.op(name)
        try:
          got = call()
          raised = None
        except ValueError as e:
          got, raised = None, e
        if bad_order:
          ctx.check(raised is not None, 'nnx.ellipsis_not_last_accepted', lambda: dict(api=name))
          continue
        if must_exhaust and not exhaustive:
          ctx.check(raised is not None, 'nnx.nonexhaustive_accepted', lambda: dict(api=name, remainder=exp[-1][:4]))
          continue
        if not ctx.check(raised is None, 'nnx.partition_raised', lambda: dict(api=name, error=repr(raised))):
          continue
        gp = [sorted(paths_of(s), key=repr) for s in got]
        want = [sorted(g, key=repr) for g in exp[:-1]]
        if name == 'nnx.variables':
          rawset = {tuple(p) for p in raw_paths}
          want = [[p for p in g if p not in rawset] for g in want]
          ctx.check(len(gp) == len(want), 'nnx.partition:number_of_groups', lambda: dict(api=name, filters=len(ft), groups=len(gp)))
          gp = gp[:len(want)]
        ctx.check(gp == want, 'nnx.partition', lambda: dict(api=name, want=want, got=gp))
        # values travel with their paths
        ok = True
        src = {tuple(p): v for p, v in flat_all}
        for s in got:
          for p, v in (s if isinstance(s, statelib.FlatState) else statelib.to_flat_state(s)):
            if name == 'nnx.variables':
              ok = ok and isinstance(v, nnx.Variable) and _same_leaf(v.to_state(), src[tuple(p)])
              continue
            ok = ok and _same_leaf(v, src[tuple(p)])
        ctx.check(ok, 'nnx.partition_value_moved', lambda: dict(api=name))


def _same_leaf(a, b):
  if a is b:
    return True
  if type(a) is not type(b):
    return False
  if hasattr(a, 'type'):
    return a.type is b.type and a.get_metadata() == b.get_metadata() and np.array_equal(a.value, b.value)
  return np.array_equal(a, b)


def run_nnx_pop(ctx):
  """nnx.pop is the in-place split: the popped states are the first-match partition of the selected Variables, and what is NOT
  selected stays in the node - under every path it was reachable by (tied weights: one Variable referenced from two places)."""
  import jax.numpy as jnp
  from flax import nnx

  class Node(nnx.Module):
    pass

  class Cache(nnx.Variable):
    pass

  def build():
    m = Node()
    m.enc, m.dec = Node(), Node()
    m.enc.emb = nnx.Param(jnp.asarray([1.0, 2.0]), tag='t1')
    m.dec.emb = m.enc.emb                       # tied
    m.enc.w = nnx.Param(jnp.asarray(3.0))
    m.dec.stat = nnx.BatchStat(jnp.asarray(4.0), tag='t2')
    m.dec.stat2 = m.dec.stat                    # tied, same holder
    m.enc.im = nnx.Intermediate(jnp.asarray(5.0))
    m.cache = Cache(jnp.asarray(6.0), tag='t1')
    m.blocks = [Node(), Node()]
    m.blocks[0].k = m.enc.w                     # tied through a list element
    m.blocks[1].c = Cache(jnp.asarray(7.0))
    return m

  def refs(m):
    """every (path, variable) reference, shared ones under each of their paths"""
    out = {}
    def walk(node, path):
      for k, v in (enumerate(node) if isinstance(node, list) else sorted(vars(node).items())):
        if isinstance(k, str) and k.startswith('_'):
          continue
        if isinstance(v, nnx.Variable):
          out[path + (k,)] = v
        elif isinstance(v, (Node, list)):
          walk(v, path + (k,))
    walk(m, ())
    return out

  atoms = {'Param': nnx.Param, 'BatchStat': nnx.BatchStat, 'Intermediate': nnx.Intermediate, 'Cache': Cache, 't1': 't1', 't2': 't2',
           'notParam': nnx.Not(nnx.Param), 'anyIC': nnx.Any(nnx.Intermediate, Cache), 'none': None}
  def matches(name, v):
    if name in ('t1', 't2'):
      return v.get_metadata().get('tag') == name
    if name == 'notParam':
      return not isinstance(v, nnx.Param)
    if name == 'anyIC':
      return isinstance(v, (nnx.Intermediate, Cache))
    if name == 'none':
      return False
    return isinstance(v, atoms[name])
  # a catch-all before another filter is rejected by every split API - pop included - and nothing is removed
  for j, bad in enumerate([(..., nnx.Intermediate), (True, 't1'), (..., nnx.Param, Cache)]):
    with ctx.case('nnx.pop', 800000 + j, dict(filters=repr(bad)), nontrivial=True):
      m = build()
      before = refs(m)
      try:
        nnx.pop(m, *bad)
        raised = False
      except ValueError:
        raised = True
      ctx.op('nnx.pop')
      ctx.check(raised, 'nnx.ellipsis_not_last_accepted:pop', lambda: dict(filters=repr(bad), left=len(refs(m)), had=len(before)))
      ctx.check(set(refs(m)) == set(before), 'nnx.pop:unselected_reference_lost_or_selected_left', lambda: dict(filters=repr(bad)))
  names = list(atoms)
  tuples = [(a,) for a in names] + [(a, b) for a in names for b in names if a != b]
  for i, ft in ctx.items(tuples, 'nnx.pop'):
    with ctx.case('nnx.pop', i, ft, nontrivial=True):
      m = build()
      before = refs(m)
      ids = {p: id(v) for p, v in before.items()}
      got = nnx.pop(m, *[atoms[a] for a in ft])
      ctx.op('nnx.pop')
      got = got if isinstance(got, tuple) else (got,)
      after = refs(m)
      # expected: variable v goes to the first filter that matches it
      group_of = {}
      for p, v in before.items():
        for k, a in enumerate(ft):
          if matches(a, v):
            group_of[id(v)] = k
            break
      want_left = {p for p, v in before.items() if id(v) not in group_of}
      ctx.check(set(after) == want_left and all(id(after[p]) == ids[p] for p in after), 'nnx.pop:unselected_reference_lost_or_selected_left',
                lambda: dict(filters=ft, lost=sorted(map(repr, want_left - set(after))), left_behind=sorted(map(repr, set(after) - want_left))))
      for k in range(len(ft)):
        popped_ids = set()
        flat = nnx.to_flat_state(got[k])
        want_n = len({id(v) for v in before.values() if group_of.get(id(v)) == k})
        ctx.check(len(list(flat)) == want_n, 'nnx.pop:popped_group', lambda: dict(filters=ft, group=k, got=len(list(flat)), want=want_n))


def run(ctx):
  run_nnx_pop(ctx)
  run_linen(ctx, 2 if ctx.tier == 'quick' else 4)
  run_nnx(ctx, 2 if ctx.tier == 'quick' else 3)
