"""Schedule perturbation for the threaded corners (DESIGN §1, C20/C11).

* TracedCondition / ThreadShim: drop-in for a module's `threading` global; records which threads are blocked in
  Condition.wait (updated under the condition's own lock), which gives a timing-independent deadlock criterion.
* LineInjector: sys.monitoring LINE events restricted to the code objects of named modules; at chosen
  (role, function, line, occurrence) points the running thread yields until every other participant is blocked.
"""
import sys
import threading
import time
import types

_real_threading = threading


class TracedCondition(_real_threading.Condition):
  def __init__(self, lock=None):
    super().__init__(lock)
    self.waiting = set()       # thread idents currently inside wait(); mutated with the lock held
    self.pending = 0           # wake-ups handed out by notify() whose waiter has not re-acquired the lock yet (lock held)
    self.wait_calls = 0
    self.notify_calls = 0
    REGISTRY.conditions.append(self)

  def wait(self, timeout=None):
    me = _real_threading.get_ident()
    self.waiting.add(me)
    self.wait_calls += 1
    got = True
    try:
      got = super().wait(timeout)
      return got
    finally:
      # the lock is held again here
      self.waiting.discard(me)
      if got and self.pending > 0:
        self.pending -= 1

  def notify(self, n=1):
    self.notify_calls += 1
    # a notified waiter stays in `waiting` until it gets the lock back: count it, so that an observer holding the lock
    # can tell "everybody waits and nobody has been woken" (deadlock) from "somebody was woken but has not run yet"
    self.pending += min(n, len(self._waiters))
    return super().notify(n)

  def owned_by_me(self):
    return self._is_owned()


class TracedThread(_real_threading.Thread):
  def __init__(self, *a, **k):
    super().__init__(*a, **k)
    REGISTRY.threads.append(self)


class _Registry:
  def __init__(self):
    self.reset()

  def reset(self):
    self.conditions = []
    self.threads = []


REGISTRY = _Registry()


def make_threading_shim():
  """A module-like object that forwards to `threading` but hands out traced Condition/Thread."""
  shim = types.ModuleType('threading_shim')
  shim.__dict__.update({k: v for k, v in vars(_real_threading).items() if not k.startswith('__')})
  shim.Condition = TracedCondition
  shim.Thread = TracedThread
  return shim


def code_objects_of(module):
  """All code objects defined in `module` (functions, methods, nested functions/lambdas)."""
  seen, out = set(), []

  def walk(co):
    if id(co) in seen:
      return
    seen.add(id(co))
    out.append(co)
    for c in co.co_consts:
      if isinstance(c, types.CodeType):
        walk(c)

  fn = getattr(module, '__file__', None)
  for obj in vars(module).values():
    stack = [obj]
    if isinstance(obj, type):
      stack = list(vars(obj).values())
    for o in stack:
      o = getattr(o, '__func__', o)
      co = getattr(o, '__code__', None)
      if isinstance(co, types.CodeType) and co.co_filename == fn:
        walk(co)
  return out


class LineInjector:
  """callback(role, func, line, occurrence) -> bool decides whether the thread yields at this point."""
  TOOL_ID = 3

  def __init__(self, modules, role_of, decide, do_yield):
    self.codes = [c for m in modules for c in code_objects_of(m)]
    self.role_of = role_of
    self.decide = decide
    self.do_yield = do_yield
    self.lock = _real_threading.Lock()
    self.occ = {}
    self.points = []  # ordered log of (role, func, line, occurrence)
    self.injected = 0

  def _cb(self, code, line):
    role = self.role_of()
    if role is None:
      return
    key = (role, code.co_name, line)
    with self.lock:
      n = self.occ.get(key, 0) + 1
      self.occ[key] = n
      self.points.append(key + (n,))
    if self.decide(role, code.co_name, line, n):
      self.injected += 1
      self.do_yield(role)

  def __enter__(self):
    mon = sys.monitoring
    mon.use_tool_id(self.TOOL_ID, 'vf-sched')
    mon.register_callback(self.TOOL_ID, mon.events.LINE, self._cb)
    for co in self.codes:
      mon.set_local_events(self.TOOL_ID, co, mon.events.LINE)
    return self

  def __exit__(self, *exc):
    mon = sys.monitoring
    for co in self.codes:
      mon.set_local_events(self.TOOL_ID, co, 0)
    mon.register_callback(self.TOOL_ID, mon.events.LINE, None)
    mon.free_tool_id(self.TOOL_ID)
    return False


def yield_until_others_blocked(participants, me, cond_of, max_s=0.03, step=0.0004):
  """Release the GIL until every other live participant is inside Condition.wait (or dead), bounded by max_s.
  Decides nothing: only shapes the schedule."""
  t_end = time.monotonic() + max_s
  while True:
    time.sleep(step)
    cond = cond_of()
    blocked = True
    for t in participants():
      if t is me or not t.is_alive():
        continue
      if cond is None or t.ident not in cond.waiting:
        blocked = False
        break
    if blocked or time.monotonic() > t_end:
      return
