"""JAX compatibility layer (DESIGN §0.2).  Installed on the *jax* module, never on flax, before flax
is imported.  Every alias counts its uses; an unsupported use raises CompatUnsupported, which the
engine turns into an *inconclusive* case, never a violation."""
import functools
import sys

CALLS = {'get_opaque_trace_state': 0, 'jit.abstracted_axes': 0, 'checkpoint.concrete': 0,
         'device_put_sharded': 0, 'device_put_replicated': 0}


class CompatUnsupported(Exception):
  pass


def install():
  if 'flax' in sys.modules:
    raise RuntimeError('vf.compat.install() must run before flax is imported')
  import jax
  import jax.core
  import jax.extend.core as jex_core
  import numpy as np

  if getattr(jax, '_vf_compat_installed', False):
    return
  jax._vf_compat_installed = True

  if not hasattr(jax.core, 'get_opaque_trace_state'):
    _gots = jex_core.get_opaque_trace_state

    def get_opaque_trace_state(*a, **k):
      CALLS['get_opaque_trace_state'] += 1
      return _gots(*a, **k)

    jax.core.get_opaque_trace_state = get_opaque_trace_state

  _jit = jax.jit

  @functools.wraps(_jit)
  def jit(*a, **k):
    if 'abstracted_axes' in k:
      if k['abstracted_axes'] is not None:
        raise CompatUnsupported('jax.jit(abstracted_axes != None)')
      CALLS['jit.abstracted_axes'] += 1
      k.pop('abstracted_axes')
    return _jit(*a, **k)

  jax.jit = jit

  _ckpt = jax.checkpoint

  @functools.wraps(_ckpt)
  def checkpoint(*a, **k):
    if 'concrete' in k:
      if k['concrete']:
        raise CompatUnsupported('jax.checkpoint(concrete=True)')
      CALLS['checkpoint.concrete'] += 1
      k.pop('concrete')
    return _ckpt(*a, **k)

  jax.checkpoint = checkpoint
  jax.remat = checkpoint

  if not hasattr(jax, 'device_put_sharded'):
    from jax.sharding import Mesh, NamedSharding, PartitionSpec as P

    def device_put_sharded(shards, devices):
      CALLS['device_put_sharded'] += 1
      mesh = Mesh(np.array(devices), ('_vf_d',))
      sh = NamedSharding(mesh, P('_vf_d'))
      return jax.tree_util.tree_map(
          lambda *xs: jax.device_put(np.stack([np.asarray(x) for x in xs]), sh), *shards)

    jax.device_put_sharded = device_put_sharded

  if not hasattr(jax, 'device_put_replicated'):
    from jax.sharding import Mesh, NamedSharding, PartitionSpec as P

    def device_put_replicated(tree, devices):
      CALLS['device_put_replicated'] += 1
      mesh = Mesh(np.array(devices), ('_vf_d',))
      sh = NamedSharding(mesh, P('_vf_d'))
      n = len(devices)
      return jax.tree_util.tree_map(
          lambda x: jax.device_put(np.broadcast_to(np.asarray(x), (n,) + np.shape(x)), sh), tree)

    jax.device_put_replicated = device_put_replicated
