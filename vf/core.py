"""Engine shared by every property check: verdict discipline, sharding over worker subprocesses,
evidence writer, replay files, known-findings matcher (DESIGN §1)."""
from __future__ import annotations

import collections
import contextlib
import hashlib
import importlib
import json
import os
import random
import subprocess
import sys
import tempfile
import time
import traceback

ROOT = os.path.dirname(os.path.dirname(os.path.abspath(__file__)))
REPO = os.environ.get('VERIF_REPO', '/repo')
# runs against a scratch copy of the repository (self-validation with deliberate breaks) must never
# overwrite the evidence of /repo itself
_SCRATCH = os.path.realpath(REPO) != '/repo'
EVIDENCE_DIR = os.environ.get('VERIF_EVIDENCE_DIR') or (
    os.path.join(tempfile.gettempdir(), 'vf-scratch-evidence') if _SCRATCH else os.path.join(ROOT, 'evidence'))
REPLAY_DIR = os.path.join(tempfile.gettempdir(), 'vf-scratch-replays') if _SCRATCH else os.path.join(ROOT, 'replays')
KNOWN_FINDINGS = os.path.join(ROOT, 'known_findings.json')

# numeric comparison classes (DESIGN §1 "Numerics"); constants, never tuned per case
TOL_SAME_PROGRAM = dict(rtol=1e-5, atol=1e-6)
TOL_FORMULA = dict(rtol=2e-4, atol=2e-5)

MAX_SAMPLES = 6
MAX_VIOLATIONS_KEPT = 40


def stable_hash(obj) -> str:
  return hashlib.sha1(repr(obj).encode()).hexdigest()[:16]


def jsonable(x, depth=0):
  """Best-effort conversion of a case descriptor to something json.dump accepts."""
  if depth > 12:
    return repr(x)
  if x is None or isinstance(x, (bool, int, float, str)):
    if isinstance(x, float) and (x != x or x in (float('inf'), float('-inf'))):
      return repr(x)
    return x
  if isinstance(x, (list, tuple, set, frozenset)):
    return [jsonable(v, depth + 1) for v in x]
  if isinstance(x, dict):
    return {str(k): jsonable(v, depth + 1) for k, v in x.items()}
  return repr(x)


class CaseSkip(Exception):
  """Raised by a workload to abandon a case as out-of-domain (counted, never a verdict)."""


class Ctx:
  """Per-process collector.  A property module's run(ctx) drives workloads and reports here."""

  def __init__(self, prop, tier, seed, shard=0, nshards=1, replay=None):
    self.prop = prop
    self.tier = tier
    self.seed = seed
    self.shard = shard
    self.nshards = nshards
    self.replay = replay  # None or dict(stream=..., index=...)
    self.evaluations = 0
    self.distinct = set()
    self.samples = []
    self.sample_streams = set()
    self.monitor_events = collections.Counter()
    self.ops_covered = collections.Counter()
    self.violations = []
    self.violation_count = 0
    self.inconclusive = []
    self.skipped = collections.Counter()
    self.exhaustive = {}
    self.extra = {}
    self.t0 = time.time()
    self._cur = None
    self.part = os.environ.get('VERIF_PART') or None
    self.compat_extra = collections.Counter()

  # ---- randomness -------------------------------------------------------------------------
  def rng(self, *key) -> random.Random:
    h = hashlib.sha1(repr((self.seed, self.prop) + key).encode()).digest()
    return random.Random(int.from_bytes(h[:8], 'big'))

  # ---- iteration --------------------------------------------------------------------------
  def indices(self, n, stream='main'):
    """Case indices of `stream` handled by this shard (or the single replayed index)."""
    if self.replay is not None:
      if self.replay.get('stream') == stream:
        yield int(self.replay['index'])
      return
    for i in range(n):
      if i % self.nshards == self.shard:
        yield i

  def items(self, seq, stream='main'):
    """Shard an explicit finite enumeration (list) deterministically."""
    seq = list(seq)
    for i in self.indices(len(seq), stream):
      if i < len(seq):
        yield i, seq[i]

  # ---- recording --------------------------------------------------------------------------
  def event(self, name, n=1):
    self.monitor_events[name] += n

  def op(self, name, n=1):
    self.ops_covered[name] += n

  @contextlib.contextmanager
  def case(self, stream, index, desc, nontrivial=True, allow=()):
    """One executed case.  Exceptions escaping the body: CompatUnsupported -> inconclusive,
    CaseSkip -> skipped, anything else -> violation 'unexpected_exception' (the generators emit
    in-domain cases only, so the real code raising is a refutation unless `allow`ed)."""
    from vf import compat
    self.evaluations += 1
    self._cur = dict(stream=stream, index=index, desc=desc)
    if nontrivial:
      self.distinct.add(stable_hash(desc))
    if len(self.samples) < MAX_SAMPLES and (stream not in self.sample_streams or len(self.samples) < 3):
      self.sample_streams.add(stream)
      self.samples.append(dict(stream=stream, index=index, case=jsonable(desc)))
    try:
      yield self
    except CaseSkip as e:
      self.skipped[str(e) or 'skip'] += 1
    except compat.CompatUnsupported as e:
      self.inconclusive.append(dict(stream=stream, index=index, reason='compat: %s' % e))
    except allow:
      self.event('allowed_exception')
    except Exception as e:  # noqa: BLE001 - the real code raised on an in-domain case
      tb = traceback.format_exc()
      self.violation('unexpected_exception:%s' % type(e).__name__,
                     detail=dict(error=repr(e)[:500], traceback=tb[-3000:]))
    finally:
      self._cur = None

  def violation(self, mechanism, detail=None, desc=None, stream=None, index=None):
    cur = self._cur or {}
    rec = dict(property=self.prop, mechanism=mechanism, seed=self.seed, tier=self.tier,
               stream=stream if stream is not None else cur.get('stream'),
               index=index if index is not None else cur.get('index'),
               case=jsonable(desc if desc is not None else cur.get('desc')),
               detail=jsonable(detail))
    self.violation_count += 1
    if len(self.violations) < MAX_VIOLATIONS_KEPT:
      self.violations.append(rec)
    elif not any(v['mechanism'] == mechanism for v in self.violations):
      self.violations.append(rec)

  def check(self, cond, mechanism, detail=None):
    """Oracle assertion: records an oracle evaluation and a violation when cond is false."""
    self.event('oracle:' + mechanism.split(':')[0])
    if not cond:
      self.violation(mechanism, detail() if callable(detail) else detail)
    return bool(cond)

  def note_inconclusive(self, reason):
    cur = self._cur or {}
    self.inconclusive.append(dict(stream=cur.get('stream'), index=cur.get('index'), reason=reason))

  def run_part(self, part, env, timeout=900):
    """Run `part` of this property in a child worker with extra environment (e.g. XLA device count) and absorb
    its results.  The module's run(ctx) dispatches on ctx.part."""
    fd, out = tempfile.mkstemp(prefix='vf-part-', suffix='.json')
    os.close(fd)
    env_extra = dict(env)
    env_extra['VERIF_PART'] = part
    replay_path = None
    if self.replay is not None:
      fd2, replay_path = tempfile.mkstemp(prefix='vf-replay-', suffix='.json')
      with os.fdopen(fd2, 'w') as f:
        json.dump(dict(self.replay, seed=self.seed, tier=self.tier), f)
    p = _spawn(self.prop, self.tier, self.seed, 0, 1, out, replay_path, env_extra)
    try:
      stdout, _ = p.communicate(timeout=timeout)
    except subprocess.TimeoutExpired:
      p.kill()
      p.communicate()
      self.inconclusive.append(dict(stream='part:' + part, index=None, reason='watchdog %ss' % timeout))
      return False
    finally:
      if replay_path:
        os.unlink(replay_path)
    try:
      if p.returncode != 0:
        raise RuntimeError('exit %s: %s' % (p.returncode, stdout.decode(errors='replace')[-1500:]))
      with open(out) as f:
        r = json.load(f)
    except Exception as e:  # noqa: BLE001
      self.inconclusive.append(dict(stream='part:' + part, index=None, reason='child failed: %r' % (e,)))
      return False
    finally:
      if os.path.exists(out):
        os.unlink(out)
    if r.get('status') != 'ok':
      self.inconclusive.append(dict(stream='part:' + part, index=None, reason=str(r.get('extra', {}).get('harness_error'))[-1500:]))
    self.evaluations += r['evaluations']
    self.distinct.update(r['distinct'])
    for smp in r['samples']:
      if len(self.samples) < MAX_SAMPLES:
        self.samples.append(smp)
    self.monitor_events.update(r['monitor_events'])
    self.ops_covered.update(r['ops_covered'])
    self.violations.extend(r['violations'])
    self.violation_count += r['violation_count']
    self.inconclusive.extend(r['inconclusive'])
    self.skipped.update(r['skipped'])
    self.compat_extra.update(r['compat_calls'])
    for k, v in r['exhaustive'].items():
      self.exhaustive[k] = self.exhaustive.get(k, True) and v
    for k, v in r['extra'].items():
      if isinstance(v, (int, float)) and not isinstance(v, bool):
        self.extra[k] = self.extra.get(k, 0) + v
      else:
        self.extra.setdefault(k, v)
    return True

  def dump(self):
    from vf import compat
    cc = collections.Counter(compat.CALLS)
    cc.update(self.compat_extra)
    return dict(evaluations=self.evaluations, distinct=sorted(self.distinct), samples=self.samples,
                monitor_events=dict(self.monitor_events), ops_covered=dict(self.ops_covered),
                violations=self.violations, violation_count=self.violation_count,
                inconclusive=self.inconclusive[:50], inconclusive_count=len(self.inconclusive),
                skipped=dict(self.skipped), exhaustive=self.exhaustive, extra=jsonable(self.extra),
                compat_calls=dict(cc), wall_s=time.time() - self.t0)


# ---------------------------------------------------------------------------------------------
# known findings


def load_known_findings():
  if not os.path.exists(KNOWN_FINDINGS):
    return []
  with open(KNOWN_FINDINGS) as f:
    return json.load(f).get('findings', [])


def classify(prop, violations):
  """Split violations into (unlisted, known) using open findings keyed by mechanism."""
  open_mech = {}
  for f in load_known_findings():
    if f.get('property') == prop and f.get('status') == 'open':
      for m in f.get('mechanisms', [f.get('mechanism')]):
        open_mech[m] = f
  unlisted, known = [], collections.OrderedDict()
  for v in violations:
    f = open_mech.get(v['mechanism'])
    if f is not None:
      known.setdefault(f['id'], dict(finding=f, count=0))['count'] += 1
    else:
      unlisted.append(v)
  return unlisted, known


# ---------------------------------------------------------------------------------------------
# master / worker


def load_prop(prop):
  return importlib.import_module('vf.props.%s' % prop.lower())


def worker_main(prop, tier, seed, shard, nshards, out, replay):
  mod = load_prop(prop)
  ctx = Ctx(prop, tier, seed, shard, nshards, replay)
  status = 'ok'
  try:
    mod.run(ctx)
  except Exception:  # harness failure: inconclusive, never a verdict
    status = 'harness_error'
    ctx.extra['harness_error'] = traceback.format_exc()[-4000:]
  d = ctx.dump()
  d['status'] = status
  with open(out, 'w') as f:
    json.dump(d, f)
  return 0


def _spawn(prop, tier, seed, shard, nshards, out, replay_path, env_extra=None):
  env = dict(os.environ)
  env.setdefault('JAX_PLATFORMS', 'cpu')
  env['PYTHONHASHSEED'] = '0'
  env['PYTHONDONTWRITEBYTECODE'] = '1'
  env['PYTHONPATH'] = os.pathsep.join([REPO, ROOT])
  env['FLAX_VERIF'] = '1'
  env.pop('PYTHONWARNINGS', None)
  if env_extra:
    env.update(env_extra)
  cmd = [sys.executable, '-m', 'vf.main', prop, '--tier', tier, '--seed', str(seed), '--worker',
         '--shard', '%d/%d' % (shard, nshards), '--out', out]
  if replay_path:
    cmd += ['--replay', replay_path]
  return subprocess.Popen(cmd, env=env, cwd=ROOT, stdout=subprocess.PIPE, stderr=subprocess.STDOUT)


def master_main(prop, tier, seed, replay_path=None):
  t0 = time.time()
  mod = load_prop(prop)
  plan = mod.PLAN[tier]
  nshards = 1 if replay_path else int(os.environ.get('VERIF_WORKERS', plan.get('workers', 1)))
  timeout = float(os.environ.get('VERIF_TIMEOUT', plan.get('timeout_s', 1800)))
  tmpdir = tempfile.mkdtemp(prefix='vf-%s-' % prop)
  procs = []
  for s in range(nshards):
    out = os.path.join(tmpdir, 'w%d.json' % s)
    procs.append((s, out, _spawn(prop, tier, seed, s, nshards, out, replay_path, plan.get('env'))))
  results, problems = [], []
  deadline = time.time() + timeout
  for s, out, p in procs:
    try:
      stdout, _ = p.communicate(timeout=max(1.0, deadline - time.time()))
    except subprocess.TimeoutExpired:
      p.kill()
      stdout, _ = p.communicate()
      problems.append('worker %d: watchdog after %.0fs' % (s, timeout))
      continue
    if p.returncode != 0 or not os.path.exists(out):
      problems.append('worker %d: exit %s: %s' % (s, p.returncode, stdout.decode(errors='replace')[-1500:]))
      continue
    with open(out) as f:
      r = json.load(f)
    if r.get('status') != 'ok':
      problems.append('worker %d: %s' % (s, r.get('extra', {}).get('harness_error', '?')))
    results.append(r)
  import shutil
  shutil.rmtree(tmpdir, ignore_errors=True)

  # ---- merge
  evaluations = sum(r['evaluations'] for r in results)
  distinct = set()
  samples, violations = [], []
  monitor, ops, compat_calls, skipped = (collections.Counter() for _ in range(4))
  inconclusive, inconclusive_count, violation_count = [], 0, 0
  exhaustive, extra = {}, {}
  for r in results:
    distinct.update(r['distinct'])
    for smp in r['samples']:
      if len(samples) < MAX_SAMPLES:
        samples.append(smp)
    violations.extend(r['violations'])
    violation_count += r['violation_count']
    monitor.update(r['monitor_events'])
    ops.update(r['ops_covered'])
    compat_calls.update(r['compat_calls'])
    skipped.update(r['skipped'])
    inconclusive.extend(r['inconclusive'])
    inconclusive_count += r['inconclusive_count']
    for k, v in r['exhaustive'].items():
      exhaustive[k] = exhaustive.get(k, True) and v
    for k, v in r['extra'].items():
      if isinstance(v, (int, float)) and not isinstance(v, bool):
        extra[k] = extra.get(k, 0) + v
      else:
        extra.setdefault(k, v)

  unlisted, known = classify(prop, violations)

  # deciding monitors must have fired
  missing = []
  if not replay_path:
    for name, minimum in getattr(mod, 'MIN_EVENTS', {}).get(tier, {}).items():
      if monitor.get(name, 0) + ops.get(name, 0) < minimum:
        missing.append('%s=%d<%d' % (name, monitor.get(name, 0) + ops.get(name, 0), minimum))
    if evaluations == 0:
      missing.append('evaluations=0')
    if len(distinct) < 2:
      missing.append('distinct_nontrivial<2')
    if evaluations and inconclusive_count > max(5, evaluations // 10):
      missing.append('inconclusive_cases=%d' % inconclusive_count)

  # ---- replay files
  os.makedirs(REPLAY_DIR, exist_ok=True)
  lines = []
  per_mech = collections.Counter()
  for v in unlisted:
    per_mech[v['mechanism']] += 1
    if per_mech[v['mechanism']] > 2 or len(lines) >= 12:
      continue
    path = os.path.join(REPLAY_DIR, '%s-%s.json' % (prop, stable_hash((v['mechanism'], v['stream'], v['index'], v['seed'], v['tier']))))
    if any(path in ln for ln in lines):
      continue
    with open(path, 'w') as f:
      json.dump(v, f, indent=1)
    lines.append('VIOLATION property=%s replay=%s mechanism=%s' % (prop, path, v['mechanism']))

  verdict = 'violated' if unlisted else ('inconclusive' if (problems or missing) else 'held')
  wall = time.time() - t0
  if not replay_path:
    ev = dict(
        property_id=prop, tier=tier, seed=int(seed), level=mod.LEVEL,
        coverage=dict(
            evaluations=evaluations, distinct_nontrivial=len(distinct), rule=mod.RULE,
            samples=samples, monitor_events=dict(monitor), ops_covered=dict(ops),
            compat_calls=dict(compat_calls), skipped_cases=dict(skipped),
            inconclusive_cases=inconclusive_count, inconclusive_samples=inconclusive[:5],
            exhaustive=bool(exhaustive) and all(exhaustive.values()), exhaustive_parts=exhaustive,
            known_findings_hit={k: v['count'] for k, v in known.items()},
            violation_mechanisms=sorted({v['mechanism'] for v in unlisted}),
            workers=nshards, verdict=verdict, problems=problems[:5], missing_monitors=missing,
            extra=extra),
        assumptions=list(getattr(mod, 'ASSUMPTIONS', [])),
        wall_s=round(wall, 2), violations=len(unlisted))
    os.makedirs(EVIDENCE_DIR, exist_ok=True)
    with open(os.path.join(EVIDENCE_DIR, '%s.json' % prop), 'w') as f:
      json.dump(ev, f, indent=1, sort_keys=True)
      f.write('\n')

  for k, v in known.items():
    print('KNOWN-FINDING: property=%s %s (%s; hit %d times)' % (prop, v['finding']['what'], k, v['count']))
  print('%s %s tier=%s seed=%s: %d cases, %d distinct non-trivial, %d oracle/monitor events, %d violations (%d unlisted), %d inconclusive cases, %.1fs'
        % (prop, verdict.upper(), tier, seed, evaluations, len(distinct), sum(monitor.values()), violation_count,
           len(unlisted), inconclusive_count, wall))
  for ln in lines[:20]:
    print(ln)
  if unlisted:
    return 1
  if problems or missing:
    for p in problems[:5]:
      print('INCONCLUSIVE property=%s reason=%s' % (prop, p.replace('\n', ' | ')[:1500]))
    for m in missing:
      print('INCONCLUSIVE property=%s reason=monitor-not-reached %s' % (prop, m))
    return 3
  return 0
